import NgVerif.Model.Prim
import NgVerif.Model.Readable
import NgVerif.Model.Stats
import NgVerif.Model.Morton
import NgVerif.Model.Routing
/-
  ngdriver: line protocol. One request per line on stdin (space-separated tokens),
  one reply per line on stdout. Unknown / malformed requests answer `bad-request`.
-/
open NgVerif NgVerif.Proto

def triple (l : List Nat) : Option (Nat × Nat × Nat) :=
  match l with
  | [a, b, c] => some (a, b, c)
  | _ => none

def handle (toks : List String) : String :=
  match toks with
  | ["readable", n] =>
    match parseNat n with
    | some n => Readable.render (Readable.count n) ++ "|" ++ toString (Readable.width (Readable.count n))
    | none => "bad-request"
  | ["readable-old", n] =>
    match parseNat n with
    | some n => Readable.render (Readable.countOld n)
    | none => "bad-request"
  | ["f64round", n] =>
    match parseNat n with
    | some n => toString (Readable.f64round n)
    | none => "bad-request"
  | ["stats-row", size, cs, itemsize, channels, shard] =>
    match (parseList parseNat size).bind triple, (parseList parseNat cs).bind triple,
          parseNat itemsize, parseNat channels with
    | some s, some c, some i, some ch =>
      let sb := if shard == "none" then none else parseNat shard
      let r := Stats.row s c i ch sb
      -- the grid is only enumerated when it is small (the protocol is used with huge sizes too)
      let g := if r.chunks ≤ 100000 then toString (Tiling.grid3 s c).length else "-"
      s!"{r.chunks} {r.dirs} {r.bytes} {g}"
    | _, _, _, _ => "bad-request"
  | ["morton-code", gs, cs] =>
    match parseList parseNat gs, parseList parseInt cs with
    | some g, some c =>
      match Morton.code g c with
      | .ok v => s!"ok {v} {Morton.spec g (c.map Int.toNat)} {Morton.sumBits g} {showNatList (g.map Morton.clog2)}"
      | .error e => s!"err {e}"
    | _, _ => "bad-request"
  | ["getcmc", sizes, chunk, mins] =>
    match parseList parseNat sizes, parseList parseNat chunk, parseList parseInt mins with
    | some s, some c, some m =>
      let gs := (List.zip s c).map fun (a, b) => Morton.gridSize a b
      match Morton.getCmc s c m with
      | .ok v => s!"ok {v} {showNatList gs}"
      | .error e => s!"err {e} {showNatList gs}"
    | _, _, _ => "bad-request"
  | ["route", m, s, p, id] =>
    match parseNat m, parseNat s, parseNat p, parseNat id with
    | some m, some s, some p, some id =>
      let sk := Routing.shardKey m s p id
      s!"{sk} {Routing.minishardKey m p id} {Routing.specShard m s p id} {Routing.specMinishard m p id} {Routing.fileName sk s} {Routing.minishardMask m} {Routing.shardMask m s} {Routing.preshiftMask p}"
    | _, _, _, _ => "bad-request"
  | _ => "bad-request"

partial def loop (h : IO.FS.Stream) (out : IO.FS.Stream) : IO Unit := do
  let line ← h.getLine
  if line.isEmpty then return ()
  let toks := (line.trimAscii.toString.splitOn " ").filter (· ≠ "")
  out.putStrLn (handle toks)
  loop h out

def main : IO Unit := do
  let out ← IO.getStdout
  loop (← IO.getStdin) out
  out.flush
