import NgVerif.Model.Prim
import NgVerif.Model.Readable
import NgVerif.Model.Stats
import NgVerif.Model.Morton
import NgVerif.Model.Routing
import NgVerif.Model.Shard
import NgVerif.Model.CsegDecode
import NgVerif.Model.Raw
import NgVerif.Model.Coords
import NgVerif.Model.Conv
import NgVerif.Model.Down
import NgVerif.Model.Pyramid
import NgVerif.Model.Scales
import NgVerif.Model.FileStore
import NgVerif.Model.Transform
import NgVerif.Model.Mesh
import NgVerif.Model.Slices
import NgVerif.Model.Http
import NgVerif.Model.Convert
import NgVerif.Model.Fault
import NgVerif.Model.Pipeline
import NgVerif.Model.Buffers
import NgVerif.Model.Enc
import NgVerif.Model.Vtk
/-
  ngdriver: line protocol. One request per line on stdin (space-separated tokens),
  one reply per line on stdout. Unknown / malformed requests answer `bad-request`.
-/
open NgVerif NgVerif.Proto

def triple (l : List Nat) : Option (Nat × Nat × Nat) :=
  match l with
  | [a, b, c] => some (a, b, c)
  | _ => none

def parseOp (t : String) : Option (Nat × Bytes) :=
  match t.splitOn ":" with
  | [i, h] => do
    let i ← parseNat i
    let b ← hexToBytes h
    pure (i, b)
  | _ => none

def parseScales (t : String) : Option (List Convert.ScaleInfo) :=
  (t.splitOn ";").mapM fun sc =>
    match sc.splitOn ":" with
    | [key, size, css] => do
      let sz ← (parseList parseNat size) >>= triple
      let cl ← (css.splitOn "/").mapM fun c => (parseList parseNat c) >>= triple
      pure ⟨key, sz, cl⟩
    | _ => none

def showRows (rows : List (Nat × Nat)) : String :=
  showList (fun (a, b) => s!"{a}.{b}") rows

def showState (st : MS.St) : String :=
  let keys := (st.buf.map (·.1)).mergeSort (· ≤ ·)
  s!"{st.appended} {st.lastId} {showNatList keys} {st.data.length} {showRows st.rows}"

/-- run the stores of one minishard; reply per op `state` or `RuntimeError`, then the closed state -/
def msRun (m s p : Nat) (ops : List (Nat × Bytes)) : String :=
  match ops with
  | [] => "empty"
  | (id0, _) :: _ =>
    let masked := Shard.maskedBits m s p id0
    let nxt := Shard.nextId m s p masked
    let rec go (st : MS.St) (ops : List (Nat × Bytes)) (acc : List String) : MS.St × List String :=
      match ops with
      | [] => (st, acc.reverse)
      | (id, b) :: t =>
        match MS.store nxt st id b with
        | none => go st t ("RuntimeError" :: acc)
        | some st' => go st' t (showState st' :: acc)
    let (st, outs) := go MS.St.init ops []
    let fl := MS.flush nxt st.buf.length st
    let closed := MS.closeLoop nxt 1000000 fl
    "|".intercalate outs ++ "|closed " ++ showState closed ++ " " ++ bytesToHex closed.data

/-- like `msRun`, but the flush triggered by the LAST store fails at its append number `okN + 1`
    (`Buffers.flushFail`); then the caller flushes again (the fault is over) and closes -/
def msRunFail (m s p okN : Nat) (ops : List (Nat × Bytes)) : String :=
  match ops, ops.getLast? with
  | (id0, _) :: _, some (idL, bL) =>
    let masked := Shard.maskedBits m s p id0
    let nxt := Shard.nextId m s p masked
    match MS.runAll nxt MS.St.init ops.dropLast with
    | none => "RuntimeError"
    | some st =>
      if idL < nxt st.appended then "RuntimeError"
      else if nxt st.appended = idL then
        let s1 := MS.append st bL idL
        let (sf, _) := Buffers.flushFail nxt s1.buf.length okN s1
        let raised := (MS.get? sf.buf (nxt sf.appended)).isSome
        let fl := MS.flush nxt sf.buf.length sf
        let closed := MS.closeLoop nxt 1000000 fl
        s!"{if raised then "raised" else "ok"} {showState sf}|closed {showState closed} {bytesToHex closed.data}"
      else "not-next"
  | _, _ => "empty"

/-- a history of `OnDiskByteArray.__add__` calls: `hex:ev` with ev = ok | open | w<k> -/
def odbRun (ops : List String) : String :=
  let parsed := ops.mapM fun t => match t.splitOn ":" with
    | [h, e] => do
      let b ← hexToBytes h
      let ev ← (if e == "ok" then some Buffers.Ev.ok else if e == "open" then some Buffers.Ev.failOpen
                else if e.startsWith "w" then (parseNat (e.drop 1).toString).map Buffers.Ev.failWrite else none)
      pure (b, ev)
    | _ => none
  match parsed with
  | some h =>
    let b := Buffers.runAdds Buffers.add ⟨[], 0⟩ h
    s!"{bytesToHex b.file} {b.len}"
  | none => "bad-request"

def vtkRender (ls : List Vtk.Line) : String :=
  "".intercalate (ls.map fun l => " ".intercalate (l.map fun t => match t with
    | .word s => s | .num n => toString n | .flt s => s | .text s => s) ++ "\n")

def hexToString (h : String) : Option String :=
  (hexToBytes h).map fun b => String.ofList (b.map fun c => Char.ofNat c)

def stringToHex (s : String) : String := bytesToHex (s.toList.map fun c => c.toNat)

/-- tokenise a real VTK text file for the recogniser (harness side, not part of the model): the second line
    is the title; otherwise a token of digits is `num`, one that starts like a number is `flt`, else `word` -/
def vtkTokenise (text : String) : List Vtk.Line :=
  let lines := (text.splitOn "\n")
  let lines := if lines.getLast? == some "" then lines.dropLast else lines
  lines.mapIdx fun i l =>
    if i == 1 then [Vtk.Tok.text l] else
    (l.splitOn " ").map fun t =>
      if !t.isEmpty && t.all Char.isDigit then Vtk.Tok.num t.toNat!
      else match t.toList with
        | c :: _ => if (c.isDigit || c == '-' || c == '+' || c == '.') && t != "#" && i ≥ 5 then Vtk.Tok.flt t else Vtk.Tok.word t
        | [] => Vtk.Tok.word t

/-- group the ops of one shard by minishard, run + close each, sort by key, assemble -/
def shardBuild (m s p : Nat) (ops : List (Nat × Bytes)) : String :=
  let keys := ((ops.map fun (id, _) => Routing.minishardKey m p id).eraseDups).mergeSort (· ≤ ·)
  let minis := keys.filterMap fun k =>
    let mine := ops.filter fun (id, _) => Routing.minishardKey m p id == k
    match mine with
    | [] => none
    | (id0, _) :: _ =>
      let nxt := Shard.nextId m s p (Shard.maskedBits m s p id0)
      match MS.runAll nxt MS.St.init mine with
      | none => none
      | some st =>
        let fl := MS.flush nxt st.buf.length st
        let closed := MS.closeLoop nxt 1000000 fl
        some ({ key := k, data := closed.data, rows := closed.rows } : Shard.Mini)
  if minis.length ≠ keys.length then "err RuntimeError" else
  match Shard.assemble m minis with
  | none => "err ShardedIOError"
  | some f => "ok " ++ bytesToHex f

def parseShape (t : String) : Option Cseg.Shape :=
  match parseList parseNat t with
  | some [c, z, y, x] => some ⟨c, z, y, x⟩
  | _ => none

def parseBlk (t : String) : Option Cseg.Blk3 :=
  match parseList parseNat t with
  | some [a, b, c] => some ⟨a, b, c⟩
  | _ => none

def showErr : Cseg.Err → String
  | .format => "format" | .struct => "struct" | .value => "value" | .index => "index"

def parseBox (t : String) : Option Coords.Box :=
  match parseList parseInt t with
  | some [a, b, c, d, e, f] => some ⟨a, b, c, d, e, f⟩
  | _ => none

def parseTriples (t : String) : Option (List (Int × Int × Int)) :=
  (t.splitOn "/").mapM fun x => match parseList parseInt x with
    | some [a, b, c] => some (a, b, c)
    | _ => none

/-- history over the raw codec: ops `w|box|values` and `r|box`, separated by `;` -/
def ioHistory (isz : Nat) (size : Int × Int × Int) (css : List (Int × Int × Int)) (ops : List String) : String :=
  let valid : Coords.Key → Bool := fun k => Coords.validate size css k.2
  let dec : Bytes → Option (List Nat) := fun b =>
    match Raw.decode isz (b.length / isz) b with | .ok a => some a | .error _ => none
  let rec go (s : Coords.Store) (ops : List String) (acc : List String) : List String :=
    match ops with
    | [] => acc.reverse
    | op :: t =>
      match op.splitOn "|" with
      | ["w", b, v] =>
        match parseBox b, parseList parseNat v with
        | some b, some v =>
          -- the history semantics the theorems are stated over (`runWrites`): a rejected write leaves the store as it was
          go (Coords.runWrites valid (Raw.encode isz) s [(("k", b), v)]) t
            ((match Coords.write valid (Raw.encode isz) s ("k", b) v with | .ok _ => "ok" | .error _ => "offgrid") :: acc)
        | _, _ => go s t ("bad" :: acc)
      | ["r", b] =>
        match parseBox b with
        | some b =>
          match Coords.read valid dec s ("k", b) with
          | .ok a => go s t (showNatList a :: acc)
          | .error .offGrid => go s t ("offgrid" :: acc)
          | .error .missing => go s t ("missing" :: acc)
          | .error .format => go s t ("format" :: acc)
        | none => go s t ("bad" :: acc)
      | _ => go s t ("bad" :: acc)
  ";".intercalate (go Coords.Store.empty ops [])

/-- a downscaler of the model on a C-ordered (z, y, x) list; `none` entries (uint64 wrap, finding F6) print as "wrap" -/
def downList (method : String) (t : Conv.Ty) (e : Down.Ext) (fz fy fx : Nat) (o : Option Int) (d : List Int) :
    Down.Ext × List (Option Int) :=
  let arr := d.toArray
  let f : Down.Arr3 := fun z y x => arr[(z * e.y + y) * e.x + x]!
  let oe := Down.outExt e fz fy fx
  let coords := (List.range oe.z).flatMap fun z => (List.range oe.y).flatMap fun y =>
    (List.range oe.x).map fun x => (z, y, x)
  (oe, if method == "stride" then coords.map fun (z, y, x) => some (Down.stride f fz fy fx z y x)
    else if method == "majority" then coords.map fun (z, y, x) => some (Down.majority f e fz fy fx z y x)
    else coords.map fun (z, y, x) => Down.average t f e o fz fy fx z y x)

def parseTy (t : String) : Option Conv.Ty :=
  match t with
  | "uint8" => some .u8 | "uint16" => some .u16 | "uint32" => some .u32 | "uint64" => some .u64
  | "int8" => some .i8 | "int16" => some .i16 | "int32" => some .i32 | "int64" => some .i64
  | "float32" => some .f32 | "float64" => some .f64
  | _ => none

def parseSix (t : String) : Option (Nat × Nat × Nat × Nat × Nat × Nat) :=
  match parseList parseNat t with
  | some [a, b, c, d, e, f] => some (a, b, c, d, e, f)
  | _ => none

def showFsErr : FileStore.Err → String
  | .refused => "refused" | .access => "access"

/-- history of accessor operations on one dataset directory -/
def fsHistory (cfg : FileStore.Cfg) (ops : List String) : String :=
  let rec go (fs : FileStore.FS) (ops : List String) (acc : List String) : FileStore.FS × List String :=
    match ops with
    | [] => (fs, acc.reverse)
    | op :: t =>
      match op.splitOn "|" with
      | ["sf", name, h, mime, ow] =>
        match hexToBytes h with
        | some b =>
          match FileStore.storeFile cfg fs name b mime (ow == "1") with
          | .ok fs' => go fs' t ("ok" :: acc)
          | .error e => go fs t (showFsErr e :: acc)
        | none => go fs t ("bad" :: acc)
      | ["ff", name] =>
        match FileStore.fetchFile fs name with
        | .ok (.bytes b) => go fs t (bytesToHex b :: acc)
        | .ok (.stream b) => go fs t (("gz:" ++ bytesToHex b) :: acc)
        | .error e => go fs t (showFsErr e :: acc)
      | ["fe", name] =>
        match FileStore.fileExists fs name with
        | .ok b => go fs t ((if b then "1" else "0") :: acc)
        | .error e => go fs t (showFsErr e :: acc)
      | ["sc", key, c, h, mime, ow] =>
        match parseSix c, hexToBytes h with
        | some c, some b =>
          match FileStore.storeChunk cfg fs key c b mime (ow == "1") with
          | .ok fs' => go fs' t ("ok" :: acc)
          | .error e => go fs t (showFsErr e :: acc)
        | _, _ => go fs t ("bad" :: acc)
      | ["fc", key, c] =>
        match parseSix c with
        | some c =>
          match FileStore.fetchChunk fs key c with
          | .ok (.bytes b) => go fs t (bytesToHex b :: acc)
          | .ok (.stream b) => go fs t (("gz:" ++ bytesToHex b) :: acc)
          | .error e => go fs t (showFsErr e :: acc)
        | none => go fs t ("bad" :: acc)
      | _ => go fs t ("bad" :: acc)
  let (fs, outs) := go [] ops []
  let paths := (fs.map fun e => "/".intercalate e.1).mergeSort (fun a b => a < b || a == b)
  ";".intercalate outs ++ "#" ++ ";".intercalate paths

def parseQ (t : String) : Option Transform.Q :=
  match t.splitOn "/" with
  | [n, d] => do
    let n ← parseInt n
    let d ← parseNat d
    pure ⟨n, d⟩
  | _ => none

def handle (toks : List String) : String :=
  match toks with
  | ["readable", n] =>
    match parseNat n with
    | some n => Readable.render (Readable.count n) ++ "|" ++ toString (Readable.width (Readable.count n))
    | none => "bad-request"
  | ["readable-old", n] =>
    match parseNat n with
    | some n => Readable.render (Readable.countOld n)
    | none => "bad-request"
  | ["f64round", n] =>
    match parseNat n with
    | some n => toString (Readable.f64round n)
    | none => "bad-request"
  | ["stats-row", size, cs, itemsize, channels, shard] =>
    match (parseList parseNat size).bind triple, (parseList parseNat cs).bind triple,
          parseNat itemsize, parseNat channels with
    | some s, some c, some i, some ch =>
      let sb := if shard == "none" then none else parseNat shard
      let r := Stats.row s c i ch sb
      -- the grid is only enumerated when it is small (the protocol is used with huge sizes too)
      let g := if r.chunks ≤ 100000 then toString (Tiling.grid3 s c).length else "-"
      s!"{r.chunks} {r.dirs} {r.bytes} {g}"
    | _, _, _, _ => "bad-request"
  | ["morton-code", gs, cs] =>
    match parseList parseNat gs, parseList parseInt cs with
    | some g, some c =>
      match Morton.code g c with
      | .ok v => s!"ok {v} {Morton.spec g (c.map Int.toNat)} {Morton.sumBits g} {showNatList (g.map Morton.clog2)}"
      | .error e => s!"err {e}"
    | _, _ => "bad-request"
  | ["getcmc", sizes, chunk, mins] =>
    match parseList parseNat sizes, parseList parseNat chunk, parseList parseInt mins with
    | some s, some c, some m =>
      let gs := (List.zip s c).map fun (a, b) => Morton.gridSize a b
      match Morton.getCmc s c m with
      | .ok v => s!"ok {v} {showNatList gs}"
      | .error e => s!"err {e} {showNatList gs}"
    | _, _, _ => "bad-request"
  | ["route", m, s, p, id] =>
    match parseNat m, parseNat s, parseNat p, parseNat id with
    | some m, some s, some p, some id =>
      let sk := Routing.shardKey m s p id
      s!"{sk} {Routing.minishardKey m p id} {Routing.specShard m s p id} {Routing.specMinishard m p id} {Routing.fileName sk s} {Routing.minishardMask m} {Routing.shardMask m s} {Routing.preshiftMask p}"
    | _, _, _, _ => "bad-request"
  | ["ms-run", m, s, p, ops] =>
    match parseNat m, parseNat s, parseNat p, parseList parseOp ops with
    | some m, some s, some p, some ops => msRun m s p ops
    | _, _, _, _ => "bad-request"
  | ["ms-run-fail", m, s, p, okN, ops] =>
    match parseNat m, parseNat s, parseNat p, parseNat okN, (ops.splitOn ",").mapM parseOp with
    | some m, some s, some p, some k, some ops => msRunFail m s p k ops
    | _, _, _, _, _ => "bad-request"
  | ["odb-run", ops] => odbRun (ops.splitOn ";")
  | ["shard-build", m, s, p, ops] =>
    match parseNat m, parseNat s, parseNat p, parseList parseOp ops with
    | some m, some s, some p, some ops => shardBuild m s p ops
    | _, _, _, _ => "bad-request"
  | ["spec-fetch", m, p, file, ids] =>
    match parseNat m, parseNat p, hexToBytes file, parseList parseNat ids with
    | some m, some p, some f, some ids =>
      " ".intercalate (ids.map fun id => match Shard.specFetch m p f id with
        | none => "none" | some b => bytesToHex b)
    | _, _, _, _ => "bad-request"
  | ["impl-fetch", m, p, file, ids] =>
    match parseNat m, parseNat p, hexToBytes file, parseList parseNat ids with
    | some m, some p, some f, some ids =>
      " ".intercalate (ids.map fun id => match Shard.implFetch m p f id with
        | none => "none" | some b => bytesToHex b)
    | _, _, _, _ => "bad-request"
  | ["cseg-encode", isz, shape, blk, data] =>
    match parseNat isz, parseShape shape, parseBlk blk, parseList parseNat data with
    | some i, some s, some b, some d =>
      match Cseg.encode i s b d with
      | some bytes => "ok " ++ bytesToHex bytes
      | none => "err"
    | _, _, _, _ => "bad-request"
  | ["cseg-spec", isz, shape, blk, file] =>
    match parseNat isz, parseShape shape, parseBlk blk, hexToBytes file with
    | some i, some s, some b, some f =>
      match Cseg.specDecode i s b f with
      | some d => "ok " ++ showNatList d
      | none => "none"
    | _, _, _, _ => "bad-request"
  | ["cseg-impl", isz, shape, blk, file] =>
    match parseNat isz, parseShape shape, parseBlk blk, hexToBytes file with
    | some i, some s, some b, some f =>
      match Cseg.implDecode i s b f with
      | .ok d => "ok " ++ showNatList d
      | .error e => "err " ++ showErr e
    | _, _, _, _ => "bad-request"
  | ["raw-decode", isz, count, file] =>
    match parseNat isz, parseNat count, hexToBytes file with
    | some i, some n, some f =>
      match Raw.decode i n f with
      | .ok d => "ok " ++ showNatList d
      | .error _ => "err format"
    | _, _, _ => "bad-request"
  | ["raw-encode", isz, data] =>
    match parseNat isz, parseList parseNat data with
    | some i, some d => bytesToHex (Raw.encode i d)
    | _, _ => "bad-request"
  | ["jpeg-wrapper", o, l, rgb, ld, px, nch, count] =>
    match parseNat o, parseNat l, parseNat rgb, parseNat ld, parseNat px, parseNat nch, parseNat count with
    | some o, some l, some rgb, some ld, some px, some nch, some count =>
      match Raw.jpegWrapper ⟨o == 1, l == 1, rgb == 1, ld == 1, px⟩ nch count with
      | .ok n => s!"ok {n}"
      | .error _ => "err format"
    | _, _, _, _, _, _, _ => "bad-request"
  | ["coords-validate", size, css, boxes] =>
    match (parseList parseInt size), parseTriples css with
    | some [sx, sy, sz], some css =>
      "".intercalate ((boxes.splitOn "/").map fun bx => match parseBox bx with
        | some b => if Coords.validate (sx, sy, sz) css b then "1" else "0"
        | none => "?")
    | _, _ => "bad-request"
  | ["io-history", isz, size, css, ops] =>
    match parseNat isz, (parseList parseInt size), parseTriples css with
    | some i, some [a, b, c], some css => ioHistory i (a, b, c) css (ops.splitOn ";")
    | _, _, _ => "bad-request"
  | ["conv", inT, outT, vals] =>
    -- vals: n:k pairs separated by commas
    match parseTy inT, parseTy outT with
    | some i, some o =>
      " ".intercalate ((vals.splitOn ",").map fun t =>
        match t.splitOn ":" with
        | [n, k] =>
          match parseInt n, parseNat k with
          | some n, some k =>
            if o.isInt then
              match Conv.toInt i o ⟨n, k⟩ with
              | some x => s!"{x}/{Conv.nearestInt o ⟨n, k⟩}"
              | none => s!"wrap/{Conv.nearestInt o ⟨n, k⟩}"
            else toString (Conv.nearestF32 ⟨n, k⟩)
          | _, _ => "?"
        | _ => "?")
    | _, _ => "bad-request"
  | ["conv-plan", inT, outT] =>
    match parseTy inT, parseTy outT with
    | some i, some o =>
      let w := if i.isInt && o.isInt then "input" else (if Conv.workFloat i o == .f32 then "float32" else "float64")
      s!"{w} {Conv.intSafe i o}"
    | _, _ => "bad-request"
  | ["down", method, ty, ext, fac, outside, data] =>
    match parseTy ty, parseList parseNat ext, parseList parseNat fac, parseList parseInt data with
    | some t, some [ez, ey, ex], some [fz, fy, fx], some d =>
      let o : Option Int := if outside == "none" then none else parseInt outside
      let (oe, vals) := downList method t ⟨ez, ey, ex⟩ fz fy fx o d
      s!"{oe.z},{oe.y},{oe.x} " ++
        showList (fun (r : Option Int) => match r with | some v => toString v | none => "wrap") vals
    | _, _, _, _ => "bad-request"
  | ["down-sel", method, infoTy, ty, ext, fac, outside, data] =>
    -- get_downscaler(method, info, options) followed by downscale: selection AND options through the model
    match parseTy ty, parseList parseNat ext, parseList parseNat fac, parseList parseInt data with
    | some t, some [ez, ey, ex], some [fz, fy, fx], some d =>
      let o : Option Int := if outside == "none" then none else parseInt outside
      match Down.getDownscaler method infoTy o with
      | none => "not-implemented"
      | some sel =>
        let e : Down.Ext := ⟨ez, ey, ex⟩
        let arr := d.toArray
        let f : Down.Arr3 := fun z y x => arr[(z * e.y + y) * e.x + x]!
        let oe := Down.outExt e fz fy fx
        let vals := (List.range oe.z).flatMap fun z => (List.range oe.y).flatMap fun y =>
          (List.range oe.x).map fun x => sel.voxel t f e fz fy fx z y x
        s!"{oe.z},{oe.y},{oe.x} " ++
          showList (fun (r : Option Int) => match r with | some v => toString v | none => "wrap") vals
    | _, _, _, _ => "bad-request"
  | ["pyr-axis", os, ns, oc, nc] =>
    match parseNat os, parseNat ns, parseNat oc, parseNat nc with
    | some os, some ns, some oc, some nc =>
      let a : Pyramid.Axis := ⟨os, ns, oc, nc⟩
      let showE : Pyramid.Err → String
        | .zeroDiv => "zerodiv" | .factor => "factor" | .noChunk => "nochunk" | .shape => "shape"
      -- first failing new chunk in index order, else all source starts
      let chunks := List.range (Pyramid.newChunks a)
      match chunks.findSome? (fun n => match Pyramid.plan a n with | .error e => some e | .ok _ => none) with
      | some e => "err " ++ showE e
      | none =>
        "ok " ++ showList (fun p => match Pyramid.sourceStart a p with
          | .ok s => toString s | .error e => showE e) (List.range ns)
    | _, _, _, _ => "bad-request"
  | ["scales", sizes, delays, e, maxs] =>
    match parseList parseNat sizes, parseList parseNat delays, parseNat e with
    | some sz, some ds, some e =>
      let ms := if maxs == "none" then none else parseNat maxs
      let n := Scales.count sz ds e ms
      ";".intercalate ((List.range n).map fun L =>
        showNatList ((List.zip sz ds).map fun (s, d) => Scales.sizeAt s L d) ++ "/" ++
        showNatList (Scales.chunkSizes ds e L) ++ "/" ++
        showNatList (ds.map fun d => Scales.fac L d))
    | _, _, _ => "bad-request"
  | ["scales-res", sizes, ratios, e, maxs] =>
    -- like `scales`, but the delays are computed by the model from the resolution ratios n/d to the finest axis
    match parseList parseNat sizes, (ratios.splitOn ",").mapM parseQ, parseNat e with
    | some sz, some qs, some e =>
      if qs.any (fun q => q.n < (q.d : Int) ∨ q.d = 0) then "bad-ratio" else
      let ds := Scales.delays (qs.map fun q => (q.n.toNat, q.d))
      let ms := if maxs == "none" then none else parseNat maxs
      let n := Scales.count sz ds e ms
      showNatList ds ++ " " ++ ";".intercalate ((List.range n).map fun L =>
        showNatList ((List.zip sz ds).map fun (s, d) => Scales.sizeAt s L d) ++ "/" ++
        showNatList (Scales.chunkSizes ds e L) ++ "/" ++
        showNatList (ds.map fun d => Scales.fac L d))
    | _, _, _ => "bad-request"
  | ["vtk-write", title, version, pts, tris, attrs] =>
    -- title/version hex-encoded; pts rows ";" tokens ","; tris rows ";" ints ","; attrs name:k:rows "/"-separated ("-" = none)
    let rowsOf (t : String) : List (List String) := if t == "-" then [] else (t.splitOn ";").map (·.splitOn ",")
    let attrL : Option (List Vtk.Attr) := if attrs == "-" then some [] else (attrs.splitOn "/").mapM fun a =>
      match a.splitOn ":" with
      | [nm, k, rows] => (parseNat k).map fun k => ⟨nm, k, rowsOf rows⟩
      | _ => none
    match hexToString title, hexToString version, attrL, (rowsOf tris).mapM (·.mapM parseNat) with
    | some ti, some ve, some al, some tl =>
      let ls := Vtk.write ti ve (rowsOf pts) tl al
      s!"{stringToHex (vtkRender ls)} {if Vtk.accepts ls then 1 else 0}"
    | _, _, _, _ => "bad-request"
  | ["vtk-accepts", file] =>
    match hexToString file with
    | some t => if Vtk.accepts (vtkTokenise t) then "1" else "0"
    | none => "bad-request"
  | ["get-encoder", dt, nc, enc, blk] =>
    -- "-" = key missing; nc as an integer ("x" = not an integer)
    let o (t : String) : Option String := if t == "-" then none else some t
    let n : Option Int := if nc == "-" then none else some ((parseInt nc).getD 0)
    match Enc.select ⟨o dt, n, o enc, blk == "1"⟩ with
    | some .raw => "raw" | some .cseg => "compressed_segmentation" | some .jpeg => "jpeg" | none => "InvalidInfoError"
  | ["vol-chunks", size, cs] =>
    match (parseList parseNat size).bind triple, (parseList parseNat cs).bind triple with
    | some s, some c =>
      ";".intercalate ((Tiling.volumeLoop s c).map fun (rx, ry, rz) =>
        s!"{rx.1},{rx.2},{ry.1},{ry.2},{rz.1},{rz.2}")
    | _, _ => "bad-request"
  | ["value-map", slope, inter, imin, imax, omin, omax] =>
    -- slope/intercept left on the nibabel proxy by --input-min/--input-max (exact rationals n/d; imax > imin)
    match parseQ slope, parseQ inter, parseQ imin, parseQ imax, parseQ omin, parseQ omax with
    | some s, some i, some a, some b, some c, some d =>
      if (Transform.Q.sub b a).n ≤ 0 then "refused" else
      let r := Volume.rewriteScaling s i a b c d
      s!"{r.1.n}/{r.1.d} {r.2.n}/{r.2.d}"
    | _, _, _, _, _, _ => "bad-request"
  | ["vol-convert", size, cs, ch] =>
    -- every write_chunk call of volume_to_precomputed on the identity volume vol[x,y,z,c] = ((x·sy + y)·sz + z)·C + c
    match (parseList parseNat size) >>= triple, (parseList parseNat cs) >>= triple, parseNat ch with
    | some (sx, sy, sz), some c, some C =>
      if sx * sy * sz * C > 200000 then "too-large" else
      ";".intercalate ((Volume.convert (fun x y z k => ((x * sy + y) * sz + z) * C + k) C (sx, sy, sz) c).map fun (cell, data) =>
        s!"{cell.1.1}-{cell.1.2}.{cell.2.1.1}-{cell.2.1.2}.{cell.2.2.1}-{cell.2.2.2}:{showNatList data}")
    | _, _, _ => "bad-request"
  | "fs-history" :: flat :: gz :: rest =>
    -- the operation list may contain spaces inside MIME types? no: tokens are re-joined defensively
    fsHistory ⟨flat == "1", gz == "1"⟩ ((" ".intercalate rest).splitOn ";")
  | ["ng-transform", a, v] =>
    match (a.splitOn ",").mapM parseQ, (v.splitOn ",").mapM parseQ with
    | some a, some v =>
      ",".intercalate ((Transform.neuroglancerTransform a v).map fun q => s!"{q.n}/{q.d}")
    | _, _ => "bad-request"
  | ["ng-type", name] =>
    let r := Transform.guessedType name
    s!"{r.1} {if r.2 then 4 else 0}"
  | ["mesh-save", coords, tris] =>
    match parseList parseNat coords, parseList parseNat tris with
    | some c, some t => bytesToHex (Mesh.save c t)
    | _, _ => "bad-request"
  | ["mesh-read", file] =>
    match hexToBytes file with
    | some b =>
      match Mesh.read b with
      | .ok (v, t) => s!"ok {showNatList v} {showNatList t}"
      | .error _ => "err meshdata"
    | none => "bad-request"
  | ["mesh-affine", m, t, verts, tris] =>
    -- affine_transform_mesh over the integers: m = 9 entries row-major, t = 3, verts = 3 per vertex, tris = 3 per triangle
    let rec triples {β} : List β → List (β × β × β)
      | a :: b :: c :: r => (a, b, c) :: triples r
      | _ => []
    match parseList parseInt m, parseList parseInt t, parseList parseInt verts, parseList parseNat tris with
    | some [a, b, c, d, e, f, g, h, i], some [tx, ty, tz], some vs, some ts =>
      let (vs', ts') := Mesh.affineTransform (α := Int) ⟨a, b, c, d, e, f, g, h, i⟩ ⟨tx, ty, tz⟩
        ((triples vs).map fun (x, y, z) => ⟨x, y, z⟩) (triples ts)
      s!"ok {showIntList (vs'.flatMap fun v => [v.x, v.y, v.z])} {showNatList (ts'.flatMap fun (p, q, r) => [p, q, r])}"
    | _, _, _, _ => "bad-request"
  | ["mesh-link", dir, label, nc] =>
    match parseNat label with
    | some l => Mesh.linkName dir l (nc == "1")
    | none => "bad-request"
  | ["mesh-links", dir, nc, rows] =>
    let parseRow (r : String) : Option (Nat × List String) :=
      match r.splitOn ":" with
      | [l, fs] => (parseNat l).map fun n => (n, if fs == "" then [] else fs.splitOn ".")
      | _ => none
    match (if rows == "-" then some [] else (rows.splitOn ";").mapM parseRow) with
    | some rs =>
      let (st, ok) := Mesh.links dir (nc == "1") rs []
      let ents := (st.map fun (n, fr) => n ++ "=" ++ ".".intercalate fr).toArray.qsort (· < ·) |>.toList
      (if ok then "ok " else "abort ") ++ "|".intercalate ents
    | none => "bad-request"
  | ["slices-map", code, n] =>
    match parseList parseNat n, Slices.perm code.toList, Slices.inv code.toList with
    | some [nc, nr, ns], some p, some sg =>
      if !Slices.validCode code.toList then "invalid-code" else
      let coords := (List.range ns).flatMap fun s => (List.range nr).flatMap fun r =>
        (List.range nc).map fun c => Slices.outCoord p sg [nc, nr, ns] [c, r, s]
      ",".intercalate (coords.map fun o => ".".intercalate (o.map toString))
    | _, _, _ => "bad-request"
  | ["slices-chunks", code, size, chunk] =>
    -- every write_chunk call of one slice conversion: box and the input pixel stored at each position
    match parseList parseNat size, parseList parseNat chunk, Slices.perm code.toList, Slices.inv code.toList with
    | some sz, some cs, some p, some sg =>
      if !Slices.validCode code.toList || sz.length != 3 || cs.length != 3 then "invalid" else
      ";".intercalate ((Slices.stackChunks p sg sz cs).map fun ch =>
        ".".intercalate (ch.box.map fun (a, b) => s!"{a}-{b}") ++ ":" ++
        ",".intercalate (ch.pix.map fun px => ".".intercalate (px.map toString)))
    | _, _, _, _ => "bad-request"
  | ["http", op, code, bodylen, want] =>
    -- code = 0 means transport failure; body is `bodylen` zero bytes (only its length matters)
    match parseNat code, parseNat bodylen, parseNat want with
    | some c, some n, some w =>
      let r : Http.Reply := if c = 0 then .transport else .status c (List.replicate n 0)
      let showE : Http.Err → String
        | .dataAccess => "DataAccessError" | .ioError => "IOError"
      if op == "fetch" then
        (match Http.fetchFile r with | .ok b => s!"ok {b.length}" | .error e => showE e)
      else if op == "exists" then
        (match Http.fileExists r with | .ok b => (if b then "true" else "false") | .error e => showE e)
      else
        (match Http.shardReadBytes w r with | .ok b => s!"ok {b.length}" | .error e => showE e)
    | _, _, _ => "bad-request"
  | ["http-range", idx, data, off, len] =>
    -- idx = "-" : single .shard file given in `data`; otherwise legacy .index / .data pair
    match hexToBytes idx, hexToBytes data, parseNat off, parseNat len with
    | some ib, some db, some o, some l =>
      let (file, o') :=
        if idx == "-" then (db, o)
        else match Http.legacyPick ib.length o with
          | (true, o') => (ib, o')
          | (false, o') => (db, o')
      let sh (r : Except Http.Err Bytes) : String := match r with | .ok b => s!"ok {bytesToHex b}" | .error _ => "IOError"
      s!"{sh (Http.httpRead file o' l)} local {sh (Http.fileRead file o' l)}"
    | _, _, _, _ => "bad-request"
  | ["convert-plan", dst, src] =>
    -- keys visited by convert_chunks, each with the verdict of the SOURCE's grid test
    match parseScales dst, parseScales src with
    | some d, some sr =>
      if (d.map fun s => Tiling.count s.size.1 1).sum > 0 ∧
         ((d.map fun s => (s.chunkSizes.map fun cs =>
            Tiling.count s.size.1 cs.1 * Tiling.count s.size.2.1 cs.2.1 * Tiling.count s.size.2.2 cs.2.2).sum).sum > 20000) then
        "too-large"
      else
      " ".intercalate ((Convert.plan d).map fun k =>
        let b := k.2
        s!"{k.1}@{b.xmin}-{b.xmax}_{b.ymin}-{b.ymax}_{b.zmin}-{b.zmax}:{if Convert.validFor sr k then 1 else 0}{if Convert.validFor d k then 1 else 0}")
    | _, _ => "bad-request"
  | ["convert-run", dst, src, missing] =>
    -- the whole convert_chunks loop (`Convert.run`) over an abstract source: every key valid for the source is
    -- present (one marker value per chunk) except the key printed as `missing` ("-" = none missing);
    -- reply: `ok` + the keys the destination holds afterwards, or `err <kind>` (the first error aborts the command)
    match parseScales dst, parseScales src with
    | some d, some sr =>
      let plan := Convert.plan d
      if plan.length > 20000 then "too-large" else
      let showK (k : Coords.Key) : String :=
        let b := k.2
        s!"{k.1}@{b.xmin}-{b.xmax}_{b.ymin}-{b.ymax}_{b.zmin}-{b.zmax}"
      let miss : Option Coords.Key := plan.find? fun k => showK k == missing
      let srcStore : Coords.Store := ⟨fun k => if some k = miss then none else some [k.2.xmin.toNat % 256]⟩
      let rd := Convert.readK (Convert.validFor sr) (fun _ b => some b) srcStore
      let wr := Convert.writeK (Convert.validFor d) (fun _ a => a)
      match Convert.run rd id wr Coords.Store.empty plan with
      | .error .offGrid => "err offgrid"
      | .error .missing => "err missing"
      | .error .format => "err format"
      | .ok st =>
        "ok " ++ " ".intercalate ((plan.filter fun k => (st.get k).isSome).map fun k =>
          let b := k.2
          s!"{k.1}@{b.xmin}-{b.xmax}_{b.ymin}-{b.ymax}_{b.zmin}-{b.zmax}")
    | _, _ => "bad-request"
  | ["pipeline-stepwise", n, ty, enc, fty, fdt, fenc, fblk, method] =>
    -- the documented sequence of commands: info after generate-scales-info (JSON round trip = identity on the
    -- model's fields) and the downscaling method compute-scales resolves; next to it the all-in-one command's method
    let opt (t : String) : Option String := if t == "-" then none else some t
    match parseNat n, (if fblk == "-" then some none else ((parseList parseNat fblk) >>= triple).map some) with
    | some n, some blk =>
      let full : Pipeline.InfoM := ⟨opt fty, fdt, 1, [⟨0, opt fenc, blk⟩]⟩
      let i := Pipeline.stepwiseInfo id n full (opt ty) (opt enc)
      let sc := i.scales.map fun s =>
        s!"{s.encoding.getD "-"}:{match s.csegBlock with | some (a, b, c) => s!"{a}.{b}.{c}" | none => "-"}"
      s!"{i.type.getD "-"} {i.dataType} {" ".intercalate sc} | {Pipeline.stepwiseMethod id n method full (opt ty) (opt enc)} {Pipeline.allInOneMethod method full (opt ty) (opt enc)}"
    | _, _ => "bad-request"
  | ["pipeline-levels", method, ty, ext, outside, n, facs, data] =>
    -- `Pipeline.computeScales` over 3-D arrays (extent z,y,x; C-order data): levels 0..n-1 by repeated downscaling with
    -- the model downscaler, transition L -> L+1 using the factors `facs[L]` (z.y.x, each 1 or 2) the info prescribes;
    -- level n is outside the run and keeps what was stored there
    match parseTy ty, parseList parseNat ext, parseList parseInt data, parseNat n,
          (facs.splitOn "/").mapM (fun t => ((t.splitOn ".").mapM parseNat) >>= triple) with
    | some t, some [ez, ey, ex], some d, some n, some fl =>
      let o : Option Int := if outside == "none" then none else parseInt outside
      let ds : Nat × Down.Ext × List Int → Nat × Down.Ext × List Int := fun (L, e, a) =>
        let (fz, fy, fx) := fl.getD L (2, 2, 2)
        let (oe, vals) := downList method t e fz fy fx o a
        (L + 1, oe, vals.map fun r => r.getD (-1))
      let st : Nat → Nat × Down.Ext × List Int := fun L => if L == 0 then (0, ⟨ez, ey, ex⟩, d) else (L, ⟨0, 0, 0⟩, [0])
      let out := Pipeline.computeScales ds n st
      ";".intercalate ((List.range (n + 1)).map fun L => showIntList (out L).2.2)
    | _, _, _, _, _ => "bad-request"
  | ["fault-store", gz, glen, old, isz, vals, ev] =>
    let oldD : Option Fault.Disk :=
      match old.splitOn ":" with
      | ["absent"] => some .absent
      | ["plain", h] => (hexToBytes h).map .plain
      | ["gz", h] => (hexToBytes h).map .gzFull
      | _ => none
    let evD : Option Fault.Event :=
      match ev.splitOn ":" with
      | ["none"] => some .none
      | ["fault", k, j] => do pure (.fault (← parseNat k) (← parseNat j))
      | ["crash", k, j] => do pure (.crash (← parseNat k) (← parseNat j))
      | _ => none
    match parseNat glen, oldD, parseNat isz, parseList parseNat vals, evD with
    | some gl, some o, some iz, some vs, some e =>
      let dec := fun b => (Raw.decode iz vs.length b).toOption
      let (out, d) := Fault.storeRun (gz == "1") gl o (Raw.encode iz vs) e
      let outS := match out with | .ok => "ok" | .dataAccess => "DataAccessError" | .died => "died"
      let dS := match d with
        | .absent => "absent" | .plain b => s!"plain:{bytesToHex b}" | .gzFull b => s!"gz:{bytesToHex b}"
        | .gzEmpty => "gzempty" | .gzTorn => "gztorn"
      let rS := match Fault.readChunk dec d with
        | .ok a => s!"ok:{showNatList a}" | .error .dataAccess => "DataAccessError" | .error .format => "InvalidFormatError"
      s!"{outS} {dS} {rS}"
    | _, _, _, _, _ => "bad-request"
  | ["fault-shard", m, p, body, j, ids] =>
    match parseNat m, parseNat p, hexToBytes body, parseNat j, parseList parseNat ids with
    | some m, some p, some b, some j, some ids =>
      " ".intercalate (ids.map fun id =>
        match Shard.implFetch m p (Fault.partialShard m b j) id with
        | none => "none" | some x => bytesToHex x)
    | _, _, _, _, _ => "bad-request"
  | ["pipeline-info", n, ty, enc, fty, fdt, fenc, fblk] =>
    -- info of the all-in-one command: "-" = option / field absent
    let opt (t : String) : Option String := if t == "-" then none else some t
    match parseNat n, (if fblk == "-" then some none else ((parseList parseNat fblk) >>= triple).map some) with
    | some n, some blk =>
      let full : Pipeline.InfoM := ⟨opt fty, fdt, 1, [⟨0, opt fenc, blk⟩]⟩
      let i := Pipeline.allInOneInfo n full (opt ty) (opt enc)
      let sc := i.scales.map fun s =>
        s!"{s.encoding.getD "-"}:{match s.csegBlock with | some (a, b, c) => s!"{a}.{b}.{c}" | none => "-"}"
      -- and the codec `get_encoder` picks for every scale of that info
      let codecs := i.scales.map fun s => match Enc.select (Enc.ofInfo i s) with
        | some .raw => "raw" | some .cseg => "compressed_segmentation" | some .jpeg => "jpeg" | none => "InvalidInfoError"
      s!"{i.type.getD "-"} {i.dataType} {" ".intercalate sc} | {" ".intercalate codecs}"
    | _, _ => "bad-request"
  | ["resolve-method", method, ty] =>
    Pipeline.resolveMethod method (if ty == "-" then none else some ty)
  | ["status", steps] =>
    toString (Pipeline.status (steps.toList.map fun c => if c == '1' then (Except.ok () : Except Unit Unit) else .error ()))
  | ["http-dispatch", opt, info] =>
    let i : Option Bool := if info == "none" then none else some (info == "1")
    if Http.dispatchSharded (opt == "1") i then "sharded" else "plain"
  | _ => "bad-request"

partial def loop (h : IO.FS.Stream) (out : IO.FS.Stream) : IO Unit := do
  let line ← h.getLine
  if line.isEmpty then return ()
  let toks := (line.trimAscii.toString.splitOn " ").filter (· ≠ "")
  out.putStrLn (handle toks)
  loop h out

def main : IO Unit := do
  let out ← IO.getStdout
  loop (← IO.getStdin) out
  out.flush
