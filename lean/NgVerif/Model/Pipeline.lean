import NgVerif.Model.Coords
/-
  Pipeline: the command level.
  * `setParams` = `generate_scales_info.set_info_params` (edits the info and its FIRST scale),
    `fillScales` = the copying part of `dyadic_pyramid.fill_scales_for_dyadic_pyramid` (every level
    is a deep copy of the first scale; geometry of the levels: model `Scales`, property C08)
  * a command is a list of steps; its exit status is 0 iff every step succeeded
  * data-writing steps over the dataset I/O layer (`Coords`), pyramid levels as a recursion
-/
namespace NgVerif.Pipeline

structure ScaleM where
  level : Nat
  encoding : Option String
  csegBlock : Option (Nat × Nat × Nat)
  deriving Repr, DecidableEq

structure InfoM where
  type : Option String
  dataType : String
  numChannels : Nat
  scales : List ScaleM
  deriving Repr, DecidableEq

def setScale0 (s : ScaleM) (encoding : Option String) : ScaleM :=
  let enc := match encoding with
    | some e => some e
    | none => match s.encoding with | some e => some e | none => some "raw"
  let blk := if enc = some "compressed_segmentation" then
      (match s.csegBlock with | some b => some b | none => some (8, 8, 8))
    else s.csegBlock
  { s with encoding := enc, csegBlock := blk }

/-- `set_info_params(info, dataset_type, encoding)` -/
def setParams (i : InfoM) (datasetType encoding : Option String) : InfoM :=
  match i.scales with
  | [] => i      -- IndexError in the code; the commands always have a first scale
  | s0 :: rest =>
    let s0' := setScale0 s0 encoding
    let ty := match datasetType with
      | some t => some t
      | none => match i.type with
        | some t => some t
        | none => if s0'.encoding = some "compressed_segmentation" then some "segmentation" else some "image"
    let dt := if s0'.encoding = some "compressed_segmentation" ∧ (i.dataType = "uint8" ∨ i.dataType = "uint16")
      then "uint32" else i.dataType
    { i with type := ty, dataType := dt, scales := s0' :: rest }

/-- `fill_scales_for_dyadic_pyramid`: `n` levels, each a deep copy of the first scale -/
def fillScales (n : Nat) (i : InfoM) : InfoM :=
  match i.scales with
  | [] => i
  | s0 :: _ => { i with scales := (List.range n).map fun L => { s0 with level := L } }

/-- the all-in-one command's info -/
def allInOneInfo (n : Nat) (fullres : InfoM) (ty enc : Option String) : InfoM :=
  fillScales n (setParams fullres ty enc)

/-- the documented sequence: `volume-to-precomputed --generate-info` writes the full-resolution
    info, `generate-scales-info` parses it back (`reparse`), sets the parameters, fills the scales -/
def stepwiseInfo (reparse : InfoM → InfoM) (n : Nat) (fullres : InfoM) (ty enc : Option String) : InfoM :=
  fillScales n (setParams (reparse fullres) ty enc)

/-! ### downscaler selection -/

/-- `downscaling.get_downscaler`: "auto" is resolved from the info's `type` -/
def resolveMethod (method : String) (infoType : Option String) : String :=
  if method = "auto" then (if infoType = some "image" then "average" else "stride") else method

/-- the all-in-one command creates its downscaler from the info AFTER `set_info_params` -/
def allInOneMethod (method : String) (fullres : InfoM) (ty enc : Option String) : String :=
  resolveMethod method (setParams fullres ty enc).type

/-- `compute-scales` reads the info that `generate-scales-info` wrote -/
def stepwiseMethod (reparse : InfoM → InfoM) (n : Nat) (method : String) (fullres : InfoM) (ty enc : Option String) : String :=
  resolveMethod method (reparse (stepwiseInfo reparse n fullres ty enc)).type

/-! ### exit status -/

/-- a command runs its steps in order; the first failing step aborts it with a non-zero status -/
def status {ε} : List (Except ε Unit) → Nat
  | [] => 0
  | .ok _ :: t => status t
  | .error _ :: _ => 1

/-! ### pyramid levels -/

/-- level `L` as computed by `compute_dyadic_scales` from level 0 with downscaler `ds` -/
def level {V} (ds : V → V) (v0 : V) : Nat → V
  | 0 => v0
  | L + 1 => ds (level ds v0 L)

/-- one run of compute-scales over `n` levels: level 0 is only read -/
def computeScales {V} (ds : V → V) (n : Nat) (st : Nat → V) : Nat → V :=
  fun L => if L < n then level ds (st 0) L else st L

end NgVerif.Pipeline
