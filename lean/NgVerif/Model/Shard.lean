import NgVerif.Model.Prim
import NgVerif.Model.MiniShard
import NgVerif.Model.Routing
/-
  Shard: `MiniShard.next_cmc`, `Shard.close` (file assembly) and the read side
  (`ShardCMC.populate_minishard_dict`, `ReadableMiniShardCMC.fetch_cmc_chunk`), plus a reader written
  ONLY from the sharded-format specification (`specFetch`).

  File layout written by `Shard.close` (raw index encoding):
     shard index (2^m entries of two uint64le: start, end of a minishard index, relative to the
     end of the shard index)  ++  chunk data of the minishards in sorted key order
                              ++  the minishard indices ([3,n] uint64le arrays) in the same order
  The shard-index entries are appended in that same (packed) order and the remaining slots are
  padded with (end, end) — known finding F8 when a lower-numbered minishard is unused.
-/
namespace NgVerif.Shard
open NgVerif

/-- `next_cmc` as a function of `_appended` (exact while `m+s+p ≤ 64` and ids `< 2^64`) -/
def nextId (m s p masked n : Nat) : Nat :=
  ((n >>> p) <<< (p + s + m)) + masked + (n &&& (2 ^ p - 1))

/-- `masked_bits`: the shard and minishard bits of the identifier, in place -/
def maskedBits (m s p id : Nat) : Nat :=
  (((Routing.minishardMask m ||| Routing.shardMask m s) <<< p) % 2 ^ 64) &&& id

/-- a minishard after `close()`: its number, chunk bytes and index rows (Δid, size) -/
structure Mini where
  key : Nat
  data : Bytes
  rows : List (Nat × Nat)
  deriving Repr

def u64s (l : List Nat) : Bytes := l.flatMap (leBytes 8)

/-- the `[3, n]` index of one minishard: Δids, Δoffsets (first = `off`, others 0), sizes -/
def indexBytes (off : Nat) (rows : List (Nat × Nat)) : Bytes :=
  u64s (rows.map (·.1)) ++
  u64s (match rows with | [] => [] | _ :: t => off :: t.map (fun _ => 0)) ++
  u64s (rows.map (·.2))

/-- data offsets (relative to the end of the shard index) of the minishards, in order -/
def dataOffsets : Nat → List Mini → List Nat
  | _, [] => []
  | acc, mn :: t => acc :: dataOffsets (acc + mn.data.length) t

def totalData (minis : List Mini) : Nat := (minis.map (·.data.length)).sum

/-- shard-index entries (start, end) for consecutive encoded indices starting at `pos` -/
def indexEntries : Nat → List Bytes → List (Nat × Nat)
  | _, [] => []
  | pos, b :: t => (pos, pos + b.length) :: indexEntries (pos + b.length) t

/-- `Shard.close` for minishards already sorted by key; `none` = ShardedIOError (too many) -/
def assemble (m : Nat) (minis : List Mini) : Option Bytes :=
  let offs := dataOffsets 0 minis
  let idxs := (List.zip minis offs).map fun (mn, o) => indexBytes o mn.rows
  let dsz := totalData minis
  let entries := indexEntries dsz idxs
  let slots := 2 ^ m
  if slots < entries.length then none else
  let endPos := dsz + (idxs.map (·.length)).sum
  let padded := entries ++ List.replicate (slots - entries.length) (endPos, endPos)
  some (u64s (padded.flatMap fun (a, b) => [a, b]) ++ minis.flatMap (·.data) ++ idxs.flatten)

/-! ### a reader written from the format specification only -/

def word (b : Bytes) (k : Nat) : Nat := leVal ((b.drop (8 * k)).take 8)

/-- decode a `[3, n]` uint64le array into rows (Δid, Δoffset, size) -/
def decodeIndex (b : Bytes) : Option (List (Nat × Nat × Nat)) :=
  if b.length % 24 ≠ 0 then none else
  let n := b.length / 24
  some ((List.range n).map fun i => (word b i, word b (n + i), word b (2 * n + i)))

/-- walk the rows: identifiers accumulate; `start_i = end_{i-1} + Δoffset_i`; returns (start, size) -/
def lookup : List (Nat × Nat × Nat) → (curId : Nat) → (prevEnd : Nat) → (id : Nat) → Option (Nat × Nat)
  | [], _, _, _ => none
  | (did, doff, sz) :: t, cur, prevEnd, id =>
    let cid := cur + did
    let start := prevEnd + doff
    if cid = id then some (start, sz) else lookup t cid (start + sz) id

/-- fetch chunk `id` from the bytes of the shard file the specification says it is in -/
def specFetch (m p : Nat) (file : Bytes) (id : Nat) : Option Bytes :=
  let mini := (id / 2 ^ p) % 2 ^ m
  let base := 2 ^ m * 16
  if file.length < base then none else
  let s := word file (2 * mini)
  let e := word file (2 * mini + 1)
  if e < s ∨ file.length < base + e then none else
  match decodeIndex ((file.drop (base + s)).take (e - s)) with
  | none => none
  | some rows =>
    match lookup rows 0 0 id with
    | none => none
    | some (start, sz) =>
      if file.length < base + start + sz then none
      else some ((file.drop (base + start)).take sz)

/-! ### the package's own reader -/

/-- `populate_minishard_dict`: decode every non-empty slot, key it by the minishard number of
    its FIRST identifier (so the slot position is irrelevant to this reader) -/
def populate (m p : Nat) (file : Bytes) : Option (List (Nat × List (Nat × Nat × Nat))) :=
  let base := 2 ^ m * 16
  if file.length < base then none else
  (List.range (2 ^ m)).foldlM (fun acc slot =>
    let s := word file (2 * slot)
    let e := word file (2 * slot + 1)
    if e = s then some acc else
    match decodeIndex ((file.drop (base + s)).take (e - s)) with
    | some ((d0, o0, z0) :: t) =>
      some (acc ++ [(Routing.minishardKey m p d0, (d0, o0, z0) :: t)])
    | _ => none) []

/-- `fetch_cmc_chunk` of the package (shard level + minishard level), `none` = an error -/
def implFetch (m p : Nat) (file : Bytes) (id : Nat) : Option Bytes :=
  match populate m p file with
  | none => none
  | some dict =>
    match dict.reverse.find? (fun e => e.1 == Routing.minishardKey m p id) with
    | none => none   -- AssertionError
    | some (_, rows) =>
      match lookup rows 0 0 id with
      | none => none
      | some (start, sz) =>
        let base := 2 ^ m * 16
        some ((file.drop (base + start)).take sz)

end NgVerif.Shard
