import NgVerif.Model.Prim
import NgVerif.Model.MiniShard
import NgVerif.Model.Routing
/-
  Shard: `MiniShard.next_cmc`, `Shard.close` (file assembly) and the read side
  (`ShardCMC.populate_minishard_dict`, `ReadableMiniShardCMC.fetch_cmc_chunk`), plus a reader written
  ONLY from the sharded-format specification (`specFetch`).

  File layout written by `Shard.close` (raw index encoding):
     shard index (2^m entries of two uint64le: start, end of a minishard index, relative to the
     end of the shard index)  ++  chunk data of the minishards in sorted key order
                              ++  the minishard indices ([3,n] uint64le arrays) in the same order
  The shard-index entries are appended in that same (packed) order and the remaining slots are
  padded with (end, end) — known finding F8 when a lower-numbered minishard is unused.
-/
namespace NgVerif.Shard
open NgVerif

/-- `next_cmc` as a function of `_appended` (exact while `m+s+p ≤ 64` and ids `< 2^64`) -/
def nextId (m s p masked n : Nat) : Nat :=
  ((n >>> p) <<< (p + s + m)) + masked + (n &&& (2 ^ p - 1))

/-- `masked_bits`: the shard and minishard bits of the identifier, in place -/
def maskedBits (m s p id : Nat) : Nat :=
  (((Routing.minishardMask m ||| Routing.shardMask m s) <<< p) % 2 ^ 64) &&& id

/-- a minishard after `close()`: its number, chunk bytes and index rows (Δid, size) -/
structure Mini where
  key : Nat
  data : Bytes
  rows : List (Nat × Nat)
  deriving Repr

def u64s (l : List Nat) : Bytes := l.flatMap (leBytes 8)

/-- index rows with their offset column: (Δid, Δoffset, size); the first Δoffset is the data
    offset of the minishard, the others are 0 (chunks are contiguous) -/
def rows3 (off : Nat) : List (Nat × Nat) → List (Nat × Nat × Nat)
  | [] => []
  | (d, sz) :: t => (d, off, sz) :: t.map fun (d, sz) => (d, 0, sz)

/-- a `[3, n]` uint64le array: row of Δids, row of Δoffsets, row of sizes -/
def encodeIndex (r : List (Nat × Nat × Nat)) : Bytes :=
  u64s (r.map (·.1)) ++ u64s (r.map (·.2.1)) ++ u64s (r.map (·.2.2))

/-- the encoded index of one minishard placed at data offset `off` -/
def indexBytes (off : Nat) (rows : List (Nat × Nat)) : Bytes := encodeIndex (rows3 off rows)

def pairs (l : List (Nat × Nat)) : List Nat := l.flatMap fun (a, b) => [a, b]

/-- the encoded minishard indices, each with the data offset of its minishard
    (`minishard.offset = data_size` in `Shard.close`) -/
def indices (minis : List Mini) : List Bytes :=
  (List.zip minis (starts 0 (minis.map (·.data.length)))).map fun (mn, o) => indexBytes o mn.rows

def dszOf (minis : List Mini) : Nat := (minis.map (·.data.length)).sum
def ilenOf (minis : List Mini) : List Nat := (indices minis).map (·.length)

/-- shard-index entries (start, end) of consecutive indices, relative to the end of the shard index -/
def entriesOf (dsz : Nat) (ilen : List Nat) : List (Nat × Nat) :=
  (List.zip (starts dsz ilen) ilen).map fun x => (x.1, x.1 + x.2)

/-- entries appended in the (packed) order of the present minishards, then padded with (end, end) -/
def paddedOf (m : Nat) (minis : List Mini) : List (Nat × Nat) :=
  entriesOf (dszOf minis) (ilenOf minis) ++
    List.replicate (2 ^ m - (entriesOf (dszOf minis) (ilenOf minis)).length)
      (dszOf minis + (ilenOf minis).sum, dszOf minis + (ilenOf minis).sum)

def fileOf (m : Nat) (minis : List Mini) : Bytes :=
  u64s (pairs (paddedOf m minis)) ++ (minis.map (·.data)).flatten ++ (indices minis).flatten

/-- `Shard.close` for minishards already sorted by key; `none` = ShardedIOError (too many) -/
def assemble (m : Nat) (minis : List Mini) : Option Bytes :=
  if 2 ^ m < (entriesOf (dszOf minis) (ilenOf minis)).length then none else some (fileOf m minis)

/-! ### a reader written from the format specification only -/

def word (b : Bytes) (k : Nat) : Nat := leVal ((b.drop (8 * k)).take 8)

/-- decode a `[3, n]` uint64le array into rows (Δid, Δoffset, size) -/
def decodeIndex (b : Bytes) : Option (List (Nat × Nat × Nat)) :=
  if b.length % 24 ≠ 0 then none else
  let n := b.length / 24
  some ((List.range n).map fun i => (word b i, word b (n + i), word b (2 * n + i)))

/-- walk the rows: identifiers accumulate; `start_i = end_{i-1} + Δoffset_i`; returns (start, size) -/
def lookup : List (Nat × Nat × Nat) → (curId : Nat) → (prevEnd : Nat) → (id : Nat) → Option (Nat × Nat)
  | [], _, _, _ => none
  | (did, doff, sz) :: t, cur, prevEnd, id =>
    let cid := cur + did
    let start := prevEnd + doff
    if cid = id then some (start, sz) else lookup t cid (start + sz) id

/-- fetch chunk `id` from the bytes of the shard file the specification says it is in -/
def specFetch (m p : Nat) (file : Bytes) (id : Nat) : Option Bytes :=
  let mini := (id / 2 ^ p) % 2 ^ m
  let base := 2 ^ m * 16
  if file.length < base then none else
  let s := word file (2 * mini)
  let e := word file (2 * mini + 1)
  if e < s ∨ file.length < base + e then none else
  match decodeIndex ((file.drop (base + s)).take (e - s)) with
  | none => none
  | some rows =>
    match lookup rows 0 0 id with
    | none => none
    | some (start, sz) =>
      if file.length < base + start + sz then none
      else some ((file.drop (base + start)).take sz)

/-! ### the package's own reader -/

/-- `populate_minishard_dict`: decode every non-empty slot, key it by the minishard number of
    its FIRST identifier (so the slot position is irrelevant to this reader) -/
def populate (m p : Nat) (file : Bytes) : Option (List (Nat × List (Nat × Nat × Nat))) :=
  let base := 2 ^ m * 16
  if file.length < base then none else
  (List.range (2 ^ m)).foldlM (fun acc slot =>
    let s := word file (2 * slot)
    let e := word file (2 * slot + 1)
    if e = s then some acc else
    match decodeIndex ((file.drop (base + s)).take (e - s)) with
    | some ((d0, o0, z0) :: t) =>
      some (acc ++ [(Routing.minishardKey m p d0, (d0, o0, z0) :: t)])
    | _ => none) []

/-- `fetch_cmc_chunk` of the package (shard level + minishard level), `none` = an error -/
def implFetch (m p : Nat) (file : Bytes) (id : Nat) : Option Bytes :=
  match populate m p file with
  | none => none
  | some dict =>
    match dict.reverse.find? (fun e => e.1 == Routing.minishardKey m p id) with
    | none => none   -- AssertionError
    | some (_, rows) =>
      match lookup rows 0 0 id with
      | none => none
      | some (start, sz) =>
        let base := 2 ^ m * 16
        some ((file.drop (base + start)).take sz)

end NgVerif.Shard
