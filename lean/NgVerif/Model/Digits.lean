/-
  Digits: little-endian digit lists in base `B` (bit packing of compressed_segmentation,
  bit interleaving of the compressed Morton code, hexadecimal shard file names).
-/
namespace NgVerif

/-- value of a little-endian digit list in base `B` -/
def ofDigits (B : Nat) : List Nat → Nat
  | [] => 0
  | d :: ds => d + B * ofDigits B ds

end NgVerif
