import NgVerif.Model.Tiling
import NgVerif.Model.Coords
import NgVerif.Model.Conv
/-
  Convert: `scripts/convert_chunks.py` — for every scale of the DESTINATION info (last first),
  for every listed chunk size, for every cell of that chunk grid (np.ndindex: x outermost):
      chunk = reader.read_chunk(key, coords); writer.write_chunk(transform(chunk), key, coords)
  Reader and writer are the dataset I/O layer of `Coords` (grid test + codec over a map-like
  store), here with a codec that may depend on the key (the chunk shape fixes the raw length and
  the compressed_segmentation grid).
-/
namespace NgVerif.Convert
open NgVerif.Coords

structure ScaleInfo where
  key : String
  size : Nat × Nat × Nat
  chunkSizes : List (Nat × Nat × Nat)
  deriving Repr, DecidableEq

abbrev Cell := (Nat × Nat) × (Nat × Nat) × (Nat × Nat)

def boxOf (c : Cell) : Box :=
  ⟨c.1.1, c.1.2, c.2.1.1, c.2.1.2, c.2.2.1, c.2.2.2⟩

def toI (t : Nat × Nat × Nat) : Int × Int × Int := (t.1, t.2.1, t.2.2)

/-- keys visited by `convert_chunks_for_scale`, in order -/
def planScale (s : ScaleInfo) : List Key :=
  s.chunkSizes.flatMap fun cs => (Tiling.grid3 s.size cs).map fun c => (s.key, boxOf c)

/-- keys visited by `convert_chunks`: `reversed(range(len(dest_info["scales"])))` -/
def plan (dst : List ScaleInfo) : List Key := dst.reverse.flatMap planScale

/-- the grid test of a dataset: `validate_chunk_coords` against the FIRST scale with that key
    (`PrecomputedIO.scale_info` is a dict built in order; later duplicates overwrite — the
    harness generates distinct keys), no such scale = KeyError, modelled as refusal -/
def validFor (info : List ScaleInfo) (k : Key) : Bool :=
  match info.find? (fun s => s.key == k.1) with
  | none => false
  | some s => validate (toI s.size) (s.chunkSizes.map toI) k.2

def writeK (valid : Key → Bool) (enc : Key → List Nat → Bytes) (s : Store) (k : Key) (a : List Nat) :
    Except IOErr Store :=
  if valid k then .ok (s.put k (enc k a)) else .error .offGrid

def readK (valid : Key → Bool) (dec : Key → Bytes → Option (List Nat)) (s : Store) (k : Key) :
    Except IOErr (List Nat) :=
  if !valid k then .error .offGrid else
  match s.get k with
  | none => .error .missing
  | some b => match dec k b with
    | none => .error .format
    | some a => .ok a

/-- one loop iteration -/
def step (rd : Key → Except IOErr (List Nat)) (tr : Nat → Nat)
    (wr : Store → Key → List Nat → Except IOErr Store) (st : Store) (k : Key) : Except IOErr Store :=
  match rd k with
  | .error e => .error e
  | .ok a => wr st k (a.map tr)

/-- the whole loop: the first error aborts the command -/
def run (rd : Key → Except IOErr (List Nat)) (tr : Nat → Nat)
    (wr : Store → Key → List Nat → Except IOErr Store) : Store → List Key → Except IOErr Store
  | st, [] => .ok st
  | st, k :: t =>
    match step rd tr wr st k with
    | .error e => .error e
    | .ok st' => run rd tr wr st' t

end NgVerif.Convert
