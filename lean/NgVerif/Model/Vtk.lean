import NgVerif.Model.Prim
/-
  Vtk: `mesh.save_mesh_as_neuroglancer_vtk` at TOKEN level, and a recogniser of the subset of the legacy
  VTK ASCII format that Neuroglancer's `parse.ts` accepts.
  A line is a list of tokens; numbers formatted by NumPy (`%.9g`, `%d`) are opaque `flt` / `num` tokens
  (their text is an external: the harness tokenises the real output the same way).
-/
namespace NgVerif.Vtk

inductive Tok where
  | word (s : String)      -- a keyword or a name
  | num (n : Nat)          -- a non-negative integer
  | flt (s : String)       -- a formatted floating-point number
  | text (s : String)      -- a whole free-text line (the title)
  deriving Repr, DecidableEq

abbrev Line := List Tok

structure Attr where
  name : String
  comps : Nat
  rows : List (List String)       -- one row of `comps` formatted numbers per vertex
  deriving Repr

/-- the title line: `title + ". " (if any) + "Written by neuroglancer-scripts-<version>."`, cut at 255 -/
def titleLine (title version : String) : String :=
  let t := (if title.isEmpty then "" else title ++ ". ") ++ "Written by neuroglancer-scripts-" ++ version ++ "."
  String.ofList (t.toList.take 255)

def attrLines (a : Attr) : List Line :=
  [[.word "SCALARS", .word a.name, .word "float"] ++ (if a.comps ≠ 1 then [.num a.comps] else []),
   [.word "LOOKUP_TABLE", .word "default"]] ++ a.rows.map fun r => r.map .flt

/-- the lines `save_mesh_as_neuroglancer_vtk` writes -/
def write (title version : String) (pts : List (List String)) (tris : List (List Nat)) (attrs : List Attr) :
    List Line :=
  [[.word "#", .word "vtk", .word "DataFile", .word "Version", .word "3.0"],
   [.text (titleLine title version)],
   [.word "ASCII"],
   [.word "DATASET", .word "POLYDATA"],
   [.word "POINTS", .num pts.length, .word "float"]] ++
  pts.map (fun p => p.map .flt) ++
  [[.word "POLYGONS", .num tris.length, .num (4 * tris.length)]] ++
  tris.map (fun t => .num 3 :: t.map .num) ++
  (if attrs.isEmpty then [] else [.word "POINT_DATA", .num pts.length] :: attrs.flatMap attrLines)

/-! ### the recogniser -/

def isFlt : Tok → Bool
  | .flt _ => true
  | .num _ => true       -- an integer is a valid number where a float is expected
  | _ => false

def isNum : Tok → Bool
  | .num _ => true
  | _ => false

/-- `n` lines of exactly `k` numbers each; returns the rest -/
def takeRows (k : Nat) : Nat → List Line → Option (List Line)
  | 0, ls => some ls
  | n + 1, l :: ls => if l.length == k && l.all isFlt then takeRows k n ls else none
  | _ + 1, [] => none

/-- `m` polygon lines `3 a b c` with vertex indices below `n`; returns the rest -/
def takePolys (n : Nat) : Nat → List Line → Option (List Line)
  | 0, ls => some ls
  | m + 1, [.num 3, .num a, .num b, .num c] :: ls =>
    if a < n && b < n && c < n then takePolys n m ls else none
  | _ + 1, _ => none

/-- vertex attributes: `SCALARS name float [k]` (1 ≤ k ≤ 4), `LOOKUP_TABLE default`, `n` rows of `k` numbers -/
def takeAttrs (n : Nat) : Nat → List Line → Bool
  | _, [] => true
  | 0, _ :: _ => false
  | fuel + 1, hdr :: ls =>
    let k? : Option Nat := match hdr with
      | [.word "SCALARS", .word _, .word _] => some 1
      | [.word "SCALARS", .word _, .word _, .num k] => if 1 ≤ k && k ≤ 4 then some k else none
      | _ => none
    match k?, ls with
    | some k, [.word "LOOKUP_TABLE", .word "default"] :: rest =>
      match takeRows k n rest with
      | some rest' => takeAttrs n fuel rest'
      | none => false
    | _, _ => false

/-- does a token-level file belong to the subset Neuroglancer parses? -/
def accepts : List Line → Bool
  | [.word "#", .word "vtk", .word "DataFile", .word "Version", .word _] :: [.text t] :: [.word "ASCII"] ::
    [.word "DATASET", .word "POLYDATA"] :: [.word "POINTS", .num n, .word _] :: rest =>
    t.length ≤ 255 &&
    (match takeRows 3 n rest with
     | some ([.word "POLYGONS", .num m, .num tot] :: rest2) =>
       tot == 4 * m &&
       (match takePolys n m rest2 with
        | some [] => true
        | some ([.word "POINT_DATA", .num n'] :: rest3) => n' == n && takeAttrs n rest3.length rest3
        | _ => false)
     | _ => false)
  | _ => false

end NgVerif.Vtk
