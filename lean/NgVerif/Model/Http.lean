import NgVerif.Model.Prim
import NgVerif.Generated.Tables
/-
  Http: decision logic of `http_accessor.HttpAccessor`, `sharded_http_accessor.HttpShard.read_bytes`
  and the accessor dispatch of `accessor.get_accessor_for_url`, over an abstract server reply
  (the `requests` library and the server are parameters).
-/
namespace NgVerif.Http

/-- what `requests` delivered for one request -/
inductive Reply where
  | status (code : Nat) (body : Bytes)    -- a complete HTTP response
  | transport                             -- ConnectionError / Timeout / incomplete read …
  deriving Repr, DecidableEq

inductive Err where
  | dataAccess       -- DataAccessError (plain accessor)
  | ioError          -- HTTPError / ShardedIOError (both IOError subclasses; sharded accessor)
  deriving Repr, DecidableEq

/-- `r.raise_for_status()` raises exactly for 4xx and 5xx -/
def raises (code : Nat) : Bool := decide (400 ≤ code ∧ code < 600)

/-- `HttpAccessor.fetch_file` / `fetch_chunk` -/
def fetchFile : Reply → Except Err Bytes
  | .transport => .error .dataAccess
  | .status code body => if raises code then .error .dataAccess else .ok body

/-- `HttpAccessor.file_exists` (HEAD request) -/
def fileExists : Reply → Except Err Bool
  | .transport => .error .dataAccess
  | .status code _ => if code = 404 then .ok false else if raises code then .error .dataAccess else .ok true

/-- `HttpShard.read_bytes(offset, length)`: Range request, status check, length check -/
def shardReadBytes (length : Nat) : Reply → Except Err Bytes
  | .transport => .error .ioError
  | .status code body =>
    if raises code then .error .ioError
    else if body.length ≠ length then .error .ioError
    else .ok body

/-- the Range header value for (offset, length) -/
def rangeHeader (offset length : Nat) : String := s!"bytes={offset}-{offset + length - 1}"

/-- `FileShard.read_bytes`: `fp.seek(offset); fp.read(length)` -/
def localRead (file : Bytes) (offset length : Nat) : Bytes := (file.drop offset).take length

/-- `FileShard.read_bytes` as a whole (after the `fix:`): a short read is an I/O error -/
def fileRead (file : Bytes) (offset length : Nat) : Except Err Bytes :=
  if (localRead file offset length).length ≠ length then .error .ioError
  else .ok (localRead file offset length)

/-- a server that honours `Range: bytes=a-b` (RFC 7233): 416 when the first byte is past the end
    (or the range is empty/inverted: `length = 0` gives `b < a`, which servers answer with the
    whole entity; modelled as 200), else 206 with the bytes that exist -/
def serveRange (file : Bytes) (offset length : Nat) : Reply :=
  if length = 0 then .status 200 file
  else if file.length ≤ offset then .status 416 []
  else .status 206 (localRead file offset length)

/-- `HttpShard.read_bytes(offset, length)` against a Range-honouring server holding `file`:
    nothing is requested for `length = 0` ("bytes=N-(N-1)" is not a valid Range) -/
def httpRead (file : Bytes) (offset length : Nat) : Except Err Bytes :=
  if length = 0 then .ok [] else shardReadBytes length (serveRange file offset length)

/-- legacy layout: which of the `.index` / `.data` files a request goes to, and at what offset
    (`hdr` = 2^minishard_bits · 16) -/
def legacyPick (hdr offset : Nat) : Bool × Nat :=
  if offset < hdr then (true, offset) else (false, offset - hdr)

/-- accessor dispatch for http(s) URLs: `optSharding` = truthiness of options["sharding"],
    `info` = `none` when the info cannot be fetched or parsed, else whether it declares sharding
    (non-empty scales, all of type neuroglancer_uint64_sharded_v1) -/
def dispatchSharded (optSharding : Bool) (info : Option Bool) : Bool :=
  optSharding || (info == some true)

end NgVerif.Http
