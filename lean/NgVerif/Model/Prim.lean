/-
  Prim: import-free primitives shared by all models and by the line-protocol driver.
  * parsing / printing helpers for the protocol (decimal ints, comma lists, hex bytes)
  * little-endian byte helpers
  * Python-style floor division / modulo, round-half-even of an exact quotient
-/
namespace NgVerif

abbrev Bytes := List Nat

/-- round-half-even of the exact rational a/b (b > 0) -/
def rhe (a b : Nat) : Nat :=
  let q := a / b
  let r := a % b
  if 2 * r < b then q else if b < 2 * r then q + 1 else if q % 2 = 0 then q else q + 1

/-- `ceil_div(a, b) = (a - 1) // b + 1` on positive naturals (the code's formula) -/
def ceilDiv (a b : Nat) : Nat := (a - 1) / b + 1

/-- little-endian encoding of `v` on `k` bytes (truncating, like struct.pack after masking) -/
def leBytes : Nat → Nat → Bytes
  | 0, _ => []
  | k+1, v => (v % 256) :: leBytes k (v / 256)

/-- little-endian value of a byte list -/
def leVal : Bytes → Nat
  | [] => 0
  | b :: bs => b + 256 * leVal bs

/-- start positions of consecutive regions of the given lengths, from `acc` -/
def starts : Nat → List Nat → List Nat
  | _, [] => []
  | acc, l :: t => acc :: starts (acc + l) t

namespace Proto

def hexDigit (n : Nat) : Char :=
  if n < 10 then Char.ofNat (48 + n) else Char.ofNat (87 + n)

def bytesToHex (bs : Bytes) : String :=
  if bs.isEmpty then "-" else
  String.ofList (bs.foldr (fun b acc => hexDigit (b / 16 % 16) :: hexDigit (b % 16) :: acc) [])

def hexVal (c : Char) : Option Nat :=
  if '0' ≤ c ∧ c ≤ '9' then some (c.toNat - 48)
  else if 'a' ≤ c ∧ c ≤ 'f' then some (c.toNat - 87)
  else if 'A' ≤ c ∧ c ≤ 'F' then some (c.toNat - 55)
  else none

def hexToBytesAux : List Char → Bytes → Option Bytes
  | [], acc => some acc.reverse
  | [_], _ => none
  | a :: b :: rest, acc =>
    match hexVal a, hexVal b with
    | some x, some y => hexToBytesAux rest ((16 * x + y) :: acc)
    | _, _ => none

def hexToBytes (s : String) : Option Bytes :=
  if s == "-" then some [] else hexToBytesAux s.toList []

def parseInt (s : String) : Option Int := s.toInt?

def parseNat (s : String) : Option Nat := s.toNat?

def parseList {α} (f : String → Option α) (s : String) : Option (List α) :=
  if s == "-" then some [] else (s.splitOn ",").mapM f

def showList {α} (f : α → String) (l : List α) : String :=
  if l.isEmpty then "-" else ",".intercalate (l.map f)

def showNatList (l : List Nat) : String := showList toString l
def showIntList (l : List Int) : String := showList toString l

end Proto
end NgVerif
