import NgVerif.Model.Raw
/-
  Coords: `PrecomputedIO.validate_chunk_coords` (after the `fix:` adding the range test) and the
  abstract dataset I/O layer (`write_chunk` / `read_chunk` over a store that behaves like a map).
-/
namespace NgVerif.Coords

/-- one axis of the test: `0 <= lo < size and lo % cs == 0 and hi == min(lo + cs, size)`
    (Python `%` with a positive divisor is `Int.emod`) -/
def axisOk (lo hi cs size : Int) : Bool :=
  decide (0 ≤ lo) && decide (lo < size) && (lo % cs == 0) && (hi == min (lo + cs) size)

structure Box where
  xmin : Int
  xmax : Int
  ymin : Int
  ymax : Int
  zmin : Int
  zmax : Int
  deriving Repr, DecidableEq

/-- `validate_chunk_coords`: some listed chunk size fits on all three axes -/
def validate (size : Int × Int × Int) (chunkSizes : List (Int × Int × Int)) (b : Box) : Bool :=
  chunkSizes.any fun cs =>
    axisOk b.xmin b.xmax cs.1 size.1 && axisOk b.ymin b.ymax cs.2.1 size.2.1 &&
    axisOk b.zmin b.zmax cs.2.2 size.2.2

/-- SPECIFICATION: the pair is one cell of the chunk grid of this axis -/
def onGridAxis (lo hi cs size : Int) : Prop :=
  ∃ i : Int, 0 ≤ i ∧ lo = i * cs ∧ lo < size ∧ hi = min (lo + cs) size

def onGrid (size : Int × Int × Int) (chunkSizes : List (Int × Int × Int)) (b : Box) : Prop :=
  ∃ cs ∈ chunkSizes, onGridAxis b.xmin b.xmax cs.1 size.1 ∧ onGridAxis b.ymin b.ymax cs.2.1 size.2.1 ∧
    onGridAxis b.zmin b.zmax cs.2.2 size.2.2

/-- the test before the fix (kept for the regression witness) -/
def axisOld (lo hi cs size : Int) : Bool := (lo % cs == 0) && (hi == min (lo + cs) size)

/-! ### the dataset I/O layer over an abstract store -/

abbrev Key := String × Box

structure Store where
  get : Key → Option Bytes

def Store.put (s : Store) (k : Key) (v : Bytes) : Store :=
  ⟨fun k' => if k' = k then some v else s.get k'⟩

def Store.empty : Store := ⟨fun _ => none⟩

inductive IOErr where
  | offGrid        -- AssertionError from validate_chunk_coords
  | missing        -- DataAccessError
  | format         -- InvalidFormatError
  deriving Repr, DecidableEq

/-- `write_chunk` with a codec `enc` -/
def write (valid : Key → Bool) (enc : List Nat → Bytes) (s : Store) (k : Key) (a : List Nat) :
    Except IOErr Store :=
  if valid k then .ok (s.put k (enc a)) else .error .offGrid

/-- `read_chunk` with a codec `dec` -/
def read (valid : Key → Bool) (dec : Bytes → Option (List Nat)) (s : Store) (k : Key) :
    Except IOErr (List Nat) :=
  if !valid k then .error .offGrid else
  match s.get k with
  | none => .error .missing
  | some b => match dec b with
    | none => .error .format
    | some a => .ok a

/-- run a history of writes (rejected writes leave the store unchanged) -/
def runWrites (valid : Key → Bool) (enc : List Nat → Bytes) : Store → List (Key × List Nat) → Store
  | s, [] => s
  | s, (k, a) :: t =>
    match write valid enc s k a with
    | .ok s' => runWrites valid enc s' t
    | .error _ => runWrites valid enc s t

/-- the last array written to `k` in a history, if any (the abstract specification) -/
def lastWrite (valid : Key → Bool) (k : Key) : List (Key × List Nat) → Option (List Nat)
  | [] => none
  | (k', a) :: t =>
    match lastWrite valid k t with
    | some r => some r
    | none => if k' = k ∧ valid k' then some a else none

end NgVerif.Coords
