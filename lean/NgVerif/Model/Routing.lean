/-
  Routing: `sharded_base.ShardSpec` masks and `CMCReadWrite.get_shard_key/get_minishard_key`,
  `ShardCMC.shard_key_str`, with NumPy's uint64 semantics made explicit
  (a shift by 64 or more yields 0; `~` is the 64-bit complement).
-/
namespace NgVerif.Routing

def MAX64 : Nat := 2 ^ 64 - 1

def not64 (x : Nat) : Nat := MAX64 - x
def shl64 (x k : Nat) : Nat := if 64 ≤ k then 0 else (x <<< k) % 2 ^ 64
def shr64 (x k : Nat) : Nat := if 64 ≤ k then 0 else x >>> k

/-- `~(MAX >> k << k)` -/
def lowMask (k : Nat) : Nat := not64 (shl64 (shr64 MAX64 k) k)

def minishardMask (m : Nat) : Nat := lowMask m
def shardMask (m s : Nat) : Nat := lowMask (m + s) &&& not64 (minishardMask m)
def preshiftMask (p : Nat) : Nat := lowMask p

/-- `_hash`: identity hash of the preshifted identifier -/
def hash (p id : Nat) : Nat := shr64 id p

def shardKey (m s p id : Nat) : Nat := shr64 (shardMask m s &&& hash p id) m
def minishardKey (m p id : Nat) : Nat := minishardMask m &&& hash p id

/-- SPECIFICATION (sharded format): with `h = id >> preshift_bits`,
    minishard = low `minishard_bits` bits of `h`, shard = the next `shard_bits` bits -/
def specMinishard (m p id : Nat) : Nat := (id / 2 ^ p) % 2 ^ m
def specShard (m s p id : Nat) : Nat := (id / 2 ^ p / 2 ^ m) % 2 ^ s

/-- little-endian hexadecimal digits (at least one digit) -/
def hexLE (n : Nat) : List Nat :=
  if h : n < 16 then [n] else (n % 16) :: hexLE (n / 16)
termination_by n
decreasing_by omega

def hexChar (d : Nat) : Char := if d < 10 then Char.ofNat (48 + d) else Char.ofNat (87 + d)

/-- `hex(key)[2:].rjust(ceil(shard_bits / 4), "0")` -/
def fileDigitsLE (key s : Nat) : List Nat :=
  let ds := hexLE key
  ds ++ List.replicate ((s + 3) / 4 - ds.length) 0

def fileName (key s : Nat) : String := String.ofList ((fileDigitsLE key s).reverse.map hexChar)

end NgVerif.Routing
