import NgVerif.Model.Prim
/-
  Conv: `data_types.get_chunk_dtype_transformer` on exact values.

  A finite input value is an exact dyadic rational `n / 2^k` (`k = 0` for integer types; every
  finite float32/float64 value has this form). The model mirrors the code after the `fix:`
  commits: integer→integer conversions clip inside the INPUT type; otherwise the work type is
  NumPy's promotion, `rint` rounds half to even, `clip` uses the bounds converted to the work
  type, and the final unsafe cast is exact in range and platform-defined (`none`) out of range.
-/
namespace NgVerif.Conv

inductive Ty where
  | u8 | u16 | u32 | u64 | i8 | i16 | i32 | i64 | f32 | f64
  deriving Repr, DecidableEq

def Ty.isInt : Ty → Bool
  | .f32 | .f64 => false
  | _ => true

def Ty.min : Ty → Int
  | .i8 => -(2 ^ 7) | .i16 => -(2 ^ 15) | .i32 => -(2 ^ 31) | .i64 => -(2 ^ 63)
  | _ => 0

def Ty.max : Ty → Int
  | .u8 => 2 ^ 8 - 1 | .u16 => 2 ^ 16 - 1 | .u32 => 2 ^ 32 - 1 | .u64 => 2 ^ 64 - 1
  | .i8 => 2 ^ 7 - 1 | .i16 => 2 ^ 15 - 1 | .i32 => 2 ^ 31 - 1 | .i64 => 2 ^ 63 - 1
  | _ => 0

/-- `np.can_cast(a, b, casting="safe")` for integer `a`, integer `b` -/
def intSafe (a b : Ty) : Bool := decide (b.min ≤ a.min) && decide (a.max ≤ b.max)

/-- `np.promote_types(float in, integer out)`: float32 stays float32 only next to 8/16-bit ints -/
def workFloat (inT outT : Ty) : Ty :=
  match inT, outT with
  | .f32, .u8 | .f32, .u16 | .f32, .i8 | .f32, .i16 | .f32, .f32 => .f32
  | _, _ => .f64

/-- an exact dyadic rational n / 2^k -/
structure Val where
  n : Int
  k : Nat
  deriving Repr, DecidableEq

/-- round half to even of n / 2^k (`np.rint`), as an integer -/
def rint (v : Val) : Int :=
  let d : Int := 2 ^ v.k
  let q := v.n / d          -- floor (Int.ediv with positive divisor)
  let r := v.n % d          -- 0 ≤ r < d
  if 2 * r < d then q else if d < 2 * r then q + 1 else if q % 2 = 0 then q else q + 1

def clamp (lo hi x : Int) : Int := if x < lo then lo else if hi < x then hi else x

/-- an integer bound converted to the floating-point work type (round to nearest, 24/53 bits):
    only `2^64 - 1` (→ 2^64), `2^63 - 1` (→ 2^63) and, in float32, `2^32-1`/`2^31-1` change -/
def boundInWork (work : Ty) (b : Int) : Int :=
  match work with
  | .f64 => if b = 2 ^ 64 - 1 then 2 ^ 64 else if b = 2 ^ 63 - 1 then 2 ^ 63 else b
  | .f32 => if b = 2 ^ 64 - 1 then 2 ^ 64 else if b = 2 ^ 63 - 1 then 2 ^ 63
            else if b = 2 ^ 32 - 1 then 2 ^ 32 else if b = 2 ^ 31 - 1 then 2 ^ 31 else b
  | _ => b

/-- the final `astype(out, casting="unsafe")` of an integer-valued number: exact in range,
    platform-defined (modelled as `none`) outside -/
def castInt (outT : Ty) (x : Int) : Option Int :=
  if outT.min ≤ x ∧ x ≤ outT.max then some x else none

/-- conversion to an INTEGER output type -/
def toInt (inT outT : Ty) (v : Val) : Option Int :=
  if inT.isInt then
    -- integer input: v.k = 0
    if intSafe inT outT then some v.n
    else castInt outT (clamp (max outT.min inT.min) (min outT.max inT.max) v.n)
  else
    let work := workFloat inT outT
    castInt outT (clamp (boundInWork work outT.min) (boundInWork work outT.max) (rint v))

/-- SPECIFICATION: nearest representable integer, half to even, saturating -/
def nearestInt (outT : Ty) (v : Val) : Int := clamp outT.min outT.max (rint v)

/-! ### float32 targets: nearest float32 (IEEE bit pattern), ties to even, overflow to infinity -/

def natLog2Floor (n : Nat) : Nat := Nat.log2 n

/-- bit pattern of the float32 nearest to n / 2^k -/
def nearestF32 (v : Val) : Nat :=
  let sign := if v.n < 0 then 2 ^ 31 else 0
  let a := v.n.natAbs
  if a = 0 then sign else
  -- exponent e with 2^e ≤ a / 2^k < 2^(e+1), as an integer e = log2 a - k
  let la := (natLog2Floor a : Int)
  let e : Int := la - v.k
  -- quantum exponent: e - 23 for normals, -149 for subnormals
  let qe : Int := if e < -126 then -149 else e - 23
  -- q = round_half_even (a / 2^k / 2^qe) = rhe (a * 2^(-qe-k)) or rhe (a / 2^(k+qe))
  let sh : Int := (v.k : Int) + qe
  let q : Nat := if sh ≤ 0 then a * 2 ^ (-sh).toNat else rhe a (2 ^ sh.toNat)
  let bits : Int := if e < -126 then (q : Int) else (e + 126) * 2 ^ 23 + q
  if bits ≥ 255 * 2 ^ 23 then sign + 255 * 2 ^ 23 else sign + bits.toNat

end NgVerif.Conv
