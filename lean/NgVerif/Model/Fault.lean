import NgVerif.Model.Raw
import NgVerif.Model.Shard
/-
  Fault: one `FileAccessor.store_chunk` / `store_file` as a program of I/O primitives
      0 makedirs   1 open ("wb"/"xb", plain or through gzip.open)   2 write*   3 close
  run under an injected failure or an interruption, and what a later reader finds.

  The target file is described by what the reader will see in it (`Disk`); `j` is the number of
  bytes of the on-disk stream (the payload itself, or its gzip stream of `glen` bytes) that reached
  the file. The other three candidate paths of the chunk are assumed unused (C12's hypothesis).
-/
namespace NgVerif.Fault

inductive Disk where
  | absent
  | plain (b : Bytes)        -- uncompressed file holding `b`
  | gzFull (b : Bytes)       -- complete gzip stream of `b`
  | gzEmpty                  -- zero-length `.gz` file (gzip.open reads it as b"")
  | gzTorn                   -- non-empty strict prefix of a gzip stream
  deriving Repr, DecidableEq

inductive Event where
  | none
  | fault (k j : Nat)        -- primitive `k` raises an OSError after `j` stream bytes reached the file
  | crash (k j : Nat)        -- the process dies just before primitive `k` (4 = after close), `j` as above
  deriving Repr, DecidableEq

inductive Outcome where
  | ok | dataAccess | died
  deriving Repr, DecidableEq

inductive Err where
  | dataAccess | format
  deriving Repr, DecidableEq

def partialFile (gz : Bool) (glen : Nat) (payload : Bytes) (j : Nat) : Disk :=
  if gz then (if j = 0 then .gzEmpty else if j < glen then .gzTorn else .gzFull payload)
  else .plain (payload.take j)

def fullFile (gz : Bool) (payload : Bytes) : Disk := if gz then .gzFull payload else .plain payload

/-- outcome reported to the caller and state of the target file -/
def storeRun (gz : Bool) (glen : Nat) (old : Disk) (payload : Bytes) : Event → Outcome × Disk
  | .none => (.ok, fullFile gz payload)
  | .fault k j =>
    -- makedirs / open failed: the target is untouched (a failing open does not truncate);
    -- write / close failed: what reached the file stays there; `except OSError` reports it
    if k ≤ 1 then (.dataAccess, old) else (.dataAccess, partialFile gz glen payload j)
  | .crash k j =>
    if k ≤ 1 then (.died, old)
    else if k = 2 then (.died, partialFile gz glen payload 0)      -- opened (truncated), nothing written
    else (.died, partialFile gz glen payload j)

/-- `FileAccessor.fetch_chunk` on the only candidate present -/
def fetch : Disk → Except Err Bytes
  | .absent => .error .dataAccess
  | .plain b => .ok b
  | .gzFull b => .ok b
  | .gzEmpty => .ok []
  | .gzTorn => .error .dataAccess    -- EOFError / zlib.error / BadGzipFile -> DataAccessError

/-- `PrecomputedIO.read_chunk` with a chunk decoder -/
def readChunk (dec : Bytes → Option (List Nat)) (d : Disk) : Except Err (List Nat) :=
  match fetch d with
  | .error e => .error e
  | .ok b => match dec b with
    | none => .error .format
    | some a => .ok a

/-- the shard file while `Shard.close` is running: zeroed index placeholder, then a prefix of
    data and minishard indices (the real index is written last, over the placeholder) -/
def partialShard (m : Nat) (body : Bytes) (j : Nat) : Bytes := List.replicate (2 ^ m * 16) 0 ++ body.take j

end NgVerif.Fault
