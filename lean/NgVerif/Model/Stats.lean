import NgVerif.Model.Tiling
/-
  Stats: model of `scripts/scale_stats.show_scales_info` (numbers only).
  Per (scale, chunk_size): number of chunks, number of directories, raw byte size;
  then the totals. Exact integers (the code uses `math.prod` after the `fix:` commit).
-/
namespace NgVerif.Stats

structure Row where
  chunks : Nat
  dirs : Nat
  bytes : Nat
  deriving Repr, DecidableEq

/-- one `(scale, chunk_size)` line; `shardBits = none` for an unsharded scale -/
def row (size cs : Nat × Nat × Nat) (itemsize channels : Nat) (shardBits : Option Nat) : Row :=
  let nx := Tiling.count size.1 cs.1
  let ny := Tiling.count size.2.1 cs.2.1
  let nz := Tiling.count size.2.2 cs.2.2
  { chunks := nx * (ny * nz)
    dirs := match shardBits with
      | some b => 2 ^ b + 1
      | none => nx * (1 + ny)
    bytes := size.1 * (size.2.1 * size.2.2) * itemsize * channels }

def total (rows : List Row) : Row :=
  rows.foldl (fun a r => { chunks := a.chunks + r.chunks, dirs := a.dirs + r.dirs,
                           bytes := a.bytes + r.bytes }) ⟨0, 0, 0⟩

end NgVerif.Stats
