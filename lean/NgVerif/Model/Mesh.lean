import NgVerif.Model.Prim
/-
  Mesh: `mesh.save_mesh_as_precomputed` / `mesh.read_precomputed_mesh` at byte level.
  Vertex coordinates are float32 BIT PATTERNS (32-bit naturals): the layout and the round trip do
  not depend on the numeric value. `links` models `link_mesh_fragments` (one file per CSV row).
-/
namespace NgVerif.Mesh

def u32s (l : List Nat) : Bytes := l.flatMap (leBytes 4)

/-- `struct.pack("<I", n) + vertices.astype("<f").tobytes() + triangles.astype("<I").tobytes()` -/
def save (coords tris : List Nat) : Bytes := leBytes 4 (coords.length / 3) ++ u32s coords ++ u32s tris

inductive Err where
  | meshData       -- InvalidMeshDataError
  | other          -- e.g. struct.error
  deriving Repr, DecidableEq

def words (b : Bytes) : List Nat := (List.range (b.length / 4)).map fun i => leVal ((b.drop (4 * i)).take 4)

/-- `read_precomputed_mesh` (after the `fix:`): returns (vertex coordinate patterns, triangle indices) -/
def read (b : Bytes) : Except Err (List Nat × List Nat) :=
  if b.length < 4 then .error .meshData else
  let n := leVal (b.take 4)
  let rest := b.drop 4
  if rest.length < 12 * n then .error .meshData else
  let vb := rest.take (12 * n)
  let tb := rest.drop (12 * n)
  if tb.length % 12 ≠ 0 then .error .meshData else
  let tris := words tb
  if tris.any (fun t => decide (n ≤ t)) then .error .meshData else
  .ok (words vb, tris)

/-- `link_mesh_fragments`: file name and JSON fragments list for one CSV row -/
def linkName (meshDir : String) (label : Nat) (noColon : Bool) : String :=
  meshDir ++ "/" ++ toString label ++ (if noColon then "" else ":0")

end NgVerif.Mesh
