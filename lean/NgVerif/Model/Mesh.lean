import NgVerif.Model.Prim
/-
  Mesh: `mesh.save_mesh_as_precomputed` / `mesh.read_precomputed_mesh` at byte level.
  Vertex coordinates are float32 BIT PATTERNS (32-bit naturals): the layout and the round trip do
  not depend on the numeric value. `links` models `link_mesh_fragments` (one file per CSV row).
-/
namespace NgVerif.Mesh

def u32s (l : List Nat) : Bytes := l.flatMap (leBytes 4)

/-- `struct.pack("<I", n) + vertices.astype("<f").tobytes() + triangles.astype("<I").tobytes()` -/
def save (coords tris : List Nat) : Bytes := leBytes 4 (coords.length / 3) ++ u32s coords ++ u32s tris

inductive Err where
  | meshData       -- InvalidMeshDataError
  | other          -- e.g. struct.error
  deriving Repr, DecidableEq

def words (b : Bytes) : List Nat := (List.range (b.length / 4)).map fun i => leVal ((b.drop (4 * i)).take 4)

/-- `read_precomputed_mesh` (after the `fix:`): returns (vertex coordinate patterns, triangle indices) -/
def read (b : Bytes) : Except Err (List Nat × List Nat) :=
  if b.length < 4 then .error .meshData else
  let n := leVal (b.take 4)
  let rest := b.drop 4
  if rest.length < 12 * n then .error .meshData else
  let vb := rest.take (12 * n)
  let tb := rest.drop (12 * n)
  if tb.length % 12 ≠ 0 then .error .meshData else
  let tris := words tb
  if tris.any (fun t => decide (n ≤ t)) then .error .meshData else
  .ok (words vb, tris)

/-- `link_mesh_fragments`: file name and JSON fragments list for one CSV row -/
def linkName (meshDir : String) (label : Nat) (noColon : Bool) : String :=
  meshDir ++ "/" ++ toString label ++ (if noColon then "" else ":0")

/-- the mesh directory seen by `make_mesh_fragment_links`: file name -> fragment list of the JSON document in it
    (most recent first) -/
abbrev LinkStore := List (String × List String)

def linkGet (s : LinkStore) (name : String) : Option (List String) := (s.find? (fun e => e.1 == name)).map (·.2)

/-- `make_mesh_fragment_links` over the rows of the CSV, in order: one `store_file` per row, which creates the file
    EXCLUSIVELY (`overwrite=False`, mode `xb`), so a row whose file already exists aborts the run with a
    data-access error and leaves the files of the earlier rows in place. Returns the directory and whether the
    run completed. -/
def links (dir : String) (noColon : Bool) : List (Nat × List String) → LinkStore → LinkStore × Bool
  | [], s => (s, true)
  | (l, fr) :: rest, s =>
    if (linkGet s (linkName dir l noColon)).isSome then (s, false)
    else links dir noColon rest ((linkName dir l noColon, fr) :: s)

/-! ### `mesh.affine_transform_mesh`, polymorphic in the scalar type
    (the driver runs it over `Int`; the theorems hold over every ordered commutative ring) -/

structure V3 (α : Type) where
  x : α
  y : α
  z : α
  deriving Repr, DecidableEq

/-- the 3×3 linear part, rows `(a b c)`, `(d e f)`, `(g h i)` -/
structure M3 (α : Type) where
  a : α
  b : α
  c : α
  d : α
  e : α
  f : α
  g : α
  h : α
  i : α
  deriving Repr

section Affine
variable {α : Type} [Add α] [Mul α] [Sub α]

def M3.det (m : M3 α) : α :=
  m.a * (m.e * m.i - m.f * m.h) - m.b * (m.d * m.i - m.f * m.g) + m.c * (m.d * m.h - m.e * m.g)

/-- `R @ v + t` -/
def M3.apply (m : M3 α) (t v : V3 α) : V3 α :=
  ⟨m.a * v.x + m.b * v.y + m.c * v.z + t.x,
   m.d * v.x + m.e * v.y + m.f * v.z + t.y,
   m.g * v.x + m.h * v.y + m.i * v.z + t.z⟩

/-- `np.flip(triangles, axis=1)` on one triangle -/
def flipTri (t : Nat × Nat × Nat) : Nat × Nat × Nat := (t.2.2, t.2.1, t.1)

/-- `affine_transform_mesh`: every vertex is mapped; triangles are flipped iff `det R < 0` -/
def affineTransform [Zero α] [LT α] [DecidableLT α] (m : M3 α) (t : V3 α) (vs : List (V3 α))
    (ts : List (Nat × Nat × Nat)) : List (V3 α) × List (Nat × Nat × Nat) :=
  (vs.map (m.apply t), if m.det < 0 then ts.map flipTri else ts)

/-- orientation of the triangle `(a, b, c)` seen from the reference point `p`: six times the signed
    volume of the tetrahedron `(p, a, b, c)`; positive iff `p` is on the inner side of an
    outward-wound triangle -/
def orient (p a b c : V3 α) : α :=
  (M3.mk (a.x - p.x) (a.y - p.y) (a.z - p.z) (b.x - p.x) (b.y - p.y) (b.z - p.z)
         (c.x - p.x) (c.y - p.y) (c.z - p.z)).det

end Affine

end NgVerif.Mesh
