import NgVerif.Model.MiniShard
/-
  Buffers: the disk-backed write buffers of the sharded writer under I/O failures
  (`sharded_file_accessor.OnDiskByteArray.__add__`, `MiniShard.flush_buffer`), as repaired by the
  fixes F35 / F36, next to the behaviour before the repair (kept for the counterexamples).
-/
namespace NgVerif.Buffers

/-- `OnDiskByteArray`: the buffer file and the length the object believes it has -/
structure ODB where
  file : List Nat
  len : Nat
  deriving Repr, DecidableEq

/-- what happens to one `__add__` -/
inductive Ev where
  | ok
  | failOpen                 -- `open(..., "ab")` raises: nothing reaches the file
  | failWrite (k : Nat)      -- `write` / `close` raises after `k` bytes of the payload reached the file
  deriving Repr, DecidableEq

/-- `__add__` (repaired): write, on `OSError` truncate the file back to `_len` and re-raise, count the
    bytes only after the write. Returns the new state and whether the call returned normally. -/
def add (b : ODB) (o : List Nat) : Ev → ODB × Bool
  | .ok => (⟨b.file ++ o, b.len + o.length⟩, true)
  | .failOpen => (⟨b.file.take b.len, b.len⟩, false)
  | .failWrite k => (⟨(b.file ++ o.take k).take b.len, b.len⟩, false)

/-- `__add__` before the repair: the length was counted first and a partial write stayed -/
def addOld (b : ODB) (o : List Nat) : Ev → ODB × Bool
  | .ok => (⟨b.file ++ o, b.len + o.length⟩, true)
  | .failOpen => (⟨b.file, b.len + o.length⟩, false)
  | .failWrite k => (⟨b.file ++ o.take k, b.len + o.length⟩, false)

/-- a history of appends, each with its fate -/
def runAdds (step : ODB → List Nat → Ev → ODB × Bool) (b : ODB) : List (List Nat × Ev) → ODB
  | [] => b
  | (o, e) :: t => runAdds step (step b o e).1 t

/-- what an in-memory `bytearray` holds after the same calls: the payloads of the appends that
    returned normally, in order -/
def memory : List (List Nat × Ev) → List Nat
  | [] => []
  | (o, .ok) :: t => o ++ memory t
  | (_, _) :: t => memory t

open MS in
/-- `MiniShard.flush_buffer` (repaired order: append, then remove from the buffer) when the append
    that would be number `okN + 1` of this call raises. Returns the state and the chunks appended. -/
def flushFail (nxt : Nat → Nat) : Nat → Nat → St → St × List (Nat × Payload)
  | 0, _, s => (s, [])
  | f + 1, okN, s =>
    match get? s.buf (nxt s.appended) with
    | none => (s, [])
    | some p =>
      match okN with
      | 0 => (s, [])                       -- the append raised: the chunk is still buffered
      | n + 1 =>
        let r := flushFail nxt f n (append { s with buf := del s.buf (nxt s.appended) } p (nxt s.appended))
        (r.1, (nxt s.appended, p) :: r.2)

open MS in
/-- before the repair: the chunk was popped first, so a failing append lost it -/
def flushFailOld (nxt : Nat → Nat) : Nat → Nat → St → St × List (Nat × Payload)
  | 0, _, s => (s, [])
  | f + 1, okN, s =>
    match get? s.buf (nxt s.appended) with
    | none => (s, [])
    | some p =>
      match okN with
      | 0 => ({ s with buf := del s.buf (nxt s.appended) }, [])
      | n + 1 =>
        let r := flushFailOld nxt f n (append { s with buf := del s.buf (nxt s.appended) } p (nxt s.appended))
        (r.1, (nxt s.appended, p) :: r.2)

end NgVerif.Buffers
