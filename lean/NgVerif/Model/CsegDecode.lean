import NgVerif.Model.Cseg
/-
  CsegDecode: (1) `specVoxel` / `specDecode` — a decoder written only from the published
  compressed_segmentation format; (2) `implDecode` — the package's `decode_chunk_into` with every
  primitive's failure mode (struct, slicing, frombuffer, fancy indexing) made explicit.
-/
namespace NgVerif.Cseg

/-- 32-bit little-endian word `i` of a byte string, `none` when out of range -/
def w32 (b : Bytes) (i : Nat) : Option Nat :=
  if 4 * i + 4 ≤ b.length then some (leVal ((b.drop (4 * i)).take 4)) else none

def validBits (bits : Nat) : Bool := Generated.csegBitsDec.contains bits

/-! ### (1) specification decoder, voxel by voxel -/

/-- the inner part of the specification: read the table index of in-block position `i` from the
    packed values, then the label from the look-up table (`valAt`, `lutAt` read 32-bit words
    relative to the start of the block's values / look-up table) -/
def decodeIn (itemsize : Nat) (lutAt valAt : Nat → Option Nat) (bits i : Nat) : Option Nat := do
  let idx ← (if bits = 0 then some 0 else
    (valAt (i * bits / 32)).map fun w => w / 2 ^ (i * bits % 32) % 2 ^ bits)
  if itemsize = 8 then do
    let lo ← lutAt (2 * idx)
    let hi ← lutAt (2 * idx + 1)
    some (lo + hi * 2 ^ 32)
  else lutAt idx

def specBitsOk (bits : Nat) : Bool :=
  bits == 0 || bits == 1 || bits == 2 || bits == 4 || bits == 8 || bits == 16 || bits == 32

/-- the specification decoder for one voxel of one channel; `rd` reads 32-bit words relative to
    the start of the channel -/
def chanVoxel (rd : Nat → Option Nat) (itemsize : Nat) (s : Shape) (bk : Blk3) (z y x : Nat) :
    Option Nat := do
  let g := gridOf s bk
  let bi := x / bk.bx + g.1 * (y / bk.by' + g.2.1 * (z / bk.bz))
  let h0 ← rd (2 * bi)
  let h1 ← rd (2 * bi + 1)
  let lutOff := h0 % 2 ^ 24
  let bits := h0 / 2 ^ 24
  if !specBitsOk bits then none else
  let i := x % bk.bx + bk.bx * (y % bk.by' + bk.by' * (z % bk.bz))
  decodeIn itemsize (fun k => rd (lutOff + k)) (fun k => rd (h1 + k)) bits i

/-- the specification decoder for one voxel, over an abstract word reader `rd` of the file:
    word `c` is the offset (in words) of channel `c` -/
def specVoxelR (rd : Nat → Option Nat) (itemsize : Nat) (s : Shape) (bk : Blk3) (c z y x : Nat) :
    Option Nat := do
  let chOff ← rd c
  chanVoxel (fun k => rd (chOff + k)) itemsize s bk z y x

def specVoxel (itemsize : Nat) (s : Shape) (bk : Blk3) (file : Bytes) (c z y x : Nat) : Option Nat :=
  specVoxelR (w32 file) itemsize s bk c z y x

/-- all voxels in C order (c, z, y, x) -/
def voxelCoords (s : Shape) : List (Nat × Nat × Nat × Nat) :=
  (List.range s.c).flatMap fun c => (List.range s.z).flatMap fun z =>
    (List.range s.y).flatMap fun y => (List.range s.x).map fun x => (c, z, y, x)

def specDecode (itemsize : Nat) (s : Shape) (bk : Blk3) (file : Bytes) : Option (List Nat) :=
  (voxelCoords s).mapM fun (c, z, y, x) => specVoxel itemsize s bk file c z y x

/-! ### (2) the package's decoder -/

inductive Err where
  | format        -- InvalidFormatError (the documented error)
  | struct        -- struct.error
  | value         -- ValueError (e.g. frombuffer size not a multiple of the item size)
  | index         -- IndexError escaping
  deriving Repr, DecidableEq

/-- Python `buf[a:b]` for `0 ≤ a`, any integer `b` (clamping, empty when reversed) -/
def pySlice (b : Bytes) (a : Nat) (e : Int) : Bytes :=
  let e' := if e < 0 then (max 0 ((b.length : Int) + e)).toNat else min e.toNat b.length
  (b.drop a).take (e' - a)

/-- `np.frombuffer(bytes, dtype)` with items of `k` bytes -/
def fromBuffer (k : Nat) (b : Bytes) : Except Err (List Nat) :=
  if b.length % k ≠ 0 then .error .value
  else .ok ((List.range (b.length / k)).map fun i => leVal ((b.drop (k * i)).take k))

/-- decode one block of one channel: the `n = bx·by·bz` values in (dz, dy, dx) order -/
def implBlock (itemsize : Nat) (cbuf : Bytes) (n bi : Nat) : Except Err (List Nat) := do
  -- struct.unpack_from("<II", buf, 8 * bi)
  if cbuf.length < 8 * bi + 8 then .error .struct else
  let r0 := leVal ((cbuf.drop (8 * bi)).take 4)
  let r1 := leVal ((cbuf.drop (8 * bi + 4)).take 4)
  let lutOff : Nat := 4 * (r0 % 2 ^ 24)
  let bits : Nat := r0 / 2 ^ 24
  if !validBits bits then .error .format else
  let valsOff : Nat := 4 * r1
  let pastEnd : Int := (lutOff : Int) + (itemsize : Int) *
    min ((2 : Int) ^ bits) (((cbuf.length : Int) - (lutOff : Int)) / (itemsize : Int))
  let lut ← fromBuffer itemsize (pySlice cbuf lutOff pastEnd)
  if bits = 0 then
    match lut with
    | [] => .error .format           -- IndexError caught
    | v :: _ => .ok (List.replicate n v)
  else
    let vp := 32 / bits
    let valsEnd := valsOff + 4 * ceilDiv n vp
    if valsEnd > cbuf.length then .error .format else
    let packed ← fromBuffer 4 (pySlice cbuf valsOff valsEnd)
    let idxs := (List.range n).map fun k => packed[k / vp]! / 2 ^ ((k % vp) * bits) % 2 ^ bits
    if idxs.any (fun k => lut.length ≤ k) then .error .format    -- IndexError caught
    else .ok (idxs.map fun k => lut[k]!)

/-- all blocks of channel `c`: `_decode_channel_into` on `buf[offset:]` -/
def implChannel (itemsize : Nat) (s : Shape) (bk : Blk3) (buf : Bytes) (c : Nat) :
    Except Err (List (List Nat)) :=
  let g := gridOf s bk
  let ng := g.1 * g.2.1 * g.2.2
  let off := 4 * leVal ((buf.drop (4 * c)).take 4)
  if off + 8 * ng > buf.length then .error .format else
  (List.range ng).mapM fun bi => implBlock itemsize (buf.drop off) (bk.bx * bk.by' * bk.bz) bi

def implDecode (itemsize : Nat) (s : Shape) (bk : Blk3) (buf : Bytes) : Except Err (List Nat) :=
  let g := gridOf s bk
  let ng := g.1 * g.2.1 * g.2.2
  if buf.length < s.c * (4 + 8 * ng) then .error .format else
  match (List.range s.c).mapM (implChannel itemsize s bk buf) with
  | .error e => .error e
  | .ok chans =>
    -- scatter the blocks (removing the padding)
    .ok ((voxelCoords s).map fun (c, z, y, x) =>
      let bi := x / bk.bx + g.1 * (y / bk.by' + g.2.1 * (z / bk.bz))
      let i := x % bk.bx + bk.bx * (y % bk.by' + bk.by' * (z % bk.bz))
      ((chans[c]!)[bi]!)[i]!)

end NgVerif.Cseg
