import NgVerif.Model.Digits
/-
  Morton: `sharded_base.ShardVolumeSpec` — grid sizes, bit counts, the compressed Morton code
  and `get_cmc` (chunk coordinates → identifier, or rejection).

  Python:
      for i in range(max(self.num_bits)):
          for dim in range(3):
              if 2 ** i < self.grid_sizes[dim]:
                  bit = (((np.uint64(grid_coords[dim]) >> np.uint64(i)) & one) << j)
                  code |= bit
                  j += one
  The constructor refuses grids with sum(num_bits) > 64, so `j < 64` and no uint64 shift
  overflows: the OR of distinct bit positions is the base-2 value of the emitted bit list.
-/
namespace NgVerif.Morton

/-- smallest `k` with `2^k ≥ g` (`math.ceil(math.log2(g))` for g ≥ 1; exact model, the float
    `log2` is exact at powers of two and monotone — compared with the real code in the tie) -/
def clog2 (g : Nat) : Nat := Nat.log2 (g - 1) + (if g ≤ 1 then 0 else 1)

/-- `math.ceil(size / chunk_size)` -/
def gridSize (size cs : Nat) : Nat := (size + cs - 1) / cs

/-- bits emitted at level `i` for the axes `(grid size, coordinate)`, in axis order x, y, z -/
def levelBits (i : Nat) : List (Nat × Nat) → List Nat
  | [] => []
  | (g, c) :: t => if 2 ^ i < g then (c / 2 ^ i % 2) :: levelBits i t else levelBits i t

/-- all emitted bits, level 0 first: the order in which the loop ORs them in -/
def allBits (gcs : List (Nat × Nat)) : Nat → List Nat
  | 0 => []
  | n + 1 => allBits gcs n ++ levelBits n gcs

/-- the code as computed by the loop over `n = max(num_bits)` levels -/
def codeN (gcs : List (Nat × Nat)) (n : Nat) : Nat := ofDigits 2 (allBits gcs n)

def maxBits (gs : List Nat) : Nat := gs.foldl (fun a g => max a (clog2 g)) 0

def sumBits (gs : List Nat) : Nat := (gs.map clog2).sum

/-- `compressed_morton_code` including its argument checks (Python ints as `Int`) -/
def code (gs : List Nat) (cs : List Int) : Except String Nat :=
  if cs.any (· < 0) then .error "ShardedIOError:negative"
  else if !(List.zip cs gs).all (fun (c, g) => c < (g : Int)) then .error "ShardedIOError:outside"
  else .ok (codeN (gs.zip (cs.map Int.toNat)) (maxBits gs))

/-- SPECIFICATION (Neuroglancer sharded format, "compressed Morton code"): bit `i` of axis `d`
    is emitted iff `i < bits[d]`, level by level, x fastest -/
def specLevel (i : Nat) : List (Nat × Nat) → List Nat
  | [] => []
  | (g, c) :: t => if i < clog2 g then (c / 2 ^ i % 2) :: specLevel i t else specLevel i t

def specBits (gcs : List (Nat × Nat)) : Nat → List Nat
  | 0 => []
  | n + 1 => specBits gcs n ++ specLevel n gcs

def spec (gs cs : List Nat) : Nat := ofDigits 2 (specBits (gs.zip cs) (maxBits gs))

/-- `get_cmc`: lattice test with Python `%`, `int(xmin / xcs)`, then the code -/
def getCmc (sizes chunk : List Nat) (mins : List Int) : Except String Nat :=
  if (List.zip mins chunk).any (fun (lo, c) => lo % (c : Int) != 0) then .error "ShardedIOError:lattice"
  else
    let gs := (List.zip sizes chunk).map fun (s, c) => gridSize s c
    -- int(lo / c) truncates toward zero; lo is a multiple of c here so any division agrees
    let coords := (List.zip mins chunk).map fun (lo, c) => lo / (c : Int)
    code gs coords

end NgVerif.Morton
