import NgVerif.Model.Prim
import NgVerif.Generated.Tables
/-
  Readable: exact model of `utils.readable_count` on Python ints (naturals).

  * `format(count, ".0f")` and `count / factor` first round the integer to float64
    (`f64round`; the identity below 2^53). Division by a power of two is exact.
  * `format(q, ".1f")` / `format(q, ".0f")` are the round-half-even of the exact binary
    value to tenths / units: `rhe (10·F) factor`, `rhe F factor`.
  * `len(num_str) <= 3`  ⇔  tenths ≤ 99  resp.  whole ≤ 999.
-/
namespace NgVerif.Readable

/-- nearest float64 to a natural number (round-half-even on the 53-bit significand) -/
def f64round (n : Nat) : Nat :=
  if n < 2 ^ 53 then n else
    let e := Nat.log2 n - 52
    rhe n (2 ^ e) * 2 ^ e

inductive Out where
  | plain (n : Nat)                       -- "n "
  | tenths (t : Nat) (f : Nat) (pfx : String)    -- "d.d Xi"   (t = value in tenths of f)
  | whole (w : Nat) (f : Nat) (pfx : String)     -- "www Xi"
  | fallback (w : Nat) (f : Nat) (pfx : String)  -- "w,www Ei"
  deriving DecidableEq, Repr

/-- the loop over the prefixes, current code (after the `fix:` for the 10.0 band) -/
def go (F : Nat) (last : Nat × String) : List (Nat × String) → Out
  | [] => .fallback (rhe F last.1) last.1 last.2
  | (f, p) :: ks =>
    let t := rhe (10 * F) f
    if t ≤ 99 then .tenths t f p else
      let w := rhe F f
      if w ≤ 999 then .whole w f p else go F last ks

def countWith (pfxs : List (Nat × String)) (n : Nat) : Out :=
  let F := f64round n
  if F ≤ 999 then .plain F else go F (pfxs.getLastD (1, "")) pfxs

/-- `readable_count` with the prefixes regenerated from the source -/
def count (n : Nat) : Out := countWith Generated.iecPrefixes n

/-- the loop of the code before the fix (kept for the counterexample theorem) -/
def goOld (n F : Nat) (last : Nat × String) : List (Nat × String) → Out
  | [] => .fallback (rhe F last.1) last.1 last.2
  | (f, p) :: ks =>
    if 10 * f < n then
      let w := rhe F f
      if w ≤ 999 then .whole w f p else goOld n F last ks
    else
      let t := rhe (10 * F) f
      if t ≤ 99 then .tenths t f p else goOld n F last ks

def countOld (n : Nat) : Out :=
  let F := f64round n
  if F ≤ 999 then .plain F
  else goOld n F (Generated.iecPrefixes.getLastD (1, "")) Generated.iecPrefixes

/-- decimal digits, structurally (used for rendering and for `width`) -/
def numDigits (n : Nat) : Nat :=
  if n < 10 then 1 else if n < 100 then 2 else if n < 1000 then 3 else (toString n).length

/-- thousands separators as in Python's `,` format option -/
def commaGroup (n : Nat) : String :=
  let s := (toString n).toList
  let rec grp : List Char → List Char
    | a :: b :: c :: d :: rest => a :: b :: c :: ',' :: grp (d :: rest)
    | l => l
  String.ofList (grp s.reverse).reverse

def render : Out → String
  | .plain n => toString n ++ " "
  | .tenths t _ p => toString (t / 10) ++ "." ++ toString (t % 10) ++ " " ++ p
  | .whole w _ p => toString w ++ " " ++ p
  | .fallback w _ p => commaGroup w ++ " " ++ p

/-- length of the rendered string, numerically (prefixes are two characters) -/
def width : Out → Nat
  | .plain n => numDigits n + 1
  | .tenths t _ _ => numDigits (t / 10) + 5
  | .whole w _ _ => numDigits w + 3
  | .fallback w _ _ => numDigits w + (numDigits w - 1) / 3 + 3

/-- at least two significant digits are shown -/
def twoSig : Out → Prop
  | .plain _ => True
  | .tenths t _ _ => 10 ≤ t ∧ t ≤ 99
  | .whole w _ _ => 10 ≤ w ∧ w ≤ 999
  | .fallback _ _ _ => False

/-- every case the docstring promises: ≤ 6 characters, ≥ 2 significant digits, no fallback -/
def good : Out → Prop
  | .plain n => n ≤ 999
  | .tenths t _ _ => 10 ≤ t ∧ t ≤ 99
  | .whole w _ _ => 10 ≤ w ∧ w ≤ 999
  | .fallback _ _ _ => False

/-- the shown number is the round-to-nearest of `F / factor` at the shown precision:
    `|shown·f − F| ≤ f/2` in units, resp. tenths -/
def accurate (F : Nat) : Out → Prop
  | .plain n => n = F
  | .tenths t f _ => 2 * f * t ≤ 2 * (10 * F) + f ∧ 2 * (10 * F) ≤ 2 * f * t + f
  | .whole w f _ => 2 * f * w ≤ 2 * F + f ∧ 2 * F ≤ 2 * f * w + f
  | .fallback w f _ => 2 * f * w ≤ 2 * F + f ∧ 2 * F ≤ 2 * f * w + f

end NgVerif.Readable
