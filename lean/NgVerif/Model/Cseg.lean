import NgVerif.Model.Prim
import NgVerif.Model.Digits
import NgVerif.Generated.Tables
/-
  Cseg: `_compressed_segmentation.py` — encoder, the package's decoder, and a decoder + structural
  validator written ONLY from the Neuroglancer compressed_segmentation format text.

  Everything in the format is 4-byte aligned, so the encoder model works on little-endian
  32-bit WORDS (`List Nat`, each < 2^32); `toBytes` turns words into bytes at the very end.
  A chunk is a flat list in C order (c, z, y, x) together with its shape.
-/
namespace NgVerif.Cseg

structure Shape where
  c : Nat
  z : Nat
  y : Nat
  x : Nat
  deriving Repr, DecidableEq

structure Blk3 where   -- block size in (x, y, z) order, as in the info file
  bx : Nat
  by' : Nat
  bz : Nat
  deriving Repr, DecidableEq

def Shape.size (s : Shape) : Nat := s.c * s.z * s.y * s.x

/-- voxel accessor of a flat C-order chunk -/
def vox (s : Shape) (d : List Nat) (c z y x : Nat) : Nat := d[((c * s.z + z) * s.y + y) * s.x + x]!

def gridOf (s : Shape) (b : Blk3) : Nat × Nat × Nat :=
  (ceilDiv s.x b.bx, ceilDiv s.y b.by', ceilDiv s.z b.bz)

/-! ### block-level encoding -/

/-- insert into a sorted duplicate-free list -/
def insertSorted (v : Nat) : List Nat → List Nat
  | [] => [v]
  | a :: t => if v < a then v :: a :: t else if v = a then a :: t else a :: insertSorted v t

/-- `np.unique`: sorted distinct values -/
def uniqueSorted (l : List Nat) : List Nat := l.foldl (fun acc v => insertSorted v acc) []

/-- `number_of_encoding_bits` over the bit widths read from the source -/
def numBits (n : Nat) : Option Nat := Generated.csegBitsEnc.find? fun b => decide (n ≤ 2 ^ b)

/-- most frequent value, smallest on ties (`unique_vals[argmax(counts)]`) -/
def mostFrequent (l : List Nat) : Nat :=
  let u := uniqueSorted l
  let cnt := fun v => l.count v
  u.foldl (fun best v => if cnt best < cnt v then v else best) (u.headD 0)

/-- the voxels of block (bxi, byi, bzi) of one channel, in (dz, dy, dx) C order, padded to the
    full block with the most frequent value of the part that lies inside the chunk -/
def blockVals (s : Shape) (b : Blk3) (d : List Nat) (c bxi byi bzi : Nat) : List Nat :=
  let inside := fun (dz dy dx : Nat) =>
    bzi * b.bz + dz < s.z ∧ byi * b.by' + dy < s.y ∧ bxi * b.bx + dx < s.x
  let cells := (List.range b.bz).flatMap fun dz => (List.range b.by').flatMap fun dy =>
    (List.range b.bx).map fun dx => (dz, dy, dx)
  let present := cells.filterMap fun (dz, dy, dx) =>
    if inside dz dy dx then some (vox s d c (bzi * b.bz + dz) (byi * b.by' + dy) (bxi * b.bx + dx)) else none
  let pad := mostFrequent present
  cells.map fun (dz, dy, dx) =>
    if inside dz dy dx then vox s d c (bzi * b.bz + dz) (byi * b.by' + dy) (bxi * b.bx + dx) else pad

/-- `_pack_encoded_values`: `32 / bits` table indices per 32-bit word, low bits first -/
def packWords (bits : Nat) (ix : List Nat) : List Nat :=
  if bits = 0 then [] else
  let vp := 32 / bits
  (List.range ((ix.length + vp - 1) / vp)).map fun j =>
    ofDigits (2 ^ bits) ((ix.drop (j * vp)).take vp)

/-- a look-up table as 32-bit words (`itemsize` 4: one word per entry; 8: low word, high word) -/
def lutWords (itemsize : Nat) (lut : List Nat) : List Nat :=
  if itemsize = 8 then lut.flatMap fun v => [v % 2 ^ 32, v / 2 ^ 32] else lut.map (· % 2 ^ 32)

structure EncBlk where
  lut : List Nat       -- LUT as words
  bits : Nat
  vals : List Nat      -- packed value words
  deriving Repr

def encodeBlock (itemsize : Nat) (vals : List Nat) : Option EncBlk :=
  let lut := uniqueSorted vals
  match numBits lut.length with
  | none => none                                   -- AssertionError("Too many elements")
  | some bits => some { lut := lutWords itemsize lut, bits := bits,
                        vals := packWords bits (vals.map fun v => lut.idxOf v) }

/-! ### channel layout (arena with LUT sharing) -/

structure Acc where
  body : List Nat                       -- words after the header table
  luts : List (List Nat × Nat)          -- stored LUTs (as words) with their offsets
  hdrs : List (Nat × Nat × Nat)         -- (LUT offset, bits, values offset) in visiting order
  deriving Repr

def findLut : List (List Nat × Nat) → List Nat → Option Nat
  | [], _ => none
  | (l, o) :: t, k => if l = k then some o else findLut t k

/-- one iteration of the loop of `_encode_channel`; `H` = header table length in words -/
def stepBlk (H : Nat) (a : Acc) (b : EncBlk) : Acc :=
  match findLut a.luts b.lut with
  | some o =>
    { body := a.body ++ b.vals, luts := a.luts,
      hdrs := a.hdrs ++ [(o, b.bits, H + a.body.length)] }
  | none =>
    { body := (a.body ++ b.lut) ++ b.vals, luts := (b.lut, H + a.body.length) :: a.luts,
      hdrs := a.hdrs ++ [(H + a.body.length, b.bits, H + (a.body ++ b.lut).length)] }

/-- block coordinates in visiting order (`np.ndindex((gz, gy, gx))`) -/
def blockCoords (g : Nat × Nat × Nat) : List (Nat × Nat × Nat) :=
  (List.range g.2.2).flatMap fun bz => (List.range g.2.1).flatMap fun by' =>
    (List.range g.1).map fun bx => (bx, by', bz)

/-- `_encode_channel` as words; `none` = an assertion of the encoder fails -/
def encodeChannel (itemsize : Nat) (s : Shape) (b : Blk3) (d : List Nat) (c : Nat) : Option (List Nat) :=
  let g := gridOf s b
  let H := 2 * (g.1 * g.2.1 * g.2.2)
  let blks := (blockCoords g).mapM fun (bx, by', bz) => encodeBlock itemsize (blockVals s b d c bx by' bz)
  match blks with
  | none => none
  | some blks =>
    let a := blks.foldl (stepBlk H) { body := [], luts := [], hdrs := [] }
    -- assert lookup_table_offset == (lookup_table_offset & 0xFFFFFF); "<II" needs 32-bit values
    if a.hdrs.any (fun h => decide (2 ^ 24 ≤ h.1 ∨ 2 ^ 32 ≤ h.2.2)) then none else
    some ((a.hdrs.flatMap fun h => [h.1 + h.2.1 * 2 ^ 24, h.2.2]) ++ a.body)

/-- `encode_chunk`: channel-offset header (in words) followed by the channels -/
def encodeWords (itemsize : Nat) (s : Shape) (b : Blk3) (d : List Nat) : Option (List Nat) :=
  match (List.range s.c).mapM fun c => encodeChannel itemsize s b d c with
  | none => none
  | some chans => some (starts s.c (chans.map (·.length)) ++ chans.flatten)

def toBytes (ws : List Nat) : Bytes := ws.flatMap (leBytes 4)

/-- the encoded chunk; `none` when an assertion of the encoder fails or a word does not fit in
    32 bits (`struct.pack_into("<I")` raises) -/
def encode (itemsize : Nat) (s : Shape) (b : Blk3) (d : List Nat) : Option Bytes :=
  match encodeWords itemsize s b d with
  | none => none
  | some ws => if ws.all (fun w => decide (w < 2 ^ 32)) then some (toBytes ws) else none

end NgVerif.Cseg
