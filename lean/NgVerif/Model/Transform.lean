import NgVerif.Model.Prim
/-
  Transform: `volume_reader.nibabel_image_to_info` (transform part) and
  `transform.nifti_to_neuroglancer_transform`, over exact rationals `num / den`.
  The voxel sizes (column norms of the affine, a square root) are an INPUT observed from the run.
-/
namespace NgVerif.Transform

/-- a rational number as numerator / positive denominator (not normalised) -/
structure Q where
  n : Int
  d : Nat
  deriving Repr

def Q.add (a b : Q) : Q := ⟨a.n * b.d + b.n * a.d, a.d * b.d⟩
def Q.sub (a b : Q) : Q := ⟨a.n * b.d - b.n * a.d, a.d * b.d⟩
def Q.mul (a b : Q) : Q := ⟨a.n * b.n, a.d * b.d⟩
/-- division by a positive rational -/
def Q.div (a b : Q) : Q := ⟨a.n * b.d, a.d * b.n.toNat⟩
def Q.ofInt (k : Int) : Q := ⟨k, 1⟩

/-- the 3×4 Neuroglancer transform (row-major, 12 entries) from the affine `a` (3×4, row-major,
    millimetres) and the voxel sizes `v` (mm):
      R[r][c] = a[r][c] / v[c];   t[r] = 10^6·a[r][3] − Σ_c R[r][c]·(½·10^6·v[c]) -/
def neuroglancerTransform (a : List Q) (v : List Q) : List Q :=
  (List.range 3).flatMap fun r =>
    let R := (List.range 3).map fun c => (a.getD (4 * r + c) ⟨0, 1⟩).div (v.getD c ⟨1, 1⟩)
    let half := (List.range 3).map fun c => (Q.mul ⟨500000, 1⟩ (v.getD c ⟨1, 1⟩))
    let shift := (List.zip R half).foldl (fun acc (x : Q × Q) => acc.add (x.1.mul x.2)) ⟨0, 1⟩
    R ++ [((Q.ofInt 1000000).mul (a.getD (4 * r + 3) ⟨0, 1⟩)).sub shift]

/-- `data_type` written into info_fullres.json and the "imperfect type" flag (exit status 4) -/
def guessedType (inputTypeName : String) : String × Bool :=
  if ["uint8", "uint16", "uint32", "uint64", "float32"].contains inputTypeName
  then (inputTypeName, false) else ("float32", true)

end NgVerif.Transform
