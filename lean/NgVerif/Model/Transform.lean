import NgVerif.Model.Prim
/-
  Transform: `volume_reader.nibabel_image_to_info` (transform part) and
  `transform.nifti_to_neuroglancer_transform`, over exact rationals `num / den`.
  The voxel sizes (column norms of the affine, a square root) are an INPUT observed from the run.
-/
namespace NgVerif.Transform

/-- a rational number as numerator / positive denominator (not normalised) -/
structure Q where
  n : Int
  d : Nat
  deriving Repr

def Q.add (a b : Q) : Q := ⟨a.n * b.d + b.n * a.d, a.d * b.d⟩
def Q.sub (a b : Q) : Q := ⟨a.n * b.d - b.n * a.d, a.d * b.d⟩
def Q.mul (a b : Q) : Q := ⟨a.n * b.n, a.d * b.d⟩
/-- division by a positive rational -/
def Q.div (a b : Q) : Q := ⟨a.n * b.d, a.d * b.n.toNat⟩
def Q.ofInt (k : Int) : Q := ⟨k, 1⟩

instance : Add Q := ⟨Q.add⟩
instance : Sub Q := ⟨Q.sub⟩
instance : Mul Q := ⟨Q.mul⟩
instance : Div Q := ⟨Q.div⟩

/-- row `r` of the 3×4 Neuroglancer transform, over any scalar type: affine entries `a r c`, translation
    `t r` (millimetres), voxel sizes `v c` (mm), `million = 10^6` (nm per mm), `half = ½·10^6`:
      R[r][c] = a[r][c] / v[c];   t'[r] = 10^6·t[r] − Σ_c R[r][c]·(½·10^6·v[c])
    (`volume_reader.nibabel_image_to_info` divides the columns by the voxel sizes and scales the
    translation; `transform.nifti_to_neuroglancer_transform` subtracts `R·(0.5·resolution)`) -/
def rowG {α : Type} [Add α] [Sub α] [Mul α] [Div α] (a : Nat → Nat → α) (t v : Nat → α) (half million zero : α)
    (r : Nat) : List α :=
  let R := fun c => a r c / v c
  [R 0, R 1, R 2, million * t r - (zero + R 0 * (half * v 0) + R 1 * (half * v 1) + R 2 * (half * v 2))]

/-- the 3×4 Neuroglancer transform (row-major, 12 entries) from the affine `a` (3×4, row-major,
    millimetres) and the voxel sizes `v` (mm), over exact rationals -/
def neuroglancerTransform (a : List Q) (v : List Q) : List Q :=
  (List.range 3).flatMap fun r =>
    rowG (fun r c => a.getD (4 * r + c) ⟨0, 1⟩) (fun r => a.getD (4 * r + 3) ⟨0, 1⟩) (fun c => v.getD c ⟨1, 1⟩)
      ⟨500000, 1⟩ (Q.ofInt 1000000) ⟨0, 1⟩ r

/-- `data_type` written into info_fullres.json and the "imperfect type" flag (exit status 4) -/
def guessedType (inputTypeName : String) : String × Bool :=
  if ["uint8", "uint16", "uint32", "uint64", "float32"].contains inputTypeName
  then (inputTypeName, false) else ("float32", true)

end NgVerif.Transform
