import NgVerif.Model.Prim
/-
  Pyramid: one axis of `dyadic_pyramid.compute_dyadic_downscaling` (the three axes are
  independent: the 8 octant copies are the product of the per-axis parts, and `copy_block`
  (after the `fix:`) compares the extents axis by axis).

  Per axis: `os`, `ns` old/new size, `oc`, `nc` old/new chunk size.
    f    = 1 if os == ns else 2                  (ValueError unless ns == ceil_div(os, f))
    half = oc // f ;  ff = nc // half            (ZeroDivisionError when half == 0)
  New chunk `n` has extent `E = min(nc·(n+1), ns) - nc·n`:
    part A: new[0 : half]   ← downscaled old chunk `n·ff`
    part B: new[half : E]   ← downscaled old chunk `n·ff + 1`      (only if E > half)
-/
namespace NgVerif.Pyramid

structure Axis where
  os : Nat
  ns : Nat
  oc : Nat
  nc : Nat
  deriving Repr, DecidableEq

inductive Err where
  | zeroDiv       -- ZeroDivisionError
  | factor        -- ValueError: unsupported downscaling factor between the scales
  | noChunk       -- AssertionError: the old chunk to read does not exist
  | shape         -- ValueError: a downscaled block does not fit its destination
  deriving Repr, DecidableEq

def factor (a : Axis) : Nat := if a.os = a.ns then 1 else 2
def half (a : Axis) : Nat := a.oc / factor a
def fetch (a : Axis) : Nat := a.nc / half a

/-- extent of the downscaled old chunk `c` (`ceil(extent / f)`), `none` if the chunk is outside -/
def dsLen (a : Axis) (c : Nat) : Option Nat :=
  if a.oc * c < a.os then some ((min a.oc (a.os - a.oc * c) + factor a - 1) / factor a) else none

/-- number of new chunks along the axis -/
def newChunks (a : Axis) : Nat := ceilDiv a.ns a.nc

def newExtent (a : Axis) (n : Nat) : Nat := min (a.nc * (n + 1)) a.ns - a.nc * n

/-- a part of a new chunk: destination [lo, hi) (local), source old chunk -/
structure Part where
  lo : Nat
  hi : Nat
  src : Nat
  deriving Repr, DecidableEq

/-- the copies of new chunk `n` along this axis, or the error the code raises -/
def plan (a : Axis) (n : Nat) : Except Err (List Part) :=
  -- (the factor test of all axes precedes the division, as in the code)
  if a.ns ≠ ceilDiv a.os (factor a) then .error .factor else
  if half a = 0 then .error .zeroDiv else
  let E := newExtent a n
  let c := n * fetch a
  match dsLen a c with
  | none => .error .noChunk
  | some la =>
    if la ≠ min (half a) E then .error .shape else
    if E ≤ half a then .ok [⟨0, E, c⟩] else
    match dsLen a (c + 1) with
    | none => .error .noChunk
    | some lb => if lb ≠ E - half a then .error .shape else .ok [⟨0, half a, c⟩, ⟨half a, E, c + 1⟩]

/-- the first old voxel that new voxel `p` (global) is computed from, according to the plan -/
def sourceStart (a : Axis) (p : Nat) : Except Err Nat :=
  let n := p / a.nc
  let t := p % a.nc
  match plan a n with
  | .error e => .error e
  | .ok parts =>
    match parts.find? (fun q => q.lo ≤ t ∧ t < q.hi) with
    | none => .error .shape
    | some q => .ok (a.oc * q.src + factor a * (t - q.lo))

/-- SPECIFICATION: downscaling the whole previous level as one array uses old voxels
    [f·p, f·p + f) ∩ [0, os) for new voxel p -/
def specStart (a : Axis) (p : Nat) : Nat := factor a * p

/-- per-axis compatibility: the chunk sizes the octant copy can handle -/
def compatible (a : Axis) : Prop :=
  0 < a.os ∧ 0 < a.oc ∧ 0 < a.nc ∧ a.ns = ceilDiv a.os (factor a) ∧ factor a ∣ a.oc ∧
  (a.nc = half a ∨ a.nc = 2 * half a)

end NgVerif.Pyramid
