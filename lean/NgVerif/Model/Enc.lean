import NgVerif.Generated.Tables
import NgVerif.Model.Pipeline
/-
  Enc: `chunk_encoding.get_encoder` — which codec serves a scale of an info, or `InvalidInfoError`.
  The acceptance tables (`NEUROGLANCER_DATA_TYPES`, the data types of the compressed_segmentation
  encoder, the data type and channel counts of the JPEG encoder) are regenerated from the source.
-/
namespace NgVerif.Enc

inductive Codec where
  | raw | cseg | jpeg
  deriving Repr, DecidableEq

/-- `none` stands for a missing key of the info / scale dictionary -/
structure Req where
  dataType : Option String
  numChannels : Option Int       -- a non-integer value is modelled as `some 0` (refused alike)
  encoding : Option String
  hasBlockSize : Bool
  deriving Repr, DecidableEq

/-- `get_encoder`: `none` = `InvalidInfoError` (no other exception escapes) -/
def select (r : Req) : Option Codec :=
  match r.dataType, r.numChannels, r.encoding with
  | some dt, some nc, some enc =>
    if nc ≤ 0 then none
    else if !Generated.neuroglancerDataTypes.contains dt then none
    else if enc == "raw" then some .raw
    else if enc == "compressed_segmentation" then
      (if !r.hasBlockSize then none
       else if Generated.csegDataTypes.contains dt then some .cseg else none)
    else if enc == "jpeg" then
      (if dt == Generated.jpegDataType && Generated.jpegChannels.contains nc.toNat then some .jpeg else none)
    else none
  | _, _, _ => none

/-- the request `get_encoder` sees for scale `s` of a pipeline info (`Pipeline.InfoM`) -/
def ofInfo (i : Pipeline.InfoM) (s : Pipeline.ScaleM) : Req :=
  ⟨some i.dataType, some (i.numChannels : Int), s.encoding, s.csegBlock.isSome⟩

end NgVerif.Enc
