/-
  Tiling: the chunk ranges every conversion loop computes
  (`volume_reader.volume_to_precomputed`, `convert_chunks.convert_chunks_for_scale`,
   `dyadic_pyramid.compute_dyadic_downscaling`, `scale_stats.show_scales_info`):
     for i in range((size - 1) // cs + 1): (cs*i, min(cs*(i+1), size))
-/
namespace NgVerif.Tiling

/-- number of chunks along one axis: `(size - 1) // cs + 1` -/
def count (size cs : Nat) : Nat := (size - 1) / cs + 1

/-- chunk ranges along one axis -/
def ranges (size cs : Nat) : List (Nat × Nat) :=
  (List.range (count size cs)).map fun i => (cs * i, min (cs * (i + 1)) size)

/-- 3-D grid in the loop order of the code: x outermost … (order only matters for traces) -/
def grid3 (size cs : Nat × Nat × Nat) : List ((Nat × Nat) × (Nat × Nat) × (Nat × Nat)) :=
  (ranges size.1 cs.1).flatMap fun rx =>
    (ranges size.2.1 cs.2.1).flatMap fun ry =>
      (ranges size.2.2 cs.2.2).map fun rz => (rx, ry, rz)

/-- the same cells in the order `volume_to_precomputed` writes them (z outermost, x innermost) -/
def volumeLoop (size cs : Nat × Nat × Nat) : List ((Nat × Nat) × (Nat × Nat) × (Nat × Nat)) :=
  (ranges size.2.2 cs.2.2).flatMap fun rz =>
    (ranges size.2.1 cs.2.1).flatMap fun ry =>
      (ranges size.1 cs.1).map fun rx => (rx, ry, rz)

/-- voxel count of one grid cell -/
def cellVoxels (c : (Nat × Nat) × (Nat × Nat) × (Nat × Nat)) : Nat :=
  (c.1.2 - c.1.1) * ((c.2.1.2 - c.2.1.1) * (c.2.2.2 - c.2.2.1))

end NgVerif.Tiling

/-! ### chunk contents of `volume_reader.volume_to_precomputed` -/
namespace NgVerif.Volume

abbrev Cell := (Nat × Nat) × (Nat × Nat) × (Nat × Nat)

/-- `chunk = np.moveaxis(volume[x0:x1, y0:y1, z0:z1, :], (0, 1, 2, 3), (3, 2, 1, 0))`, flattened in the
    C order of its `(C, Z, Y, X)` shape; a 3-D volume is the case `C = 1` (the code adds the axis) -/
def chunkOf {α} (vol : Nat → Nat → Nat → Nat → α) (C : Nat) (cell : Cell) : List α :=
  (List.range C).flatMap fun c =>
    (List.range (cell.2.2.2 - cell.2.2.1)).flatMap fun dz =>
      (List.range (cell.2.1.2 - cell.2.1.1)).flatMap fun dy =>
        (List.range (cell.1.2 - cell.1.1)).map fun dx =>
          vol (cell.1.1 + dx) (cell.2.1.1 + dy) (cell.2.2.1 + dz) c

/-- every `write_chunk` call of one conversion: the cell and the flattened chunk -/
def convert {α} (vol : Nat → Nat → Nat → Nat → α) (C : Nat) (size cs : Nat × Nat × Nat) : List (Cell × List α) :=
  (Tiling.volumeLoop size cs).map fun cell => (cell, chunkOf vol C cell)

def inCellB (c : Cell) (x y z : Nat) : Bool :=
  (decide (c.1.1 ≤ x) && decide (x < c.1.2)) && ((decide (c.2.1.1 ≤ y) && decide (y < c.2.1.2)) &&
    (decide (c.2.2.1 ≤ z) && decide (z < c.2.2.2)))

/-- reading voxel `(x, y, z)` of channel `c` back from a set of stored chunks, as any reader of the
    precomputed format does: the chunk whose box contains the position, C-order index within its
    `(C, Z, Y, X)` array -/
def readVoxel {α} (chunks : List (Cell × List α)) (x y z c : Nat) : Option α :=
  match chunks.find? (fun ch => inCellB ch.1 x y z) with
  | none => none
  | some (cell, data) =>
    let X := cell.1.2 - cell.1.1
    let Y := cell.2.1.2 - cell.2.1.1
    let Z := cell.2.2.2 - cell.2.2.1
    data[((c * Z + (z - cell.2.2.1)) * Y + (y - cell.2.1.1)) * X + (x - cell.1.1)]?

/-- `nibabel_image_to_precomputed` with `--input-min` / `--input-max`: the array proxy's slope and intercept
    are REWRITTEN so that nibabel's own scaling `raw * slope + inter` performs header scaling and min/max
    rescaling at once (polymorphic in the scalar type; the driver runs it over exact rationals) -/
def rewriteScaling {α} [Add α] [Sub α] [Mul α] [Div α] (slope inter imin imax omin omax : α) : α × α :=
  let ps := (omax - omin) / (imax - imin)
  let pi := omin - imin * ps
  (slope * ps, inter * ps + pi)

end NgVerif.Volume
