/-
  Tiling: the chunk ranges every conversion loop computes
  (`volume_reader.volume_to_precomputed`, `convert_chunks.convert_chunks_for_scale`,
   `dyadic_pyramid.compute_dyadic_downscaling`, `scale_stats.show_scales_info`):
     for i in range((size - 1) // cs + 1): (cs*i, min(cs*(i+1), size))
-/
namespace NgVerif.Tiling

/-- number of chunks along one axis: `(size - 1) // cs + 1` -/
def count (size cs : Nat) : Nat := (size - 1) / cs + 1

/-- chunk ranges along one axis -/
def ranges (size cs : Nat) : List (Nat × Nat) :=
  (List.range (count size cs)).map fun i => (cs * i, min (cs * (i + 1)) size)

/-- 3-D grid in the loop order of the code: x outermost … (order only matters for traces) -/
def grid3 (size cs : Nat × Nat × Nat) : List ((Nat × Nat) × (Nat × Nat) × (Nat × Nat)) :=
  (ranges size.1 cs.1).flatMap fun rx =>
    (ranges size.2.1 cs.2.1).flatMap fun ry =>
      (ranges size.2.2 cs.2.2).map fun rz => (rx, ry, rz)

/-- the same cells in the order `volume_to_precomputed` writes them (z outermost, x innermost) -/
def volumeLoop (size cs : Nat × Nat × Nat) : List ((Nat × Nat) × (Nat × Nat) × (Nat × Nat)) :=
  (ranges size.2.2 cs.2.2).flatMap fun rz =>
    (ranges size.2.1 cs.2.1).flatMap fun ry =>
      (ranges size.1 cs.1).map fun rx => (rx, ry, rz)

/-- voxel count of one grid cell -/
def cellVoxels (c : (Nat × Nat) × (Nat × Nat) × (Nat × Nat)) : Nat :=
  (c.1.2 - c.1.1) * ((c.2.1.2 - c.2.1.1) * (c.2.2.2 - c.2.2.1))

end NgVerif.Tiling
