import NgVerif.Model.Prim
/-
  MiniShard: the write-side reorder buffer of `sharded_file_accessor.MiniShard`
  (`store_cmc_chunk`, `can_be_appended`, `append`, `flush_buffer`, `close`), parametric in the
  identifier enumeration `nxt` (= `next_cmc` as a function of `_appended`).

  State: `appended` (= `_appended`), `lastId` (= `_last_chunk_id`), `buf` (= `_chunk_buffer`,
  an association list), `data` (= `databytearray`), `rows` (= `header`, as (Δid, size) pairs; the
  offset column is 0 except for the first row, which `Shard.close` patches).
-/
namespace NgVerif.MS

abbrev Payload := List Nat

/-- association list helpers -/
def get? : List (Nat × Payload) → Nat → Option Payload
  | [], _ => none
  | (k, v) :: t, i => if k = i then some v else get? t i

def del : List (Nat × Payload) → Nat → List (Nat × Payload)
  | [], _ => []
  | (k, v) :: t, i => if k = i then del t i else (k, v) :: del t i

structure St where
  appended : Nat
  lastId : Nat
  buf : List (Nat × Payload)
  data : List Nat
  rows : List (Nat × Nat)      -- (delta id, size)
  deriving Repr

def St.init : St := ⟨0, 0, [], [], []⟩

def append (s : St) (p : Payload) (id : Nat) : St :=
  { s with data := s.data ++ p, rows := s.rows ++ [(id - s.lastId, p.length)],
           lastId := id, appended := s.appended + 1 }

variable (nxt : Nat → Nat)

/-- `flush_buffer`: while the next expected id is buffered, pop and append it -/
def flush : Nat → St → St
  | 0, s => s
  | f + 1, s =>
    match get? s.buf (nxt s.appended) with
    | some p => flush f (append { s with buf := del s.buf (nxt s.appended) } p (nxt s.appended))
    | none => s

/-- `store_cmc_chunk` (payload already encoded); `none` models the RuntimeError -/
def store (s : St) (id : Nat) (p : Payload) : Option St :=
  if id < nxt s.appended then none
  else if nxt s.appended = id then
    let s' := append s p id
    some (flush nxt s'.buf.length s')
  else some { s with buf := (id, p) :: del s.buf id }

/-- canonical contents after ranks `0..n-1`, for a stored map `S` -/
def canon (S : Nat → Option Payload) : Nat → St
  | 0 => St.init
  | n + 1 => append (canon S n) ((S (nxt n)).getD []) (nxt n)


def update (S : Nat → Option Payload) (id : Nat) (p : Payload) : Nat → Option Payload :=
  fun j => if j = id then some p else S j


/-- `MiniShard.close` after its initial flush: `while len(buffer) > 0: append(b'', next); flush` -/
def closeLoop : Nat → St → St
  | 0, s => s
  | f + 1, s =>
    if s.buf.isEmpty then s
    else
      let s1 := append s [] (nxt s.appended)
      closeLoop f (flush nxt s1.buf.length s1)

def runAll (s : St) : List (Nat × Payload) → Option St
  | [] => some s
  | (id, p) :: ops =>
    match store nxt s id p with
    | none => none
    | some s' => runAll s' ops

/-- the set stored by a history -/
def mapOf (S : Nat → Option Payload) : List (Nat × Payload) → (Nat → Option Payload)
  | [] => S
  | (id, p) :: ops => mapOf (update S id p) ops

/-- a history of stores of pairwise distinct ids, all belonging to this minishard -/
def Ok (S : Nat → Option Payload) : List (Nat × Payload) → Prop
  | [] => True
  | (id, p) :: ops => S id = none ∧ (∃ r, nxt r = id) ∧ Ok (update S id p) ops

def empty : Nat → Option Payload := fun _ => none

end NgVerif.MS

namespace NgVerif.MS

/-- read side at minishard level: walk the (Δid, size) rows; returns (offset in `data`, size) -/
def locate : List (Nat × Nat) → (cur off : Nat) → (id : Nat) → Option (Nat × Nat)
  | [], _, _, _ => none
  | (d, sz) :: t, cur, off, id =>
    if cur + d = id then some (off, sz) else locate t (cur + d) (off + sz) id

def readBack (st : St) (id : Nat) : Option Payload :=
  match locate st.rows 0 0 id with
  | none => none
  | some (off, sz) => some ((st.data.drop off).take sz)

end NgVerif.MS
