import NgVerif.Model.Prim
import NgVerif.Generated.Tables
import NgVerif.Model.Tiling
/-
  Slices: the index map of `scripts/slices_to_precomputed.slices_to_raw_chunks`.
  Orientation code letter `a` (a = 0 column, 1 row, 2 slice) gives the RAS axis of input axis `a`
  (`AXIS_PERMUTATION_FOR_RAS`) and whether it is reversed (`AXIS_INVERSION_FOR_RAS`), both read
  from the source on every run.
-/
namespace NgVerif.Slices

def permOf (c : Char) : Option Nat := (Generated.axisPermutationForRas.find? (·.1 == c)).map (·.2)
def invOf (c : Char) : Option Int := (Generated.axisInversionForRas.find? (·.1 == c)).map (·.2)

/-- the three output axes of a code, `none` if a letter is unknown -/
def perm (code : List Char) : Option (List Nat) := code.mapM permOf
def inv (code : List Char) : Option (List Int) := code.mapM invOf

/-- a code is usable iff its axes are a permutation of {0, 1, 2} -/
def validCode (code : List Char) : Bool :=
  match perm code, inv code with
  | some p, some i => p.length == 3 && i.length == 3 && p.contains 0 && p.contains 1 && p.contains 2
                        && i.all (fun s => s == 1 || s == -1)
  | _, _ => false

/-- one coordinate: kept or reversed -/
def flipIdx (s : Int) (n i : Nat) : Nat := if s == -1 then n - 1 - i else i

/-- output voxel (x, y, z) of input pixel (col, row, slice) for input extents `n` -/
def outCoord (p : List Nat) (s : List Int) (n idx : List Nat) : List Nat :=
  (List.range 3).map fun ax =>
    -- the input axis a with p[a] = ax
    match (List.range 3).find? (fun a => p.getD a 9 == ax) with
    | some a => flipIdx (s.getD a 1) (n.getD a 0) (idx.getD a 0)
    | none => 0

/-- the file positions of slice group `g` in loading order (`filenames[first:stop:step]` with the
    repaired `None` stop): chunk depth `cs`, `n` slices, `reversed` iff the slice axis is inverted -/
def groupFiles (n cs g : Nat) (reversed : Bool) : List Nat :=
  let first := cs * g
  let last := min (cs * (g + 1)) n
  (List.range (last - first)).map fun k => if reversed then n - 1 - (first + k) else first + k

/-! ### the chunk loop of `slices_to_raw_chunks` at index level

    A pixel of the input stack is `[column, row, slice]`; an output voxel is `[x, y, z]` (RAS).
    `perm[a]` is the output axis of input axis `a` (0 column, 1 row, 2 slice), `inv[a] = -1` iff that
    axis is reversed. The code loads the slices of group `g` (`groupFiles`), flips rows/columns by
    slicing with step `inv`, moves the axes with `np.moveaxis(block, (3, 2, 1), (3 - perm[0], 3 - perm[1],
    3 - perm[2]))`, cuts the block with the slicings `permute(input_slicing, invert_permutation(perm))`
    and writes each piece at `permute(input_coords, invert_permutation(perm))`. -/

/-- `utils.permute`: `tuple(seq[i] for i in p)` -/
def permute {α} (seq : List α) (p : List Nat) (d : α) : List α := p.map fun i => seq.getD i d

/-- `utils.invert_permutation`: `s[p[a]] = a` -/
def invertPerm (p : List Nat) : List Nat := (List.range p.length).map fun i => p.idxOf i

/-- the input pixel that ends up at ABSOLUTE output position `o` while slice group `g` is processed:
    flipped block index along columns and rows, position within the loaded group along slices -/
def pixelAt (perm : List Nat) (inv : List Int) (nIn : List Nat) (csSlice g : Nat) (o : List Nat) : List Nat :=
  [ flipIdx (inv.getD 0 1) (nIn.getD 0 0) (o.getD (perm.getD 0 0) 0),
    flipIdx (inv.getD 1 1) (nIn.getD 1 0) (o.getD (perm.getD 1 0) 0),
    (groupFiles (nIn.getD 2 0) csSlice g (inv.getD 2 1 == -1)).getD (o.getD (perm.getD 2 0) 0 - csSlice * g) 0 ]

/-- positions of a box `[(x0,x1),(y0,y1),(z0,z1)]` in the C order of a `(Z, Y, X)` chunk -/
def boxVoxels (box : List (Nat × Nat)) : List (List Nat) :=
  let bx := box.getD 0 (0, 0); let by' := box.getD 1 (0, 0); let bz := box.getD 2 (0, 0)
  (List.range (bz.2 - bz.1)).flatMap fun dz => (List.range (by'.2 - by'.1)).flatMap fun dy =>
    (List.range (bx.2 - bx.1)).map fun dx => [bx.1 + dx, by'.1 + dy, bz.1 + dz]

structure SChunk where
  box : List (Nat × Nat)
  pix : List (List Nat)
  deriving Repr

/-- every `write_chunk` call of one conversion, in order: slice groups, then row chunks, then
    column chunks; `size` and `chunk` are the info's (x, y, z) size and chunk size -/
def stackChunks (perm : List Nat) (inv : List Int) (size chunk : List Nat) : List SChunk :=
  let nIn := permute size perm 0
  let csIn := permute chunk perm 1
  let pti := invertPerm perm
  let n2 := nIn.getD 2 0
  let c2 := csIn.getD 2 1
  (List.range (Tiling.count n2 c2)).flatMap fun g =>
    (Tiling.ranges (nIn.getD 1 0) (csIn.getD 1 1)).flatMap fun rr =>
      (Tiling.ranges (nIn.getD 0 0) (csIn.getD 0 1)).map fun cr =>
        let box := permute [cr, rr, (c2 * g, min (c2 * (g + 1)) n2)] pti (0, 0)
        ⟨box, (boxVoxels box).map (pixelAt perm inv nIn c2 g)⟩

end NgVerif.Slices
