import NgVerif.Model.Prim
import NgVerif.Generated.Tables
/-
  Slices: the index map of `scripts/slices_to_precomputed.slices_to_raw_chunks`.
  Orientation code letter `a` (a = 0 column, 1 row, 2 slice) gives the RAS axis of input axis `a`
  (`AXIS_PERMUTATION_FOR_RAS`) and whether it is reversed (`AXIS_INVERSION_FOR_RAS`), both read
  from the source on every run.
-/
namespace NgVerif.Slices

def permOf (c : Char) : Option Nat := (Generated.axisPermutationForRas.find? (·.1 == c)).map (·.2)
def invOf (c : Char) : Option Int := (Generated.axisInversionForRas.find? (·.1 == c)).map (·.2)

/-- the three output axes of a code, `none` if a letter is unknown -/
def perm (code : List Char) : Option (List Nat) := code.mapM permOf
def inv (code : List Char) : Option (List Int) := code.mapM invOf

/-- a code is usable iff its axes are a permutation of {0, 1, 2} -/
def validCode (code : List Char) : Bool :=
  match perm code, inv code with
  | some p, some i => p.length == 3 && i.length == 3 && p.contains 0 && p.contains 1 && p.contains 2
                        && i.all (fun s => s == 1 || s == -1)
  | _, _ => false

/-- one coordinate: kept or reversed -/
def flipIdx (s : Int) (n i : Nat) : Nat := if s == -1 then n - 1 - i else i

/-- output voxel (x, y, z) of input pixel (col, row, slice) for input extents `n` -/
def outCoord (p : List Nat) (s : List Int) (n idx : List Nat) : List Nat :=
  (List.range 3).map fun ax =>
    -- the input axis a with p[a] = ax
    match (List.range 3).find? (fun a => p.getD a 9 == ax) with
    | some a => flipIdx (s.getD a 1) (n.getD a 0) (idx.getD a 0)
    | none => 0

/-- the file positions of slice group `g` in loading order (`filenames[first:stop:step]` with the
    repaired `None` stop): chunk depth `cs`, `n` slices, `reversed` iff the slice axis is inverted -/
def groupFiles (n cs g : Nat) (reversed : Bool) : List Nat :=
  let first := cs * g
  let last := min (cs * (g + 1)) n
  (List.range (last - first)).map fun k => if reversed then n - 1 - (first + k) else first + k

end NgVerif.Slices
