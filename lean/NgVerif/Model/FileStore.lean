import NgVerif.Model.Prim
import NgVerif.Generated.Tables
/-
  FileStore: `file_accessor.FileAccessor` over an abstract file system.

  * a path is its list of components (pathlib's lexical normalisation: empty and "." components
    are dropped, ".." is kept); the file system maps component lists to contents
  * a `.gz` file holds a gzip stream: content `gz b` decompresses to `b` (law of the external)
  * probing order of the code: plain name first, then name + ".gz"; for chunks the flat pattern
    first, then the sub-directory pattern, LAST match wins
-/
namespace NgVerif.FileStore

inductive Content where
  | plain (b : Bytes)
  | gz (b : Bytes)          -- a valid gzip stream of `b`
  deriving Repr, DecidableEq

abbrev Path := List String
abbrev FS := List (Path × Content)

def FS.get (fs : FS) (p : Path) : Option Content :=
  match fs.find? (fun e => e.1 == p) with
  | some e => some e.2
  | none => none

def FS.put (fs : FS) (p : Path) (c : Content) : FS := (p, c) :: fs.filter (fun e => e.1 != p)

inductive Err where
  | refused         -- ValueError: name outside the dataset directory
  | access          -- DataAccessError
  deriving Repr, DecidableEq

structure Cfg where
  flat : Bool
  gzip : Bool
  deriving Repr, DecidableEq

/-- pathlib components of a relative name; `none` for an absolute name -/
def parts (rel : String) : Option Path :=
  if rel.startsWith "/" then none
  else some ((rel.splitOn "/").filter fun s => s != "" && s != ".")

/-- the confinement test: relative and without ".." component -/
def confined (rel : String) : Option Path :=
  match parts rel with
  | none => none
  | some ps => if ps.contains ".." then none else some ps

/-- append ".gz" to the file name (`with_name(name + ".gz")`) -/
def gzName (p : Path) : Path :=
  match p.reverse with
  | [] => [".gz"]
  | last :: rest => (rest.reverse) ++ [last ++ ".gz"]

def compresses (cfg : Cfg) (mime : String) : Bool :=
  cfg.gzip && !(Generated.noCompressMimeTypes.contains mime)

/-- a proper ancestor of `p` is a regular file (`os.makedirs` / `open` fail with an OSError) -/
def fileAncestor (fs : FS) (p : Path) : Bool :=
  fs.any fun e => decide (e.1.length < p.length) && (p.take e.1.length == e.1)

/-- `p` is a directory: some file lives strictly below it -/
def isDir (fs : FS) (p : Path) : Bool :=
  fs.any fun e => decide (p.length < e.1.length) && (e.1.take p.length == p)

def blocked (fs : FS) (p : Path) : Bool := fileAncestor fs p || isDir fs p

/-- the path actually written: name, or name + ".gz" when the content is compressed -/
def targetOf (cfg : Cfg) (mime : String) (p : Path) : Path := if compresses cfg mime then gzName p else p

def contentOf (cfg : Cfg) (mime : String) (buf : Bytes) : Content :=
  if compresses cfg mime then Content.gz buf else Content.plain buf

/-- write `c` at `t` with mode "wb" / "xb" -/
def writeAt (fs : FS) (t : Path) (c : Content) (overwrite : Bool) : Except Err FS :=
  if blocked fs t then .error .access                          -- NotADirectoryError / IsADirectoryError
  else if !overwrite && (fs.get t).isSome then .error .access  -- mode "xb": FileExistsError
  else .ok (fs.put t c)

def storeFile (cfg : Cfg) (fs : FS) (rel : String) (buf : Bytes) (mime : String) (overwrite : Bool) :
    Except Err FS :=
  match confined rel with
  | none => .error .refused
  | some p => writeAt fs (targetOf cfg mime p) (contentOf cfg mime buf) overwrite

/-- what a read returns: the bytes, or (when a `.gz` file is opened under its own name, without
    decompression) the raw gzip stream of some bytes -/
inductive Read where
  | bytes (b : Bytes)
  | stream (b : Bytes)
  deriving Repr, DecidableEq

def rawRead : Content → Read
  | .plain b => .bytes b
  | .gz b => .stream b

def fetchFile (fs : FS) (rel : String) : Except Err Read :=
  match confined rel with
  | none => .error .refused
  | some p =>
    match fs.get p with
    | some c => .ok (rawRead c)   -- opened as is, no decompression
    | none =>
      match fs.get (gzName p) with
      | some (.gz b) => .ok (.bytes b)
      | some (.plain b) =>                        -- not a gzip file: BadGzipFile; an EMPTY file reads as b""
        if b.isEmpty then .ok (.bytes []) else .error .access
      | none => .error .access

def fileExists (fs : FS) (rel : String) : Except Err Bool :=
  match confined rel with
  | none => .error .refused
  | some p => .ok ((fs.get p).isSome || (fs.get (gzName p)).isSome)

/-! ### chunks -/

def coordStr (lo hi : Nat) : String := toString lo ++ "-" ++ toString hi

/-- chunk path for a layout: flat `key/x-X_y-Y_z-Z`, sub-directories `key/x-X/y-Y/z-Z` -/
def chunkPath (flat : Bool) (key : String) (c : Nat × Nat × Nat × Nat × Nat × Nat) : Path :=
  let (x0, x1, y0, y1, z0, z1) := c
  if flat then [key, coordStr x0 x1 ++ "_" ++ coordStr y0 y1 ++ "_" ++ coordStr z0 z1]
  else [key, coordStr x0 x1, coordStr y0 y1, coordStr z0 z1]

/-- the scale key is part of the chunk's relative name: `_chunk_path` (after fix F38) refuses a key that makes the
    name absolute (empty key: `"/0-1_..."`) or contains a `..` component, like the file methods do -/
def slashComps : List Char → List Char → List (List Char)
  | cur, [] => [cur.reverse]
  | cur, '/' :: t => cur.reverse :: slashComps [] t
  | cur, ch :: t => slashComps (ch :: cur) t

def chunkRefused (key : String) : Bool :=
  let cs := key.toList
  cs.isEmpty || cs.head? == some '/' || (slashComps [] cs).contains ['.', '.']

/-- `store_chunk` once the name is accepted -/
def storeChunkIn (cfg : Cfg) (fs : FS) (key : String) (c : Nat × Nat × Nat × Nat × Nat × Nat) (buf : Bytes)
    (mime : String) (overwrite : Bool) : Except Err FS :=
  writeAt fs (targetOf cfg mime (chunkPath cfg.flat key c)) (contentOf cfg mime buf) overwrite

def storeChunk (cfg : Cfg) (fs : FS) (key : String) (c : Nat × Nat × Nat × Nat × Nat × Nat) (buf : Bytes)
    (mime : String) (overwrite : Bool) : Except Err FS :=
  if chunkRefused key then .error .refused else storeChunkIn cfg fs key c buf mime overwrite

/-- one probe of `fetch_chunk`: plain, else `.gz`; `none` = nothing there -/
def probe (fs : FS) (p : Path) : Option (Except Err Read) :=
  match fs.get p with
  | some c => some (.ok (rawRead c))
  | none =>
    match fs.get (gzName p) with
    | some (.gz b) => some (.ok (.bytes b))
    | some (.plain b) => some (if b.isEmpty then .ok (.bytes []) else .error .access)
    | none => none

def fetchChunkIn (fs : FS) (key : String) (c : Nat × Nat × Nat × Nat × Nat × Nat) : Except Err Read :=
  -- flat first, then sub-directories; the last match wins
  match probe fs (chunkPath false key c) with
  | some r => r
  | none =>
    match probe fs (chunkPath true key c) with
    | some r => r
    | none => .error .access

def fetchChunk (fs : FS) (key : String) (c : Nat × Nat × Nat × Nat × Nat × Nat) : Except Err Read :=
  if chunkRefused key then .error .refused else fetchChunkIn fs key c

end NgVerif.FileStore
