import NgVerif.Model.Conv
import NgVerif.Model.Cseg
/-
  Down: `downscaling.py` — striding, majority and averaging downscalers on one channel, in
  "function form": a 3-D array is `f : z → y → x → Int` with extents (Z, Y, X).

  Averaging (factors 1 or 2 per axis): the code promotes to float64, then per axis (z, y, x) pads
  an odd extent with the edge value or the configured outside value and replaces pairs by
  `0.5 * (a + b)`, and finally converts back (rint half-even, clip, cast). On values below 2^50
  every float64 operation is exact, so the model carries exact SUMS and divides once at the end.
-/
namespace NgVerif.Down

abbrev Arr3 := Nat → Nat → Nat → Int

structure Ext where
  z : Nat
  y : Nat
  x : Nat
  deriving Repr, DecidableEq

def outExt (e : Ext) (fz fy fx : Nat) : Ext := ⟨ceilDiv e.z fz, ceilDiv e.y fy, ceilDiv e.x fx⟩

/-! ### striding -/

def stride (f : Arr3) (fz fy fx : Nat) : Arr3 := fun z y x => f (z * fz) (y * fy) (x * fx)

/-! ### majority -/

/-- the values of the border-clipped block of output voxel (z, y, x), in C order -/
def blockValues (f : Arr3) (e : Ext) (fz fy fx z y x : Nat) : List Nat :=
  (List.range (min fz (e.z - z * fz))).flatMap fun dz =>
    (List.range (min fy (e.y - y * fy))).flatMap fun dy =>
      (List.range (min fx (e.x - x * fx))).map fun dx => (f (z * fz + dz) (y * fy + dy) (x * fx + dx)).toNat

def majority (f : Arr3) (e : Ext) (fz fy fx : Nat) : Arr3 :=
  fun z y x => (Cseg.mostFrequent (blockValues f e fz fy fx z y x) : Int)

/-! ### averaging -/

/-- padding: `none` = replicate the edge value, `some c` = the outside value (scaled by the
    number of values already summed into each entry) -/
def padded (g : Nat → Int) (n : Nat) (outside : Option Int) (i : Nat) : Int :=
  if i < n then g i else match outside with
    | none => g (n - 1)
    | some c => c

/-- one stage along an axis of extent `n`: pairs are replaced by their SUM -/
def pairSum (g : Nat → Int) (n : Nat) (outside : Option Int) (factor : Nat) (i : Nat) : Int :=
  if factor = 2 then padded g n outside (2 * i) + padded g n outside (2 * i + 1) else g i

/-- the three stages (z, then y, then x); `outside` is in units of one voxel -/
def sums (f : Arr3) (e : Ext) (outside : Option Int) (fz fy fx : Nat) : Arr3 :=
  let sz : Nat := if fz = 2 then 2 else 1
  let sy : Nat := if fy = 2 then 2 else 1
  let a1 : Arr3 := fun z y x => pairSum (fun i => f i y x) e.z outside fz z
  let a2 : Arr3 := fun z y x => pairSum (fun j => a1 z j x) e.y (outside.map (· * sz)) fy y
  fun z y x => pairSum (fun k => a2 z y k) e.x (outside.map (· * (sz * sy))) fx x

def halvings (fz fy fx : Nat) : Nat :=
  (if fz = 2 then 1 else 0) + (if fy = 2 then 1 else 0) + (if fx = 2 then 1 else 0)

/-- the averaging downscaler for an integer data type `t` -/
def average (t : Conv.Ty) (f : Arr3) (e : Ext) (outside : Option Int) (fz fy fx : Nat) :
    Nat → Nat → Nat → Option Int :=
  fun z y x => Conv.toInt .f64 t ⟨sums f e outside fz fy fx z y x, halvings fz fy fx⟩

/-! ### specification of averaging: mean of the completed block -/

/-- the input completed beyond its border -/
def completed (f : Arr3) (e : Ext) (outside : Option Int) : Arr3 :=
  fun z y x => match outside with
    | none => f (min z (e.z - 1)) (min y (e.y - 1)) (min x (e.x - 1))
    | some c => if z < e.z ∧ y < e.y ∧ x < e.x then f z y x else c

def blockSum (F : Arr3) (fz fy fx z y x : Nat) : Int :=
  ((List.range fz).map fun dz => ((List.range fy).map fun dy => ((List.range fx).map fun dx =>
    F (z * fz + dz) (y * fy + dy) (x * fx + dx)).sum).sum).sum

/-! ### selection: `downscaling.get_downscaler(method, info, options)` -/

/-- the downscaler object that is built, with the option that reaches it -/
inductive Sel where
  | average (outside : Option Int)
  | majority
  | stride
  deriving Repr, DecidableEq

/-- `get_downscaler`: `auto` is resolved by the info's type (`image` → averaging, anything else → striding) and the
    SAME options are handed on; an unknown name is `NotImplementedError` (`none`). `infoType` is only looked at
    for `auto` (the commands always pass an info then). -/
def getDownscaler (method infoType : String) (outside : Option Int) : Option Sel :=
  if method = "auto" then
    (if infoType = "image" then some (.average outside) else some .stride)
  else if method = "average" then some (.average outside)
  else if method = "majority" then some .majority
  else if method = "stride" then some .stride
  else none

/-- the output voxel the selected downscaler computes (`none` = the value would wrap, see `average`) -/
def Sel.voxel (s : Sel) (t : Conv.Ty) (f : Arr3) (e : Ext) (fz fy fx z y x : Nat) : Option Int :=
  match s with
  | .average o => Down.average t f e o fz fy fx z y x
  | .majority => some (Down.majority f e fz fy fx z y x)
  | .stride => some (Down.stride f fz fy fx z y x)

end NgVerif.Down
