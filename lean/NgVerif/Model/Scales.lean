import NgVerif.Model.Prim
import NgVerif.Model.Morton
/-
  Scales: the integer part of `dyadic_pyramid.fill_scales_for_dyadic_pyramid`.
  Inputs: full-resolution sizes, per-axis level delays `d_i = round(log2(res_i / min res))`
  (computed from exact rationals by the harness and compared with the code's float result),
  target chunk exponent `e` (`target_chunk_size = 2^e`), optional `max_scales`.
-/
namespace NgVerif.Scales

/-- downscaling factor of axis with delay `d` at level `L` -/
def fac (L d : Nat) : Nat := 2 ^ (L - d)

def sizeAt (s L d : Nat) : Nat := ceilDiv s (fac L d)

/-- the reduction of excess chunk anisotropy (after the `fix:` a loop) -/
def reduce : Nat → List Nat → Nat → List Nat
  | 0, afs, _ => afs
  | fuel + 1, afs, cap =>
    if afs.sum ≤ cap then afs else
    let nz := (afs.filter (· ≠ 0)).length
    let red := ceilDiv (afs.sum - cap) nz
    reduce fuel (afs.map (· - red)) cap

/-- chunk size exponents of level `L` -/
def chunkExps (delays : List Nat) (e L : Nat) : List Nat :=
  let maxd := delays.foldl max 0
  let afs := delays.map fun d => maxd - d - L
  let afs := reduce (afs.sum + 1) afs (3 * e)
  let base := e - (afs.sum + 1) / 3
  afs.map (base + ·)

def chunkSizes (delays : List Nat) (e L : Nat) : List Nat := (chunkExps delays e L).map (2 ^ ·)

/-- number of scales: `max(1, min(max_scales, max_i(ceil(log2(size_i / 2^e)) + d_i)))` -/
def count (sizes delays : List Nat) (e : Nat) (maxScales : Option Nat) : Nat :=
  let need := (List.zip sizes delays).foldl (fun (m : Int) (sd : Nat × Nat) =>
    max m ((Morton.clog2 sd.1 : Int) - (e : Int) + (sd.2 : Int))) (Int.negSucc 1000000)
  let n : Int := match maxScales with
    | some k => if k = 0 then need else min need (k : Int)
    | none => need
  (max n 1).toNat

/-! ### the per-axis delays -/

/-- least `k ≥ k0` (within the fuel) with `(n/d)² < 2^(2k+1)` -/
def delayFuel : Nat → Nat → Nat → Nat → Nat
  | 0, k, _, _ => k
  | f + 1, k, n, d => if n * n < 2 ^ (2 * k + 1) * (d * d) then k else delayFuel f (k + 1) n d

/-- `int(round(math.log2(q)))` for the resolution ratio `q = n / d ≥ 1` of an axis to the finest axis
    (`n / d` is the exact value of the float quotient the code computes): the integer nearest to `log2 q`,
    i.e. the `k` with `2^(k-½) ≤ q < 2^(k+½)`, decided on squares in integer arithmetic. (`log2 q` is never
    a half-integer for rational `q`; that libm's `log2` and `round` land on the nearest integer is the
    assumption the correspondence run checks.) -/
def delay (n d : Nat) : Nat := delayFuel n 0 n d

/-- delays of the three axes from the ratios to the finest axis -/
def delays (ratios : List (Nat × Nat)) : List Nat := ratios.map fun q => delay q.1 q.2

end NgVerif.Scales
