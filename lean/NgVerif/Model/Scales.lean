import NgVerif.Model.Prim
import NgVerif.Model.Morton
/-
  Scales: the integer part of `dyadic_pyramid.fill_scales_for_dyadic_pyramid`.
  Inputs: full-resolution sizes, per-axis level delays `d_i = round(log2(res_i / min res))`
  (computed from exact rationals by the harness and compared with the code's float result),
  target chunk exponent `e` (`target_chunk_size = 2^e`), optional `max_scales`.
-/
namespace NgVerif.Scales

/-- downscaling factor of axis with delay `d` at level `L` -/
def fac (L d : Nat) : Nat := 2 ^ (L - d)

def sizeAt (s L d : Nat) : Nat := ceilDiv s (fac L d)

/-- the reduction of excess chunk anisotropy (after the `fix:` a loop) -/
def reduce : Nat → List Nat → Nat → List Nat
  | 0, afs, _ => afs
  | fuel + 1, afs, cap =>
    if afs.sum ≤ cap then afs else
    let nz := (afs.filter (· ≠ 0)).length
    let red := ceilDiv (afs.sum - cap) nz
    reduce fuel (afs.map (· - red)) cap

/-- chunk size exponents of level `L` -/
def chunkExps (delays : List Nat) (e L : Nat) : List Nat :=
  let maxd := delays.foldl max 0
  let afs := delays.map fun d => maxd - d - L
  let afs := reduce (afs.sum + 1) afs (3 * e)
  let base := e - (afs.sum + 1) / 3
  afs.map (base + ·)

def chunkSizes (delays : List Nat) (e L : Nat) : List Nat := (chunkExps delays e L).map (2 ^ ·)

/-- number of scales: `max(1, min(max_scales, max_i(ceil(log2(size_i / 2^e)) + d_i)))` -/
def count (sizes delays : List Nat) (e : Nat) (maxScales : Option Nat) : Nat :=
  let need := (List.zip sizes delays).foldl (fun (m : Int) (sd : Nat × Nat) =>
    max m ((Morton.clog2 sd.1 : Int) - (e : Int) + (sd.2 : Int))) (Int.negSucc 1000000)
  let n : Int := match maxScales with
    | some k => if k = 0 then need else min need (k : Int)
    | none => need
  (max n 1).toNat

end NgVerif.Scales
