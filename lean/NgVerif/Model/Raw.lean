import NgVerif.Model.Prim
/-
  Raw: `RawChunkEncoder` (tobytes / frombuffer+reshape) and the decision logic of the JPEG
  decoder wrapper `_jpeg.decode_chunk` around an abstract PIL (the engine is a parameter).
-/
namespace NgVerif.Raw

inductive Err where
  | format          -- InvalidFormatError
  | other           -- anything else escaping
  deriving Repr, DecidableEq

/-- `chunk.tobytes()` of little-endian items (values are the unsigned bit patterns) -/
def encode (itemsize : Nat) (vals : List Nat) : Bytes := vals.flatMap (leBytes itemsize)

/-- `np.frombuffer(buf, dtype).reshape(C, Z, Y, X)`; every exception is turned into
    InvalidFormatError by the `except Exception` clause -/
def decode (itemsize : Nat) (count : Nat) (buf : Bytes) : Except Err (List Nat) :=
  if buf.length % itemsize ≠ 0 then .error .format            -- frombuffer: ValueError
  else if buf.length / itemsize ≠ count then .error .format   -- reshape: ValueError
  else .ok ((List.range count).map fun i => leVal ((buf.drop (itemsize * i)).take itemsize))

/-- what PIL did with the byte string (observed by the harness, a parameter of the theorem) -/
structure Pil where
  openOk : Bool          -- `PIL.Image.open` returned
  modeL : Bool           -- img.mode == "L"
  modeRGB : Bool         -- img.mode == "RGB"
  loadOk : Bool          -- `np.asarray(img)` returned (pixel data decoded)
  pixels : Nat           -- number of array elements of the decoded image
  deriving Repr

/-- `_jpeg.decode_chunk`: `.ok n` = an array of `n` elements reshaped to (C, Z, Y, X) -/
def jpegWrapper (p : Pil) (numChannels count : Nat) : Except Err Nat :=
  if !p.openOk then .error .format
  else if numChannels = 1 ∧ !p.modeL then .error .format
  else if numChannels = 3 ∧ !p.modeRGB then .error .format
  else if !p.loadOk then .error .format        -- (after the fix: the load is inside the try)
  else if p.pixels ≠ count then .error .format -- reshape fails
  else .ok count

end NgVerif.Raw
