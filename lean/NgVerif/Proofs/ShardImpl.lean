import NgVerif.Proofs.ShardFile
/- the package's own shard reader (`populate_minishard_dict` + `fetch_cmc_chunk`) on the file `Shard.close` writes -/
namespace NgVerif.Shard
open NgVerif NgVerif.MS

theorem foldlM_append_spec {α β} (f : List β → α → Option (List β)) (g : α → List β) :
    ∀ (l : List α) (init : List β), (∀ a ∈ l, ∀ acc, f acc a = some (acc ++ g a)) →
      l.foldlM f init = some (init ++ l.flatMap g)
  | [], init, _ => by simp
  | a :: t, init, h => by
    rw [List.foldlM_cons, h a List.mem_cons_self init]
    simp only [Option.bind_eq_bind, Option.bind_some]
    rw [foldlM_append_spec f g t (init ++ g a) (fun b hb acc => h b (List.mem_cons_of_mem _ hb) acc)]
    simp [List.flatMap_cons, List.append_assoc]

/-- everything the readers need to know about slot `k` of the file `Shard.close` writes -/
theorem slot_present (m : Nat) (minis : List Mini) (wf : Wf minis) (hslots : minis.length ≤ 2 ^ m)
    (k : Nat) (hk : k < minis.length) :
    (fileOf m minis).length = 2 ^ m * 16 + dszOf minis + (ilenOf minis).sum ∧
    word (fileOf m minis) (2 * k) = dszOf minis + ((ilenOf minis).take k).sum ∧
    word (fileOf m minis) (2 * k + 1)
      = dszOf minis + ((ilenOf minis).take k).sum + ((indices minis)[k]'(by rw [indices_length]; exact hk)).length ∧
    ((fileOf m minis).drop (2 ^ m * 16 + (dszOf minis + ((ilenOf minis).take k).sum))).take
      ((indices minis)[k]'(by rw [indices_length]; exact hk)).length
        = (indices minis)[k]'(by rw [indices_length]; exact hk) ∧
    decodeIndex ((indices minis)[k]'(by rw [indices_length]; exact hk))
      = some (rows3 (((minis.map (·.data.length)).take k).sum) minis[k].rows) ∧
    ((indices minis)[k]'(by rw [indices_length]; exact hk)).length = 24 * minis[k].rows.length ∧
    ((minis.map (·.data.length)).take k).sum + minis[k].data.length ≤ dszOf minis := by
  have hilen : (ilenOf minis).length = minis.length := by simp [ilenOf, indices_length]
  have hent : (entriesOf (dszOf minis) (ilenOf minis)).length = minis.length := by
    rw [entriesOf_length, hilen]
  have hpad : (paddedOf m minis).length = 2 ^ m := by
    simp only [paddedOf, List.length_append, List.length_replicate]; omega
  have hH : (u64s (pairs (paddedOf m minis))).length = 2 ^ m * 16 := by
    rw [u64s_length, pairs_length, hpad]; omega
  have hDlen : ((minis.map (·.data)).flatten).length = dszOf minis := by
    simp [dszOf, List.length_flatten, List.map_map, Function.comp_def]
  have hIlen : ((indices minis).flatten).length = (ilenOf minis).sum := by
    simp [ilenOf, List.length_flatten]
  have hflen : (fileOf m minis).length = 2 ^ m * 16 + dszOf minis + (ilenOf minis).sum := by
    simp only [fileOf, List.length_append, hH, hDlen, hIlen]
  have hki : k < (ilenOf minis).length := by omega
  have hpk : k < (paddedOf m minis).length := by omega
  have hkidx : k < (indices minis).length := by rw [indices_length]; exact hk
  have htotal := wf.total
  have hsmall : ∀ v ∈ pairs (paddedOf m minis), v < 2 ^ 64 := by
    intro v hv
    obtain ⟨e, he, hve⟩ := mem_pairs _ v hv
    have hb : e.1 ≤ dszOf minis + (ilenOf minis).sum ∧ e.2 ≤ dszOf minis + (ilenOf minis).sum := by
      simp only [paddedOf] at he
      rcases List.mem_append.mp he with h | h
      · exact entriesOf_bound _ _ e h
      · have := List.eq_of_mem_replicate h; subst this; exact ⟨Nat.le_refl _, Nat.le_refl _⟩
    rcases hve with h | h <;> omega
  have hpadk : (paddedOf m minis)[k] = (dszOf minis + ((ilenOf minis).take k).sum,
      dszOf minis + ((ilenOf minis).take k).sum + (ilenOf minis)[k]) := by
    simp only [paddedOf]
    rw [List.getElem_append_left (by omega)]
    exact entriesOf_getElem _ _ k hki
  have hIk : (ilenOf minis)[k] = ((indices minis)[k]).length := by simp [ilenOf]
  have hw1 : word (fileOf m minis) (2 * k) = dszOf minis + ((ilenOf minis).take k).sum := by
    simp only [fileOf, List.append_assoc]
    rw [word_u64s _ _ (2 * k) (by rw [pairs_length]; omega) hsmall, (pairs_getElem _ k hpk).1, hpadk]
  have hw2 : word (fileOf m minis) (2 * k + 1)
      = dszOf minis + ((ilenOf minis).take k).sum + (ilenOf minis)[k] := by
    simp only [fileOf, List.append_assoc]
    rw [word_u64s _ _ (2 * k + 1) (by rw [pairs_length]; omega) hsmall, (pairs_getElem _ k hpk).2, hpadk]
  have hsum := sum_take_add_le (ilenOf minis) k hki
  have htk : ((ilenOf minis).take k).sum = (((indices minis).take k).map List.length).sum := by
    simp [ilenOf, List.map_take]
  have hregion : ((fileOf m minis).drop (2 ^ m * 16 + (dszOf minis + ((ilenOf minis).take k).sum))).take
      (ilenOf minis)[k] = (indices minis)[k] := by
    have e0 : 2 ^ m * 16 + (dszOf minis + ((ilenOf minis).take k).sum)
        = (u64s (pairs (paddedOf m minis)) ++ (minis.map (·.data)).flatten).length
          + ((((indices minis).take k).map List.length).sum + 0) := by
      rw [List.length_append, hH, hDlen, htk]; omega
    rw [e0]
    simp only [fileOf]
    rw [List.drop_append]
    have := drop_flatten_append (indices minis) [] k hkidx 0 (Nat.zero_le _)
    simp only [List.append_nil, List.drop_zero] at this
    rw [List.drop_eq_nil_of_le (by omega), List.nil_append]
    have e1 : ∀ a b : Nat, a + b - a = b := by intro a b; omega
    rw [e1, this, hIk, List.take_append_of_le_length (Nat.le_refl _), List.take_length]
  have hoff : ((minis.map (·.data.length)).take k).sum + minis[k].data.length ≤ dszOf minis := by
    have := sum_take_add_le (minis.map (·.data.length)) k (by simpa using hk)
    simpa [dszOf] using this
  have hdec : decodeIndex ((indices minis)[k])
      = some (rows3 (((minis.map (·.data.length)).take k).sum) minis[k].rows) := by
    rw [indices_getElem minis k hk]
    apply decodeIndex_encodeIndex
    apply rows3_small
    · omega
    · exact wf.small _ (List.getElem_mem hk)
  refine ⟨hflen, hw1, ?_, ?_, hdec, ?_, hoff⟩
  · rw [hw2, hIk]
  · rw [← hIk]; exact hregion
  · rw [indices_getElem minis k hk]
    have hr3 : (rows3 (((minis.map (·.data.length)).take k).sum) minis[k].rows).length = minis[k].rows.length := by
      cases minis[k].rows with
      | nil => rfl
      | cons a t => obtain ⟨d, sz⟩ := a; simp [rows3]
    simp only [indexBytes, encodeIndex, List.length_append, u64s_length, List.length_map, hr3]
    omega

/-- the unused slots at the end of the shard index are padded with (end, end) -/
theorem slot_padded (m : Nat) (minis : List Mini) (wf : Wf minis) (hslots : minis.length ≤ 2 ^ m)
    (k : Nat) (hk1 : minis.length ≤ k) (hk2 : k < 2 ^ m) :
    word (fileOf m minis) (2 * k) = word (fileOf m minis) (2 * k + 1) := by
  have hilen : (ilenOf minis).length = minis.length := by simp [ilenOf, indices_length]
  have hent : (entriesOf (dszOf minis) (ilenOf minis)).length = minis.length := by
    rw [entriesOf_length, hilen]
  have hpad : (paddedOf m minis).length = 2 ^ m := by
    simp only [paddedOf, List.length_append, List.length_replicate]; omega
  have hpk : k < (paddedOf m minis).length := by omega
  have htotal := wf.total
  have hsmall : ∀ v ∈ pairs (paddedOf m minis), v < 2 ^ 64 := by
    intro v hv
    obtain ⟨e, he, hve⟩ := mem_pairs _ v hv
    have hb : e.1 ≤ dszOf minis + (ilenOf minis).sum ∧ e.2 ≤ dszOf minis + (ilenOf minis).sum := by
      simp only [paddedOf] at he
      rcases List.mem_append.mp he with h | h
      · exact entriesOf_bound _ _ e h
      · have := List.eq_of_mem_replicate h; subst this; exact ⟨Nat.le_refl _, Nat.le_refl _⟩
    rcases hve with h | h <;> omega
  have hpadk : (paddedOf m minis)[k] = (dszOf minis + (ilenOf minis).sum, dszOf minis + (ilenOf minis).sum) := by
    simp only [paddedOf]
    rw [List.getElem_append_right (by omega)]
    simp
  simp only [fileOf, List.append_assoc]
  rw [word_u64s _ _ (2 * k) (by rw [pairs_length]; omega) hsmall, (pairs_getElem _ k hpk).1,
    word_u64s _ _ (2 * k + 1) (by rw [pairs_length]; omega) hsmall, (pairs_getElem _ k hpk).2, hpadk]


/-- a slice of the data of minishard `k`, addressed through the file -/
theorem data_slice (m : Nat) (minis : List Mini) (hslots : minis.length ≤ 2 ^ m)
    (k : Nat) (hk : k < minis.length) (o sz : Nat) (hb : o + sz ≤ minis[k].data.length) :
    ((fileOf m minis).drop (2 ^ m * 16 + (((minis.map (·.data.length)).take k).sum + o))).take sz
      = (minis[k].data.drop o).take sz := by
  have hilen : (ilenOf minis).length = minis.length := by simp [ilenOf, indices_length]
  have hent : (entriesOf (dszOf minis) (ilenOf minis)).length = minis.length := by
    rw [entriesOf_length, hilen]
  have hpad : (paddedOf m minis).length = 2 ^ m := by
    simp only [paddedOf, List.length_append, List.length_replicate]; omega
  have hH : (u64s (pairs (paddedOf m minis))).length = 2 ^ m * 16 := by
    rw [u64s_length, pairs_length, hpad]; omega
  have e4 : 2 ^ m * 16 + (((minis.map (·.data.length)).take k).sum + o)
      = (u64s (pairs (paddedOf m minis))).length
        + ((((minis.map (·.data)).take k).map List.length).sum + o) := by
    rw [hH]
    simp [List.map_take, List.map_map, Function.comp_def]
  rw [e4]
  simp only [fileOf, List.append_assoc]
  rw [List.drop_append, List.drop_eq_nil_of_le (by omega), List.nil_append]
  have e1 : ∀ a b : Nat, a + b - a = b := by intro a b; omega
  rw [e1]
  have := drop_flatten_append (minis.map (·.data)) ((indices minis).flatten) k (by simpa using hk) o
    (by simp; omega)
  rw [this]
  simp only [List.getElem_map]
  rw [List.take_append_of_le_length (by simp only [List.length_drop]; omega)]

theorem find_unique {β} (key : Nat) : ∀ (l : List (Nat × β)) (e : Nat × β), e ∈ l → e.1 = key →
    (∀ x ∈ l, x.1 = key → x = e) → l.find? (fun x => x.1 == key) = some e
  | [], e, he, _, _ => by cases he
  | a :: t, e, he, hek, hu => by
    by_cases ha : a.1 = key
    · have : a = e := hu a List.mem_cons_self ha
      subst this
      simp [ha]
    · have hb : (a.1 == key) = false := by simpa using ha
      rw [List.find?_cons, hb]
      have het : e ∈ t := by
        rcases List.mem_cons.mp he with rfl | h
        · exact absurd hek ha
        · exact h
      exact find_unique key t e het hek (fun x hx => hu x (List.mem_cons_of_mem _ hx))

/-- the dictionary entry `populate_minishard_dict` builds for the `k`-th present minishard -/
def entryAt (minis : List Mini) (k : Nat) : Nat × List (Nat × Nat × Nat) :=
  match minis[k]? with
  | some mn => (mn.key, rows3 (((minis.map (·.data.length)).take k).sum) mn.rows)
  | none => (0, [])

/-- `populate_minishard_dict` on the file `Shard.close` writes: one entry per present minishard,
    in file order, keyed by the minishard number of its first identifier -/
theorem populate_fileOf (m p : Nat) (minis : List Mini) (wf : Wf minis) (hslots : minis.length ≤ 2 ^ m)
    (hfirst : ∀ mn ∈ minis, ∃ d sz t, mn.rows = (d, sz) :: t ∧ Routing.minishardKey m p d = mn.key) :
    populate m p (fileOf m minis) =
      some ((List.range (2 ^ m)).flatMap fun k => if k < minis.length then [entryAt minis k] else []) := by
  unfold populate
  have hlen : ¬ (fileOf m minis).length < 2 ^ m * 16 := by
    cases hm : minis with
    | nil =>
      simp [fileOf, u64s_length, pairs_length, paddedOf, entriesOf, ilenOf, indices, dszOf, starts]
      omega
    | cons a t =>
      have h0 : 0 < minis.length := by rw [hm]; simp
      have := (slot_present m minis wf hslots 0 h0).1
      rw [← hm]; omega
  simp only [hlen, if_false]
  have := foldlM_append_spec
    (fun (acc : List (Nat × List (Nat × Nat × Nat))) slot =>
      if word (fileOf m minis) (2 * slot + 1) = word (fileOf m minis) (2 * slot) then some acc else
      match decodeIndex (((fileOf m minis).drop (2 ^ m * 16 + word (fileOf m minis) (2 * slot))).take
          (word (fileOf m minis) (2 * slot + 1) - word (fileOf m minis) (2 * slot))) with
      | some ((d0, o0, z0) :: t) => some (acc ++ [(Routing.minishardKey m p d0, (d0, o0, z0) :: t)])
      | _ => none)
    (fun k => if k < minis.length then [entryAt minis k] else []) (List.range (2 ^ m)) []
  simp only [List.nil_append] at this
  apply this
  intro k hkr acc
  have hk2 : k < 2 ^ m := List.mem_range.mp hkr
  by_cases hk : k < minis.length
  · obtain ⟨_, hw1, hw2, hreg, hdec, hlen24, _⟩ := slot_present m minis wf hslots k hk
    obtain ⟨d, sz, t, hrows, hkey⟩ := hfirst minis[k] (List.getElem_mem hk)
    have hpos : 0 < ((indices minis)[k]'(by rw [indices_length]; exact hk)).length := by
      rw [hlen24, hrows]; simp
    rw [hw1, hw2]
    have hne : ¬ (dszOf minis + ((ilenOf minis).take k).sum
        + ((indices minis)[k]'(by rw [indices_length]; exact hk)).length
        = dszOf minis + ((ilenOf minis).take k).sum) := by omega
    rw [if_neg hne]
    have e3 : dszOf minis + ((ilenOf minis).take k).sum
        + ((indices minis)[k]'(by rw [indices_length]; exact hk)).length
        - (dszOf minis + ((ilenOf minis).take k).sum)
        = ((indices minis)[k]'(by rw [indices_length]; exact hk)).length := by omega
    rw [e3, hreg, hdec, hrows]
    simp only [rows3, if_pos hk, entryAt, List.getElem?_eq_getElem hk, hrows, hkey]
  · have := slot_padded m minis wf hslots k (by omega) hk2
    rw [if_pos this.symm, if_neg hk, List.append_nil]


/-- THE PACKAGE'S OWN READER on the file its writer produces: every identifier of a present
    minishard is looked up in that minishard's rows and the bytes returned are the slice of that
    minishard's data — whatever slots the minishard indices occupy (so also under finding F8). -/
theorem implFetch_fileOf (m p : Nat) (minis : List Mini) (wf : Wf minis) (hslots : minis.length ≤ 2 ^ m)
    (hfirst : ∀ mn ∈ minis, ∃ d sz t, mn.rows = (d, sz) :: t ∧ Routing.minishardKey m p d = mn.key)
    (hkeys : ∀ i j (hi : i < minis.length) (hj : j < minis.length), minis[i].key = minis[j].key → i = j)
    (id k : Nat) (hk : k < minis.length) (hid : Routing.minishardKey m p id = minis[k].key) :
    implFetch m p (fileOf m minis) id =
      (locate minis[k].rows 0 0 id).map fun (o, sz) => (minis[k].data.drop o).take sz := by
  unfold implFetch
  rw [populate_fileOf m p minis wf hslots hfirst]
  simp only []
  have hentry : entryAt minis k
      = (minis[k].key, rows3 (((minis.map (·.data.length)).take k).sum) minis[k].rows) := by
    simp [entryAt, List.getElem?_eq_getElem hk]
  have hfind := find_unique (Routing.minishardKey m p id)
    ((List.range (2 ^ m)).flatMap fun k => if k < minis.length then [entryAt minis k] else []).reverse
    (entryAt minis k)
    (by
      rw [List.mem_reverse, List.mem_flatMap]
      exact ⟨k, List.mem_range.mpr (by omega), by rw [if_pos hk]; exact List.mem_singleton.mpr rfl⟩)
    (by rw [hentry]; exact hid.symm)
    (by
      intro x hx hxk
      rw [List.mem_reverse, List.mem_flatMap] at hx
      obtain ⟨j, _, hj⟩ := hx
      by_cases hjl : j < minis.length
      · rw [if_pos hjl, List.mem_singleton] at hj
        subst hj
        have hej : entryAt minis j
            = (minis[j].key, rows3 (((minis.map (·.data.length)).take j).sum) minis[j].rows) := by
          simp [entryAt, List.getElem?_eq_getElem hjl]
        rw [hej] at hxk
        simp only [] at hxk
        have : j = k := hkeys j k hjl hk (by rw [hxk, hid])
        subst this
        rfl
      · rw [if_neg hjl] at hj; cases hj)
  rw [hfind, hentry]
  simp only [lookup_rows3]
  cases hloc : locate minis[k].rows 0 0 id with
  | none => simp
  | some r =>
    obtain ⟨o, sz⟩ := r
    simp only [Option.map_some]
    have hb := locate_bound id minis[k].rows 0 0 o sz hloc
    have hsz := wf.sizes _ (List.getElem_mem hk)
    congr 1
    have := data_slice m minis hslots k hk o sz (by omega)
    rw [← this]

end NgVerif.Shard
