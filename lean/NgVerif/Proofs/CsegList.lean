import NgVerif.Proofs.CsegMain
/- list-level form of the compressed_segmentation round trip (used by C02 and C13) -/
namespace NgVerif.Cseg

theorem flat2 {β} (A B : Nat) (g : Nat → β) :
    (List.range A).flatMap (fun a => (List.range B).map fun b => g (a * B + b)) = (List.range (A * B)).map g := by
  induction A with
  | zero => simp
  | succ A ih =>
    rw [List.range_succ, List.flatMap_append, ih, Nat.succ_mul, List.range_add, List.map_append]
    simp only [List.flatMap_cons, List.flatMap_nil, List.append_nil, List.map_map]
    congr 1

theorem flatMap_congr' {α β} (f g : α → List β) :
    ∀ (l : List α), (∀ a ∈ l, f a = g a) → l.flatMap f = l.flatMap g
  | [], _ => rfl
  | a :: t, h => by
    rw [List.flatMap_cons, List.flatMap_cons, h a List.mem_cons_self,
      flatMap_congr' f g t (fun b hb => h b (List.mem_cons_of_mem _ hb))]

theorem mapM_all_some {α β} (f : α → Option β) (g : α → β) :
    ∀ (l : List α), (∀ a ∈ l, f a = some (g a)) → l.mapM f = some (l.map g)
  | [], _ => rfl
  | a :: t, h => by
    rw [List.mapM_cons, h a List.mem_cons_self, mapM_all_some f g t (fun b hb => h b (List.mem_cons_of_mem _ hb))]
    rfl

theorem range_map_getElem! (d : List Nat) : (List.range d.length).map (fun i => d[i]!) = d := by
  apply List.ext_getElem
  · simp
  · intro i h1 h2
    simp only [List.getElem_map, List.getElem_range]
    exact getElem!_pos d i h2


theorem voxelCoords_map (s : Shape) (d : List Nat) (hd : d.length = s.c * s.z * s.y * s.x) :
    (voxelCoords s).map (fun (q : Nat × Nat × Nat × Nat) => vox s d q.1 q.2.1 q.2.2.1 q.2.2.2) = d := by
  unfold voxelCoords vox
  simp only [List.map_flatMap, List.map_map, Function.comp_def]
  have h3 : ∀ c z, ((List.range s.y).flatMap fun y => (List.range s.x).map fun x =>
        d[((c * s.z + z) * s.y + y) * s.x + x]!) =
      (List.range (s.y * s.x)).map fun k => d[(c * s.z + z) * (s.y * s.x) + k]! := by
    intro c z
    rw [← flat2 s.y s.x (fun k => d[(c * s.z + z) * (s.y * s.x) + k]!)]
    apply flatMap_congr'
    intro y _
    apply List.map_congr_left
    intro x _
    congr 1
    rw [Nat.add_mul, Nat.mul_assoc, Nat.add_assoc]
  simp only [h3]
  have h2 : ∀ c, ((List.range s.z).flatMap fun z => (List.range (s.y * s.x)).map fun k =>
        d[(c * s.z + z) * (s.y * s.x) + k]!) =
      (List.range (s.z * (s.y * s.x))).map fun k => d[c * (s.z * (s.y * s.x)) + k]! := by
    intro c
    rw [← flat2 s.z (s.y * s.x) (fun k => d[c * (s.z * (s.y * s.x)) + k]!)]
    apply flatMap_congr'
    intro z _
    apply List.map_congr_left
    intro k _
    congr 1
    rw [Nat.add_mul, Nat.mul_assoc, Nat.add_assoc]
  simp only [h2]
  rw [flat2 s.c (s.z * (s.y * s.x)) (fun k => d[k]!)]
  have : s.c * (s.z * (s.y * s.x)) = d.length := by
    rw [hd, Nat.mul_assoc, Nat.mul_assoc]
  rw [this]
  exact range_map_getElem! d


theorem mem_voxelCoords (s : Shape) (q : Nat × Nat × Nat × Nat) (h : q ∈ voxelCoords s) :
    q.1 < s.c ∧ q.2.1 < s.z ∧ q.2.2.1 < s.y ∧ q.2.2.2 < s.x := by
  simp only [voxelCoords, List.mem_flatMap, List.mem_map, List.mem_range] at h
  obtain ⟨c, hc, z, hz, y, hy, x, hx, rfl⟩ := h
  exact ⟨hc, hz, hy, hx⟩

/-- LIST LEVEL: the specification decoder applied to the encoder's output returns the whole
    label array, in C order -/
theorem specDecode_encode (itemsize : Nat) (hi : itemsize = 4 ∨ itemsize = 8) (s : Shape) (bk : Blk3)
    (d : List Nat) (hbx : 0 < bk.bx) (hby : 0 < bk.by') (hbz : 0 < bk.bz)
    (hvals : ∀ v ∈ d, v < 2 ^ (8 * itemsize)) (hd : d.length = s.c * s.z * s.y * s.x)
    (file : Bytes) (h : encode itemsize s bk d = some file) :
    specDecode itemsize s bk file = some d := by
  unfold specDecode
  have := mapM_all_some (fun (q : Nat × Nat × Nat × Nat) => specVoxel itemsize s bk file q.1 q.2.1 q.2.2.1 q.2.2.2)
    (fun q => vox s d q.1 q.2.1 q.2.2.1 q.2.2.2) (voxelCoords s) (by
      intro q hq
      obtain ⟨h1, h2, h3, h4⟩ := mem_voxelCoords s q hq
      exact (file_decodes itemsize hi s bk d hbx hby hbz hvals file h q.1 q.2.1 q.2.2.1 q.2.2.2 h1 h2 h3 h4).1)
  rw [voxelCoords_map s d hd] at this
  exact this

end NgVerif.Cseg
