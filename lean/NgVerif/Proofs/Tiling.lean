import NgVerif.Model.Tiling
namespace NgVerif.Tiling

theorem length_ranges (size cs : Nat) : (ranges size cs).length = count size cs := by
  simp [ranges]

/-- every voxel index lies in the range number `x / cs`, and in no other -/
theorem mem_range_iff (size cs : Nat) (hc : 0 < cs) (x : Nat) (hx : x < size) (i : Nat) :
    (cs * i ≤ x ∧ x < min (cs * (i + 1)) size) ↔ i = x / cs := by
  constructor
  · rintro ⟨h1, h2⟩
    have h3 : x < cs * (i + 1) := Nat.lt_of_lt_of_le h2 (Nat.min_le_left _ _)
    have : x / cs = i := by
      apply Nat.div_eq_of_lt_le
      · rw [Nat.mul_comm]; exact h1
      · rw [Nat.mul_comm]; exact h3
    exact this.symm
  · intro h
    subst h
    have h1 : cs * (x / cs) ≤ x := Nat.mul_div_le x cs
    have h2 : x < cs * (x / cs + 1) := by
      have := Nat.lt_mul_div_succ x hc
      simpa [Nat.mul_comm] using this
    exact ⟨h1, Nat.lt_min.mpr ⟨h2, hx⟩⟩

theorem index_in_grid (size cs : Nat) (x : Nat) (hx : x < size) :
    x / cs < count size cs := by
  unfold count
  have : x ≤ size - 1 := by omega
  have := Nat.div_le_div_right (c := cs) this
  omega

/-- ranges are non-empty and start inside the volume (what `validate_chunk_coords` accepts) -/
theorem range_onGrid (size cs : Nat) (hs : 0 < size) (hc : 0 < cs) (i : Nat)
    (hi : i < count size cs) :
    cs * i < size ∧ cs * i < min (cs * (i + 1)) size := by
  unfold count at hi
  have h1 : i ≤ (size - 1) / cs := by omega
  have h2 : cs * i ≤ cs * ((size - 1) / cs) := Nat.mul_le_mul_left cs h1
  have h3 : cs * ((size - 1) / cs) ≤ size - 1 := Nat.mul_div_le _ _
  have h4 : cs * i < size := by omega
  refine ⟨h4, Nat.lt_min.mpr ⟨?_, h4⟩⟩
  rw [Nat.mul_add, Nat.mul_one]; omega

/-- every voxel is in exactly one range of `ranges` -/
theorem exists_unique_range (size cs : Nat) (hc : 0 < cs) (x : Nat) (hx : x < size) :
    ∃ r ∈ ranges size cs, (r.1 ≤ x ∧ x < r.2) ∧
      ∀ r' ∈ ranges size cs, (r'.1 ≤ x ∧ x < r'.2) → r' = r := by
  refine ⟨(cs * (x / cs), min (cs * (x / cs + 1)) size), ?_, ?_, ?_⟩
  · simp only [ranges, List.mem_map, List.mem_range]
    exact ⟨x / cs, index_in_grid size cs x hx, rfl⟩
  · exact (mem_range_iff size cs hc x hx (x / cs)).mpr rfl
  · intro r' hr' hin
    simp only [ranges, List.mem_map, List.mem_range] at hr'
    obtain ⟨i, _, rfl⟩ := hr'
    have := (mem_range_iff size cs hc x hx i).mp hin
    subst this; rfl

/-! ### sums -/

theorem sum_prefix (size cs : Nat) (hc : 0 < cs) :
    ∀ m, m ≤ count size cs → 0 < size →
      ((List.range m).map fun i => min (cs * (i + 1)) size - cs * i).sum = min (cs * m) size
  | 0, _, _ => by simp
  | m+1, hm, hs => by
      have ih := sum_prefix size cs hc m (by omega) hs
      rw [List.range_succ, List.map_append, List.sum_append, ih]
      have hg := (range_onGrid size cs hs hc m (by omega)).1
      simp only [List.map_cons, List.map_nil, List.sum_cons, List.sum_nil, Nat.add_zero]
      have e : cs * (m + 1) = cs * m + cs := by rw [Nat.mul_add, Nat.mul_one]
      rw [e]
      generalize cs * m = a at *
      omega

theorem count_mul_ge (size cs : Nat) (hc : 0 < cs) (hs : 0 < size) : size ≤ cs * count size cs := by
  unfold count
  have h := Nat.lt_mul_div_succ (size - 1) hc
  have : cs * ((size - 1) / cs + 1) = cs * ((size - 1) / cs) + cs := by
    rw [Nat.mul_add, Nat.mul_one]
  omega

/-- the extents of the ranges add up to the axis size -/
theorem sum_extents (size cs : Nat) (hs : 0 < size) (hc : 0 < cs) :
    ((ranges size cs).map fun r => r.2 - r.1).sum = size := by
  have := sum_prefix size cs hc (count size cs) (Nat.le_refl _) hs
  simp only [ranges, List.map_map]
  have e : ((fun r : Nat × Nat => r.2 - r.1) ∘ fun i => (cs * i, min (cs * (i + 1)) size))
      = fun i => min (cs * (i + 1)) size - cs * i := by
    funext i; rfl
  rw [e, this]
  exact Nat.min_eq_right (count_mul_ge size cs hc hs)

theorem sum_map_mul_left {α} (l : List α) (f : α → Nat) (k : Nat) :
    (l.map fun a => k * f a).sum = k * (l.map f).sum := by
  induction l with
  | nil => simp
  | cons a l ih => simp only [List.map_cons, List.sum_cons, ih, Nat.mul_add]

theorem length_flatMap_const {α β} (l : List α) (f : α → List β) (k : Nat)
    (h : ∀ a ∈ l, (f a).length = k) : (l.flatMap f).length = l.length * k := by
  induction l with
  | nil => simp
  | cons a l ih =>
    simp only [List.flatMap_cons, List.length_append, List.length_cons]
    rw [ih (fun b hb => h b (by simp [hb])), h a (by simp), Nat.add_mul, Nat.one_mul, Nat.add_comm]

theorem length_grid3 (size cs : Nat × Nat × Nat) :
    (grid3 size cs).length = count size.1 cs.1 * (count size.2.1 cs.2.1 * count size.2.2 cs.2.2) := by
  unfold grid3
  rw [length_flatMap_const _ _ (count size.2.1 cs.2.1 * count size.2.2 cs.2.2), length_ranges]
  intro rx _
  rw [length_flatMap_const _ _ (count size.2.2 cs.2.2), length_ranges]
  intro ry _
  simp [length_ranges]

theorem sum_flatMap {α β} (l : List α) (f : α → List β) (g : β → Nat) :
    ((l.flatMap f).map g).sum = (l.map fun a => ((f a).map g).sum).sum := by
  induction l with
  | nil => simp
  | cons a l ih => simp only [List.flatMap_cons, List.map_append, List.sum_append, ih,
      List.map_cons, List.sum_cons]

/-- the voxel counts of the grid cells add up to the volume -/
theorem sum_cellVoxels (size cs : Nat × Nat × Nat)
    (hs : 0 < size.1 ∧ 0 < size.2.1 ∧ 0 < size.2.2) (hc : 0 < cs.1 ∧ 0 < cs.2.1 ∧ 0 < cs.2.2) :
    ((grid3 size cs).map cellVoxels).sum = size.1 * (size.2.1 * size.2.2) := by
  unfold grid3
  rw [sum_flatMap]
  have hz := sum_extents size.2.2 cs.2.2 hs.2.2 hc.2.2
  have hy := sum_extents size.2.1 cs.2.1 hs.2.1 hc.2.1
  have hx := sum_extents size.1 cs.1 hs.1 hc.1
  have inner : ∀ rx : Nat × Nat,
      (((ranges size.2.1 cs.2.1).flatMap fun ry =>
          (ranges size.2.2 cs.2.2).map fun rz => (rx, ry, rz)).map cellVoxels).sum
      = (rx.2 - rx.1) * (size.2.1 * size.2.2) := by
    intro rx
    rw [sum_flatMap]
    have innerz : ∀ ry : Nat × Nat,
        (((ranges size.2.2 cs.2.2).map fun rz => (rx, ry, rz)).map cellVoxels).sum
        = (rx.2 - rx.1) * ((ry.2 - ry.1) * size.2.2) := by
      intro ry
      rw [List.map_map]
      have e : (cellVoxels ∘ fun rz : Nat × Nat => (rx, ry, rz))
          = fun rz => ((rx.2 - rx.1) * (ry.2 - ry.1)) * ((fun r : Nat × Nat => r.2 - r.1) rz) := by
        funext rz; simp [cellVoxels, Nat.mul_assoc]
      rw [e]
      exact (sum_map_mul_left _ (fun r : Nat × Nat => r.2 - r.1) _).trans (by rw [hz, Nat.mul_assoc])
    simp only [innerz]
    have e2 : (fun ry : Nat × Nat => (rx.2 - rx.1) * ((ry.2 - ry.1) * size.2.2))
        = fun ry => ((rx.2 - rx.1) * size.2.2) * ((fun r : Nat × Nat => r.2 - r.1) ry) := by
      funext ry
      simp only
      rw [Nat.mul_comm (ry.2 - ry.1) size.2.2, Nat.mul_assoc]
    rw [e2]
    exact (sum_map_mul_left _ (fun r : Nat × Nat => r.2 - r.1) _).trans
      (by rw [hy, Nat.mul_assoc, Nat.mul_comm size.2.2 size.2.1])
  simp only [inner]
  have e3 : (fun rx : Nat × Nat => (rx.2 - rx.1) * (size.2.1 * size.2.2))
      = fun rx => (size.2.1 * size.2.2) * ((fun r : Nat × Nat => r.2 - r.1) rx) := by
    funext rx; simp only; rw [Nat.mul_comm]
  rw [e3]
  exact (sum_map_mul_left _ (fun r : Nat × Nat => r.2 - r.1) _).trans (by rw [hx, Nat.mul_comm])

end NgVerif.Tiling
