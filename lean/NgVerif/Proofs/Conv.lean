import NgVerif.Model.Conv
namespace NgVerif.Conv

theorem min_le_zero (t : Ty) : t.min ≤ 0 := by cases t <;> simp [Ty.min]
theorem zero_le_max (t : Ty) : 0 ≤ t.max := by cases t <;> simp [Ty.max]

theorem rint_int (n : Int) : rint ⟨n, 0⟩ = n := by
  simp [rint]

/-- integer → integer: exact when representable, saturating otherwise; never wraps -/
theorem toInt_int (inT outT : Ty) (hi : inT.isInt = true) (n : Int)
    (hlo : inT.min ≤ n) (hhi : n ≤ inT.max) :
    toInt inT outT ⟨n, 0⟩ = some (clamp outT.min outT.max n) := by
  have a1 := min_le_zero inT
  have a2 := zero_le_max inT
  have b1 := min_le_zero outT
  have b2 := zero_le_max outT
  unfold toInt
  simp only [hi, if_true]
  by_cases hs : intSafe inT outT = true
  · simp only [hs, if_true]
    simp only [intSafe, Bool.and_eq_true, decide_eq_true_eq] at hs
    congr 1
    unfold clamp
    split
    · omega
    · split <;> omega
  · simp only [hs, Bool.false_eq_true, if_false]
    unfold castInt clamp
    generalize inT.min = imin at *
    generalize inT.max = imax at *
    generalize outT.min = omin at *
    generalize outT.max = omax at *
    have h1 : max omin imin ≤ min omax imax := by omega
    split
    · -- n below the lower bound
      rename_i hlt
      have : omin ≤ max omin imin ∧ max omin imin ≤ omax := by omega
      simp only [this, and_self, if_true]
      congr 1
      split
      · omega
      · split <;> omega
    · split
      · rename_i hgt
        have : omin ≤ min omax imax ∧ min omax imax ≤ omax := by omega
        simp only [this, and_self, if_true]
        congr 1
        split
        · omega
        · split <;> omega
      · have : omin ≤ n ∧ n ≤ omax := by omega
        simp only [this, and_self, if_true]
        congr 1
        split
        · omega
        · split <;> omega

theorem clamp_lo (lo hi x : Int) (h : x < lo) : clamp lo hi x = lo := by simp [clamp, h]
theorem clamp_hi (lo hi x : Int) (h1 : ¬ x < lo) (h2 : hi < x) : clamp lo hi x = hi := by simp [clamp, h1, h2]
theorem clamp_mid (lo hi x : Int) (h1 : ¬ x < lo) (h2 : ¬ hi < x) : clamp lo hi x = x := by simp [clamp, h1, h2]

theorem castInt_clamp (outT : Ty) (r : Int) :
    castInt outT (clamp outT.min outT.max r) = some (clamp outT.min outT.max r) := by
  have b1 := min_le_zero outT
  have b2 := zero_le_max outT
  unfold castInt clamp
  split
  · simp; omega
  · split
    · simp; omega
    · simp; omega

theorem bounds_small (inT outT : Ty) (hi : inT.isInt = false)
    (ho : outT = .u8 ∨ outT = .u16 ∨ outT = .u32 ∨ outT = .i8 ∨ outT = .i16 ∨ outT = .i32) :
    boundInWork (workFloat inT outT) outT.min = outT.min ∧
    boundInWork (workFloat inT outT) outT.max = outT.max := by
  cases inT <;> simp [Ty.isInt] at hi <;>
    rcases ho with rfl | rfl | rfl | rfl | rfl | rfl <;> decide

/-- float → 8/16/32-bit integer: round half to even, then saturate; never wraps -/
theorem toInt_float_small (inT outT : Ty) (hi : inT.isInt = false)
    (ho : outT = .u8 ∨ outT = .u16 ∨ outT = .u32 ∨ outT = .i8 ∨ outT = .i16 ∨ outT = .i32) (v : Val) :
    toInt inT outT v = some (nearestInt outT v) := by
  unfold toInt nearestInt
  simp only [hi, Bool.false_eq_true, if_false]
  obtain ⟨h1, h2⟩ := bounds_small inT outT hi ho
  rw [h1, h2]
  exact castInt_clamp outT _

theorem bounds_u64 (inT : Ty) (hi : inT.isInt = false) :
    boundInWork (workFloat inT .u64) Ty.u64.min = 0 ∧
    boundInWork (workFloat inT .u64) Ty.u64.max = 2 ^ 64 := by
  cases inT <;> simp [Ty.isInt] at hi <;> decide

/-- float → uint64: correct whenever the rounded value is below 2^64 … -/
theorem toInt_float_u64 (inT : Ty) (hi : inT.isInt = false) (v : Val) (h : rint v ≤ 2 ^ 64 - 1) :
    toInt inT .u64 v = some (nearestInt .u64 v) := by
  unfold toInt nearestInt
  simp only [hi, Bool.false_eq_true, if_false]
  obtain ⟨h1, h2⟩ := bounds_u64 inT hi
  rw [h1, h2]
  generalize rint v = r at *
  have e : clamp 0 (2 ^ 64) r = clamp Ty.u64.min Ty.u64.max r := by
    simp only [Ty.min, Ty.max]
    by_cases h0 : r < 0
    · rw [clamp_lo _ _ _ h0, clamp_lo _ _ _ h0]
    · rw [clamp_mid _ _ _ h0 (by omega), clamp_mid _ _ _ h0 (by omega)]
  rw [e]
  exact castInt_clamp .u64 r

/-- … and KNOWN FINDING F6: at 2^64 and above the clip bound `float(2^64 - 1) = 2^64` lets the
    value through and the final cast is out of range (NumPy yields 0 on this platform) -/
theorem toInt_float_u64_overflow (inT : Ty) (hi : inT.isInt = false) (v : Val) (h : 2 ^ 64 ≤ rint v) :
    toInt inT .u64 v = none ∧ nearestInt .u64 v = 2 ^ 64 - 1 := by
  unfold toInt nearestInt
  simp only [hi, Bool.false_eq_true, if_false]
  obtain ⟨h1, h2⟩ := bounds_u64 inT hi
  rw [h1, h2]
  generalize rint v = r at *
  constructor
  · have : clamp 0 (2 ^ 64) r = 2 ^ 64 := by
      by_cases h0 : 2 ^ 64 < r
      · exact clamp_hi _ _ _ (by omega) h0
      · rw [clamp_mid _ _ _ (by omega) h0]; omega
    rw [this]
    simp [castInt, Ty.min, Ty.max]
  · simp only [Ty.min, Ty.max]
    exact clamp_hi _ _ _ (by omega) (by omega)

end NgVerif.Conv
