import NgVerif.Model.Mesh
import NgVerif.Proofs.Bytes
import NgVerif.Proofs.Coords
import Mathlib.LinearAlgebra.Matrix.Determinant.Basic
import Mathlib.Algebra.Order.Ring.Defs
import Mathlib.Algebra.Order.Field.Basic
import Mathlib.Tactic.Ring
import Mathlib.Tactic.Linarith
import Std.Data.String.ToNat
namespace NgVerif.Mesh

theorem u32s_length (l : List Nat) : (u32s l).length = 4 * l.length := by
  induction l with
  | nil => rfl
  | cons a t ih => simp only [u32s, List.flatMap_cons, List.length_append, leBytes_length,
      List.length_cons] at *; omega

theorem words_u32s (l : List Nat) (h : ∀ v ∈ l, v < 2 ^ 32) : words (u32s l) = l := by
  unfold words
  rw [u32s_length]
  have e : 4 * l.length / 4 = l.length := by omega
  rw [e]
  apply List.ext_getElem
  · simp
  · intro i h1 h2
    simp only [List.getElem_map, List.getElem_range]
    have hi : i < l.length := h2
    unfold u32s
    rw [Raw.chunk_of_flatMap 4 l i hi, leVal_leBytes 4 _ (by have := h _ (List.getElem_mem hi); omega)]

/-- round trip: reading a saved mesh returns the same vertices and triangles -/
theorem read_save (coords tris : List Nat) (hc : coords.length % 3 = 0)
    (ht : tris.length % 3 = 0) (hn : coords.length / 3 < 2 ^ 32)
    (hcv : ∀ v ∈ coords, v < 2 ^ 32) (hidx : ∀ t ∈ tris, t < coords.length / 3) :
    read (save coords tris) = .ok (coords, tris) := by
  unfold read save
  have hl4 : (leBytes 4 (coords.length / 3)).length = 4 := leBytes_length 4 _
  have htv : ∀ v ∈ tris, v < 2 ^ 32 := fun v hv => Nat.lt_trans (hidx v hv) hn
  have c1 : ¬ (leBytes 4 (coords.length / 3) ++ u32s coords ++ u32s tris).length < 4 := by
    simp only [List.length_append, hl4]; omega
  rw [if_neg c1]
  have e1 : (leBytes 4 (coords.length / 3) ++ u32s coords ++ u32s tris).take 4 = leBytes 4 (coords.length / 3) := by
    rw [List.append_assoc, List.take_append_of_le_length (by omega), List.take_of_length_le (by omega)]
  have e2 : (leBytes 4 (coords.length / 3) ++ u32s coords ++ u32s tris).drop 4 = u32s coords ++ u32s tris := by
    rw [List.append_assoc]
    have := List.drop_left (l₁ := leBytes 4 (coords.length / 3)) (l₂ := u32s coords ++ u32s tris)
    rw [hl4] at this; exact this
  simp only [e1, e2]
  rw [leVal_leBytes 4 _ (by omega)]
  have h12 : 12 * (coords.length / 3) = (u32s coords).length := by rw [u32s_length]; omega
  have c2 : ¬ (u32s coords ++ u32s tris).length < 12 * (coords.length / 3) := by
    rw [List.length_append, ← h12]; omega
  rw [if_neg c2, h12, List.take_left, List.drop_left]
  have c3 : ¬ (u32s tris).length % 12 ≠ 0 := by rw [u32s_length]; omega
  rw [if_neg c3, words_u32s tris htv, words_u32s coords hcv]
  have c4 : tris.any (fun t => decide (coords.length / 3 ≤ t)) = false := by
    rw [List.any_eq_false]
    intro t ht'
    have := hidx t ht'
    simp; omega
  simp [c4]

/-- totality: every byte string is either decoded, with all indices in range, or rejected with the
    mesh-data error -/
theorem read_total (b : Bytes) :
    (∃ v t, read b = .ok (v, t) ∧ ∀ x ∈ t, x < leVal (b.take 4)) ∨ read b = .error .meshData := by
  unfold read
  simp only
  split
  · right; rfl
  · split
    · right; rfl
    · split
      · right; rfl
      · split
        · right; rfl
        · rename_i hany
          left
          refine ⟨_, _, rfl, ?_⟩
          intro x hx
          have h' : ∀ x ∈ words (List.drop (12 * leVal (List.take 4 b)) (List.drop 4 b)), x < leVal (List.take 4 b) := by
            simpa using hany
          exact h' x hx

/-! ### orientation under an affine transform -/

open Matrix in
/-- the signed volume `det [u v w]` of three edge/reference vectors is multiplied by `det R` -/
theorem signed_volume_transform {K : Type} [CommRing K] (R M : Matrix (Fin 3) (Fin 3) K) :
    (R * M).det = R.det * M.det := Matrix.det_mul R M

/-- swapping two vertices of a triangle (what `np.flip(triangles, axis=1)` does to the edge
    vectors) negates the signed volume -/
theorem signed_volume_swap {K : Type} [CommRing K] (u v w : Fin 3 → K) :
    Matrix.det (Matrix.of ![v, u, w]) = - Matrix.det (Matrix.of ![u, v, w]) := by
  simp only [Matrix.det_fin_three, Matrix.of_apply, Matrix.cons_val_zero, Matrix.cons_val_one,
    Matrix.cons_val_two, Matrix.head_cons, Matrix.tail_cons]
  ring

/-- hence, flipping exactly when `det R < 0` preserves the sign of the signed volume for every
    non-singular transform (over an ordered field) -/
theorem orientation_preserved {K : Type} [Field K] [LinearOrder K] [IsStrictOrderedRing K]
    (dR vol : K) (hR : dR ≠ 0) :
    let vol' := if dR < 0 then -(dR * vol) else dR * vol
    (0 < vol → 0 < vol') ∧ (vol < 0 → vol' < 0) := by
  intro vol'
  rcases lt_or_gt_of_ne hR with h | h
  · simp only [vol', h, if_true]
    constructor
    · intro hv; have := mul_neg_of_neg_of_pos h hv; linarith
    · intro hv; have := mul_pos_of_neg_of_neg h hv; linarith
  · have hn : ¬ dR < 0 := not_lt.mpr (le_of_lt h)
    simp only [vol', hn, if_false]
    exact ⟨fun hv => mul_pos h hv, fun hv => mul_neg_of_pos_of_neg h hv⟩

/-! ### the executable model `affineTransform` keeps every triangle's orientation -/

section AffineModel
variable {K : Type} [CommRing K]

/-- the orientation of a transformed triangle seen from the transformed reference point is
    `det R` times the original one (translations cancel) -/
theorem orient_apply (m : M3 K) (t p a b c : V3 K) :
    orient (m.apply t p) (m.apply t a) (m.apply t b) (m.apply t c) = m.det * orient p a b c := by
  simp only [orient, M3.det, M3.apply]
  ring

/-- reversing the winding negates the orientation -/
theorem orient_flip (p a b c : V3 K) : orient p c b a = - orient p a b c := by
  simp only [orient, M3.det]
  ring

variable [LinearOrder K] [IsStrictOrderedRing K]

/-- the triangle list and vertex list computed by the model -/
theorem affineTransform_eq (m : M3 K) (t : V3 K) (vs : List (V3 K)) (ts : List (Nat × Nat × Nat)) :
    affineTransform m t vs ts =
      (vs.map (m.apply t), ts.map fun tr => if m.det < 0 then flipTri tr else tr) := by
  unfold affineTransform
  split <;> simp

/-- for a non-singular transform the orientation of every triangle — looked up in the NEW vertex
    list through the NEW index triple — has the sign of the original one, from every reference point -/
theorem affine_orientation (m : M3 K) (t p : V3 K) (vs : List (V3 K)) (tr : Nat × Nat × Nat)
    (hdet : m.det ≠ 0) (d : V3 K) :
    let v := fun i => vs.getD i d
    let v' := fun i => (vs.map (m.apply t)).getD i (m.apply t d)
    let tr' := if m.det < 0 then flipTri tr else tr
    let o := orient p (v tr.1) (v tr.2.1) (v tr.2.2)
    let o' := orient (m.apply t p) (v' tr'.1) (v' tr'.2.1) (v' tr'.2.2)
    (0 < o → 0 < o') ∧ (o < 0 → o' < 0) ∧ (o = 0 → o' = 0) := by
  intro v v' tr' o o'
  have hv' : ∀ i, v' i = m.apply t (v i) := by
    intro i
    simp only [v', v, List.getD_eq_getElem?_getD, List.getElem?_map]
    cases vs[i]? <;> rfl
  rcases lt_or_gt_of_ne hdet with h | h
  · have ho' : o' = -(m.det * o) := by
      simp only [o', tr', h, if_true, flipTri, hv']
      rw [orient_apply, orient_flip]; ring
    rw [ho']
    refine ⟨fun ho => ?_, fun ho => ?_, fun ho => by rw [ho]; simp⟩
    · have := mul_neg_of_neg_of_pos h ho; linarith
    · have := mul_pos_of_neg_of_neg h ho; linarith
  · have hn : ¬ m.det < 0 := not_lt.mpr (le_of_lt h)
    have ho' : o' = m.det * o := by
      simp only [o', tr', hn, if_false, hv']
      rw [orient_apply]
    rw [ho']
    exact ⟨fun ho => mul_pos h ho, fun ho => mul_neg_of_pos_of_neg h ho, fun ho => by rw [ho]; simp⟩

end AffineModel

/-! ### `link_mesh_fragments`: one exclusive-create file per CSV row -/

theorem linkName_injective (dir : String) (nc : Bool) (l l' : Nat)
    (h : linkName dir l nc = linkName dir l' nc) : l = l' := by
  unfold linkName at h
  rw [String.append_left_inj] at h
  rw [String.append_right_inj] at h
  exact Nat.repr_inj.mp h

theorem linkGet_cons (s : LinkStore) (n m : String) (fr : List String) :
    linkGet ((n, fr) :: s) m = if n = m then some fr else linkGet s m := by
  unfold linkGet
  by_cases h : n = m <;> simp [h]

theorem links_spec (dir : String) (nc : Bool) (rows : List (Nat × List String)) :
    ∀ s : LinkStore, (rows.map (·.1)).Nodup →
    (∀ r ∈ rows, linkGet s (linkName dir r.1 nc) = none) →
    (links dir nc rows s).2 = true ∧
    (∀ r ∈ rows, linkGet (links dir nc rows s).1 (linkName dir r.1 nc) = some r.2) ∧
    (∀ name, (∀ r ∈ rows, name ≠ linkName dir r.1 nc) → linkGet (links dir nc rows s).1 name = linkGet s name) := by
  induction rows with
  | nil => intro s _ _; simp [links]
  | cons r rest ih =>
    intro s hnd hfree
    obtain ⟨l, fr⟩ := r
    simp only [List.map_cons, List.nodup_cons] at hnd
    have h0 : linkGet s (linkName dir l nc) = none := hfree (l, fr) (by simp)
    have hfree' : ∀ r ∈ rest, linkGet ((linkName dir l nc, fr) :: s) (linkName dir r.1 nc) = none := by
      intro r hr
      rw [linkGet_cons]
      have hne : linkName dir l nc ≠ linkName dir r.1 nc := by
        intro he
        have := linkName_injective dir nc l r.1 he
        exact hnd.1 (this ▸ List.mem_map_of_mem (f := (·.1)) hr)
      simp [hne, hfree r (by simp [hr])]
    obtain ⟨i1, i2, i3⟩ := ih ((linkName dir l nc, fr) :: s) hnd.2 hfree'
    simp only [links, h0, Option.isSome_none, Bool.false_eq_true, if_false]
    refine ⟨i1, ?_, ?_⟩
    · intro r hr
      rcases List.mem_cons.mp hr with rfl | hr
      · have hne : ∀ r' ∈ rest, linkName dir l nc ≠ linkName dir r'.1 nc := by
          intro r' hr' he
          have := linkName_injective dir nc l r'.1 he
          exact hnd.1 (this ▸ List.mem_map_of_mem (f := (·.1)) hr')
        rw [i3 _ hne, linkGet_cons]; simp
      · exact i2 r hr
    · intro name hn
      rw [i3 name (fun r hr => hn r (by simp [hr])), linkGet_cons]
      have : linkName dir l nc ≠ name := fun h => hn (l, fr) (by simp) h.symm
      simp [this]

/-- a label that occurs twice (or whose file is already there, e.g. on a second run) aborts the run at that row,
    with the earlier rows' files in place and the existing file untouched -/
theorem links_existing_aborts (dir : String) (nc : Bool) (l : Nat) (fr : List String) (rest : List (Nat × List String))
    (s : LinkStore) (h : (linkGet s (linkName dir l nc)).isSome) :
    links dir nc ((l, fr) :: rest) s = (s, false) := by
  simp [links, h]

/-- the directory a complete run leaves does not depend on the order of the CSV rows -/
theorem links_order_independent (dir : String) (nc : Bool) (rows rows' : List (Nat × List String))
    (hp : rows.Perm rows') (hd : (rows.map (·.1)).Nodup) (name : String) :
    linkGet (links dir nc rows []).1 name = linkGet (links dir nc rows' []).1 name := by
  have hd' : (rows'.map (·.1)).Nodup := (hp.map _).nodup_iff.mp hd
  have hf : ∀ rs : List (Nat × List String), ∀ r ∈ rs, linkGet ([] : LinkStore) (linkName dir r.1 nc) = none := by
    intro rs r _; simp [linkGet]
  obtain ⟨_, a2, a3⟩ := links_spec dir nc rows [] hd (hf rows)
  obtain ⟨_, b2, b3⟩ := links_spec dir nc rows' [] hd' (hf rows')
  by_cases h : ∃ r ∈ rows, name = linkName dir r.1 nc
  · obtain ⟨r, hr, rfl⟩ := h
    rw [a2 r hr, b2 r (hp.mem_iff.mp hr)]
  · have h1 : ∀ r ∈ rows, name ≠ linkName dir r.1 nc := fun r hr he => h ⟨r, hr, he⟩
    have h2 : ∀ r ∈ rows', name ≠ linkName dir r.1 nc := fun r hr he => h ⟨r, hp.mem_iff.mpr hr, he⟩
    rw [a3 name h1, b3 name h2]

/-- whatever the rows (labels repeated or not) and wherever the run stops: a file of the directory afterwards either
    was there before with the same content, or is the file of one of the rows and lists exactly that row's fragments -/
theorem links_files_come_from_rows (dir : String) (nc : Bool) (rows : List (Nat × List String)) :
    ∀ (s : LinkStore) (name : String) (fr : List String),
    linkGet (links dir nc rows s).1 name = some fr →
    linkGet s name = some fr ∨ ∃ r ∈ rows, name = linkName dir r.1 nc ∧ fr = r.2 := by
  induction rows with
  | nil => intro s name fr h; left; simpa [links] using h
  | cons r rest ih =>
    intro s name fr h
    obtain ⟨l, f0⟩ := r
    by_cases hex : (linkGet s (linkName dir l nc)).isSome
    · left; simpa [links, hex] using h
    · simp only [links, hex, Bool.false_eq_true, if_false] at h
      rcases ih _ name fr h with h1 | ⟨r, hr, hn, hf⟩
      · rw [linkGet_cons] at h1
        by_cases he : linkName dir l nc = name
        · right; refine ⟨(l, f0), by simp, he.symm, ?_⟩
          simp [he] at h1; exact h1.symm
        · left; simpa [he] using h1
      · right; exact ⟨r, by simp [hr], hn, hf⟩

end NgVerif.Mesh
