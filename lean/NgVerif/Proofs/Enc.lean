import NgVerif.Model.Enc
import Mathlib.Tactic.SplitIfs
/-
  Enc: `get_encoder` serves exactly the well-formed requests.
-/
namespace NgVerif.Enc
open NgVerif.Pipeline

/-- what a served request looks like -/
def Served (r : Req) (c : Codec) : Prop :=
  ∃ dt nc enc, r.dataType = some dt ∧ r.numChannels = some nc ∧ r.encoding = some enc ∧ 0 < nc ∧
    Generated.neuroglancerDataTypes.contains dt = true ∧
    (match c with
     | .raw => enc = "raw"
     | .cseg => enc = "compressed_segmentation" ∧ r.hasBlockSize = true ∧ Generated.csegDataTypes.contains dt = true
     | .jpeg => enc = "jpeg" ∧ dt = Generated.jpegDataType ∧ Generated.jpegChannels.contains nc.toNat = true)

theorem select_sound (r : Req) (c : Codec) (h : select r = some c) : Served r c := by
  obtain ⟨dt, nc, enc, hb⟩ := r
  cases dt with
  | none => simp [select] at h
  | some dt =>
  cases nc with
  | none => simp [select] at h
  | some nc =>
  cases enc with
  | none => simp [select] at h
  | some enc =>
    simp only [select] at h
    split_ifs at h with h1 h2 h3 h4 h5 h6 h7 h8 <;> simp at h <;> subst h
    all_goals (refine ⟨dt, nc, enc, rfl, rfl, rfl, by omega, by simpa using h2, ?_⟩)
    · simpa using h3
    · exact ⟨by simpa using h4, by simpa using h5, h6⟩
    · simp at h8; exact ⟨by simpa using h7, h8.1, by simpa using h8.2⟩

theorem select_complete (r : Req) (c : Codec) (h : Served r c) : select r = some c := by
  obtain ⟨dt, nc, enc, h1, h2, h3, hpos, hty, hc⟩ := h
  obtain ⟨dt', nc', enc', hb⟩ := r
  simp only at h1 h2 h3
  subst h1 h2 h3
  have hn : ¬ nc ≤ 0 := by omega
  cases c with
  | raw =>
    have hty' : dt ∈ Generated.neuroglancerDataTypes := by simpa using hty
    simp only at hc; subst hc; simp [select, hn, hty']
  | cseg =>
    obtain ⟨he, hbs, hct⟩ := hc
    simp only at hbs
    subst he hbs
    have hty' : dt ∈ Generated.neuroglancerDataTypes := by simpa using hty
    have hct' : dt ∈ Generated.csegDataTypes := by simpa using hct
    simp [select, hn, hty', hct']
  | jpeg =>
    obtain ⟨he, hd, hch⟩ := hc
    subst he
    have hty' : dt ∈ Generated.neuroglancerDataTypes := by simpa using hty
    have hch' : nc.toNat ∈ Generated.jpegChannels := by simpa using hch
    subst hd
    simp [select, hn, hty', hch']

end NgVerif.Enc
