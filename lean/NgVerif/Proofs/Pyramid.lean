import NgVerif.Model.Pyramid
import Mathlib.Tactic.Ring
namespace NgVerif.Pyramid

theorem factor_cases (a : Axis) : factor a = 1 ∨ factor a = 2 := by
  unfold factor; split <;> simp

/-- extent arithmetic, factor 2 (pure linear facts; `lo` = start of the new chunk) -/
theorem compat_f2 (os k nc lo : Nat) (hh : 1 ≤ k) (hnc : nc = k ∨ nc = 2 * k)
    (hlo : lo < (os - 1) / 2 + 1) (hos : 0 < os) :
    2 * lo < os ∧
    (min (2 * k) (os - 2 * lo) + 2 - 1) / 2 = min k (min (lo + nc) ((os - 1) / 2 + 1) - lo) ∧
    (k < min (lo + nc) ((os - 1) / 2 + 1) - lo →
      2 * lo + 2 * k < os ∧
      (min (2 * k) (os - (2 * lo + 2 * k)) + 2 - 1) / 2 = min (lo + nc) ((os - 1) / 2 + 1) - lo - k) := by
  rcases hnc with h | h <;> subst h <;> omega

/-- extent arithmetic, factor 1 -/
theorem compat_f1 (os k nc lo : Nat) (hh : 1 ≤ k) (hnc : nc = k ∨ nc = 2 * k) (hlo : lo < os) :
    (min k (os - lo) + 1 - 1) / 1 = min k (min (lo + nc) os - lo) ∧
    (k < min (lo + nc) os - lo →
      lo + k < os ∧ (min k (os - (lo + k)) + 1 - 1) / 1 = min (lo + nc) os - lo - k) := by
  rcases hnc with h | h <;> subst h <;> omega

/-- In the compatible case the plan of every new chunk succeeds and consists of part A
    `[0, min k E) ← chunk n·ff` and, when `E > k`, part B `[k, E) ← chunk n·ff + 1`. -/
theorem plan_compatible (a : Axis) (hc : compatible a) (n : Nat) (hn : a.nc * n < a.ns) :
    ∃ k, a.oc = factor a * k ∧ 0 < k ∧ half a = k ∧ (a.nc = k ∨ a.nc = 2 * k) ∧
      a.oc * (n * fetch a) = factor a * (a.nc * n) ∧
      plan a n = .ok (if newExtent a n ≤ k then [⟨0, newExtent a n, n * fetch a⟩]
                      else [⟨0, k, n * fetch a⟩, ⟨k, newExtent a n, n * fetch a + 1⟩]) := by
  obtain ⟨hos, hoc, hnc, hns, ⟨k, hk⟩, hnck⟩ := hc
  have hf := factor_cases a
  have hfpos : 0 < factor a := by omega
  have hk0 : 0 < k := by
    rcases Nat.eq_zero_or_pos k with h | h
    · rw [h, Nat.mul_zero] at hk; omega
    · exact h
  have hhalf : half a = k := by unfold half; rw [hk]; exact Nat.mul_div_cancel_left k hfpos
  rw [hhalf] at hnck
  refine ⟨k, hk, hk0, hhalf, hnck, ?_, ?_⟩
  · unfold fetch; rw [hhalf, hk]
    rcases hnck with h | h
    · rw [h, Nat.div_self hk0]; ring
    · rw [h, Nat.mul_div_cancel _ hk0]; ring
  -- the start coordinate of old chunk n·ff is f·(nc·n)
  have hstart : a.oc * (n * fetch a) = factor a * (a.nc * n) := by
    unfold fetch; rw [hhalf, hk]
    rcases hnck with h | h
    · rw [h, Nat.div_self hk0]; ring
    · rw [h, Nat.mul_div_cancel _ hk0]; ring
  have hstartB : a.oc * (n * fetch a + 1) = factor a * (a.nc * n) + factor a * k := by
    rw [Nat.mul_add, hstart, Nat.mul_one, hk]
  have hnext : a.nc * (n + 1) = a.nc * n + a.nc := by ring
  unfold plan
  have h0 : ¬ half a = 0 := by omega
  simp only [h0, if_false, hns, ne_eq, not_true_eq_false]
  unfold dsLen newExtent
  rw [hstart, hstartB, hnext, hhalf, hk]
  unfold ceilDiv at hns
  rw [hns] at hn ⊢
  generalize a.nc * n = lo at *
  generalize a.nc = nc at *
  generalize a.os = os at *
  rcases hf with hf1 | hf2
  · rw [hf1] at hn ⊢
    simp only [Nat.div_one, Nat.one_mul] at hn ⊢
    have hlo : lo < os := by omega
    obtain ⟨e1, e2⟩ := compat_f1 os k nc lo hk0 hnck hlo
    simp only [Nat.div_one] at e1 e2
    have eN : os - 1 + 1 = os := by omega
    rw [eN]
    rw [if_pos hlo]
    simp only
    rw [if_neg (by omega)]
    by_cases hE : min (lo + nc) os - lo ≤ k
    · rw [if_pos hE, if_pos hE]
    · obtain ⟨e3, e4⟩ := e2 (by omega)
      rw [if_neg hE, if_neg hE, if_pos e3]
      simp only
      rw [if_neg (by omega)]
  · rw [hf2] at hn ⊢
    obtain ⟨e0, e1, e2⟩ := compat_f2 os k nc lo hk0 hnck hn hos
    rw [if_pos e0]
    simp only
    rw [if_neg (by omega)]
    by_cases hE : min (lo + nc) ((os - 1) / 2 + 1) - lo ≤ k
    · rw [if_pos hE, if_pos hE]
    · obtain ⟨e3, e4⟩ := e2 (by omega)
      rw [if_neg hE, if_neg hE, if_pos e3]
      simp only
      rw [if_neg (by omega)]


/-- AXIS CORRECTNESS: with compatible chunk sizes, for every voxel `p` of the new level the octant
    copy takes it from the downscaled old chunk at exactly the position the global downscaling of
    the whole previous level uses (old voxels starting at `f·p`), and no copy fails. Holds for all
    sizes, chunk sizes and chunk positions. -/
theorem axis_correct (a : Axis) (hc : compatible a) (p : Nat) (hp : p < a.ns) :
    sourceStart a p = .ok (specStart a p) := by
  have hnc : 0 < a.nc := hc.2.2.1
  have hdm := Nat.div_add_mod p a.nc
  have hmod := Nat.mod_lt p hnc
  have hn : a.nc * (p / a.nc) < a.ns := by omega
  obtain ⟨k, hk, hk0, hhalf, hnck, hstart, hplan⟩ := plan_compatible a hc (p / a.nc) hn
  unfold sourceStart specStart
  simp only [hplan]
  have hE : p % a.nc < newExtent a (p / a.nc) := by
    unfold newExtent
    have : a.nc * (p / a.nc + 1) = a.nc * (p / a.nc) + a.nc := by ring
    rw [this]; omega
  have hfp : factor a * p = factor a * (a.nc * (p / a.nc)) + factor a * (p % a.nc) := by
    rw [← Nat.mul_add, hdm]
  by_cases hs : newExtent a (p / a.nc) ≤ k
  · simp only [hs, if_true, List.find?_cons]
    have : decide (0 ≤ p % a.nc ∧ p % a.nc < newExtent a (p / a.nc)) = true := by simp; exact hE
    simp only [this]
    rw [hstart, Nat.sub_zero, hfp]
  · simp only [hs, if_false, List.find?_cons]
    by_cases ht : p % a.nc < k
    · have : decide (0 ≤ p % a.nc ∧ p % a.nc < k) = true := by simp; exact ht
      simp only [this]
      rw [hstart, Nat.sub_zero, hfp]
    · have h1 : decide (0 ≤ p % a.nc ∧ p % a.nc < k) = false := by simp; omega
      have h2 : decide (k ≤ p % a.nc ∧ p % a.nc < newExtent a (p / a.nc)) = true := by simp; omega
      simp only [h1, h2]
      rw [Nat.mul_add, hstart, Nat.mul_one, hk, hfp]
      have : factor a * (p % a.nc - k) = factor a * (p % a.nc) - factor a * k := Nat.mul_sub _ _ _
      have hle : factor a * k ≤ factor a * (p % a.nc) := Nat.mul_le_mul_left _ (by omega)
      congr 1
      omega

/-- the source block `[f·p, f·p + f)` never straddles an old chunk boundary when `f ∣ oc`, so the
    chunk-wise downscale of a block-local downscaler equals the global one -/
theorem block_in_one_chunk (f k p : Nat) (hf : f = 1 ∨ f = 2) (hk : 0 < k) :
    (f * p) / (f * k) = (f * p + f - 1) / (f * k) := by
  rcases hf with rfl | rfl
  · simp
  · have e1 : 2 * p / (2 * k) = p / k := Nat.mul_div_mul_left p k (by decide)
    have e2 : (2 * p + 2 - 1) / (2 * k) = p / k := by
      rw [← Nat.div_div_eq_div_mul]
      congr 1
      omega
    rw [e1, e2]

/-- what a successful plan of the FIRST new chunk says about the four sizes -/
theorem plan_zero_facts (a : Axis) (parts : List Part) (h0 : plan a 0 = .ok parts) :
    a.ns = ceilDiv a.os (factor a) ∧ half a ≠ 0 ∧ 0 < a.os ∧
    (min a.oc a.os + factor a - 1) / factor a = min (half a) (min a.nc a.ns) ∧
    (half a < min a.nc a.ns →
      a.oc < a.os ∧ (min a.oc (a.os - a.oc) + factor a - 1) / factor a = min a.nc a.ns - half a) ∧
    parts = (if min a.nc a.ns ≤ half a then [⟨0, min a.nc a.ns, 0⟩]
             else [⟨0, half a, 0⟩, ⟨half a, min a.nc a.ns, 1⟩]) := by
  unfold plan at h0
  simp only [Nat.zero_mul, Nat.zero_add, Nat.mul_one, Nat.mul_zero, Nat.sub_zero, newExtent, dsLen] at h0
  by_cases hf : a.ns ≠ ceilDiv a.os (factor a)
  · rw [if_pos hf] at h0; cases h0
  rw [if_neg hf] at h0
  by_cases hh : half a = 0
  · rw [if_pos hh] at h0; cases h0
  rw [if_neg hh] at h0
  by_cases hpos : 0 < a.os
  · rw [if_pos hpos] at h0
    simp only [] at h0
    by_cases hs : (min a.oc a.os + factor a - 1) / factor a ≠ min (half a) (min a.nc a.ns)
    · rw [if_pos hs] at h0; cases h0
    rw [if_neg hs] at h0
    by_cases hle : min a.nc a.ns ≤ half a
    · rw [if_pos hle] at h0
      refine ⟨by simpa using hf, hh, hpos, by simpa using hs, fun hgt => by omega, ?_⟩
      rw [if_pos hle]
      exact (Except.ok.inj h0).symm
    · rw [if_neg hle] at h0
      by_cases hpos2 : a.oc < a.os
      · rw [if_pos hpos2] at h0
        simp only [] at h0
        by_cases hs2 : (min a.oc (a.os - a.oc) + factor a - 1) / factor a ≠ min a.nc a.ns - half a
        · rw [if_pos hs2] at h0; cases h0
        rw [if_neg hs2] at h0
        refine ⟨by simpa using hf, hh, hpos, by simpa using hs, fun _ => ⟨hpos2, by simpa using hs2⟩, ?_⟩
        rw [if_neg hle]
        exact (Except.ok.inj h0).symm
      · rw [if_neg hpos2] at h0; cases h0
  · rw [if_neg hpos] at h0; cases h0

/-- several new chunks along the axis and the first one succeeds ⇒ the chunk sizes are compatible -/
theorem plan_zero_ok_compat (a : Axis) (parts : List Part) (h0 : plan a 0 = .ok parts)
    (hN : a.nc < a.ns) : compatible a := by
  obtain ⟨hns, hh, hos, hA, hB, _⟩ := plan_zero_facts a parts h0
  have hf := factor_cases a
  have hnc : 0 < a.nc := by
    rcases Nat.eq_zero_or_pos a.nc with h | h
    · exfalso
      rw [h] at hA hB
      unfold half at hA hh
      rcases hf with hf | hf <;> rw [hf] at hA hh <;> omega
    · exact h
  unfold compatible
  unfold half at hA hB hh ⊢
  unfold ceilDiv at hns ⊢
  rcases hf with hf | hf
  · rw [hf] at hA hB hh hns ⊢
    refine ⟨hos, by omega, hnc, hns, Nat.one_dvd _, ?_⟩
    by_cases hgt : a.oc / 1 < min a.nc a.ns
    · obtain ⟨h1, h2⟩ := hB hgt
      omega
    · omega
  · rw [hf] at hA hB hh hns ⊢
    by_cases hgt : a.oc / 2 < min a.nc a.ns
    · obtain ⟨h1, h2⟩ := hB hgt
      refine ⟨hos, by omega, hnc, hns, ⟨a.oc / 2, by omega⟩, by omega⟩
    · refine ⟨hos, by omega, hnc, hns, ⟨a.oc / 2, by omega⟩, by omega⟩

/-- a single new chunk along the axis that succeeds is correct, whatever the chunk sizes -/
theorem single_chunk_correct (a : Axis) (parts : List Part) (h0 : plan a 0 = .ok parts)
    (hN : a.ns ≤ a.nc) (p : Nat) (hp : p < a.ns) : sourceStart a p = .ok (specStart a p) := by
  obtain ⟨hns, hh, hos, hA, hB, hparts⟩ := plan_zero_facts a parts h0
  have hf := factor_cases a
  have hpn : p / a.nc = 0 := Nat.div_eq_of_lt (by omega)
  have hpm : p % a.nc = p := Nat.mod_eq_of_lt (by omega)
  have hmin : min a.nc a.ns = a.ns := by omega
  unfold sourceStart specStart
  simp only [hpn, hpm, h0, hparts, hmin]
  by_cases hle : a.ns ≤ half a
  · simp only [hle, if_true, List.find?_cons]
    have : decide (0 ≤ p ∧ p < a.ns) = true := by simp; exact hp
    simp only [this, Nat.mul_zero, Nat.zero_add, Nat.sub_zero]
  · simp only [hle, if_false, List.find?_cons]
    by_cases ht : p < half a
    · have : decide (0 ≤ p ∧ p < half a) = true := by simp; exact ht
      simp only [this, Nat.mul_zero, Nat.zero_add, Nat.sub_zero]
    · have h1 : decide (0 ≤ p ∧ p < half a) = false := by simp; omega
      have h2 : decide (half a ≤ p ∧ p < a.ns) = true := by simp; omega
      simp only [h1, h2, Nat.mul_one]
      congr 1
      rw [hmin] at hA hB
      obtain ⟨_, _⟩ := hB (by omega)
      unfold half at *
      unfold ceilDiv at hns
      generalize factor a = f at *
      rcases hf with rfl | rfl <;> omega

/-- NO SILENT ERROR: for ALL sizes and chunk sizes (compatible or not), if the copy schedule of
    every new chunk along the axis succeeds, every new voxel is computed from exactly the old
    voxels the global downscaling uses. -/
theorem completed_is_correct (a : Axis)
    (hall : ∀ n, a.nc * n < a.ns → ∃ parts, plan a n = .ok parts) (p : Nat) (hp : p < a.ns) :
    sourceStart a p = .ok (specStart a p) := by
  obtain ⟨parts, h0⟩ := hall 0 (by omega)
  by_cases hN : a.nc < a.ns
  · exact axis_correct a (plan_zero_ok_compat a parts h0 hN) p hp
  · exact single_chunk_correct a parts h0 (by omega) p hp


end NgVerif.Pyramid
