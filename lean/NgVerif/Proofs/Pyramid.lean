import NgVerif.Model.Pyramid
import Mathlib.Tactic.Ring
namespace NgVerif.Pyramid

theorem factor_cases (a : Axis) : factor a = 1 ∨ factor a = 2 := by
  unfold factor; split <;> simp

/-- extent arithmetic, factor 2 (pure linear facts; `lo` = start of the new chunk) -/
theorem compat_f2 (os k nc lo : Nat) (hh : 1 ≤ k) (hnc : nc = k ∨ nc = 2 * k)
    (hlo : lo < (os - 1) / 2 + 1) (hos : 0 < os) :
    2 * lo < os ∧
    (min (2 * k) (os - 2 * lo) + 2 - 1) / 2 = min k (min (lo + nc) ((os - 1) / 2 + 1) - lo) ∧
    (k < min (lo + nc) ((os - 1) / 2 + 1) - lo →
      2 * lo + 2 * k < os ∧
      (min (2 * k) (os - (2 * lo + 2 * k)) + 2 - 1) / 2 = min (lo + nc) ((os - 1) / 2 + 1) - lo - k) := by
  rcases hnc with h | h <;> subst h <;> omega

/-- extent arithmetic, factor 1 -/
theorem compat_f1 (os k nc lo : Nat) (hh : 1 ≤ k) (hnc : nc = k ∨ nc = 2 * k) (hlo : lo < os) :
    (min k (os - lo) + 1 - 1) / 1 = min k (min (lo + nc) os - lo) ∧
    (k < min (lo + nc) os - lo →
      lo + k < os ∧ (min k (os - (lo + k)) + 1 - 1) / 1 = min (lo + nc) os - lo - k) := by
  rcases hnc with h | h <;> subst h <;> omega

/-- In the compatible case the plan of every new chunk succeeds and consists of part A
    `[0, min k E) ← chunk n·ff` and, when `E > k`, part B `[k, E) ← chunk n·ff + 1`. -/
theorem plan_compatible (a : Axis) (hc : compatible a) (n : Nat) (hn : a.nc * n < a.ns) :
    ∃ k, a.oc = factor a * k ∧ 0 < k ∧ half a = k ∧ (a.nc = k ∨ a.nc = 2 * k) ∧
      a.oc * (n * fetch a) = factor a * (a.nc * n) ∧
      plan a n = .ok (if newExtent a n ≤ k then [⟨0, newExtent a n, n * fetch a⟩]
                      else [⟨0, k, n * fetch a⟩, ⟨k, newExtent a n, n * fetch a + 1⟩]) := by
  obtain ⟨hos, hoc, hnc, hns, ⟨k, hk⟩, hnck⟩ := hc
  have hf := factor_cases a
  have hfpos : 0 < factor a := by omega
  have hk0 : 0 < k := by
    rcases Nat.eq_zero_or_pos k with h | h
    · rw [h, Nat.mul_zero] at hk; omega
    · exact h
  have hhalf : half a = k := by unfold half; rw [hk]; exact Nat.mul_div_cancel_left k hfpos
  rw [hhalf] at hnck
  refine ⟨k, hk, hk0, hhalf, hnck, ?_, ?_⟩
  · unfold fetch; rw [hhalf, hk]
    rcases hnck with h | h
    · rw [h, Nat.div_self hk0]; ring
    · rw [h, Nat.mul_div_cancel _ hk0]; ring
  -- the start coordinate of old chunk n·ff is f·(nc·n)
  have hstart : a.oc * (n * fetch a) = factor a * (a.nc * n) := by
    unfold fetch; rw [hhalf, hk]
    rcases hnck with h | h
    · rw [h, Nat.div_self hk0]; ring
    · rw [h, Nat.mul_div_cancel _ hk0]; ring
  have hstartB : a.oc * (n * fetch a + 1) = factor a * (a.nc * n) + factor a * k := by
    rw [Nat.mul_add, hstart, Nat.mul_one, hk]
  have hnext : a.nc * (n + 1) = a.nc * n + a.nc := by ring
  unfold plan
  have h0 : ¬ half a = 0 := by omega
  simp only [h0, if_false, hns, ne_eq, not_true_eq_false]
  unfold dsLen newExtent
  rw [hstart, hstartB, hnext, hhalf, hk]
  unfold ceilDiv at hns
  rw [hns] at hn ⊢
  generalize a.nc * n = lo at *
  generalize a.nc = nc at *
  generalize a.os = os at *
  rcases hf with hf1 | hf2
  · rw [hf1] at hn ⊢
    simp only [Nat.div_one, Nat.one_mul] at hn ⊢
    have hlo : lo < os := by omega
    obtain ⟨e1, e2⟩ := compat_f1 os k nc lo hk0 hnck hlo
    simp only [Nat.div_one] at e1 e2
    have eN : os - 1 + 1 = os := by omega
    rw [eN]
    rw [if_pos hlo]
    simp only
    rw [if_neg (by omega)]
    by_cases hE : min (lo + nc) os - lo ≤ k
    · rw [if_pos hE, if_pos hE]
    · obtain ⟨e3, e4⟩ := e2 (by omega)
      rw [if_neg hE, if_neg hE, if_pos e3]
      simp only
      rw [if_neg (by omega)]
  · rw [hf2] at hn ⊢
    obtain ⟨e0, e1, e2⟩ := compat_f2 os k nc lo hk0 hnck hn hos
    rw [if_pos e0]
    simp only
    rw [if_neg (by omega)]
    by_cases hE : min (lo + nc) ((os - 1) / 2 + 1) - lo ≤ k
    · rw [if_pos hE, if_pos hE]
    · obtain ⟨e3, e4⟩ := e2 (by omega)
      rw [if_neg hE, if_neg hE, if_pos e3]
      simp only
      rw [if_neg (by omega)]


/-- AXIS CORRECTNESS: with compatible chunk sizes, for every voxel `p` of the new level the octant
    copy takes it from the downscaled old chunk at exactly the position the global downscaling of
    the whole previous level uses (old voxels starting at `f·p`), and no copy fails. Holds for all
    sizes, chunk sizes and chunk positions. -/
theorem axis_correct (a : Axis) (hc : compatible a) (p : Nat) (hp : p < a.ns) :
    sourceStart a p = .ok (specStart a p) := by
  have hnc : 0 < a.nc := hc.2.2.1
  have hdm := Nat.div_add_mod p a.nc
  have hmod := Nat.mod_lt p hnc
  have hn : a.nc * (p / a.nc) < a.ns := by omega
  obtain ⟨k, hk, hk0, hhalf, hnck, hstart, hplan⟩ := plan_compatible a hc (p / a.nc) hn
  unfold sourceStart specStart
  simp only [hplan]
  have hE : p % a.nc < newExtent a (p / a.nc) := by
    unfold newExtent
    have : a.nc * (p / a.nc + 1) = a.nc * (p / a.nc) + a.nc := by ring
    rw [this]; omega
  have hfp : factor a * p = factor a * (a.nc * (p / a.nc)) + factor a * (p % a.nc) := by
    rw [← Nat.mul_add, hdm]
  by_cases hs : newExtent a (p / a.nc) ≤ k
  · simp only [hs, if_true, List.find?_cons]
    have : decide (0 ≤ p % a.nc ∧ p % a.nc < newExtent a (p / a.nc)) = true := by simp; exact hE
    simp only [this]
    rw [hstart, Nat.sub_zero, hfp]
  · simp only [hs, if_false, List.find?_cons]
    by_cases ht : p % a.nc < k
    · have : decide (0 ≤ p % a.nc ∧ p % a.nc < k) = true := by simp; exact ht
      simp only [this]
      rw [hstart, Nat.sub_zero, hfp]
    · have h1 : decide (0 ≤ p % a.nc ∧ p % a.nc < k) = false := by simp; omega
      have h2 : decide (k ≤ p % a.nc ∧ p % a.nc < newExtent a (p / a.nc)) = true := by simp; omega
      simp only [h1, h2]
      rw [Nat.mul_add, hstart, Nat.mul_one, hk, hfp]
      have : factor a * (p % a.nc - k) = factor a * (p % a.nc) - factor a * k := Nat.mul_sub _ _ _
      have hle : factor a * k ≤ factor a * (p % a.nc) := Nat.mul_le_mul_left _ (by omega)
      congr 1
      omega

/-- the source block `[f·p, f·p + f)` never straddles an old chunk boundary when `f ∣ oc`, so the
    chunk-wise downscale of a block-local downscaler equals the global one -/
theorem block_in_one_chunk (f k p : Nat) (hf : f = 1 ∨ f = 2) (hk : 0 < k) :
    (f * p) / (f * k) = (f * p + f - 1) / (f * k) := by
  rcases hf with rfl | rfl
  · simp
  · have e1 : 2 * p / (2 * k) = p / k := Nat.mul_div_mul_left p k (by decide)
    have e2 : (2 * p + 2 - 1) / (2 * k) = p / k := by
      rw [← Nat.div_div_eq_div_mul]
      congr 1
      omega
    rw [e1, e2]

end NgVerif.Pyramid
