import NgVerif.Model.CsegDecode
import Mathlib.Tactic.Ring
namespace NgVerif.Cseg

/-! ### indexing into nested `flatMap`s over ranges -/

theorem flatMap_getElem_of_const_len {α β} (g : α → List β) (n : Nat) :
    ∀ (l : List α), (∀ x ∈ l, (g x).length = n) → ∀ (i j : Nat) (hi : i < l.length), j < n →
      (l.flatMap g)[i * n + j]? = (g l[i])[j]?
  | [], _, i, _, hi, _ => by simp at hi
  | a :: t, h, 0, j, _, hj => by
    have ha := h a (by simp)
    simp only [List.flatMap_cons, Nat.zero_mul, Nat.zero_add, List.getElem_cons_zero]
    rw [List.getElem?_append_left (by omega)]
  | a :: t, h, i+1, j, hi, hj => by
    have ha := h a (by simp)
    have ih := flatMap_getElem_of_const_len g n t (fun x hx => h x (by simp [hx])) i j
      (by simpa using hi) hj
    simp only [List.flatMap_cons, List.getElem_cons_succ]
    have e : (i + 1) * n + j = n + (i * n + j) := by ring
    rw [e, List.getElem?_append_right (by omega)]
    have e2 : n + (i * n + j) - (g a).length = i * n + j := by omega
    rw [e2, ih]

theorem flatMap_length_of_const_len {α β} (g : α → List β) (n : Nat) :
    ∀ (l : List α), (∀ x ∈ l, (g x).length = n) → (l.flatMap g).length = l.length * n
  | [], _ => by simp
  | a :: t, h => by
    have ha := h a (by simp)
    have ih := flatMap_length_of_const_len g n t (fun x hx => h x (by simp [hx]))
    simp only [List.flatMap_cons, List.length_append, List.length_cons, ha, ih]
    ring

/-- three nested ranges: element `(i, j, k)` sits at position `(i·b + j)·c + k` -/
theorem nested3_getElem {β} (a b c : Nat) (f : Nat → Nat → Nat → β) (i j k : Nat)
    (hi : i < a) (hj : j < b) (hk : k < c) :
    ((List.range a).flatMap fun i => (List.range b).flatMap fun j =>
        (List.range c).map fun k => f i j k)[(i * b + j) * c + k]? = some (f i j k) := by
  have inner : ∀ i', ((List.range b).flatMap fun j => (List.range c).map fun k => f i' j k).length = b * c := by
    intro i'
    rw [flatMap_length_of_const_len _ c _ (by intro x _; simp)]
    simp
  have e : (i * b + j) * c + k = i * (b * c) + (j * c + k) := by ring
  have hjk : j * c + k < b * c := by
    have : (j + 1) * c ≤ b * c := Nat.mul_le_mul_right c hj
    have e3 : (j + 1) * c = j * c + c := by ring
    omega
  rw [e, flatMap_getElem_of_const_len _ (b * c) _ (by intro x _; exact inner x) i (j * c + k)
    (by simpa using hi) hjk]
  simp only [List.getElem_range]
  rw [flatMap_getElem_of_const_len _ c _ (by intro x _; simp) j k (by simpa using hj) hk]
  simp [hk]

theorem nested3_length {β} (a b c : Nat) (f : Nat → Nat → Nat → β) :
    ((List.range a).flatMap fun i => (List.range b).flatMap fun j =>
        (List.range c).map fun k => f i j k).length = a * (b * c) := by
  rw [flatMap_length_of_const_len _ (b * c) _ (by
    intro x _
    rw [flatMap_length_of_const_len _ c _ (by intro y _; simp)]
    simp)]
  simp

/-! ### `ceil_div` and block coordinates -/

theorem div_lt_ceilDiv (n b x : Nat) (hb : 0 < b) (hx : x < n) : x / b < ceilDiv n b := by
  unfold ceilDiv
  have : x ≤ n - 1 := by omega
  have := Nat.div_le_div_right (c := b) this
  omega

theorem blockCoords_length (g : Nat × Nat × Nat) : (blockCoords g).length = g.2.2 * (g.2.1 * g.1) := by
  unfold blockCoords
  exact nested3_length _ _ _ _

/-- the block containing voxel (x, y, z) is entry `x/bx + gx·(y/by + gy·(z/bz))` of the visiting order -/
theorem blockCoords_getElem (g : Nat × Nat × Nat) (bx by' bz : Nat)
    (hx : bx < g.1) (hy : by' < g.2.1) (hz : bz < g.2.2) :
    (blockCoords g)[bx + g.1 * (by' + g.2.1 * bz)]? = some (bx, by', bz) := by
  have e : bx + g.1 * (by' + g.2.1 * bz) = (bz * g.2.1 + by') * g.1 + bx := by ring
  rw [e]
  unfold blockCoords
  exact nested3_getElem g.2.2 g.2.1 g.1 (fun bz by' bx => (bx, by', bz)) bz by' bx hz hy hx

theorem blockIndex_lt (g : Nat × Nat × Nat) (bx by' bz : Nat)
    (hx : bx < g.1) (hy : by' < g.2.1) (hz : bz < g.2.2) :
    bx + g.1 * (by' + g.2.1 * bz) < g.1 * g.2.1 * g.2.2 := by
  have h1 : by' + g.2.1 * bz < g.2.1 * g.2.2 := by
    have : g.2.1 * (bz + 1) ≤ g.2.1 * g.2.2 := Nat.mul_le_mul_left _ hz
    have e : g.2.1 * (bz + 1) = g.2.1 * bz + g.2.1 := by ring
    omega
  have h2 : g.1 * (by' + g.2.1 * bz + 1) ≤ g.1 * (g.2.1 * g.2.2) := Nat.mul_le_mul_left _ h1
  have e : g.1 * (by' + g.2.1 * bz + 1) = g.1 * (by' + g.2.1 * bz) + g.1 := by ring
  have e2 : g.1 * g.2.1 * g.2.2 = g.1 * (g.2.1 * g.2.2) := by ring
  omega

/-! ### the values of a block -/

/-- in-block position `dx + bx·(dy + by·dz)` of the block containing an in-chunk voxel holds that voxel -/
theorem blockVals_getElem (s : Shape) (b : Blk3) (d : List Nat) (c z y x : Nat)
    (hbx : 0 < b.bx) (hby : 0 < b.by') (hbz : 0 < b.bz)
    (hz : z < s.z) (hy : y < s.y) (hx : x < s.x) :
    (blockVals s b d c (x / b.bx) (y / b.by') (z / b.bz))[x % b.bx + b.bx * (y % b.by' + b.by' * (z % b.bz))]?
      = some (vox s d c z y x) := by
  have e : x % b.bx + b.bx * (y % b.by' + b.by' * (z % b.bz))
      = ((z % b.bz) * b.by' + y % b.by') * b.bx + x % b.bx := by ring
  rw [e]
  unfold blockVals
  simp only [List.getElem?_map]
  rw [nested3_getElem b.bz b.by' b.bx (fun dz dy dx => (dz, dy, dx)) (z % b.bz) (y % b.by') (x % b.bx)
    (Nat.mod_lt _ hbz) (Nat.mod_lt _ hby) (Nat.mod_lt _ hbx)]
  simp only [Option.map_some]
  have ez : z / b.bz * b.bz + z % b.bz = z := by rw [Nat.mul_comm]; exact Nat.div_add_mod z b.bz
  have ey : y / b.by' * b.by' + y % b.by' = y := by rw [Nat.mul_comm]; exact Nat.div_add_mod y b.by'
  have ex : x / b.bx * b.bx + x % b.bx = x := by rw [Nat.mul_comm]; exact Nat.div_add_mod x b.bx
  simp only [ez, ey, ex, hz, hy, hx, and_self, if_true]

theorem blockVals_length (s : Shape) (b : Blk3) (d : List Nat) (c bxi byi bzi : Nat) :
    (blockVals s b d c bxi byi bzi).length = b.bz * (b.by' * b.bx) := by
  unfold blockVals
  simp only [List.length_map]
  exact nested3_length _ _ _ _

end NgVerif.Cseg
