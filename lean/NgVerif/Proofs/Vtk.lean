import NgVerif.Model.Vtk
namespace NgVerif.Vtk

theorem titleLine_length (title version : String) : (titleLine title version).length ≤ 255 := by
  unfold titleLine
  simp [String.length_ofList]
  omega

theorem takeRows_append (k : Nat) (rows : List (List String)) (hk : ∀ r ∈ rows, r.length = k) (rest : List Line) :
    takeRows k rows.length (rows.map (fun r => r.map Tok.flt) ++ rest) = some rest := by
  induction rows with
  | nil => simp [takeRows]
  | cons r t ih =>
    have hr := hk r (by simp)
    simp only [List.length_cons, List.map_cons, List.cons_append, takeRows]
    have : ((r.map Tok.flt).length == k) = true := by simp [hr]
    have h2 : ((r.map Tok.flt).all isFlt) = true := by simp [isFlt]
    simp only [this, h2, Bool.and_self, if_true]
    exact ih (fun r' hr' => hk r' (by simp [hr']))

theorem takePolys_append (n : Nat) (tris : List (List Nat))
    (ht : ∀ t ∈ tris, t.length = 3 ∧ ∀ i ∈ t, i < n) (rest : List Line) :
    takePolys n tris.length (tris.map (fun t => Tok.num 3 :: t.map Tok.num) ++ rest) = some rest := by
  induction tris with
  | nil => simp [takePolys]
  | cons t ts ih =>
    obtain ⟨hl, hi⟩ := ht t (by simp)
    match t, hl with
    | [a, b, c], _ =>
      have ha := hi a (by simp); have hb := hi b (by simp); have hc := hi c (by simp)
      simp only [List.length_cons, List.map_cons, List.map_nil, List.cons_append, takePolys]
      simp only [ha, hb, hc, decide_true, Bool.and_self, if_true]
      exact ih (fun t' ht' => ht t' (by simp [ht']))
theorem takeAttrs_flatMap (n : Nat) (attrs : List Attr)
    (ha : ∀ a ∈ attrs, 1 ≤ a.comps ∧ a.comps ≤ 4 ∧ a.rows.length = n ∧ ∀ r ∈ a.rows, r.length = a.comps) :
    ∀ fuel, attrs.length ≤ fuel → takeAttrs n fuel (attrs.flatMap attrLines) = true := by
  induction attrs with
  | nil => intro fuel _; cases fuel <;> simp [takeAttrs]
  | cons a t ih =>
    intro fuel hf
    obtain ⟨h1, h4, hn, hr⟩ := ha a (by simp)
    cases fuel with
    | zero => simp at hf
    | succ fuel =>
      have hrows := takeRows_append a.comps a.rows hr (t.flatMap attrLines)
      rw [hn] at hrows
      simp only [List.flatMap_cons, attrLines, List.cons_append, List.nil_append, List.append_assoc]
      by_cases hc : a.comps = 1
      · simp only [hc, ne_eq, not_true_eq_false, if_false, List.append_nil, takeAttrs]
        rw [hc] at hrows
        simp only [hrows]
        exact ih (fun a' ha' => ha a' (by simp [ha'])) fuel (by simpa using hf)
      · simp only [hc, ne_eq, not_false_eq_true, if_true, List.cons_append, List.nil_append, takeAttrs]
        have : (decide (1 ≤ a.comps) && decide (a.comps ≤ 4)) = true := by simp [h1, h4]
        simp only [this, if_true, hrows]
        exact ih (fun a' ha' => ha a' (by simp [ha'])) fuel (by simpa using hf)

theorem length_flatMap_attrLines_ge (attrs : List Attr) : attrs.length ≤ (attrs.flatMap attrLines).length := by
  induction attrs with
  | nil => simp
  | cons a t ih => simp only [List.flatMap_cons, List.length_append, List.length_cons, attrLines]; omega

/-- every file the writer produces (vertex rows of three numbers, triangles of three existing vertices,
    attributes of one to four components with one row per vertex) is accepted by the recogniser -/
theorem write_accepted (title version : String) (pts : List (List String)) (tris : List (List Nat))
    (attrs : List Attr) (hp : ∀ p ∈ pts, p.length = 3)
    (ht : ∀ t ∈ tris, t.length = 3 ∧ ∀ i ∈ t, i < pts.length)
    (ha : ∀ a ∈ attrs, 1 ≤ a.comps ∧ a.comps ≤ 4 ∧ a.rows.length = pts.length ∧ ∀ r ∈ a.rows, r.length = a.comps) :
    accepts (write title version pts tris attrs) = true := by
  unfold write
  simp only [List.cons_append, List.nil_append, List.append_assoc, accepts]
  have h1 := titleLine_length title version
  simp only [decide_eq_true h1, Bool.true_and]
  rw [takeRows_append 3 pts hp]
  simp only [List.cons_append, List.nil_append, beq_self_eq_true, Bool.true_and]
  rw [takePolys_append pts.length tris ht]
  cases attrs with
  | nil => simp
  | cons a t =>
    simp only [List.isEmpty_cons, Bool.false_eq_true, if_false, beq_self_eq_true, Bool.true_and]
    exact takeAttrs_flatMap pts.length (a :: t) ha _ (length_flatMap_attrLines_ge (a :: t))

end NgVerif.Vtk
