import NgVerif.Model.Shard
import NgVerif.Proofs.MiniShard
namespace NgVerif.Shard

theorem nextId_eq (m s p masked n : Nat) :
    nextId m s p masked n = n / 2 ^ p * 2 ^ (p + s + m) + masked + n % 2 ^ p := by
  simp [nextId, Nat.shiftRight_eq_div_pow, Nat.shiftLeft_eq, Nat.and_two_pow_sub_one_eq_mod]

/-- the enumeration of a minishard's identifiers is strictly increasing -/
theorem nextId_strictMono (m s p masked : Nat) (a b : Nat) (h : a < b) :
    nextId m s p masked a < nextId m s p masked b := by
  rw [nextId_eq, nextId_eq]
  have hA : 0 < 2 ^ p := Nat.two_pow_pos p
  have hAB : 2 ^ p ≤ 2 ^ (p + s + m) := Nat.pow_le_pow_right (by decide) (by omega)
  have ra := Nat.mod_lt a hA
  have rb := Nat.mod_lt b hA
  have da := Nat.div_add_mod a (2 ^ p)
  have db := Nat.div_add_mod b (2 ^ p)
  have hq : a / 2 ^ p ≤ b / 2 ^ p := Nat.div_le_div_right (Nat.le_of_lt h)
  rcases Nat.lt_or_eq_of_le hq with hlt | heq
  · have : (a / 2 ^ p + 1) * 2 ^ (p + s + m) ≤ b / 2 ^ p * 2 ^ (p + s + m) :=
      Nat.mul_le_mul_right _ hlt
    rw [Nat.add_mul, Nat.one_mul] at this
    omega
  · rw [heq] at da ⊢
    have : a % 2 ^ p < b % 2 ^ p := by omega
    omega

end NgVerif.Shard

namespace NgVerif.MS

variable (nxt : Nat → Nat)

/-! ### reading back the canonical contents -/

def sumD (rows : List (Nat × Nat)) : Nat := (rows.map (·.1)).sum
def sumSz (rows : List (Nat × Nat)) : Nat := (rows.map (·.2)).sum

theorem locate_append (rows : List (Nat × Nat)) (x : Nat × Nat) (id : Nat) :
    ∀ cur off, locate (rows ++ [x]) cur off id =
      match locate rows cur off id with
      | some r => some r
      | none => locate [x] (cur + sumD rows) (off + sumSz rows) id := by
  induction rows with
  | nil => intro cur off; simp [locate, sumD, sumSz]
  | cons hd t ih =>
    obtain ⟨d, sz⟩ := hd
    intro cur off
    simp only [List.cons_append, locate]
    split
    · rfl
    · rw [ih]
      simp only [sumD, sumSz, List.map_cons, List.sum_cons]
      have e1 : cur + d + (t.map (·.1)).sum = cur + (d + (t.map (·.1)).sum) := by omega
      have e2 : off + sz + (t.map (·.2)).sum = off + (sz + (t.map (·.2)).sum) := by omega
      rw [e1, e2]
      cases locate t (cur + d) (off + sz) id <;> simp [locate]

/-- cumulative identifier and data length of the canonical state -/
theorem canon_sums (S : Nat → Option Payload) (mono : ∀ a b, a < b → nxt a < nxt b) :
    ∀ n, sumD (canon nxt S n).rows = (canon nxt S n).lastId
       ∧ sumSz (canon nxt S n).rows = (canon nxt S n).data.length
       ∧ (canon nxt S n).lastId = (if n = 0 then 0 else nxt (n - 1)) := by
  intro n
  induction n with
  | zero => simp [canon, St.init, sumD, sumSz]
  | succ n ih =>
    obtain ⟨h1, h2, h3⟩ := ih
    simp only [canon, append, sumD, sumSz, List.map_append, List.sum_append, List.map_cons,
      List.map_nil, List.sum_cons, List.sum_nil, Nat.add_zero, List.length_append] at *
    refine ⟨?_, ?_, by simp⟩
    · rw [h1, h3]
      by_cases hn : n = 0
      · simp [hn]
      · simp only [hn, if_false]
        have := mono (n - 1) n (by omega)
        omega
    · rw [h2]

/-- every rank below `n` is found in the canonical rows at the position of its payload;
    identifiers that are not `nxt r` for some `r < n` are not found -/
theorem locate_canon (S : Nat → Option Payload) (mono : ∀ a b, a < b → nxt a < nxt b) :
    ∀ n, (∀ r, r < n → ∃ off, locate (canon nxt S n).rows 0 0 (nxt r)
              = some (off, ((S (nxt r)).getD []).length)
            ∧ ((canon nxt S n).data.drop off).take ((S (nxt r)).getD []).length = (S (nxt r)).getD [])
       ∧ (∀ id, (∀ r, r < n → nxt r ≠ id) → locate (canon nxt S n).rows 0 0 id = none) := by
  intro n
  induction n with
  | zero =>
    refine ⟨fun r hr => by omega, fun id _ => by simp [canon, St.init, locate]⟩
  | succ n ih =>
    obtain ⟨ihf, ihn⟩ := ih
    obtain ⟨s1, s2, s3⟩ := canon_sums nxt S mono n
    have hlast : (canon nxt S n).lastId ≤ nxt n := by
      rw [s3]; split
      · omega
      · exact Nat.le_of_lt (mono (n - 1) n (by omega))
    constructor
    · intro r hr
      by_cases hrn : r = n
      · subst hrn
        have hnot := ihn (nxt r) (fun r' hr' h => by
          have := mono r' r hr'; omega)
        refine ⟨(canon nxt S r).data.length, ?_, ?_⟩
        · simp only [canon, append]
          rw [locate_append, hnot]
          simp only [locate, Nat.zero_add, s1, s2]
          have : (canon nxt S r).lastId + (nxt r - (canon nxt S r).lastId) = nxt r := by omega
          simp [this]
        · simp only [canon, append]
          rw [List.drop_append_of_le_length (Nat.le_refl _), List.drop_length, List.nil_append,
            List.take_length]
      · obtain ⟨off, hloc, hbytes⟩ := ihf r (by omega)
        refine ⟨off, ?_, ?_⟩
        · simp only [canon, append]
          rw [locate_append, hloc]
        · simp only [canon, append]
          -- the located range lies inside the old data, so appending does not change it
          have hlen : ((canon nxt S n).data.drop off).take ((S (nxt r)).getD []).length
              = (S (nxt r)).getD [] := hbytes
          have hle : off + ((S (nxt r)).getD []).length ≤ (canon nxt S n).data.length
              ∨ ((S (nxt r)).getD []).length = 0 := by
            by_cases h0 : ((S (nxt r)).getD []).length = 0
            · exact Or.inr h0
            · left
              have := congrArg List.length hlen
              simp only [List.length_take, List.length_drop] at this
              omega
          rcases hle with hle | h0
          · rw [List.drop_append_of_le_length (by omega), List.take_append_of_le_length]
            · exact hlen
            · simp only [List.length_drop]; omega
          · rw [h0] at hlen ⊢
            simp at hlen ⊢
            exact hlen
    · intro id hid
      simp only [canon, append]
      rw [locate_append, ihn id (fun r hr => hid r (by omega))]
      simp only [locate, Nat.zero_add, s1]
      have : (canon nxt S n).lastId + (nxt n - (canon nxt S n).lastId) = nxt n := by omega
      rw [this]
      have := hid n (by omega)
      simp [this]

/-- reading any rank back from the canonical state returns the stored payload
    (the empty payload for a gap) -/
theorem readBack_canon (S : Nat → Option Payload) (mono : ∀ a b, a < b → nxt a < nxt b)
    (n r : Nat) (hr : r < n) :
    readBack (canon nxt S n) (nxt r) = some ((S (nxt r)).getD []) := by
  obtain ⟨off, hloc, hbytes⟩ := (locate_canon nxt S mono n).1 r hr
  simp only [readBack, hloc, hbytes]

theorem readBack_canon_absent (S : Nat → Option Payload) (mono : ∀ a b, a < b → nxt a < nxt b)
    (n id : Nat) (hid : ∀ r, r < n → nxt r ≠ id) : readBack (canon nxt S n) id = none := by
  simp only [readBack, (locate_canon nxt S mono n).2 id hid]

end NgVerif.MS
