import NgVerif.Model.Convert
import NgVerif.Proofs.Coords
import NgVerif.Proofs.Tiling
namespace NgVerif.Convert
open NgVerif.Coords

/-- a range of `Tiling.ranges` is a grid cell in the sense of `validate_chunk_coords` -/
theorem range_onGridAxis (size cs : Nat) (hs : 0 < size) (hc : 0 < cs) (r : Nat × Nat)
    (hr : r ∈ Tiling.ranges size cs) : onGridAxis (r.1 : Int) (r.2 : Int) (cs : Int) (size : Int) := by
  simp only [Tiling.ranges, List.mem_map, List.mem_range] at hr
  obtain ⟨i, hi, rfl⟩ := hr
  obtain ⟨h1, _⟩ := Tiling.range_onGrid size cs hs hc i hi
  refine ⟨(i : Int), Int.natCast_nonneg i, ?_, ?_, ?_⟩
  · simp only []; rw [Nat.mul_comm]; push_cast; rfl
  · simp only []; exact_mod_cast h1
  · simp only []
    have : cs * (i + 1) = cs * i + cs := by rw [Nat.mul_add, Nat.mul_one]
    rw [this]
    generalize cs * i = a
    omega

/-- and conversely every grid cell is one of the ranges -/
theorem onGridAxis_range (size cs : Nat) (hc : 0 < cs) (lo hi : Int)
    (h : onGridAxis lo hi (cs : Int) (size : Int)) :
    ∃ r ∈ Tiling.ranges size cs, lo = (r.1 : Int) ∧ hi = (r.2 : Int) := by
  obtain ⟨i, h0, h1, h2, h3⟩ := h
  obtain ⟨n, rfl⟩ := Int.eq_ofNat_of_zero_le h0
  have hlt : n * cs < size := by
    have : ((n * cs : Nat) : Int) < (size : Int) := by push_cast; rw [← h1]; exact h2
    exact_mod_cast this
  have hn : n < Tiling.count size cs := by
    have := Tiling.index_in_grid size cs (n * cs) hlt
    rwa [Nat.mul_div_cancel _ hc] at this
  refine ⟨(cs * n, min (cs * (n + 1)) size), ?_, ?_, ?_⟩
  · simp only [Tiling.ranges, List.mem_map, List.mem_range]; exact ⟨n, hn, rfl⟩
  · simp only []; rw [h1]; push_cast; rw [Int.mul_comm]
  · simp only []
    rw [h3, h1]
    have : cs * (n + 1) = n * cs + cs := by rw [Nat.mul_add, Nat.mul_one, Nat.mul_comm]
    rw [this]
    have h4 : ((n : Int) * (cs : Int)) = ((n * cs : Nat) : Int) := by push_cast; rfl
    rw [h4]
    generalize n * cs = a
    omega

theorem mem_grid3 (size cs : Nat × Nat × Nat) (c : Cell) :
    c ∈ Tiling.grid3 size cs ↔
      c.1 ∈ Tiling.ranges size.1 cs.1 ∧ c.2.1 ∈ Tiling.ranges size.2.1 cs.2.1 ∧
        c.2.2 ∈ Tiling.ranges size.2.2 cs.2.2 := by
  obtain ⟨rx, ry, rz⟩ := c
  simp only [Tiling.grid3, List.mem_flatMap, List.mem_map]
  constructor
  · rintro ⟨rx', hx, ry', hy, rz', hz, heq⟩
    simp only [Prod.mk.injEq] at heq
    obtain ⟨rfl, rfl, rfl⟩ := heq
    exact ⟨hx, hy, hz⟩
  · rintro ⟨hx, hy, hz⟩
    exact ⟨rx, hx, ry, hy, rz, hz, rfl⟩

/-- every key the loop visits passes the destination's own grid test -/
theorem planScale_onGrid (s : ScaleInfo) (hs : 0 < s.size.1 ∧ 0 < s.size.2.1 ∧ 0 < s.size.2.2)
    (hpos : ∀ cs ∈ s.chunkSizes, 0 < cs.1 ∧ 0 < cs.2.1 ∧ 0 < cs.2.2) (k : Key) (hk : k ∈ planScale s) :
    k.1 = s.key ∧ onGrid (toI s.size) (s.chunkSizes.map toI) k.2 := by
  simp only [planScale, List.mem_flatMap, List.mem_map] at hk
  obtain ⟨cs, hcs, c, hc, rfl⟩ := hk
  refine ⟨rfl, toI cs, List.mem_map.mpr ⟨cs, hcs, rfl⟩, ?_⟩
  obtain ⟨p1, p2, p3⟩ := hpos cs hcs
  obtain ⟨m1, m2, m3⟩ := (mem_grid3 s.size cs c).mp hc
  exact ⟨range_onGridAxis _ _ hs.1 p1 _ m1, range_onGridAxis _ _ hs.2.1 p2 _ m2,
    range_onGridAxis _ _ hs.2.2 p3 _ m3⟩

/-- and every cell of the destination's grid is visited -/
theorem onGrid_planScale (s : ScaleInfo)
    (hpos : ∀ cs ∈ s.chunkSizes, 0 < cs.1 ∧ 0 < cs.2.1 ∧ 0 < cs.2.2) (b : Box)
    (hb : onGrid (toI s.size) (s.chunkSizes.map toI) b) : (s.key, b) ∈ planScale s := by
  obtain ⟨csI, hm, h1, h2, h3⟩ := hb
  obtain ⟨cs, hcs, rfl⟩ := List.mem_map.mp hm
  obtain ⟨p1, p2, p3⟩ := hpos cs hcs
  obtain ⟨rx, mx, ex1, ex2⟩ := onGridAxis_range _ _ p1 _ _ h1
  obtain ⟨ry, my, ey1, ey2⟩ := onGridAxis_range _ _ p2 _ _ h2
  obtain ⟨rz, mz, ez1, ez2⟩ := onGridAxis_range _ _ p3 _ _ h3
  simp only [planScale, List.mem_flatMap, List.mem_map]
  refine ⟨cs, hcs, (rx, ry, rz), (mem_grid3 _ _ _).mpr ⟨mx, my, mz⟩, ?_⟩
  obtain ⟨a1, a2, a3, a4, a5, a6⟩ := b
  simp only [boxOf, Prod.mk.injEq, Box.mk.injEq, true_and]
  simp only [] at ex1 ex2 ey1 ey2 ez1 ez2
  exact ⟨ex1.symm, ex2.symm, ey1.symm, ey2.symm, ez1.symm, ez2.symm⟩

/-! ### the loop over a map-like store -/

theorem run_ok (valid : Key → Bool) (enc : Key → List Nat → Bytes)
    (rd : Key → Except IOErr (List Nat)) (tr : Nat → Nat) (srcArr : Key → List Nat) :
    ∀ (keys : List Key) (st0 : Store),
      (∀ k ∈ keys, valid k = true) → (∀ k ∈ keys, rd k = .ok (srcArr k)) →
      ∃ st, run rd tr (writeK valid enc) st0 keys = .ok st ∧
        ∀ k, st.get k = if k ∈ keys then some (enc k ((srcArr k).map tr)) else st0.get k := by
  intro keys
  induction keys with
  | nil => intro st0 _ _; exact ⟨st0, rfl, fun k => by simp⟩
  | cons k t ih =>
    intro st0 hv hr
    have hvk := hv k (List.mem_cons_self)
    have hrk := hr k (List.mem_cons_self)
    obtain ⟨st, hrun, hget⟩ := ih (st0.put k (enc k ((srcArr k).map tr)))
      (fun k' hk' => hv k' (List.mem_cons_of_mem _ hk')) (fun k' hk' => hr k' (List.mem_cons_of_mem _ hk'))
    refine ⟨st, ?_, ?_⟩
    · simp only [run, step, hrk, writeK, hvk, if_true]
      exact hrun
    · intro k'
      rw [hget k']
      by_cases h1 : k' ∈ t
      · simp [h1]
      · by_cases h2 : k' = k
        · subst h2; simp [h1, Store.put]
        · simp [h1, h2, Store.put]

/-- success means every planned chunk was read successfully (nothing is skipped silently) -/
theorem run_ok_reads (rd : Key → Except IOErr (List Nat)) (tr : Nat → Nat)
    (wr : Store → Key → List Nat → Except IOErr Store) :
    ∀ (keys : List Key) (st0 st : Store), run rd tr wr st0 keys = .ok st →
      ∀ k ∈ keys, ∃ a, rd k = .ok a := by
  intro keys
  induction keys with
  | nil => intro _ _ _ k hk; cases hk
  | cons k t ih =>
    intro st0 st h k' hk'
    simp only [run, step] at h
    cases hrd : rd k with
    | error e => rw [hrd] at h; cases h
    | ok a =>
      rw [hrd] at h
      simp only [] at h
      cases hw : wr st0 k (a.map tr) with
      | error e => rw [hw] at h; cases h
      | ok st1 =>
        rw [hw] at h
        rcases List.mem_cons.mp hk' with rfl | hm
        · exact ⟨a, hrd⟩
        · exact ih st1 st h k' hm

theorem find_scale (l : List ScaleInfo) (hd : l.Pairwise (fun a b => a.key ≠ b.key)) (s : ScaleInfo)
    (hs : s ∈ l) : l.find? (fun t => t.key == s.key) = some s := by
  induction l with
  | nil => cases hs
  | cons a l ih =>
    rw [List.pairwise_cons] at hd
    by_cases h : a.key = s.key
    · have : a = s := by
        rcases List.mem_cons.mp hs with rfl | hm
        · rfl
        · exact absurd h (hd.1 s hm)
      subst this
      simp [List.find?_cons]
    · have hm : s ∈ l := by
        rcases List.mem_cons.mp hs with rfl | hm
        · exact absurd rfl h
        · exact hm
      have hb : (a.key == s.key) = false := by simpa using h
      rw [List.find?_cons, hb]
      exact ih hd.2 hm

theorem mem_plan (dst : List ScaleInfo) (k : Key) : k ∈ plan dst ↔ ∃ s ∈ dst, k ∈ planScale s := by
  simp [plan, List.mem_flatMap]

/-- every planned key passes the grid test of a dataset whose scales include the planned ones -/
theorem plan_valid (dst : List ScaleInfo) (hd : dst.Pairwise (fun a b => a.key ≠ b.key))
    (hsz : ∀ s ∈ dst, 0 < s.size.1 ∧ 0 < s.size.2.1 ∧ 0 < s.size.2.2)
    (hpos : ∀ s ∈ dst, ∀ cs ∈ s.chunkSizes, 0 < cs.1 ∧ 0 < cs.2.1 ∧ 0 < cs.2.2)
    (k : Key) (hk : k ∈ plan dst) : validFor dst k = true := by
  obtain ⟨s, hs, hks⟩ := (mem_plan dst k).mp hk
  obtain ⟨hkey, hgrid⟩ := planScale_onGrid s (hsz s hs) (hpos s hs) k hks
  unfold validFor
  rw [hkey, find_scale dst hd s hs]
  simp only []
  apply (validate_iff _ _ _ ?_).mpr hgrid
  intro csI hm
  obtain ⟨cs, hcs, rfl⟩ := List.mem_map.mp hm
  obtain ⟨p1, p2, p3⟩ := hpos s hs cs hcs
  simp only [toI]
  exact ⟨by exact_mod_cast p1, by exact_mod_cast p2, by exact_mod_cast p3⟩

end NgVerif.Convert
