import NgVerif.Proofs.Tiling
import NgVerif.Proofs.CsegIndex
import Mathlib.Tactic.Ring
import Mathlib.Tactic.FieldSimp
import Mathlib.Data.Rat.Defs
import Mathlib.Algebra.Order.Field.Rat
namespace NgVerif.Volume
open NgVerif.Tiling

def inCell (c : (Nat × Nat) × (Nat × Nat) × (Nat × Nat)) (x y z : Nat) : Prop :=
  (c.1.1 ≤ x ∧ x < c.1.2) ∧ (c.2.1.1 ≤ y ∧ y < c.2.1.2) ∧ (c.2.2.1 ≤ z ∧ z < c.2.2.2)

theorem mem_grid3 (size cs : Nat × Nat × Nat) (c : (Nat × Nat) × (Nat × Nat) × (Nat × Nat)) :
    c ∈ grid3 size cs ↔ c.1 ∈ ranges size.1 cs.1 ∧ c.2.1 ∈ ranges size.2.1 cs.2.1 ∧
      c.2.2 ∈ ranges size.2.2 cs.2.2 := by
  unfold grid3
  simp only [List.mem_flatMap, List.mem_map]
  constructor
  · rintro ⟨rx, hx, ry, hy, rz, hz, rfl⟩
    exact ⟨hx, hy, hz⟩
  · rintro ⟨hx, hy, hz⟩
    exact ⟨c.1, hx, c.2.1, hy, c.2.2, hz, rfl⟩

theorem mem_volumeLoop (size cs : Nat × Nat × Nat) (c : (Nat × Nat) × (Nat × Nat) × (Nat × Nat)) :
    c ∈ volumeLoop size cs ↔ c ∈ grid3 size cs := by
  rw [mem_grid3]
  unfold volumeLoop
  simp only [List.mem_flatMap, List.mem_map]
  constructor
  · rintro ⟨rz, hz, ry, hy, rx, hx, rfl⟩
    exact ⟨hx, hy, hz⟩
  · rintro ⟨hx, hy, hz⟩
    exact ⟨c.2.2, hz, c.2.1, hy, c.1, hx, rfl⟩

/-- every voxel of the volume lies in exactly one cell of the chunk grid the conversion loops
    iterate over: no voxel is missing and none is written twice -/
theorem voxel_in_exactly_one_chunk (size cs : Nat × Nat × Nat)
    (hc : 0 < cs.1 ∧ 0 < cs.2.1 ∧ 0 < cs.2.2) (x y z : Nat)
    (hx : x < size.1) (hy : y < size.2.1) (hz : z < size.2.2) :
    ∃ c ∈ grid3 size cs, inCell c x y z ∧ ∀ c' ∈ grid3 size cs, inCell c' x y z → c' = c := by
  obtain ⟨rx, hrx, hinx, hux⟩ := exists_unique_range size.1 cs.1 hc.1 x hx
  obtain ⟨ry, hry, hiny, huy⟩ := exists_unique_range size.2.1 cs.2.1 hc.2.1 y hy
  obtain ⟨rz, hrz, hinz, huz⟩ := exists_unique_range size.2.2 cs.2.2 hc.2.2 z hz
  refine ⟨(rx, ry, rz), (mem_grid3 size cs _).mpr ⟨hrx, hry, hrz⟩, ⟨hinx, hiny, hinz⟩, ?_⟩
  intro c' hc' hin'
  obtain ⟨m1, m2, m3⟩ := (mem_grid3 size cs c').mp hc'
  obtain ⟨i1, i2, i3⟩ := hin'
  have e1 := hux c'.1 m1 i1
  have e2 := huy c'.2.1 m2 i2
  have e3 := huz c'.2.2 m3 i3
  obtain ⟨a, b, c⟩ := c'
  simp only at e1 e2 e3
  rw [e1, e2, e3]


/-! ### reading a converted volume back -/

theorem inCellB_iff (c : Cell) (x y z : Nat) : inCellB c x y z = true ↔ inCell c x y z := by
  simp [inCellB, inCell, and_assoc]

/-- position `((c·Z + dz)·Y + dy)·X + dx` of a flattened chunk holds `vol (x0+dx) (y0+dy) (z0+dz) c` -/
theorem chunkOf_getElem {α} (vol : Nat → Nat → Nat → Nat → α) (C : Nat) (cell : Cell) (c dz dy dx : Nat)
    (hc : c < C) (hz : dz < cell.2.2.2 - cell.2.2.1) (hy : dy < cell.2.1.2 - cell.2.1.1)
    (hx : dx < cell.1.2 - cell.1.1) :
    (chunkOf vol C cell)[((c * (cell.2.2.2 - cell.2.2.1) + dz) * (cell.2.1.2 - cell.2.1.1) + dy)
        * (cell.1.2 - cell.1.1) + dx]?
      = some (vol (cell.1.1 + dx) (cell.2.1.1 + dy) (cell.2.2.1 + dz) c) := by
  unfold chunkOf
  generalize cell.2.2.2 - cell.2.2.1 = Z at *
  generalize cell.2.1.2 - cell.2.1.1 = Y at *
  generalize cell.1.2 - cell.1.1 = X at *
  have e : ((c * Z + dz) * Y + dy) * X + dx = c * (Z * (Y * X)) + ((dz * Y + dy) * X + dx) := by ring
  have hin : (dz * Y + dy) * X + dx < Z * (Y * X) := by
    have h1 : dz * Y + dy + 1 ≤ Z * Y := by
      have : (dz + 1) * Y ≤ Z * Y := Nat.mul_le_mul_right Y hz
      have e3 : (dz + 1) * Y = dz * Y + Y := by ring
      omega
    have h2 : (dz * Y + dy + 1) * X ≤ Z * Y * X := Nat.mul_le_mul_right X h1
    have e4 : (dz * Y + dy + 1) * X = (dz * Y + dy) * X + X := by ring
    have e5 : Z * Y * X = Z * (Y * X) := by ring
    omega
  rw [e, Cseg.flatMap_getElem_of_const_len _ (Z * (Y * X)) _
    (by intro x _; exact Cseg.nested3_length Z Y X _) c _ (by simpa using hc) hin]
  simp only [List.getElem_range]
  exact Cseg.nested3_getElem Z Y X _ dz dy dx hz hy hx

/-- reading back what the conversion loop wrote: EVERY voxel of EVERY channel comes back, from its own
    position — for all volume sizes, channel counts and (non-cubic) chunk sizes -/
theorem readVoxel_convert {α} (vol : Nat → Nat → Nat → Nat → α) (C : Nat) (size cs : Nat × Nat × Nat)
    (hc : 0 < cs.1 ∧ 0 < cs.2.1 ∧ 0 < cs.2.2) (x y z c : Nat)
    (hx : x < size.1) (hy : y < size.2.1) (hz : z < size.2.2) (hch : c < C) :
    readVoxel (convert vol C size cs) x y z c = some (vol x y z c) := by
  obtain ⟨cell, hm, hin, hu⟩ := voxel_in_exactly_one_chunk size cs hc x y z hx hy hz
  have hmem : (cell, chunkOf vol C cell) ∈ convert vol C size cs := by
    unfold convert
    exact List.mem_map.mpr ⟨cell, (mem_volumeLoop size cs cell).mpr hm, rfl⟩
  unfold readVoxel
  cases hf : (convert vol C size cs).find? (fun ch => inCellB ch.1 x y z) with
  | none =>
    have := List.find?_eq_none.mp hf _ hmem
    simp [(inCellB_iff cell x y z).mpr hin] at this
  | some ch =>
    have hp := List.find?_some hf
    have hmem' := List.mem_of_find?_eq_some hf
    unfold convert at hmem'
    obtain ⟨cell', hc', rfl⟩ := List.mem_map.mp hmem'
    have hin' : inCell cell' x y z := (inCellB_iff cell' x y z).mp hp
    have := hu cell' ((mem_volumeLoop size cs cell').mp hc') hin'
    subst this
    obtain ⟨⟨hx1, hx2⟩, ⟨hy1, hy2⟩, ⟨hz1, hz2⟩⟩ := hin'
    simp only
    rw [chunkOf_getElem vol C cell' c (z - cell'.2.2.1) (y - cell'.2.1.1) (x - cell'.1.1) hch
      (by omega) (by omega) (by omega)]
    congr 2 <;> omega

/-- the documented value mapping: rewriting the header slope/intercept as
    `slope·ps`, `inter·ps + pi` applies the header scaling first and then maps
    `[input_min, input_max]` linearly onto `[output_min, output_max]` -/
theorem scaling_algebra (raw slope inter imin imax omin omax : ℚ) (h : imax ≠ imin) :
    let ps := (omax - omin) / (imax - imin)
    let pi := omin - imin * ps
    raw * (slope * ps) + (inter * ps + pi) = ((raw * slope + inter) - imin) * ps + omin ∧
    imin * ps + pi = omin ∧ imax * ps + pi = omax := by
  have h' : imax - imin ≠ 0 := sub_ne_zero.mpr h
  refine ⟨by ring, by ring, ?_⟩
  field_simp
  ring


/-- the rewritten slope/intercept of the EXECUTABLE model apply the header scaling first and then map
    `[input_min, input_max]` linearly onto `[output_min, output_max]`, over any field -/
theorem rewriteScaling_spec {K : Type} [Field K] (raw slope inter imin imax omin omax : K) (h : imax ≠ imin) :
    let r := rewriteScaling slope inter imin imax omin omax
    raw * r.1 + r.2 = ((raw * slope + inter) - imin) * ((omax - omin) / (imax - imin)) + omin ∧
    (∀ v, v * slope + inter = imin → v * r.1 + r.2 = omin) ∧
    (∀ v, v * slope + inter = imax → v * r.1 + r.2 = omax) := by
  have hd : imax - imin ≠ 0 := sub_ne_zero.mpr h
  simp only [rewriteScaling]
  refine ⟨by ring, ?_, ?_⟩
  · intro v hv
    have : v * (slope * ((omax - omin) / (imax - imin))) + (inter * ((omax - omin) / (imax - imin)) +
        (omin - imin * ((omax - omin) / (imax - imin)))) = (v * slope + inter - imin) * ((omax - omin) / (imax - imin)) + omin := by ring
    rw [this, hv]; simp
  · intro v hv
    have : v * (slope * ((omax - omin) / (imax - imin))) + (inter * ((omax - omin) / (imax - imin)) +
        (omin - imin * ((omax - omin) / (imax - imin)))) = (v * slope + inter - imin) * ((omax - omin) / (imax - imin)) + omin := by ring
    rw [this, hv]
    field_simp
    ring

end NgVerif.Volume
