import NgVerif.Proofs.Tiling
import Mathlib.Tactic.Ring
import Mathlib.Tactic.FieldSimp
import Mathlib.Data.Rat.Defs
import Mathlib.Algebra.Order.Field.Rat
namespace NgVerif.Volume
open NgVerif.Tiling

def inCell (c : (Nat × Nat) × (Nat × Nat) × (Nat × Nat)) (x y z : Nat) : Prop :=
  (c.1.1 ≤ x ∧ x < c.1.2) ∧ (c.2.1.1 ≤ y ∧ y < c.2.1.2) ∧ (c.2.2.1 ≤ z ∧ z < c.2.2.2)

theorem mem_grid3 (size cs : Nat × Nat × Nat) (c : (Nat × Nat) × (Nat × Nat) × (Nat × Nat)) :
    c ∈ grid3 size cs ↔ c.1 ∈ ranges size.1 cs.1 ∧ c.2.1 ∈ ranges size.2.1 cs.2.1 ∧
      c.2.2 ∈ ranges size.2.2 cs.2.2 := by
  unfold grid3
  simp only [List.mem_flatMap, List.mem_map]
  constructor
  · rintro ⟨rx, hx, ry, hy, rz, hz, rfl⟩
    exact ⟨hx, hy, hz⟩
  · rintro ⟨hx, hy, hz⟩
    exact ⟨c.1, hx, c.2.1, hy, c.2.2, hz, rfl⟩

theorem mem_volumeLoop (size cs : Nat × Nat × Nat) (c : (Nat × Nat) × (Nat × Nat) × (Nat × Nat)) :
    c ∈ volumeLoop size cs ↔ c ∈ grid3 size cs := by
  rw [mem_grid3]
  unfold volumeLoop
  simp only [List.mem_flatMap, List.mem_map]
  constructor
  · rintro ⟨rz, hz, ry, hy, rx, hx, rfl⟩
    exact ⟨hx, hy, hz⟩
  · rintro ⟨hx, hy, hz⟩
    exact ⟨c.2.2, hz, c.2.1, hy, c.1, hx, rfl⟩

/-- every voxel of the volume lies in exactly one cell of the chunk grid the conversion loops
    iterate over: no voxel is missing and none is written twice -/
theorem voxel_in_exactly_one_chunk (size cs : Nat × Nat × Nat)
    (hc : 0 < cs.1 ∧ 0 < cs.2.1 ∧ 0 < cs.2.2) (x y z : Nat)
    (hx : x < size.1) (hy : y < size.2.1) (hz : z < size.2.2) :
    ∃ c ∈ grid3 size cs, inCell c x y z ∧ ∀ c' ∈ grid3 size cs, inCell c' x y z → c' = c := by
  obtain ⟨rx, hrx, hinx, hux⟩ := exists_unique_range size.1 cs.1 hc.1 x hx
  obtain ⟨ry, hry, hiny, huy⟩ := exists_unique_range size.2.1 cs.2.1 hc.2.1 y hy
  obtain ⟨rz, hrz, hinz, huz⟩ := exists_unique_range size.2.2 cs.2.2 hc.2.2 z hz
  refine ⟨(rx, ry, rz), (mem_grid3 size cs _).mpr ⟨hrx, hry, hrz⟩, ⟨hinx, hiny, hinz⟩, ?_⟩
  intro c' hc' hin'
  obtain ⟨m1, m2, m3⟩ := (mem_grid3 size cs c').mp hc'
  obtain ⟨i1, i2, i3⟩ := hin'
  have e1 := hux c'.1 m1 i1
  have e2 := huy c'.2.1 m2 i2
  have e3 := huz c'.2.2 m3 i3
  obtain ⟨a, b, c⟩ := c'
  simp only at e1 e2 e3
  rw [e1, e2, e3]

/-- the documented value mapping: rewriting the header slope/intercept as
    `slope·ps`, `inter·ps + pi` applies the header scaling first and then maps
    `[input_min, input_max]` linearly onto `[output_min, output_max]` -/
theorem scaling_algebra (raw slope inter imin imax omin omax : ℚ) (h : imax ≠ imin) :
    let ps := (omax - omin) / (imax - imin)
    let pi := omin - imin * ps
    raw * (slope * ps) + (inter * ps + pi) = ((raw * slope + inter) - imin) * ps + omin ∧
    imin * ps + pi = omin ∧ imax * ps + pi = omax := by
  have h' : imax - imin ≠ 0 := sub_ne_zero.mpr h
  refine ⟨by ring, by ring, ?_⟩
  field_simp
  ring

end NgVerif.Volume
