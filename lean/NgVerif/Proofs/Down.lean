import NgVerif.Model.Down
import NgVerif.Proofs.CsegBlock
namespace NgVerif.Down

/-! ### averaging: the three padded pair-sum stages compute the block sum of the completed input -/

def rsum (n : Nat) (h : Nat → Int) : Int := ((List.range n).map h).sum

theorem rsum_one (h : Nat → Int) : rsum 1 h = h 0 := by simp [rsum]
theorem rsum_two (h : Nat → Int) : rsum 2 h = h 0 + h 1 := by simp [rsum, List.range_succ]

theorem pairSum_eq (g : Nat → Int) (n : Nat) (o : Option Int) (factor i : Nat)
    (hf : factor = 1 ∨ factor = 2) (hi : i < ceilDiv n factor) (hn : 0 < n) :
    pairSum g n o factor i = rsum factor fun d => padded g n o (i * factor + d) := by
  rcases hf with rfl | rfl
  · have hlt : i < n := by unfold ceilDiv at hi; simp at hi; omega
    simp [pairSum, rsum_one, padded, hlt]
  · simp only [pairSum, if_true, rsum_two]
    have e1 : i * 2 + 0 = 2 * i := by omega
    have e2 : i * 2 + 1 = 2 * i + 1 := by omega
    rw [e1, e2]

theorem rsum_const (m : Nat) (c : Int) : rsum m (fun _ => c) = c * (m : Int) := by
  induction m with
  | zero => simp [rsum]
  | succ m ih =>
    unfold rsum at ih ⊢
    rw [List.range_succ, List.map_append, List.sum_append, ih]
    simp only [List.map_cons, List.map_nil, List.sum_cons, List.sum_nil]
    push_cast
    rw [Int.mul_add, Int.mul_one]; omega

/-- padding commutes with a finite sum (the pad constant scales with the number of terms) -/
theorem padded_rsum (m : Nat) (h : Nat → Nat → Int) (n : Nat) (o : Option Int) (i : Nat) :
    padded (fun j => rsum m fun d => h d j) n (o.map (· * (m : Int))) i
      = rsum m fun d => padded (fun j => h d j) n o i := by
  unfold padded
  split
  · rfl
  · cases o with
    | none => rfl
    | some c =>
      simp only [Option.map_some]
      exact (rsum_const m c).symm

theorem szEq (f : Nat) (hf : f = 1 ∨ f = 2) : (if f = 2 then 2 else 1 : Nat) = f := by
  rcases hf with rfl | rfl <;> simp

/-- nested padding, one voxel at a time -/
def padded3 (f : Arr3) (e : Ext) (o : Option Int) : Arr3 :=
  fun z y x => padded (fun k => padded (fun j => padded (fun i => f i j k) e.z o z) e.y o y) e.x o x

theorem padded3_eq_completed (f : Arr3) (e : Ext) (o : Option Int)
    (hz : 0 < e.z) (hy : 0 < e.y) (hx : 0 < e.x) (z y x : Nat) :
    padded3 f e o z y x = completed f e o z y x := by
  unfold padded3 completed padded
  cases o with
  | none =>
    simp only
    have mz : min z (e.z - 1) = if z < e.z then z else e.z - 1 := by split <;> omega
    have my : min y (e.y - 1) = if y < e.y then y else e.y - 1 := by split <;> omega
    have mx : min x (e.x - 1) = if x < e.x then x else e.x - 1 := by split <;> omega
    rw [mz, my, mx]
    by_cases hx' : x < e.x <;> by_cases hy' : y < e.y <;> by_cases hz' : z < e.z <;>
      simp [hx', hy', hz']
  | some c =>
    simp only
    by_cases hx' : x < e.x <;> by_cases hy' : y < e.y <;> by_cases hz' : z < e.z <;>
      simp [hx', hy', hz']

/-- MAIN: for factors in {1, 2}, every extent ≥ 1 and every output voxel, the sequential
    pad-and-add stages equal the sum over the block of the input completed beyond its border -/
theorem sums_eq_blockSum (f : Arr3) (e : Ext) (o : Option Int) (fz fy fx : Nat)
    (hfz : fz = 1 ∨ fz = 2) (hfy : fy = 1 ∨ fy = 2) (hfx : fx = 1 ∨ fx = 2)
    (hz : 0 < e.z) (hy : 0 < e.y) (hx : 0 < e.x) (z y x : Nat)
    (hzo : z < ceilDiv e.z fz) (hyo : y < ceilDiv e.y fy) (hxo : x < ceilDiv e.x fx) :
    sums f e o fz fy fx z y x = blockSum (completed f e o) fz fy fx z y x := by
  unfold sums blockSum
  simp only [szEq fz hfz, szEq fy hfy]
  rw [pairSum_eq _ _ _ _ _ hfx hxo hx]
  -- stage x over stage y over stage z, pushing the padding inside the sums
  have stepY : ∀ k, (fun k => pairSum (fun j => pairSum (fun i => f i j k) e.z o fz z) e.y
        (o.map (· * (fz : Int))) fy y) k
      = rsum fy fun dy => rsum fz fun dz =>
          padded (fun j => padded (fun i => f i j k) e.z o (z * fz + dz)) e.y o (y * fy + dy) := by
    intro k
    simp only
    rw [pairSum_eq _ _ _ _ _ hfy hyo hy]
    congr 1; funext dy
    have : (fun j => pairSum (fun i => f i j k) e.z o fz z)
        = fun j => rsum fz fun dz => padded (fun i => f i j k) e.z o (z * fz + dz) := by
      funext j; exact pairSum_eq _ _ _ _ _ hfz hzo hz
    rw [this, padded_rsum]
  have hcast : (o.map (· * ((fz : Int) * (fy : Int)))) = (o.map (· * (fz : Int))).map (· * (fy : Int)) := by
    cases o with
    | none => rfl
    | some c => simp only [Option.map_some]; congr 1; rw [Int.mul_assoc]
  rw [hcast]
  have : (fun k => pairSum (fun j => pairSum (fun i => f i j k) e.z o fz z) e.y
        (o.map (· * (fz : Int))) fy y)
      = fun k => rsum fy fun dy => rsum fz fun dz =>
          padded (fun j => padded (fun i => f i j k) e.z o (z * fz + dz)) e.y o (y * fy + dy) := by
    funext k; exact stepY k
  rw [this]
  -- push the x padding through both sums
  have inner : ∀ dx, padded (fun k => rsum fy fun dy => rsum fz fun dz =>
        padded (fun j => padded (fun i => f i j k) e.z o (z * fz + dz)) e.y o (y * fy + dy)) e.x
        ((o.map (· * (fz : Int))).map (· * (fy : Int))) (x * fx + dx)
      = rsum fy fun dy => rsum fz fun dz => padded3 f e o (z * fz + dz) (y * fy + dy) (x * fx + dx) := by
    intro dx
    rw [padded_rsum fy (fun dy k => rsum fz fun dz =>
      padded (fun j => padded (fun i => f i j k) e.z o (z * fz + dz)) e.y o (y * fy + dy)) e.x
      (o.map (· * (fz : Int))) (x * fx + dx)]
    congr 1; funext dy
    rw [padded_rsum fz (fun dz k =>
      padded (fun j => padded (fun i => f i j k) e.z o (z * fz + dz)) e.y o (y * fy + dy)) e.x o (x * fx + dx)]
    rfl
  simp only [inner, padded3_eq_completed f e o hz hy hx]
  -- reorder the three finite sums (each has one or two terms)
  rcases hfz with rfl | rfl <;> rcases hfy with rfl | rfl <;> rcases hfx with rfl | rfl <;>
    simp only [rsum, List.range_succ, List.range_zero, List.nil_append, List.map_cons, List.map_nil,
      List.map_append, List.sum_cons, List.sum_nil, List.sum_append] <;> omega

/-! ### rounding stays within the bounds of the contributing values -/

theorem rint_bounds (n : Int) (k : Nat) (lo hi : Int) (h1 : lo * 2 ^ k ≤ n) (h2 : n ≤ hi * 2 ^ k) :
    lo ≤ Conv.rint ⟨n, k⟩ ∧ Conv.rint ⟨n, k⟩ ≤ hi := by
  unfold Conv.rint
  simp only
  have hd : (0 : Int) < 2 ^ k := Int.pow_pos (by decide)
  generalize (2 : Int) ^ k = d at *
  have hq := Int.emod_add_mul_ediv n d
  have hr1 := Int.emod_nonneg n (Int.ne_of_gt hd)
  have hr2 := Int.emod_lt_of_pos n hd
  generalize n / d = q at *
  generalize n % d = r at *
  -- lo ≤ q (+1) and q (+1) ≤ hi from d*lo ≤ r + d*q ≤ d*hi
  have hlo : lo ≤ q := by
    apply Int.le_of_lt_add_one
    have : lo * d < (q + 1) * d := by
      have e : (q + 1) * d = d * q + d := by rw [Int.add_mul, Int.one_mul, Int.mul_comm]
      omega
    exact Int.lt_of_mul_lt_mul_right this (Int.le_of_lt hd)
  have hhi : q ≤ hi := by
    have : q * d ≤ hi * d := by
      have e : q * d = d * q := Int.mul_comm _ _
      omega
    exact Int.le_of_mul_le_mul_right this hd
  have hhi' : 0 < r → q + 1 ≤ hi := by
    intro hr
    have : q * d < hi * d := by
      have e : q * d = d * q := Int.mul_comm _ _
      omega
    have := Int.lt_of_mul_lt_mul_right this (Int.le_of_lt hd)
    omega
  split
  · exact ⟨hlo, hhi⟩
  · split
    · exact ⟨by omega, hhi' (by omega)⟩
    · split
      · exact ⟨hlo, hhi⟩
      · exact ⟨by omega, hhi' (by omega)⟩

end NgVerif.Down
