import NgVerif.Model.Morton
import NgVerif.Proofs.Digits
namespace NgVerif.Morton

/-- the loop's test `2**i < grid_size` is the specification's `i < ceil(log2 grid_size)` -/
theorem pow_lt_iff_lt_clog2 (i g : Nat) : 2 ^ i < g ↔ i < clog2 g := by
  unfold clog2
  by_cases hg : g ≤ 1
  · have h1 : 0 < 2 ^ i := Nat.two_pow_pos i
    have hz : g - 1 = 0 := by omega
    simp only [hg, if_true, hz, Nat.add_zero]
    constructor
    · intro h; omega
    · intro h; simp [Nat.log2_zero] at h
  · simp only [hg, if_false]
    have hne : g - 1 ≠ 0 := by omega
    have := Nat.le_log2 (n := g - 1) (k := i) hne
    constructor
    · intro h
      have : 2 ^ i ≤ g - 1 := by omega
      have := (Nat.le_log2 hne).mpr this
      omega
    · intro h
      have : i ≤ Nat.log2 (g - 1) := by omega
      have := (Nat.le_log2 hne).mp this
      omega

theorem levelBits_eq_spec (i : Nat) (gcs : List (Nat × Nat)) : levelBits i gcs = specLevel i gcs := by
  induction gcs with
  | nil => rfl
  | cons hd t ih =>
    obtain ⟨g, c⟩ := hd
    simp only [levelBits, specLevel, ih]
    by_cases h : 2 ^ i < g
    · simp [h, (pow_lt_iff_lt_clog2 i g).mp h]
    · have : ¬ i < clog2 g := fun h' => h ((pow_lt_iff_lt_clog2 i g).mpr h')
      simp [h, this]

theorem allBits_eq_spec (gcs : List (Nat × Nat)) (n : Nat) : allBits gcs n = specBits gcs n := by
  induction n with
  | zero => rfl
  | succ n ih => simp [allBits, specBits, ih, levelBits_eq_spec]

/-- the emission pattern depends on the grid only -/
theorem levelBits_length (i : Nat) (gs cs cs' : List Nat) (h : cs.length = cs'.length) :
    (levelBits i (gs.zip cs)).length = (levelBits i (gs.zip cs')).length := by
  induction gs generalizing cs cs' with
  | nil => simp [levelBits]
  | cons g gs ih =>
    cases cs with
    | nil => cases cs' with
      | nil => rfl
      | cons _ _ => simp at h
    | cons c cs => cases cs' with
      | nil => simp at h
      | cons c' cs' =>
        simp only [List.zip_cons_cons, levelBits]
        have := ih cs cs' (by simpa using h)
        split <;> simp [this]

theorem allBits_length (gs cs cs' : List Nat) (h : cs.length = cs'.length) (n : Nat) :
    (allBits (gs.zip cs) n).length = (allBits (gs.zip cs') n).length := by
  induction n with
  | zero => rfl
  | succ n ih => simp [allBits, ih, levelBits_length n gs cs cs' h]

theorem levelBits_lt (i : Nat) (gcs : List (Nat × Nat)) : ∀ d ∈ levelBits i gcs, d < 2 := by
  induction gcs with
  | nil => simp [levelBits]
  | cons hd t ih =>
    obtain ⟨g, c⟩ := hd
    simp only [levelBits]
    split
    · intro d hd
      rcases List.mem_cons.mp hd with h | h
      · subst h; exact Nat.mod_lt _ (by decide)
      · exact ih d h
    · exact ih

theorem allBits_lt (gcs : List (Nat × Nat)) (n : Nat) : ∀ d ∈ allBits gcs n, d < 2 := by
  induction n with
  | zero => simp [allBits]
  | succ n ih =>
    intro d hd
    rcases List.mem_append.mp hd with h | h
    · exact ih d h
    · exact levelBits_lt n gcs d h

/-- per-axis consequence of equal level bits -/
theorem levelBits_eq (i : Nat) : ∀ (gs cs cs' : List Nat), cs.length = gs.length → cs'.length = gs.length →
    levelBits i (gs.zip cs) = levelBits i (gs.zip cs') →
    ∀ d (hd : d < gs.length) (h1 : d < cs.length) (h2 : d < cs'.length), 2 ^ i < gs[d] →
      cs[d] / 2 ^ i % 2 = cs'[d] / 2 ^ i % 2
  | [], _, _, _, _, _ => by intro d hd; simp at hd
  | g :: gs, c :: cs, c' :: cs', hl, hl', h => by
    intro d hd h1 h2 hg
    simp only [List.zip_cons_cons, levelBits] at h
    by_cases hgi : 2 ^ i < g
    · simp only [hgi, if_true] at h
      have hh := List.cons.inj h
      cases d with
      | zero => simpa using hh.1
      | succ d =>
        have := levelBits_eq i gs cs cs' (by simpa using hl) (by simpa using hl') hh.2 d
          (by simpa using hd) (by simpa using h1) (by simpa using h2) (by simpa using hg)
        simpa using this
    · simp only [hgi, if_false] at h
      cases d with
      | zero => simp at hg; exact absurd hg hgi
      | succ d =>
        have := levelBits_eq i gs cs cs' (by simpa using hl) (by simpa using hl') h d
          (by simpa using hd) (by simpa using h1) (by simpa using h2) (by simpa using hg)
        simpa using this
  | _ :: _, [], _, hl, _, _ => by simp at hl
  | _ :: _, _ :: _, [], _, hl', _ => by simp at hl'

theorem allBits_eq (gs cs cs' : List Nat) (hl : cs.length = gs.length) (hl' : cs'.length = gs.length) :
    ∀ n, allBits (gs.zip cs) n = allBits (gs.zip cs') n →
      ∀ i, i < n → levelBits i (gs.zip cs) = levelBits i (gs.zip cs')
  | 0, _, i, hi => by omega
  | n + 1, h, i, hi => by
    simp only [allBits] at h
    have hlen := allBits_length gs cs cs' (by omega) n
    have ⟨h1, h2⟩ := List.append_inj h hlen
    by_cases e : i = n
    · subst e; exact h2
    · exact allBits_eq gs cs cs' hl hl' n h1 i (by omega)

theorem eq_of_bits (c c' : Nat) (h : ∀ i, c / 2 ^ i % 2 = c' / 2 ^ i % 2) : c = c' := by
  apply Nat.eq_of_testBit_eq
  intro i
  simp only [Nat.testBit_eq_decide_div_mod_eq, h i]

/-- distinct positions inside the grid get distinct identifiers (any number of axes) -/
theorem codeN_injective (gs cs cs' : List Nat) (n : Nat)
    (hl : cs.length = gs.length) (hl' : cs'.length = gs.length)
    (hn : ∀ d (hd : d < gs.length), gs[d] ≤ 2 ^ n)
    (hc : ∀ d (hd : d < gs.length), cs[d]'(by omega) < gs[d])
    (hc' : ∀ d (hd : d < gs.length), cs'[d]'(by omega) < gs[d])
    (h : codeN (gs.zip cs) n = codeN (gs.zip cs') n) : cs = cs' := by
  have hbits := ofDigits_inj 2 (by decide) _ _ (allBits_length gs cs cs' (by omega) n)
    (allBits_lt _ n) (allBits_lt _ n) h
  have hlev := allBits_eq gs cs cs' hl hl' n hbits
  apply List.ext_getElem (by omega)
  intro d h1 h2
  have hd : d < gs.length := by omega
  apply eq_of_bits
  intro i
  by_cases hg : 2 ^ i < gs[d]
  · have hin : i < n := by
      apply Nat.lt_of_not_le
      intro hge
      have := Nat.pow_le_pow_right (by decide : 0 < 2) hge
      have := hn d hd
      omega
    exact levelBits_eq i gs cs cs' hl hl' (hlev i hin) d hd h1 h2 hg
  · have a1 := hc d hd
    have a2 := hc' d hd
    rw [Nat.div_eq_of_lt (by omega), Nat.div_eq_of_lt (by omega)]

/-! ### the bound `code < 2^(Σ bits)` -/

theorem levelBits_length_le (i : Nat) : ∀ (gs cs : List Nat),
    (levelBits i (gs.zip cs)).length ≤ (gs.map fun g => if i < clog2 g then 1 else 0).sum
  | [], _ => by simp [levelBits]
  | _ :: _, [] => by simp [levelBits]
  | g :: gs, c :: cs => by
    simp only [List.zip_cons_cons, levelBits, List.map_cons, List.sum_cons]
    have ih := levelBits_length_le i gs cs
    by_cases h : 2 ^ i < g
    · simp only [h, if_true, (pow_lt_iff_lt_clog2 i g).mp h, List.length_cons]; omega
    · simp only [h, if_false]; omega

theorem sum_min_succ (n : Nat) : ∀ gs : List Nat,
    (gs.map fun g => min (n + 1) (clog2 g)).sum
      = (gs.map fun g => min n (clog2 g)).sum + (gs.map fun g => if n < clog2 g then 1 else 0).sum
  | [] => by simp
  | g :: gs => by
    simp only [List.map_cons, List.sum_cons, sum_min_succ n gs]
    split <;> omega

theorem allBits_length_le (gs cs : List Nat) : ∀ n,
    (allBits (gs.zip cs) n).length ≤ (gs.map fun g => min n (clog2 g)).sum
  | 0 => by simp [allBits]
  | n + 1 => by
    simp only [allBits, List.length_append, sum_min_succ]
    have := allBits_length_le gs cs n
    have := levelBits_length_le n gs cs
    omega

theorem sum_min_le (n : Nat) : ∀ gs : List Nat,
    (gs.map fun g => min n (clog2 g)).sum ≤ sumBits gs
  | [] => by simp [sumBits]
  | g :: gs => by
    have := sum_min_le n gs
    simp only [sumBits, List.map_cons, List.sum_cons] at *
    omega

/-- the identifier is below `2^(total number of bits)` -/
theorem codeN_lt (gs cs : List Nat) (n : Nat) : codeN (gs.zip cs) n < 2 ^ sumBits gs := by
  have h1 := ofDigits_lt 2 (by decide) (allBits (gs.zip cs) n) (allBits_lt _ n)
  have h2 : (allBits (gs.zip cs) n).length ≤ sumBits gs :=
    Nat.le_trans (allBits_length_le gs cs n) (sum_min_le n gs)
  exact Nat.lt_of_lt_of_le h1 (Nat.pow_le_pow_right (by decide) h2)

/-! ### `maxBits` covers every axis -/

theorem foldl_max_ge (gs : List Nat) : ∀ a, a ≤ gs.foldl (fun a g => max a (clog2 g)) a := by
  induction gs with
  | nil => intro a; exact Nat.le_refl a
  | cons g gs ih => intro a; exact Nat.le_trans (Nat.le_max_left a _) (ih _)

theorem clog2_le_maxBits (gs : List Nat) (d : Nat) (hd : d < gs.length) : clog2 gs[d] ≤ maxBits gs := by
  unfold maxBits
  suffices ∀ a, clog2 gs[d] ≤ gs.foldl (fun a g => max a (clog2 g)) a from this 0
  induction gs generalizing d with
  | nil => simp at hd
  | cons g gs ih =>
    intro a
    cases d with
    | zero => exact Nat.le_trans (Nat.le_max_right a _) (foldl_max_ge gs _)
    | succ d => exact ih d (by simpa using hd) _

theorem le_pow_clog2 (g : Nat) : g ≤ 2 ^ clog2 g := by
  apply Nat.le_of_not_lt
  intro h
  have := (pow_lt_iff_lt_clog2 (clog2 g) g).mp h
  omega

theorem grid_le_pow_maxBits (gs : List Nat) (d : Nat) (hd : d < gs.length) : gs[d] ≤ 2 ^ maxBits gs :=
  Nat.le_trans (le_pow_clog2 _) (Nat.pow_le_pow_right (by decide) (clog2_le_maxBits gs d hd))

/-! ### argument checks of `code` on in-grid natural coordinates -/

theorem any_neg_false (cs : List Nat) : (cs.map Int.ofNat).any (· < 0) = false := by
  induction cs with
  | nil => rfl
  | cons c cs ih => simp [ih]

theorem all_in_grid : ∀ (gs cs : List Nat) (hl : cs.length = gs.length),
    (∀ d (hd : d < gs.length), cs[d]'(by omega) < gs[d]) →
    (List.zip (cs.map Int.ofNat) gs).all (fun (c, g) => c < (g : Int)) = true
  | [], [], _, _ => rfl
  | [], _ :: _, h, _ => by simp at h
  | _ :: _, [], h, _ => by simp at h
  | g :: gs, c :: cs, hl, h => by
    have h0 := h 0 (by simp)
    have ih := all_in_grid gs cs (by simpa using hl) (fun d hd => by
      have := h (d + 1) (by simpa using hd); simpa using this)
    simp only [List.map_cons, List.zip_cons_cons, List.all_cons, ih, Bool.and_true]
    simp at h0 ⊢
    exact_mod_cast h0

theorem map_toNat_ofNat (cs : List Nat) : (cs.map Int.ofNat).map Int.toNat = cs := by
  induction cs with
  | nil => rfl
  | cons c cs ih => simp [ih]

end NgVerif.Morton
