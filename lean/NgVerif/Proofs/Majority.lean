import NgVerif.Model.Down
import NgVerif.Proofs.CsegBlock
namespace NgVerif.Cseg

/-! ### `uniqueSorted` is strictly increasing -/

theorem pairwise_insertSorted (v : Nat) : ∀ (t : List Nat), t.Pairwise (· < ·) →
    (insertSorted v t).Pairwise (· < ·)
  | [], _ => by simp [insertSorted]
  | a :: t, h => by
    have ha := (List.pairwise_cons.mp h).1
    have ht := (List.pairwise_cons.mp h).2
    simp only [insertSorted]
    split
    · rename_i hlt
      apply List.pairwise_cons.mpr
      refine ⟨?_, h⟩
      intro x hx
      rcases List.mem_cons.mp hx with rfl | hx
      · exact hlt
      · exact Nat.lt_trans hlt (ha x hx)
    · split
      · exact h
      · rename_i h1 h2
        apply List.pairwise_cons.mpr
        refine ⟨?_, pairwise_insertSorted v t ht⟩
        intro x hx
        rcases (mem_insertSorted v x t).mp hx with rfl | hx
        · omega
        · exact ha x hx

theorem pairwise_uniqueSorted (l : List Nat) : (uniqueSorted l).Pairwise (· < ·) := by
  unfold uniqueSorted
  suffices ∀ acc : List Nat, acc.Pairwise (· < ·) →
      (l.foldl (fun acc v => insertSorted v acc) acc).Pairwise (· < ·) from this [] List.Pairwise.nil
  induction l with
  | nil => intro acc h; exact h
  | cons a t ih => intro acc h; exact ih _ (pairwise_insertSorted a acc h)

/-! ### the arg-max fold -/

theorem foldl_best (cnt : Nat → Nat) : ∀ (u : List Nat) (b : Nat), (∀ v ∈ u, b < v) → u.Pairwise (· < ·) →
    (u.foldl (fun best v => if cnt best < cnt v then v else best) b = b ∨
      u.foldl (fun best v => if cnt best < cnt v then v else best) b ∈ u) ∧
    cnt b ≤ cnt (u.foldl (fun best v => if cnt best < cnt v then v else best) b) ∧
    (∀ v ∈ u, cnt v ≤ cnt (u.foldl (fun best v => if cnt best < cnt v then v else best) b)) ∧
    (cnt b = cnt (u.foldl (fun best v => if cnt best < cnt v then v else best) b) →
      u.foldl (fun best v => if cnt best < cnt v then v else best) b = b) ∧
    (∀ v ∈ u, cnt v = cnt (u.foldl (fun best v => if cnt best < cnt v then v else best) b) →
      u.foldl (fun best v => if cnt best < cnt v then v else best) b ≤ v)
  | [], b, _, _ => by simp
  | a :: t, b, hb, hp => by
    have hat := (List.pairwise_cons.mp hp).1
    have hpt := (List.pairwise_cons.mp hp).2
    have hba : b < a := hb a (by simp)
    simp only [List.foldl_cons]
    by_cases hc : cnt b < cnt a
    · simp only [hc, if_true]
      obtain ⟨i1, i2, i3, i4, i5⟩ := foldl_best cnt t a hat hpt
      generalize t.foldl (fun best v => if cnt best < cnt v then v else best) a = r at *
      refine ⟨?_, by omega, ?_, ?_, ?_⟩
      · rcases i1 with h | h
        · right; rw [h]; simp
        · right; exact List.mem_cons_of_mem _ h
      · intro v hv
        rcases List.mem_cons.mp hv with rfl | hv
        · exact i2
        · exact i3 v hv
      · intro h; omega
      · intro v hv h
        rcases List.mem_cons.mp hv with rfl | hv
        · rw [i4 h]; exact Nat.le_refl _
        · exact i5 v hv h
    · simp only [hc, if_false]
      obtain ⟨i1, i2, i3, i4, i5⟩ := foldl_best cnt t b (fun v hv => hb v (by simp [hv])) hpt
      generalize t.foldl (fun best v => if cnt best < cnt v then v else best) b = r at *
      refine ⟨?_, i2, ?_, i4, ?_⟩
      · rcases i1 with h | h
        · left; exact h
        · right; exact List.mem_cons_of_mem _ h
      · intro v hv
        rcases List.mem_cons.mp hv with rfl | hv
        · omega
        · exact i3 v hv
      · intro v hv h
        rcases List.mem_cons.mp hv with rfl | hv
        · have : r = b := i4 (by omega)
          omega
        · exact i5 v hv h

/-- `mostFrequent` of a non-empty list: an element of the list with maximal count, the smallest
    such element -/
theorem mostFrequent_spec (l : List Nat) (hne : l ≠ []) :
    mostFrequent l ∈ l ∧ (∀ v, l.count v ≤ l.count (mostFrequent l)) ∧
    (∀ v ∈ l, l.count v = l.count (mostFrequent l) → mostFrequent l ≤ v) := by
  unfold mostFrequent
  simp only
  have hp := pairwise_uniqueSorted l
  cases hu : uniqueSorted l with
  | nil =>
    exfalso
    obtain ⟨x, hx⟩ := List.exists_mem_of_ne_nil l hne
    have := (mem_uniqueSorted l x).mpr hx
    rw [hu] at this; simp at this
  | cons h t =>
    rw [hu] at hp
    have hht := (List.pairwise_cons.mp hp).1
    have hpt := (List.pairwise_cons.mp hp).2
    simp only [List.headD_cons, List.foldl_cons, Nat.lt_irrefl, if_false]
    obtain ⟨i1, i2, i3, i4, i5⟩ := foldl_best (fun v => l.count v) t h hht hpt
    generalize t.foldl (fun best v => if l.count best < l.count v then v else best) h = r at *
    have hmem : ∀ x, x ∈ l ↔ x = h ∨ x ∈ t := by
      intro x; rw [← mem_uniqueSorted l x, hu]; simp
    have hr : r ∈ l := by
      rcases i1 with e | e
      · rw [e]; exact (hmem h).mpr (Or.inl rfl)
      · exact (hmem r).mpr (Or.inr e)
    refine ⟨hr, ?_, ?_⟩
    · intro v
      by_cases hv : v ∈ l
      · rcases (hmem v).mp hv with rfl | hv'
        · exact i2
        · exact i3 v hv'
      · rw [List.count_eq_zero_of_not_mem hv]; exact Nat.zero_le _
    · intro v hv hc
      rcases (hmem v).mp hv with rfl | hv'
      · rw [i4 hc]; exact Nat.le_refl _
      · exact i5 v hv' hc

end NgVerif.Cseg
