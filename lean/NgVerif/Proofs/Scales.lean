import NgVerif.Model.Scales
import NgVerif.Proofs.Morton
namespace NgVerif.Scales

/-- consecutive levels: the size is halved (rounded up) exactly on the axes that are being
    downscaled, unchanged on the delayed ones -/
theorem sizeAt_succ (s L d : Nat) :
    sizeAt s (L + 1) d = if L < d then sizeAt s L d else ceilDiv (sizeAt s L d) 2 := by
  unfold sizeAt fac ceilDiv
  split
  · rename_i h
    have e1 : L + 1 - d = 0 := by omega
    have e2 : L - d = 0 := by omega
    rw [e1, e2]
  · rename_i h
    have e1 : L + 1 - d = (L - d) + 1 := by omega
    rw [e1, Nat.pow_succ]
    have : (s - 1) / 2 ^ (L - d) + 1 - 1 = (s - 1) / 2 ^ (L - d) := Nat.add_sub_cancel _ _
    rw [this, Nat.div_div_eq_div_mul]

/-! ### the anisotropy reduction loop terminates below the cap -/

theorem sum_map_sub_le (red : Nat) : ∀ l : List Nat, (l.map (· - red)).sum ≤ l.sum
  | [] => by simp
  | a :: t => by
    have := sum_map_sub_le red t
    simp only [List.map_cons, List.sum_cons]; omega

theorem sum_map_sub_lt (red : Nat) (hr : 0 < red) : ∀ l : List Nat, 0 < l.sum →
    (l.map (· - red)).sum < l.sum
  | [], h => by simp at h
  | a :: t, h => by
    simp only [List.map_cons, List.sum_cons] at h ⊢
    by_cases ha : 0 < a
    · have := sum_map_sub_le red t; omega
    · have ht : 0 < t.sum := by omega
      have := sum_map_sub_lt red hr t ht
      omega

theorem reduce_le (cap : Nat) : ∀ (fuel : Nat) (afs : List Nat), afs.sum < cap + fuel →
    (reduce fuel afs cap).sum ≤ cap
  | 0, afs, h => by simp only [reduce]; omega
  | fuel + 1, afs, h => by
    simp only [reduce]
    split
    · assumption
    · rename_i hgt
      apply reduce_le cap fuel
      have hpos : 0 < afs.sum := by omega
      have hred : 0 < ceilDiv (afs.sum - cap) (afs.filter (· ≠ 0)).length := by
        unfold ceilDiv; exact Nat.succ_pos _
      have := sum_map_sub_lt _ hred afs hpos
      omega

/-- chunk sizes hold about the target number of voxels: the exponents of the three chunk sizes
    add up to `3e` within ±1 (the code's own assertion, here for ALL inputs) -/
theorem chunk_volume (d1 d2 d3 e L : Nat) :
    ∃ x1 x2 x3, chunkExps [d1, d2, d3] e L = [x1, x2, x3] ∧
      x1 + x2 + x3 ≤ 3 * e + 1 ∧ 3 * e ≤ x1 + x2 + x3 + 1 := by
  unfold chunkExps
  simp only
  generalize hm : [d1, d2, d3].foldl max 0 = maxd
  generalize ha : ([d1, d2, d3].map fun d => maxd - d - L) = afs0
  have hlen0 : afs0.length = 3 := by rw [← ha]; rfl
  have hsum := reduce_le (3 * e) (afs0.sum + 1) afs0 (by omega)
  generalize hr : reduce (afs0.sum + 1) afs0 (3 * e) = afs at *
  have hlen : afs.length = 3 := by
    rw [← hr]
    -- `reduce` only maps, so the length is preserved
    have : ∀ fuel (l : List Nat), (reduce fuel l (3 * e)).length = l.length := by
      intro fuel
      induction fuel with
      | zero => intro l; rfl
      | succ f ih => intro l; simp only [reduce]; split
                     · rfl
                     · rw [ih]; simp
    rw [this, hlen0]
  match afs, hlen with
  | [a1, a2, a3], _ =>
    refine ⟨_, _, _, rfl, ?_, ?_⟩ <;>
      simp only [List.sum_cons, List.sum_nil, Nat.add_zero] at hsum ⊢ <;> omega

/-! ### the last scale fits in two target-size chunks per axis -/

theorem ceilDiv_le_of_le_mul (a b c : Nat) (hb : 0 < b) (hc : 0 < c) (h : a ≤ c * b) : ceilDiv a b ≤ c := by
  unfold ceilDiv
  rcases Nat.eq_zero_or_pos a with h0 | h0
  · subst h0; simp; omega
  · have : (a - 1) / b < c := by
      rw [Nat.div_lt_iff_lt_mul hb]; omega
    omega

/-- if level `L` satisfies `clog2 s ≤ e + 1 + (L - d)` then the axis fits in two chunks of `2^e` -/
theorem fits_two_chunks (s e L d : Nat) (h : Morton.clog2 s ≤ e + 1 + (L - d)) :
    sizeAt s L d ≤ 2 * 2 ^ e := by
  unfold sizeAt fac
  apply ceilDiv_le_of_le_mul _ _ _ (Nat.two_pow_pos _) (by have := Nat.two_pow_pos e; omega)
  have h1 := Morton.le_pow_clog2 s
  have h2 : 2 ^ Morton.clog2 s ≤ 2 ^ (e + 1 + (L - d)) := Nat.pow_le_pow_right (by decide) h
  have h3 : 2 ^ (e + 1 + (L - d)) = 2 * 2 ^ e * 2 ^ (L - d) := by
    rw [Nat.pow_add, Nat.pow_succ]; rw [Nat.mul_comm (2 ^ e) 2]
  omega

theorem foldl_max_ge (f : Nat × Nat → Int) : ∀ (l : List (Nat × Nat)) (m : Int),
    m ≤ l.foldl (fun m sd => max m (f sd)) m ∧ ∀ x ∈ l, f x ≤ l.foldl (fun m sd => max m (f sd)) m
  | [], m => ⟨Int.le_refl _, by simp⟩
  | a :: t, m => by
    obtain ⟨h1, h2⟩ := foldl_max_ge f t (max m (f a))
    simp only [List.foldl_cons]
    refine ⟨by omega, ?_⟩
    intro x hx
    rcases List.mem_cons.mp hx with rfl | hx
    · omega
    · exact h2 x hx

/-- with the number of scales chosen by the generator (no `max_scales`), every axis of the LAST
    scale fits in at most two target-size chunks -/
theorem last_scale_fits (sizes delays : List Nat) (e : Nat) (s d : Nat) (hm : (s, d) ∈ List.zip sizes delays) :
    sizeAt s (count sizes delays e none - 1) d ≤ 2 * 2 ^ e := by
  apply fits_two_chunks
  unfold count
  simp only
  obtain ⟨_, h2⟩ := foldl_max_ge (fun sd : Nat × Nat => (Morton.clog2 sd.1 : Int) - (e : Int) + (sd.2 : Int))
    (List.zip sizes delays) (Int.negSucc 1000000)
  have := h2 (s, d) hm
  simp only at this
  generalize (List.zip sizes delays).foldl
    (fun (m : Int) (sd : Nat × Nat) => max m ((Morton.clog2 sd.1 : Int) - (e : Int) + (sd.2 : Int)))
    (Int.negSucc 1000000) = need at *
  omega

/-- per-axis relation the octant copy of the pyramid computation needs between the chunk-size
    exponents of levels `L` and `L+1` (delay `d`): on a halved axis the old chunk is even and the
    new chunk is half or all of it; on an axis not yet halved the new chunk is the old one or twice it -/
def compatExp (L d oexp nexp : Nat) : Prop :=
  if d ≤ L then 1 ≤ oexp ∧ (nexp + 1 = oexp ∨ nexp = oexp) else (nexp = oexp ∨ nexp = oexp + 1)

theorem reduce_noop (afs : List Nat) (cap : Nat) (h : afs.sum ≤ cap) : reduce (afs.sum + 1) afs cap = afs := by
  simp [reduce, h]

theorem chunkExps_noreduce (a b c e L M : Nat) (hM : max (max a b) c = M)
    (hs : (M - a - L) + ((M - b - L) + (M - c - L)) ≤ 3 * e) :
    chunkExps [a, b, c] e L =
      [e - ((M - a - L) + ((M - b - L) + (M - c - L)) + 1) / 3 + (M - a - L),
       e - ((M - a - L) + ((M - b - L) + (M - c - L)) + 1) / 3 + (M - b - L),
       e - ((M - a - L) + ((M - b - L) + (M - c - L)) + 1) / 3 + (M - c - L)] := by
  unfold chunkExps
  simp only
  have hmax : [a, b, c].foldl max 0 = M := by simp [List.foldl, hM]
  rw [hmax]
  generalize ha : ([a, b, c].map fun d => M - d - L) = afs0
  have hafs : afs0 = [M - a - L, M - b - L, M - c - L] := by rw [← ha]; rfl
  have s0 : afs0.sum ≤ 3 * e := by
    rw [hafs]; simp only [List.sum_cons, List.sum_nil]; omega
  rw [reduce_noop _ _ s0, hafs]
  simp only [List.map_cons, List.map_nil, List.sum_cons, List.sum_nil, Nat.add_zero]

/-- PARTIAL (what is missing is known finding F21): when the axis delays take at most two values
    (0 and one other), the target exponent is at least 1 and no anisotropy reduction is needed, the
    chunk sizes of every pair of consecutive levels satisfy the relation the pyramid computation needs -/
theorem compat3 (a b c e L : Nat) (he : 1 ≤ e)
    (htwo : (a = 0 ∨ a = max (max a b) c) ∧ (b = 0 ∨ b = max (max a b) c) ∧ (c = 0 ∨ c = max (max a b) c))
    (hsum : (max (max a b) c - a) + ((max (max a b) c - b) + (max (max a b) c - c)) ≤ 3 * e) :
    ∃ o1 o2 o3 n1 n2 n3, chunkExps [a, b, c] e L = [o1, o2, o3] ∧ chunkExps [a, b, c] e (L + 1) = [n1, n2, n3] ∧
      compatExp L a o1 n1 ∧ compatExp L b o2 n2 ∧ compatExp L c o3 n3 := by
  generalize hM : max (max a b) c = M at *
  have e0 := chunkExps_noreduce a b c e L M hM (by omega)
  have e1 := chunkExps_noreduce a b c e (L + 1) M hM (by omega)
  refine ⟨_, _, _, _, _, _, e0, e1, ?_⟩
  clear e0 e1 hM
  obtain ⟨ha, hb, hc⟩ := htwo
  simp only [compatExp]
  rcases ha with rfl | rfl <;> rcases hb with rfl | rfl <;> rcases hc with rfl | rfl <;>
    simp only [Nat.sub_self, Nat.zero_sub, Nat.sub_zero, Nat.zero_add, Nat.add_zero, Nat.zero_le, if_true, Nat.reduceDiv] at hsum ⊢ <;>
    (refine ⟨?_, ?_, ?_⟩ <;> (try split) <;>
      first | omega | exact ⟨by omega, Or.inr trivial⟩ | exact Or.inl trivial)



/-! ### delays -/

theorem delayFuel_spec (f : Nat) : ∀ (k n d : Nat), 0 < d → n < 2 ^ (k + f) →
    (k = 0 ∨ 2 ^ (2 * k - 1) * (d * d) ≤ n * n) →
    n * n < 2 ^ (2 * delayFuel f k n d + 1) * (d * d) ∧
    (delayFuel f k n d = 0 ∨ 2 ^ (2 * delayFuel f k n d - 1) * (d * d) ≤ n * n) := by
  induction f with
  | zero =>
    intro k n d hd hn hp
    simp only [delayFuel, Nat.add_zero] at hn ⊢
    refine ⟨?_, hp⟩
    have h1 : n * n < 2 ^ k * 2 ^ k := Nat.mul_lt_mul'' hn hn
    have h2 : 2 ^ k * 2 ^ k = 2 ^ (2 * k) := by rw [← Nat.pow_add]; congr 1; omega
    have h3 : 2 ^ (2 * k) ≤ 2 ^ (2 * k + 1) := Nat.pow_le_pow_right (by omega) (by omega)
    have h4 : 2 ^ (2 * k + 1) ≤ 2 ^ (2 * k + 1) * (d * d) := Nat.le_mul_of_pos_right _ (Nat.mul_pos hd hd)
    omega
  | succ f ih =>
    intro k n d hd hn hp
    simp only [delayFuel]
    split
    · rename_i h
      exact ⟨h, hp⟩
    · rename_i h
      apply ih (k + 1) n d hd (by rw [show k + 1 + f = k + (f + 1) by omega]; exact hn)
      right
      have : 2 * (k + 1) - 1 = 2 * k + 1 := by omega
      rw [this]
      omega

/-- the delay is the level from which the axis is within a factor `√2` of the finest axis: with
    `k = delay n d` and `q = n / d ≥ 1`, `q / 2^k ∈ [1/√2, √2)` (stated on squares) -/
theorem delay_spec (n d : Nat) (hd : 0 < d) :
    n * n < 2 ^ (2 * delay n d + 1) * (d * d) ∧
    (delay n d = 0 ∨ 2 ^ (2 * delay n d - 1) * (d * d) ≤ n * n) := by
  unfold delay
  apply delayFuel_spec n 0 n d hd
  · simp only [Nat.zero_add]; exact Nat.lt_two_pow_self
  · left; rfl

end NgVerif.Scales
