import NgVerif.Generated.Exprs
import NgVerif.Model.Coords
import NgVerif.Model.Tiling
import NgVerif.Model.Shard
import NgVerif.Model.Pyramid
import NgVerif.Model.Scales
import NgVerif.Model.Slices
import Mathlib.Tactic.Push
import Mathlib.Tactic.NormNum
import Mathlib.Tactic.Tauto
import Mathlib.Tactic.Ring
/-
  Source: the definitions TRANSLATED from /repo's current source (Generated/Exprs.lean, rewritten on every run by
  harness/ngv/translate.py) equal the hand-written model definitions, for all arguments.
-/
namespace NgVerif.Source
open NgVerif NgVerif.Generated

/-- closes an equation between two spellings of the same integer expression (operands of `+`, `*`, `min` swapped,
    products expanded, ...): syntactically equal, or linear up to atoms, or equal after normalising the ring terms -/
macro "src_eq" : tactic => `(tactic| first | rfl | omega | (ring_nf; first | rfl | omega))


/-- the grid test as written in the source is, for one listed chunk size, the three-axis test of the model -/
theorem validateCond_iff_model (b : Coords.Box) (xs ys zs xcs ycs zcs : Int) :
    Src.validateCond (xmin := b.xmin) (xmax := b.xmax) (ymin := b.ymin) (ymax := b.ymax) (zmin := b.zmin)
      (zmax := b.zmax) (xs := xs) (ys := ys) (zs := zs) (xcs := xcs) (ycs := ycs) (zcs := zcs) ↔
    (Coords.axisOk b.xmin b.xmax xcs xs && Coords.axisOk b.ymin b.ymax ycs ys &&
      Coords.axisOk b.zmin b.zmax zcs zs) = true := by
  simp only [Src.validateCond, Coords.axisOk, Bool.and_eq_true, decide_eq_true_eq, beq_iff_eq]
  -- (`omega` on both directions: the proof survives regrouping or reordering of the conjuncts, swapped operands of
  -- `min` / `+`, split chained comparisons, ... in the source)
  constructor <;> intro h <;> omega

/-- `utils.ceil_div` as written in the source is the model's `ceilDiv` on positive arguments -/
theorem ceilDiv_eq_model (a b : Nat) (ha : 1 ≤ a) :
    Src.ceilDiv (a := a) (b := b) = ((ceilDiv a b : Nat) : Int) := by
  simp only [Src.ceilDiv, ceilDiv]
  push_cast
  have : ((a - 1 : Nat) : Int) = (a : Int) - 1 := by omega
  rw [this]

theorem volCount_eq_model (s c : Nat) (hs : 1 ≤ s) :
    Src.volCountZ (size_2 := s) (chunk_size_2 := c) = ((Tiling.count s c : Nat) : Int) ∧
    Src.volCountX (size_0 := s) (chunk_size_0 := c) = ((Tiling.count s c : Nat) : Int) := by
  -- (`Src.ceilDiv` in the simp set: the count may be written out or through `ceil_div` in the source)
  simp only [Src.volCountZ, Src.volCountX, Src.ceilDiv, Tiling.count]
  push_cast
  have : ((s - 1 : Nat) : Int) = (s : Int) - 1 := by omega
  rw [this]
  exact ⟨rfl, rfl⟩

theorem volBounds_eq_model (s c i : Nat) :
    Src.volLowerZ (chunk_size_2 := c) (z_chunk_idx := i) = ((c * i : Nat) : Int) ∧
    Src.volUpperZ (chunk_size_2 := c) (z_chunk_idx := i) (size_2 := s) = ((min (c * (i + 1)) s : Nat) : Int) ∧
    Src.volUpperX (chunk_size_0 := c) (x_chunk_idx := i) (size_0 := s) = ((min (c * (i + 1)) s : Nat) : Int) := by
  simp only [Src.volLowerZ, Src.volUpperZ, Src.volUpperX]
  push_cast
  exact ⟨by src_eq, by src_eq, by src_eq⟩

theorem nextCmc_eq_model (m s p masked n : Nat) :
    Src.nextCmc (appended := n) (preshift_bits := p) (shard_bits := s) (minishard_bits := m)
      (masked_bits := masked) (preshift_mask := 2 ^ p - 1) = Shard.nextId m s p masked n := by
  -- (sums normalised up to associativity and commutativity: the source may group or order them differently)
  simp only [Src.nextCmc, Shard.nextId, Nat.add_assoc, Nat.add_comm, Nat.add_left_comm]

/-- the loop bounds of `convert_chunks_for_scale` as written in the source are the ranges of the model's grid -/
theorem cvtBounds_eq_model (s c i : Nat) :
    Src.cvtLowerX (chunk_size_0 := c) (x_idx := i) = ((c * i : Nat) : Int) ∧
    Src.cvtUpperX (chunk_size_0 := c) (x_idx := i) (size_0 := s) = ((min (c * (i + 1)) s : Nat) : Int) ∧
    Src.cvtUpperZ (chunk_size_2 := c) (z_idx := i) (size_2 := s) = ((min (c * (i + 1)) s : Nat) : Int) := by
  simp only [Src.cvtLowerX, Src.cvtUpperX, Src.cvtUpperZ]
  push_cast
  exact ⟨by src_eq, by src_eq, by src_eq⟩

/-- `half_chunk` and `chunk_fetch_factor` of `compute_dyadic_downscaling` as written in the source are the
    model's `half` and `fetch` of the axis -/
theorem pyramid_arith_eq_model (a : Pyramid.Axis) :
    Src.pyrHalfChunk (osz := a.oc) (f := Pyramid.factor a) = ((Pyramid.half a : Nat) : Int) ∧
    Src.pyrFetchFactor (nsz := a.nc) (hc := Pyramid.half a) = ((Pyramid.fetch a : Nat) : Int) := by
  simp only [Src.pyrHalfChunk, Src.pyrFetchFactor, Pyramid.half, Pyramid.fetch]
  push_cast
  exact ⟨by src_eq, by src_eq⟩

/-- the per-axis chunk count of `scale-stats` as written in the source is the model's `Tiling.count` -/
theorem statsCount_eq_model (s c : Nat) (hs : 1 ≤ s) :
    Src.statsChunksPerAxis (s := s) (cs := c) = ((Tiling.count s c : Nat) : Int) := by
  simp only [Src.statsChunksPerAxis, Src.ceilDiv, Tiling.count]
  push_cast
  have : ((s - 1 : Nat) : Int) = (s : Int) - 1 := by omega
  rw [this]

/-- the uint64 masks and the shard / minishard numbers as written in the source (`~`, `>>`, `<<`, `&` with NumPy's
    64-bit semantics, i.e. the `Routing` primitives) are the model's -/
theorem routing_eq_model (m s p id : Nat) :
    Src.minishardMask (minishard_bits := m) = Routing.minishardMask m ∧
    Src.preshiftMask (preshift_bits := p) = Routing.preshiftMask p ∧
    Src.shardMask (minishard_bits := m) (shard_bits := s) (minishard_mask := Routing.minishardMask m) = Routing.shardMask m s ∧
    Src.shardKey (shard_mask := Routing.shardMask m s) (hash_cmc := Routing.hash p id) (minishard_bits := m)
      = Routing.shardKey m s p id ∧
    Src.minishardKey (minishard_mask := Routing.minishardMask m) (hash_cmc := Routing.hash p id)
      = Routing.minishardKey m p id := by
  -- (the two key formulas are proved up to commutativity of `&` and distribution of `>>` over `&`: the source may
  -- write `(mask & h) >> m` or `(h >> m) & (mask >> m)`)
  refine ⟨rfl, rfl, rfl, ?_, ?_⟩
  · unfold Src.shardKey Routing.shardKey
    first | rfl | (simp only [Routing.shr64]; split <;> simp [Nat.shiftRight_and_distrib, Nat.and_comm])
  · unfold Src.minishardKey Routing.minishardKey
    first | rfl | simp [Nat.and_comm]

/-- the per-level arithmetic of the scale generator as written in the source is the model's -/
theorem scales_arith_eq_model (s L d maxd e sum af : Nat) (hs : 1 ≤ s) (hbase : (sum + 1) / 3 ≤ e) :
    Src.scaleFactor (scale_level := L) (delay := d) = ((Scales.fac L d : Nat) : Int) ∧
    Src.scaleSize (sz := s) (axis_factor := ((Scales.fac L d : Nat) : Int)) = ((Scales.sizeAt s L d : Nat) : Int) ∧
    Src.anisotropyFactor (max_delay := maxd) (delay := d) (scale_level := L) = ((maxd - d - L : Nat) : Int) ∧
    Src.baseChunkExponent (target_chunk_exponent := e) (sum_anisotropy_factors := sum) = ((e - (sum + 1) / 3 : Nat) : Int) ∧
    Src.chunkSizeOfExponent (base_chunk_exponent := ((e - (sum + 1) / 3 : Nat) : Int)) (anisotropy_factor := af)
      = ((2 ^ ((e - (sum + 1) / 3) + af) : Nat) : Int) := by
  refine ⟨?_, ?_, ?_, ?_, ?_⟩
  · simp only [Src.scaleFactor, Scales.fac]
    have : (max (0 : Int) ((L : Int) - (d : Int))).toNat = L - d := by omega
    rw [this]; push_cast; rfl
  · simp only [Src.scaleSize, Scales.sizeAt]
    exact ceilDiv_eq_model s (Scales.fac L d) hs
  · simp only [Src.anisotropyFactor]; omega
  · simp only [Src.baseChunkExponent]
    have h3 : (((sum + 1) / 3 : Nat) : Int) = ((sum : Int) + 1) / 3 := by push_cast; rfl
    omega
  · simp only [Src.chunkSizeOfExponent]
    have : (((e - (sum + 1) / 3 : Nat) : Int) + (af : Int)).toNat = (e - (sum + 1) / 3) + af := by omega
    rw [this]; push_cast; rfl

/-- the slice-group arithmetic of `slices_to_raw_chunks` as written in the source: the number of groups is the
    model's count; the group `[first, last)` in order is `cs·g … min(cs·(g+1), n)`; and for a reversed slice axis
    the slice `filenames[first_slice : last_slice : -1]` starts at `n - 1 - first` and stops before `n - 1 - last`,
    so its `k`-th element `first_slice - k` is the `k`-th file of the model's `groupFiles` -/
theorem slices_arith_eq_model (n cs g k : Nat) (hn : 1 ≤ n) (hk : k < min (cs * (g + 1)) n - cs * g) :
    Src.sliceGroups (input_size_2 := n) (input_chunk_size_2 := cs) = ((Tiling.count n cs : Nat) : Int) ∧
    Src.sliceFirstInOrder (input_chunk_size_2 := cs) (slice_chunk_idx := g) = ((cs * g : Nat) : Int) ∧
    Src.sliceLastInOrder (input_chunk_size_2 := cs) (slice_chunk_idx := g) (input_size_2 := n)
      = ((min (cs * (g + 1)) n : Nat) : Int) ∧
    Src.sliceFirstReversed (input_size_2 := n) (first_slice_in_order := ((cs * g : Nat) : Int)) - (k : Int)
      = (((Slices.groupFiles n cs g true).getD k 0 : Nat) : Int) ∧
    Src.sliceLastReversed (input_size_2 := n) (last_slice_in_order := ((min (cs * (g + 1)) n : Nat) : Int))
      < Src.sliceFirstReversed (input_size_2 := n) (first_slice_in_order := ((cs * g : Nat) : Int)) - (k : Int) := by
  have hlt : k < (Slices.groupFiles n cs g true).length := by simp [Slices.groupFiles]; exact hk
  have hel : (Slices.groupFiles n cs g true).getD k 0 = n - 1 - (cs * g + k) := by
    rw [List.getD_eq_getElem?_getD, List.getElem?_eq_getElem hlt]
    simp [Slices.groupFiles]
  have hmin := Nat.min_le_right (cs * (g + 1)) n
  refine ⟨?_, ?_, ?_, ?_, ?_⟩
  · simp only [Src.sliceGroups, Src.ceilDiv, Tiling.count]
    push_cast
    have : ((n - 1 : Nat) : Int) = (n : Int) - 1 := by omega
    rw [this]
  · simp only [Src.sliceFirstInOrder]; push_cast; src_eq
  · simp only [Src.sliceLastInOrder]; push_cast; src_eq
  · rw [hel]; simp only [Src.sliceFirstReversed]; omega
  · simp only [Src.sliceLastReversed, Src.sliceFirstReversed]; omega

end NgVerif.Source
