import NgVerif.Model.Readable
namespace NgVerif

theorem rhe_bounds (a b : Nat) (hb : 0 < b) :
    2 * b * rhe a b ≤ 2 * a + b ∧ 2 * a ≤ 2 * b * rhe a b + b := by
  unfold rhe
  have h1 := Nat.div_add_mod a b
  have h2 := Nat.mod_lt a hb
  simp only
  generalize a / b = q at *
  generalize a % b = r at *
  have e1 : 2 * b * q = 2 * (b * q) := by rw [Nat.mul_assoc]
  have e2 : 2 * b * (q+1) = 2 * (b * q) + 2 * b := by rw [Nat.mul_assoc, Nat.mul_add]; omega
  split
  · omega
  · split
    · omega
    · split <;> omega

namespace Readable

/-! ### float64 rounding of a natural number -/

theorem f64round_small (n : Nat) (h : n < 2 ^ 53) : f64round n = n := by
  simp [f64round, h]

/-- for `n ≥ 2^53` the rounding unit `B = 2^(log2 n − 52)` satisfies `2^52·B ≤ n` -/
theorem unit_le (n : Nat) (h : 2 ^ 53 ≤ n) : 2 ^ 52 * 2 ^ (Nat.log2 n - 52) ≤ n := by
  have hn : n ≠ 0 := by
    intro h0; subst h0; simp at h
  have h53 : 53 ≤ Nat.log2 n := (Nat.le_log2 hn).mpr h
  have : 2 ^ 52 * 2 ^ (Nat.log2 n - 52) = 2 ^ Nat.log2 n := by
    rw [← Nat.pow_add]; congr 1; omega
  rw [this]
  exact Nat.log2_self_le hn

/-- float64 rounding moves `n` by at most `n / 2^53` -/
theorem f64round_close (n : Nat) :
    2 ^ 53 * (f64round n - n) ≤ n ∧ 2 ^ 53 * (n - f64round n) ≤ n := by
  unfold f64round
  split
  · simp
  · rename_i h
    have h' : 2 ^ 53 ≤ n := Nat.le_of_not_lt h
    have hu := unit_le n h'
    simp only
    generalize hB : 2 ^ (Nat.log2 n - 52) = B at *
    have hBpos : 0 < B := by rw [← hB]; exact Nat.pow_pos (by decide)
    have hb := rhe_bounds n B hBpos
    generalize rhe n B = r at *
    have e : 2 * B * r = 2 * (r * B) := by
      rw [Nat.mul_assoc, Nat.mul_comm B r]
    rw [e] at hb
    generalize r * B = F at *
    simp only [Nat.reducePow] at *
    omega

/-- rounding never crosses a bound that is itself a multiple of every possible unit -/
theorem f64round_le (n : Nat) (hn : n ≤ 999 * 2 ^ 60) : f64round n ≤ 999 * 2 ^ 60 := by
  unfold f64round
  split
  · exact hn
  · rename_i h
    have h' : 2 ^ 53 ≤ n := Nat.le_of_not_lt h
    have hn0 : n ≠ 0 := by intro h0; subst h0; simp at h'
    have hlt : n < 2 ^ 70 := Nat.lt_of_le_of_lt hn (by decide)
    have hlog : Nat.log2 n < 70 := (Nat.log2_lt hn0).mpr hlt
    have h53 : 53 ≤ Nat.log2 n := (Nat.le_log2 hn0).mpr h'
    simp only
    generalize he : Nat.log2 n - 52 = e at *
    have he17 : e ≤ 17 := by omega
    -- M = q' * B with q' = 999 * 2^(60 - e)
    have hM : 999 * 2 ^ 60 = (999 * 2 ^ (60 - e)) * 2 ^ e := by
      rw [Nat.mul_assoc, ← Nat.pow_add]; congr 2; omega
    have hBpos : 0 < 2 ^ e := Nat.pow_pos (by decide)
    have hb := (rhe_bounds n (2 ^ e) hBpos).1
    generalize 2 ^ e = B at *
    generalize 999 * 2 ^ (60 - e) = q at *
    generalize rhe n B = r at *
    rw [hM] at hn ⊢
    -- 2*B*r ≤ 2n + B ≤ 2*q*B + B  ⇒ r ≤ q
    have h1 : B * (2 * r) ≤ B * (2 * q + 1) := by
      have e1 : B * (2 * r) = 2 * B * r := by
        rw [← Nat.mul_assoc, Nat.mul_comm B 2]
      have e2 : B * (2 * q + 1) = 2 * (q * B) + B := by
        rw [Nat.mul_add, Nat.mul_one, ← Nat.mul_assoc, Nat.mul_comm B 2, Nat.mul_assoc,
          Nat.mul_comm B q]
      rw [e1, e2]; omega
    have h2 : 2 * r ≤ 2 * q + 1 := Nat.le_of_mul_le_mul_left h1 hBpos
    have h3 : r ≤ q := by omega
    exact Nat.mul_le_mul_right B h3

/-! ### accuracy: holds at every return point, for every prefix table with positive factors -/

theorem go_accurate (F : Nat) (last : Nat × String) (hl : 0 < last.1) :
    ∀ (ks : List (Nat × String)), (∀ k ∈ ks, 0 < k.1) → accurate F (go F last ks)
  | [], _ => by
      simp only [go, accurate]
      exact rhe_bounds F last.1 hl
  | (f, p) :: ks, h => by
      have hf : 0 < f := h (f, p) (by simp)
      simp only [go]
      split
      · simp only [accurate]; exact rhe_bounds (10 * F) f hf
      · split
        · simp only [accurate]; exact rhe_bounds F f hf
        · exact go_accurate F last hl ks (fun k hk => h k (by simp [hk]))

/-! ### two significant digits / six characters, per prefix level (numerals kept concrete) -/

theorem go6 (F : Nat) (l : Nat × String) (p6 : String)
    (h : 19 * 2^60 ≤ 20 * F) (hn : F ≤ 999 * 2^60) :
    good (go F l [(1152921504606846976, p6)]) := by
  have := rhe_bounds F 1152921504606846976 (by decide)
  have := rhe_bounds (10 * F) 1152921504606846976 (by decide)
  simp only [go]
  simp only [Nat.reducePow, Nat.reduceMul] at *
  generalize rhe (10*F) _ = t at *
  generalize rhe F _ = w at *
  split
  · simp only [good]; omega
  · split
    · simp only [good]; omega
    · simp only [good]; omega

theorem go5 (F : Nat) (l : Nat × String) (p5 p6 : String)
    (h : 19 * 2^50 ≤ 20 * F) (hn : F ≤ 999 * 2^60) :
    good (go F l [(1125899906842624, p5), (1152921504606846976, p6)]) := by
  have := rhe_bounds F 1125899906842624 (by decide)
  have := rhe_bounds (10 * F) 1125899906842624 (by decide)
  rw [go]
  simp only [Nat.reducePow, Nat.reduceMul] at *
  generalize rhe (10*F) 1125899906842624 = t at *
  generalize rhe F 1125899906842624 = w at *
  split
  · simp only [good]; omega
  · split
    · simp only [good]; omega
    · apply go6 F l p6 _ hn
      simp only [Nat.reducePow]; omega

theorem go4 (F : Nat) (l : Nat × String) (p4 p5 p6 : String)
    (h : 19 * 2^40 ≤ 20 * F) (hn : F ≤ 999 * 2^60) :
    good (go F l [(1099511627776, p4), (1125899906842624, p5), (1152921504606846976, p6)]) := by
  have := rhe_bounds F 1099511627776 (by decide)
  have := rhe_bounds (10 * F) 1099511627776 (by decide)
  rw [go]
  simp only [Nat.reducePow, Nat.reduceMul] at *
  generalize rhe (10*F) 1099511627776 = t at *
  generalize rhe F 1099511627776 = w at *
  split
  · simp only [good]; omega
  · split
    · simp only [good]; omega
    · apply go5 F l p5 p6 _ hn
      simp only [Nat.reducePow]; omega

theorem go3 (F : Nat) (l : Nat × String) (p3 p4 p5 p6 : String)
    (h : 19 * 2^30 ≤ 20 * F) (hn : F ≤ 999 * 2^60) :
    good (go F l [(1073741824, p3), (1099511627776, p4), (1125899906842624, p5),
      (1152921504606846976, p6)]) := by
  have := rhe_bounds F 1073741824 (by decide)
  have := rhe_bounds (10 * F) 1073741824 (by decide)
  rw [go]
  simp only [Nat.reducePow, Nat.reduceMul] at *
  generalize rhe (10*F) 1073741824 = t at *
  generalize rhe F 1073741824 = w at *
  split
  · simp only [good]; omega
  · split
    · simp only [good]; omega
    · apply go4 F l p4 p5 p6 _ hn
      simp only [Nat.reducePow]; omega

theorem go2 (F : Nat) (l : Nat × String) (p2 p3 p4 p5 p6 : String)
    (h : 19 * 2^20 ≤ 20 * F) (hn : F ≤ 999 * 2^60) :
    good (go F l [(1048576, p2), (1073741824, p3), (1099511627776, p4), (1125899906842624, p5),
      (1152921504606846976, p6)]) := by
  have := rhe_bounds F 1048576 (by decide)
  have := rhe_bounds (10 * F) 1048576 (by decide)
  rw [go]
  simp only [Nat.reducePow, Nat.reduceMul] at *
  generalize rhe (10*F) 1048576 = t at *
  generalize rhe F 1048576 = w at *
  split
  · simp only [good]; omega
  · split
    · simp only [good]; omega
    · apply go3 F l p3 p4 p5 p6 _ hn
      simp only [Nat.reducePow]; omega

theorem go1 (F : Nat) (l : Nat × String) (p1 p2 p3 p4 p5 p6 : String)
    (h : 19 * 2^10 ≤ 20 * F) (hn : F ≤ 999 * 2^60) :
    good (go F l [(1024, p1), (1048576, p2), (1073741824, p3), (1099511627776, p4),
      (1125899906842624, p5), (1152921504606846976, p6)]) := by
  have := rhe_bounds F 1024 (by decide)
  have := rhe_bounds (10 * F) 1024 (by decide)
  rw [go]
  simp only [Nat.reducePow, Nat.reduceMul] at *
  generalize rhe (10*F) 1024 = t at *
  generalize rhe F 1024 = w at *
  split
  · simp only [good]; omega
  · split
    · simp only [good]; omega
    · apply go2 F l p2 p3 p4 p5 p6 _ hn
      simp only [Nat.reducePow]; omega

theorem width_le_six (o : Out) (h : good o) : width o ≤ 6 := by
  cases o with
  | plain n => simp only [good] at h; simp only [width, numDigits]; split <;> (try split) <;> (try split) <;> omega
  | tenths t f p =>
    simp only [good] at h
    have : t / 10 < 10 := by omega
    simp only [width, numDigits, this, if_true]; omega
  | whole w f p => simp only [good] at h; simp only [width, numDigits]; split <;> (try split) <;> (try split) <;> omega
  | fallback w f p => simp only [good] at h

theorem twoSig_of_good (o : Out) (h : good o) : twoSig o := by
  cases o <;> simp_all [good, twoSig]

end Readable
end NgVerif
