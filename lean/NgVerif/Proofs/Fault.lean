import NgVerif.Model.Fault
import NgVerif.Proofs.Bytes
namespace NgVerif.Fault
open NgVerif.Shard

theorem leVal_zeros : ∀ n, leVal (List.replicate n 0) = 0
  | 0 => rfl
  | n + 1 => by simp [List.replicate_succ, leVal, leVal_zeros n]

theorem word_zero_header (n : Nat) (rest : Bytes) (k : Nat) (hk : 8 * (k + 1) ≤ n) :
    word (List.replicate n 0 ++ rest) k = 0 := by
  unfold word
  have h1 : (List.replicate n 0 ++ rest).drop (8 * k) = List.replicate (n - 8 * k) 0 ++ rest := by
    rw [List.drop_append_of_le_length (by simp; omega)]
    simp
  rw [h1]
  have h2 : (List.replicate (n - 8 * k) 0 ++ rest).take 8 = List.replicate 8 0 := by
    rw [List.take_append_of_le_length (by simp; omega)]
    rw [List.take_replicate]
    congr 1
    omega
  rw [h2]
  exact leVal_zeros 8

theorem foldlM_id {α β} (f : β → α → Option β) (init : β) :
    ∀ (l : List α), (∀ a ∈ l, ∀ acc, f acc a = some acc) → l.foldlM f init = some init
  | [], _ => rfl
  | a :: t, h => by
    rw [List.foldlM_cons, h a List.mem_cons_self init]
    exact foldlM_id f init t (fun b hb acc => h b (List.mem_cons_of_mem _ hb) acc)

/-- a shard whose index placeholder is still zero lists no minishard at all -/
theorem populate_zero_header (m p : Nat) (rest : Bytes) :
    populate m p (List.replicate (2 ^ m * 16) 0 ++ rest) = some [] := by
  unfold populate
  have hlen : ¬ (List.replicate (2 ^ m * 16) 0 ++ rest).length < 2 ^ m * 16 := by simp
  simp only [hlen, if_false]
  apply foldlM_id
  intro slot hs acc
  have hslot : slot < 2 ^ m := List.mem_range.mp hs
  rw [word_zero_header _ _ (2 * slot) (by omega), word_zero_header _ _ (2 * slot + 1) (by omega)]
  simp

end NgVerif.Fault
