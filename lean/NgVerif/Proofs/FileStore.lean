import NgVerif.Model.FileStore
namespace NgVerif.FileStore

theorem get_put_self (fs : FS) (p : Path) (c : Content) : (fs.put p c).get p = some c := by
  simp [FS.put, FS.get, List.find?_cons]

theorem get_put_other (fs : FS) (p q : Path) (c : Content) (h : q ≠ p) : (fs.put p c).get q = fs.get q := by
  simp only [FS.put, FS.get, List.find?_cons]
  have h1 : ((p, c).1 == q) = false := by simpa using fun e => h e.symm
  simp only [h1]
  congr 1
  induction fs with
  | nil => rfl
  | cons e t ih =>
    simp only [List.filter_cons]
    by_cases he : e.1 = p
    · have : (e.1 != p) = false := by simp [he]
      have h2 : (e.1 == q) = false := by rw [he]; simpa using fun e' => h e'.symm
      simp only [this, List.find?_cons, h2]
      exact ih
    · have : (e.1 != p) = true := by simp [he]
      simp only [this, if_true, List.find?_cons]
      split
      · rfl
      · exact ih

theorem gzName_ne (p : Path) (hp : p ≠ []) : gzName p ≠ p := by
  unfold gzName
  intro h
  cases hr : p.reverse with
  | nil => have : p = [] := List.reverse_eq_nil_iff.mp hr; exact hp this
  | cons last rest =>
    rw [hr] at h
    simp only at h
    have hp' : p = rest.reverse ++ [last] := by
      have := congrArg List.reverse hr
      simpa using this
    rw [hp'] at h
    have := List.append_cancel_left h
    have hl : (last ++ ".gz").length = last.length := by
      have : last ++ ".gz" = last := by simpa using this
      rw [this]
    rw [String.length_append] at hl
    have : (".gz" : String).length = 3 := by decide
    omega

/-! ### files -/

theorem refused_before_any_access (cfg : Cfg) (fs : FS) (rel : String) (buf : Bytes) (mime : String)
    (ow : Bool) (h : confined rel = none) :
    storeFile cfg fs rel buf mime ow = .error .refused ∧ fetchFile fs rel = .error .refused ∧
    fileExists fs rel = .error .refused := by
  simp [storeFile, fetchFile, fileExists, h]

theorem confined_none_iff (rel : String) :
    confined rel = none ↔ (rel.startsWith "/" = true ∨
      ((rel.splitOn "/").filter fun s => s != "" && s != ".").contains ".." = true) := by
  unfold confined parts
  by_cases h : rel.startsWith "/" = true
  · simp [h]
  · simp only [h, Bool.false_eq_true, if_false, false_or]
    split <;> simp_all

theorem writeAt_ok (fs fs' : FS) (t : Path) (c : Content) (ow : Bool) (h : writeAt fs t c ow = .ok fs') :
    fs' = fs.put t c := by
  unfold writeAt at h
  by_cases h1 : blocked fs t = true
  · simp [h1] at h
  · by_cases h2 : (!ow && (fs.get t).isSome) = true
    · simp [h1, h2] at h
    · simp only [h1, h2, Bool.false_eq_true, if_false] at h
      injection h with h; exact h.symm

/-- storing without permission to overwrite fails when the target exists; nothing is changed
    (the result carries no new file system) -/
theorem store_no_overwrite (cfg : Cfg) (fs : FS) (rel : String) (p : Path) (buf : Bytes) (mime : String)
    (hc : confined rel = some p) (hex : (fs.get (targetOf cfg mime p)).isSome = true) :
    storeFile cfg fs rel buf mime false = .error .access := by
  unfold storeFile writeAt
  simp only [hc]
  by_cases h1 : blocked fs (targetOf cfg mime p) = true
  · simp [h1]
  · simp [h1, hex]

/-- after a successful store the stored bytes are read back, and every other path is untouched -/
theorem fetch_after_store (cfg : Cfg) (fs fs' : FS) (rel : String) (p : Path) (buf : Bytes) (mime : String)
    (ow : Bool) (hc : confined rel = some p) (hp : p ≠ [])
    (hs : storeFile cfg fs rel buf mime ow = .ok fs')
    (hplain : compresses cfg mime = true → fs.get p = none) :
    fetchFile fs' rel = .ok (.bytes buf) ∧ ∀ q, q ≠ targetOf cfg mime p → fs'.get q = fs.get q := by
  unfold storeFile at hs
  simp only [hc] at hs
  have := writeAt_ok _ _ _ _ _ hs
  subst this
  refine ⟨?_, fun q hq => get_put_other _ _ _ _ hq⟩
  unfold fetchFile targetOf contentOf
  simp only [hc]
  by_cases hcm : compresses cfg mime = true
  · simp only [hcm, if_true]
    have h1 : (fs.put (gzName p) (Content.gz buf)).get p = none := by
      rw [get_put_other _ _ _ _ (fun e => gzName_ne p hp e.symm)]
      exact hplain hcm
    simp only [h1, get_put_self]
  · simp only [hcm, Bool.false_eq_true, if_false, get_put_self, rawRead]

/-! ### chunks -/

theorem chunkPath_layouts_differ (key : String) (c : Nat × Nat × Nat × Nat × Nat × Nat) :
    chunkPath true key c ≠ chunkPath false key c ∧
    chunkPath true key c ≠ gzName (chunkPath false key c) ∧
    gzName (chunkPath true key c) ≠ chunkPath false key c ∧
    gzName (chunkPath true key c) ≠ gzName (chunkPath false key c) := by
  obtain ⟨x0, x1, y0, y1, z0, z1⟩ := c
  refine ⟨?_, ?_, ?_, ?_⟩ <;>
    (intro h; have := congrArg List.length h; simp [chunkPath, gzName] at this)

/-- a chunk stored under ANY configuration is read back by `fetch_chunk` (which does not depend
    on the reader's configuration at all), provided the other three candidate paths are unused -/
theorem fetch_chunk_after_store_in (cfg : Cfg) (fs fs' : FS) (key : String)
    (c : Nat × Nat × Nat × Nat × Nat × Nat) (buf : Bytes) (mime : String) (ow : Bool)
    (hs : storeChunkIn cfg fs key c buf mime ow = .ok fs')
    (hfree : ∀ q, (q = chunkPath true key c ∨ q = chunkPath false key c ∨
        q = gzName (chunkPath true key c) ∨ q = gzName (chunkPath false key c)) →
        q ≠ targetOf cfg mime (chunkPath cfg.flat key c) → fs.get q = none) :
    fetchChunkIn fs' key c = .ok (.bytes buf) := by
  obtain ⟨d1, d2, d3, d4⟩ := chunkPath_layouts_differ key c
  have g1 : gzName (chunkPath true key c) ≠ chunkPath true key c := gzName_ne _ (by
    obtain ⟨x0, x1, y0, y1, z0, z1⟩ := c; simp [chunkPath])
  have g2 : gzName (chunkPath false key c) ≠ chunkPath false key c := gzName_ne _ (by
    obtain ⟨x0, x1, y0, y1, z0, z1⟩ := c; simp [chunkPath])
  unfold storeChunkIn at hs
  have := writeAt_ok _ _ _ _ _ hs
  subst this
  unfold targetOf contentOf at *
  (
      unfold fetchChunkIn probe
      cases hf : cfg.flat <;> by_cases hcm : compresses cfg mime = true <;>
        simp only [hf, hcm, if_true, if_false, Bool.false_eq_true] at hfree ⊢
      · -- sub-directories, compressed
        have a1 := hfree (chunkPath false key c) (by simp) (fun e => g2 e.symm)
        rw [get_put_other _ _ _ _ (fun e => g2 e.symm), a1, get_put_self]
      · -- sub-directories, plain
        rw [get_put_self]; rfl
      · -- flat, compressed
        have a1 := hfree (chunkPath false key c) (by simp) (fun e => d3 e.symm)
        have a2 := hfree (gzName (chunkPath false key c)) (by simp) (fun e => d4 e.symm)
        have a3 := hfree (chunkPath true key c) (by simp) (fun e => g1 e.symm)
        rw [get_put_other _ _ _ _ (fun e => d3 e.symm), a1,
          get_put_other _ _ _ _ (fun e => d4 e.symm), a2,
          get_put_other _ _ _ _ (fun e => g1 e.symm), a3, get_put_self]
      · -- flat, plain
        have a1 := hfree (chunkPath false key c) (by simp) (fun e => d1 e.symm)
        have a2 := hfree (gzName (chunkPath false key c)) (by simp) (fun e => d2 e.symm)
        rw [get_put_other _ _ _ _ (fun e => d1 e.symm), a1,
          get_put_other _ _ _ _ (fun e => d2 e.symm), a2, get_put_self]
        rfl

  )

end NgVerif.FileStore
