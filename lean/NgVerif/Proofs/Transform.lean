import NgVerif.Model.Transform
import Mathlib.Data.Matrix.Basic
import Mathlib.Tactic.Ring
import Mathlib.Tactic.FieldSimp
import Mathlib.Algebra.BigOperators.Fin
namespace NgVerif.Transform

variable {K : Type} [Field K]

/-- half-voxel identity, componentwise, over ANY field: affine part `A`, translation `t`, non-zero
    voxel sizes `v`, resolution `res = c·v` (c = 10^6 nm/mm), voxel index `i` (any, also fractional) -/
theorem half_voxel (A : Fin 3 → Fin 3 → K) (t v i : Fin 3 → K) (c : K)
    (hv : ∀ k, v k ≠ 0) (r : Fin 3) :
    let R : Fin 3 → Fin 3 → K := fun a b => A a b / v b
    let res : Fin 3 → K := fun b => c * v b
    let t' : K := c * t r - ∑ b, R r b * ((1/2 : K) * res b)
    (∑ b, R r b * ((i b + 1/2) * res b)) + t' = c * ((∑ b, A r b * i b) + t r) := by
  intro R res t'
  simp only [R, res, t', Fin.sum_univ_three]
  have h0 := hv 0; have h1 := hv 1; have h2 := hv 2
  field_simp
  ring

end NgVerif.Transform
