import NgVerif.Model.Transform
import Mathlib.Data.Matrix.Basic
import Mathlib.Tactic.Ring
import Mathlib.Tactic.FieldSimp
import Mathlib.Algebra.BigOperators.Fin
import Mathlib.Data.Rat.Defs
import Mathlib.Algebra.Order.Field.Rat
import Mathlib.Tactic.Push
namespace NgVerif.Transform

variable {K : Type} [Field K]

/-- half-voxel identity, componentwise, over ANY field: affine part `A`, translation `t`, non-zero
    voxel sizes `v`, resolution `res = c·v` (c = 10^6 nm/mm), voxel index `i` (any, also fractional) -/
theorem half_voxel (A : Fin 3 → Fin 3 → K) (t v i : Fin 3 → K) (c : K)
    (hv : ∀ k, v k ≠ 0) (r : Fin 3) :
    let R : Fin 3 → Fin 3 → K := fun a b => A a b / v b
    let res : Fin 3 → K := fun b => c * v b
    let t' : K := c * t r - ∑ b, R r b * ((1/2 : K) * res b)
    (∑ b, R r b * ((i b + 1/2) * res b)) + t' = c * ((∑ b, A r b * i b) + t r) := by
  intro R res t'
  simp only [R, res, t', Fin.sum_univ_three]
  have h0 := hv 0; have h1 := hv 1; have h2 := hv 2
  field_simp
  ring

/-- the same identity for the EXECUTABLE row model `rowG` (the definition the driver runs), over any
    field: the four entries `[R₀, R₁, R₂, t']` of row `r` map the corner-based coordinate of the centre
    of voxel `i` to `10^6 · (A·i + t)` -/
theorem rowG_maps_centre (a : Nat → Nat → K) (t v : Nat → K) (i : Nat → K) (c : K)
    (h0 : v 0 ≠ 0) (h1 : v 1 ≠ 0) (h2 : v 2 ≠ 0) (r : Nat) :
    ∃ R0 R1 R2 t', rowG a t v (c / 2) c 0 r = [R0, R1, R2, t'] ∧
      R0 * ((i 0 + 1/2) * (c * v 0)) + R1 * ((i 1 + 1/2) * (c * v 1)) + R2 * ((i 2 + 1/2) * (c * v 2)) + t'
        = c * (a r 0 * i 0 + a r 1 * i 1 + a r 2 * i 2 + t r) := by
  refine ⟨_, _, _, _, rfl, ?_⟩
  field_simp
  ring

/-! ### the driver's rational arithmetic `Q` is arithmetic in ℚ -/

/-- value of a `Q` in ℚ -/
def Q.val (q : Q) : ℚ := (q.n : ℚ) / (q.d : ℚ)

theorem Q.val_add (a b : Q) (ha : a.d ≠ 0) (hb : b.d ≠ 0) : (a + b).val = a.val + b.val := by
  show (Q.add a b).val = _
  simp only [Q.add, Q.val]; push_cast
  have : (a.d : ℚ) ≠ 0 := by exact_mod_cast ha
  have : (b.d : ℚ) ≠ 0 := by exact_mod_cast hb
  field_simp

theorem Q.val_sub (a b : Q) (ha : a.d ≠ 0) (hb : b.d ≠ 0) : (a - b).val = a.val - b.val := by
  show (Q.sub a b).val = _
  simp only [Q.sub, Q.val]; push_cast
  have : (a.d : ℚ) ≠ 0 := by exact_mod_cast ha
  have : (b.d : ℚ) ≠ 0 := by exact_mod_cast hb
  field_simp

theorem Q.val_mul (a b : Q) : (a * b).val = a.val * b.val := by
  show (Q.mul a b).val = _
  simp only [Q.mul, Q.val]; push_cast
  rw [div_mul_div_comm]

/-- division by a POSITIVE rational (voxel sizes are positive) -/
theorem Q.val_div (a b : Q) (hb : 0 < b.n) : (a / b).val = a.val / b.val := by
  show (Q.div a b).val = _
  simp only [Q.div, Q.val]; push_cast
  have hn : ((b.n.toNat : ℤ) : ℚ) = (b.n : ℚ) := by
    have : (b.n.toNat : ℤ) = b.n := Int.toNat_of_nonneg (le_of_lt hb)
    exact_mod_cast this
  rw [show ((b.n.toNat : ℕ) : ℚ) = (b.n : ℚ) from by exact_mod_cast hn]
  rw [div_div_div_eq]

theorem Q.ok_add (a b : Q) (ha : a.d ≠ 0) (hb : b.d ≠ 0) : (a + b).d ≠ 0 := by
  show (Q.add a b).d ≠ 0
  simp only [Q.add]; exact Nat.mul_ne_zero ha hb

theorem Q.ok_sub (a b : Q) (ha : a.d ≠ 0) (hb : b.d ≠ 0) : (a - b).d ≠ 0 := by
  show (Q.sub a b).d ≠ 0
  simp only [Q.sub]; exact Nat.mul_ne_zero ha hb

theorem Q.ok_mul (a b : Q) (ha : a.d ≠ 0) (hb : b.d ≠ 0) : (a * b).d ≠ 0 := by
  show (Q.mul a b).d ≠ 0
  simp only [Q.mul]; exact Nat.mul_ne_zero ha hb

theorem Q.ok_div (a b : Q) (ha : a.d ≠ 0) (hb : 0 < b.n) : (a / b).d ≠ 0 := by
  show (Q.div a b).d ≠ 0
  simp only [Q.div]
  refine Nat.mul_ne_zero ha ?_
  intro h
  have := Int.toNat_eq_zero.mp h
  omega

/-- the row computed by the driver in `Q` arithmetic, read in ℚ, is the row computed in ℚ: the
    model's hand-rolled rational arithmetic does not change the formula -/
theorem rowG_val (a : Nat → Nat → Q) (t v : Nat → Q) (half million zero : Q) (r : Nat)
    (ha : ∀ r c, (a r c).d ≠ 0) (ht : ∀ r, (t r).d ≠ 0) (hv : ∀ c, (v c).d ≠ 0 ∧ 0 < (v c).n)
    (hh : half.d ≠ 0) (hm : million.d ≠ 0) (hz : zero.d ≠ 0) :
    (rowG a t v half million zero r).map Q.val =
      rowG (fun r c => (a r c).val) (fun r => (t r).val) (fun c => (v c).val) half.val million.val zero.val r := by
  have dR : ∀ c, (a r c / v c).d ≠ 0 := fun c => Q.ok_div _ _ (ha r c) (hv c).2
  have dH : ∀ c, (half * v c).d ≠ 0 := fun c => Q.ok_mul _ _ hh (hv c).1
  have dP : ∀ c, (a r c / v c * (half * v c)).d ≠ 0 := fun c => Q.ok_mul _ _ (dR c) (dH c)
  have d0 := Q.ok_add _ _ hz (dP 0)
  have d1 := Q.ok_add _ _ d0 (dP 1)
  have d2 := Q.ok_add _ _ d1 (dP 2)
  have dM := Q.ok_mul _ _ hm (ht r)
  simp only [rowG, List.map_cons, List.map_nil]
  rw [Q.val_sub _ _ dM d2, Q.val_add _ _ d1 (dP 2), Q.val_add _ _ d0 (dP 1), Q.val_add _ _ hz (dP 0)]
  simp only [Q.val_mul, Q.val_div _ _ (hv 0).2, Q.val_div _ _ (hv 1).2, Q.val_div _ _ (hv 2).2]

end NgVerif.Transform
