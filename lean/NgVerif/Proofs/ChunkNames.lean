import NgVerif.Proofs.FileStore
import Std.Data.String.ToNat
/- chunk file names: injectivity at the string level, and the frame property of store_chunk -/
namespace NgVerif.FileStore

/-- splitting a character list at the first occurrence of a separator that the left parts avoid -/
theorem split_unique (c : Char) : ∀ (l1 l2 r1 r2 : List Char), c ∉ l1 → c ∉ l2 →
    l1 ++ c :: r1 = l2 ++ c :: r2 → l1 = l2 ∧ r1 = r2
  | [], [], r1, r2, _, _, h => by simp at h; exact ⟨rfl, h⟩
  | [], b :: l2, r1, r2, _, h2, h => by
    simp only [List.nil_append, List.cons_append, List.cons.injEq] at h
    exact absurd (h.1 ▸ List.mem_cons_self) h2
  | a :: l1, [], r1, r2, h1, _, h => by
    simp only [List.nil_append, List.cons_append, List.cons.injEq] at h
    exact absurd (h.1 ▸ List.mem_cons_self) h1
  | a :: l1, b :: l2, r1, r2, h1, h2, h => by
    simp only [List.cons_append, List.cons.injEq] at h
    obtain ⟨hab, ht⟩ := h
    obtain ⟨e1, e2⟩ := split_unique c l1 l2 r1 r2 (fun hc => h1 (List.mem_cons_of_mem _ hc))
      (fun hc => h2 (List.mem_cons_of_mem _ hc)) ht
    exact ⟨by rw [hab, e1], e2⟩

theorem digits_only (n : Nat) (c : Char) (hc : c ∈ (toString n).toList) : c.isDigit = true := by
  have : (toString n) = Nat.repr n := rfl
  rw [this, Nat.toList_repr] at hc
  exact Nat.isDigit_of_mem_toDigits (by omega) (by omega) hc

theorem toString_nat_inj (a b : Nat) (h : toString a = toString b) : a = b :=
  Nat.repr_injective h

theorem coordStr_toList (lo hi : Nat) :
    (coordStr lo hi).toList = (toString lo).toList ++ '-' :: (toString hi).toList := by
  simp [coordStr, String.toList_append]

theorem coordStr_inj (a b a' b' : Nat) (h : coordStr a b = coordStr a' b') : a = a' ∧ b = b' := by
  have hl := congrArg String.toList h
  rw [coordStr_toList, coordStr_toList] at hl
  have n1 : '-' ∉ (toString a).toList := fun hc => by have := digits_only a '-' hc; simp at this
  have n2 : '-' ∉ (toString a').toList := fun hc => by have := digits_only a' '-' hc; simp at this
  obtain ⟨e1, e2⟩ := split_unique '-' _ _ _ _ n1 n2 hl
  exact ⟨toString_nat_inj _ _ (String.toList_inj.mp e1), toString_nat_inj _ _ (String.toList_inj.mp e2)⟩


theorem underscore_not_in_coord (a b : Nat) : '_' ∉ (coordStr a b).toList := by
  rw [coordStr_toList]
  intro h
  rcases List.mem_append.mp h with h | h
  · have := digits_only a '_' h; simp at this
  · rcases List.mem_cons.mp h with h | h
    · simp at h
    · have := digits_only b '_' h; simp at this

theorem dot_not_in_coord (a b : Nat) : '.' ∉ (coordStr a b).toList := by
  rw [coordStr_toList]
  intro h
  rcases List.mem_append.mp h with h | h
  · have := digits_only a '.' h; simp at this
  · rcases List.mem_cons.mp h with h | h
    · simp at h
    · have := digits_only b '.' h; simp at this

/-- distinct chunk coordinates give distinct file names, in both layouts, for every key -/
theorem chunkPath_inj (flat : Bool) (key key' : String) (c c' : Nat × Nat × Nat × Nat × Nat × Nat)
    (h : chunkPath flat key c = chunkPath flat key' c') : key = key' ∧ c = c' := by
  obtain ⟨x0, x1, y0, y1, z0, z1⟩ := c
  obtain ⟨x0', x1', y0', y1', z0', z1'⟩ := c'
  cases flat with
  | false =>
    simp only [chunkPath, Bool.false_eq_true, if_false, List.cons.injEq, and_true] at h
    obtain ⟨hk, hx, hy, hz⟩ := h
    obtain ⟨e1, e2⟩ := coordStr_inj _ _ _ _ hx
    obtain ⟨e3, e4⟩ := coordStr_inj _ _ _ _ hy
    obtain ⟨e5, e6⟩ := coordStr_inj _ _ _ _ hz
    subst e1 e2 e3 e4 e5 e6
    exact ⟨hk, rfl⟩
  | true =>
    simp only [chunkPath, if_true, List.cons.injEq, and_true] at h
    obtain ⟨hk, hs⟩ := h
    have hl := congrArg String.toList hs
    simp only [String.toList_append] at hl
    have u : ("_" : String).toList = ['_'] := rfl
    rw [u] at hl
    simp only [List.append_assoc, List.singleton_append] at hl
    obtain ⟨ex, hrest⟩ := split_unique '_' _ _ _ _ (underscore_not_in_coord x0 x1)
      (underscore_not_in_coord x0' x1') hl
    obtain ⟨ey, ez⟩ := split_unique '_' _ _ _ _ (underscore_not_in_coord y0 y1)
      (underscore_not_in_coord y0' y1') hrest
    obtain ⟨e1, e2⟩ := coordStr_inj _ _ _ _ (String.toList_inj.mp ex)
    obtain ⟨e3, e4⟩ := coordStr_inj _ _ _ _ (String.toList_inj.mp ey)
    obtain ⟨e5, e6⟩ := coordStr_inj _ _ _ _ (String.toList_inj.mp ez)
    subst e1 e2 e3 e4 e5 e6
    exact ⟨hk, rfl⟩


theorem append_gz_cancel (a b : String) (h : a ++ ".gz" = b ++ ".gz") : a = b := by
  have := congrArg String.toList h
  simp only [String.toList_append] at this
  exact String.toList_inj.mp (List.append_cancel_right this)

theorem no_dot_ne_gz (a b : String) (ha : '.' ∉ a.toList) : a ≠ b ++ ".gz" := by
  intro h
  apply ha
  rw [h, String.toList_append]
  apply List.mem_append_right
  decide

def flatName (c : Nat × Nat × Nat × Nat × Nat × Nat) : String :=
  coordStr c.1 c.2.1 ++ "_" ++ coordStr c.2.2.1 c.2.2.2.1 ++ "_" ++ coordStr c.2.2.2.2.1 c.2.2.2.2.2

theorem dot_not_in_flatName (c : Nat × Nat × Nat × Nat × Nat × Nat) : '.' ∉ (flatName c).toList := by
  obtain ⟨x0, x1, y0, y1, z0, z1⟩ := c
  simp only [flatName, String.toList_append]
  have u : ("_" : String).toList = ['_'] := rfl
  rw [u]
  intro h
  simp only [List.mem_append, List.mem_singleton] at h
  rcases h with (((h | h) | h) | h) | h
  · exact dot_not_in_coord _ _ h
  · cases h
  · exact dot_not_in_coord _ _ h
  · cases h
  · exact dot_not_in_coord _ _ h

theorem chunkPath_flat_eq (key : String) (c : Nat × Nat × Nat × Nat × Nat × Nat) :
    chunkPath true key c = [key, flatName c] := by
  obtain ⟨x0, x1, y0, y1, z0, z1⟩ := c; rfl

theorem chunkPath_sub_eq (key : String) (c : Nat × Nat × Nat × Nat × Nat × Nat) :
    chunkPath false key c = [key, coordStr c.1 c.2.1, coordStr c.2.2.1 c.2.2.2.1, coordStr c.2.2.2.2.1 c.2.2.2.2.2] := by
  obtain ⟨x0, x1, y0, y1, z0, z1⟩ := c; rfl

theorem gz_flat_eq (key : String) (c : Nat × Nat × Nat × Nat × Nat × Nat) :
    gzName (chunkPath true key c) = [key, flatName c ++ ".gz"] := by
  rw [chunkPath_flat_eq]; rfl

theorem gz_sub_eq (key : String) (c : Nat × Nat × Nat × Nat × Nat × Nat) :
    gzName (chunkPath false key c) = [key, coordStr c.1 c.2.1, coordStr c.2.2.1 c.2.2.2.1,
      coordStr c.2.2.2.2.1 c.2.2.2.2.2 ++ ".gz"] := by
  rw [chunkPath_sub_eq]; rfl

/-- a candidate path of a chunk: layout `f`, compressed name `g` -/
def cand (f g : Bool) (key : String) (c : Nat × Nat × Nat × Nat × Nat × Nat) : Path :=
  if g then gzName (chunkPath f key c) else chunkPath f key c

theorem cand_tf (key c) : cand true false key c = [key, flatName c] := by
  simp only [cand, Bool.false_eq_true, if_false]; exact chunkPath_flat_eq key c
theorem cand_tt (key c) : cand true true key c = [key, flatName c ++ ".gz"] := by
  simp only [cand, if_true]; exact gz_flat_eq key c
theorem cand_ff (key c) : cand false false key c =
    [key, coordStr c.1 c.2.1, coordStr c.2.2.1 c.2.2.2.1, coordStr c.2.2.2.2.1 c.2.2.2.2.2] := by
  simp only [cand, Bool.false_eq_true, if_false]; exact chunkPath_sub_eq key c
theorem cand_ft (key c) : cand false true key c =
    [key, coordStr c.1 c.2.1, coordStr c.2.2.1 c.2.2.2.1, coordStr c.2.2.2.2.1 c.2.2.2.2.2 ++ ".gz"] := by
  simp only [cand, if_true]; exact gz_sub_eq key c

theorem flat_inj (key key' : String) (c c') (hk : key = key') (hs : flatName c = flatName c') :
    key = key' ∧ c = c' :=
  chunkPath_inj true key key' c c' (by rw [chunkPath_flat_eq, chunkPath_flat_eq, hk, hs])

theorem sub_inj (key key' : String) (c c' : Nat × Nat × Nat × Nat × Nat × Nat) (hk : key = key')
    (hx : coordStr c.1 c.2.1 = coordStr c'.1 c'.2.1)
    (hy : coordStr c.2.2.1 c.2.2.2.1 = coordStr c'.2.2.1 c'.2.2.2.1)
    (hz : coordStr c.2.2.2.2.1 c.2.2.2.2.2 = coordStr c'.2.2.2.2.1 c'.2.2.2.2.2) : key = key' ∧ c = c' :=
  chunkPath_inj false key key' c c' (by rw [chunkPath_sub_eq, chunkPath_sub_eq, hk, hx, hy, hz])

/-- the four candidate paths of one chunk are disjoint from the four candidate paths of any
    other chunk (other key or other coordinates) -/
theorem candidates_disjoint (key key' : String) (c c' : Nat × Nat × Nat × Nat × Nat × Nat)
    (hne : ¬ (key = key' ∧ c = c')) (f f' g g' : Bool) : cand f g key c ≠ cand f' g' key' c' := by
  intro h
  apply hne
  cases f <;> cases g <;> cases f' <;> cases g'
  -- ff / ..
  · rw [cand_ff, cand_ff] at h; simp only [List.cons.injEq, and_true] at h
    exact sub_inj _ _ _ _ h.1 h.2.1 h.2.2.1 h.2.2.2
  · rw [cand_ff, cand_ft] at h; simp only [List.cons.injEq, and_true] at h
    exact absurd h.2.2.2 (no_dot_ne_gz _ _ (dot_not_in_coord _ _))
  · rw [cand_ff, cand_tf] at h; exact absurd (congrArg List.length h) (by simp)
  · rw [cand_ff, cand_tt] at h; exact absurd (congrArg List.length h) (by simp)
  -- ft / ..
  · rw [cand_ft, cand_ff] at h; simp only [List.cons.injEq, and_true] at h
    exact absurd h.2.2.2.symm (no_dot_ne_gz _ _ (dot_not_in_coord _ _))
  · rw [cand_ft, cand_ft] at h; simp only [List.cons.injEq, and_true] at h
    exact sub_inj _ _ _ _ h.1 h.2.1 h.2.2.1 (append_gz_cancel _ _ h.2.2.2)
  · rw [cand_ft, cand_tf] at h; exact absurd (congrArg List.length h) (by simp)
  · rw [cand_ft, cand_tt] at h; exact absurd (congrArg List.length h) (by simp)
  -- tf / ..
  · rw [cand_tf, cand_ff] at h; exact absurd (congrArg List.length h) (by simp)
  · rw [cand_tf, cand_ft] at h; exact absurd (congrArg List.length h) (by simp)
  · rw [cand_tf, cand_tf] at h; simp only [List.cons.injEq, and_true] at h
    exact flat_inj _ _ _ _ h.1 h.2
  · rw [cand_tf, cand_tt] at h; simp only [List.cons.injEq, and_true] at h
    exact absurd h.2 (no_dot_ne_gz _ _ (dot_not_in_flatName _))
  -- tt / ..
  · rw [cand_tt, cand_ff] at h; exact absurd (congrArg List.length h) (by simp)
  · rw [cand_tt, cand_ft] at h; exact absurd (congrArg List.length h) (by simp)
  · rw [cand_tt, cand_tf] at h; simp only [List.cons.injEq, and_true] at h
    exact absurd h.2.symm (no_dot_ne_gz _ _ (dot_not_in_flatName _))
  · rw [cand_tt, cand_tt] at h; simp only [List.cons.injEq, and_true] at h
    exact flat_inj _ _ _ _ h.1 (append_gz_cancel _ _ h.2)


/-- FRAME: storing a chunk changes what `fetch_chunk` returns for NO other chunk (other key or
    other coordinates), under any configuration, MIME type and prior file-system state -/
theorem store_chunk_frame_in (cfg : Cfg) (fs fs' : FS) (key : String)
    (c : Nat × Nat × Nat × Nat × Nat × Nat) (buf : Bytes) (mime : String) (ow : Bool)
    (hs : storeChunkIn cfg fs key c buf mime ow = .ok fs')
    (key' : String) (c' : Nat × Nat × Nat × Nat × Nat × Nat) (hne : ¬ (key = key' ∧ c = c')) :
    fetchChunkIn fs' key' c' = fetchChunkIn fs key' c' := by
  unfold storeChunkIn at hs
  have := writeAt_ok _ _ _ _ _ hs
  subst this
  have ht : targetOf cfg mime (chunkPath cfg.flat key c) = cand cfg.flat (compresses cfg mime) key c := by
    unfold targetOf cand; rfl
  rw [ht]
  have hd : ∀ f' g', cand f' g' key' c' ≠ cand cfg.flat (compresses cfg mime) key c :=
    fun f' g' => (candidates_disjoint key key' c c' hne _ f' _ g').symm
  generalize cand cfg.flat (compresses cfg mime) key c = t at hd ⊢
  have h1 := get_put_other fs t _ (contentOf cfg mime buf) (hd false false)
  have h2 := get_put_other fs t _ (contentOf cfg mime buf) (hd false true)
  have h3 := get_put_other fs t _ (contentOf cfg mime buf) (hd true false)
  have h4 := get_put_other fs t _ (contentOf cfg mime buf) (hd true true)
  simp only [cand, Bool.false_eq_true, if_false, if_true] at h1 h2 h3 h4
  unfold fetchChunkIn probe
  rw [h1, h2, h3, h4]

theorem storeChunk_ok (cfg : Cfg) (fs fs' : FS) (key : String) (c : Nat × Nat × Nat × Nat × Nat × Nat) (buf : Bytes)
    (mime : String) (ow : Bool) (hs : storeChunk cfg fs key c buf mime ow = .ok fs') :
    chunkRefused key = false ∧ storeChunkIn cfg fs key c buf mime ow = .ok fs' := by
  unfold storeChunk at hs
  split at hs
  · cases hs
  · rename_i h; exact ⟨by simpa using h, hs⟩

/-- FRAME (with the name check): storing a chunk changes what `fetch_chunk` returns for no other chunk -/
theorem store_chunk_frame (cfg : Cfg) (fs fs' : FS) (key : String)
    (c : Nat × Nat × Nat × Nat × Nat × Nat) (buf : Bytes) (mime : String) (ow : Bool)
    (hs : storeChunk cfg fs key c buf mime ow = .ok fs')
    (key' : String) (c' : Nat × Nat × Nat × Nat × Nat × Nat) (hne : ¬ (key = key' ∧ c = c')) :
    fetchChunk fs' key' c' = fetchChunk fs key' c' := by
  obtain ⟨_, hin⟩ := storeChunk_ok cfg fs fs' key c buf mime ow hs
  unfold fetchChunk
  split
  · rfl
  · exact store_chunk_frame_in cfg fs fs' key c buf mime ow hin key' c' hne

/-- a key that makes the chunk's name absolute or contains `..` is refused by both operations, and the file
    system is not touched -/
theorem chunk_key_escape_refused (cfg : Cfg) (fs : FS) (key : String) (c : Nat × Nat × Nat × Nat × Nat × Nat)
    (buf : Bytes) (mime : String) (ow : Bool) (h : chunkRefused key = true) :
    storeChunk cfg fs key c buf mime ow = .error .refused ∧ fetchChunk fs key c = .error .refused := by
  simp [storeChunk, fetchChunk, h]

/-- (with the name check) a chunk stored under any configuration is read back by `fetch_chunk` -/
theorem fetch_chunk_after_store (cfg : Cfg) (fs fs' : FS) (key : String)
    (c : Nat × Nat × Nat × Nat × Nat × Nat) (buf : Bytes) (mime : String) (ow : Bool)
    (hs : storeChunk cfg fs key c buf mime ow = .ok fs')
    (hfree : ∀ q, (q = chunkPath true key c ∨ q = chunkPath false key c ∨
        q = gzName (chunkPath true key c) ∨ q = gzName (chunkPath false key c)) →
        q ≠ targetOf cfg mime (chunkPath cfg.flat key c) → fs.get q = none) :
    fetchChunk fs' key c = .ok (.bytes buf) := by
  obtain ⟨hk, hin⟩ := storeChunk_ok cfg fs fs' key c buf mime ow hs
  unfold fetchChunk
  simp only [hk, Bool.false_eq_true, if_false]
  exact fetch_chunk_after_store_in cfg fs fs' key c buf mime ow hin hfree

end NgVerif.FileStore
