import NgVerif.Model.Digits
namespace NgVerif

theorem ofDigits_digit (B : Nat) (hB : 0 < B) :
    ∀ (ds : List Nat) (t : Nat), (∀ d ∈ ds, d < B) → t < ds.length →
      ofDigits B ds / B ^ t % B = ds[t]!
  | [], t, _, ht => by simp at ht
  | d :: ds, 0, h, _ => by
      have hd : d < B := h d (by simp)
      simp [ofDigits, Nat.add_mul_mod_self_left, Nat.mod_eq_of_lt hd]
  | d :: ds, t+1, h, ht => by
      have hd : d < B := h d (by simp)
      have ih := ofDigits_digit B hB ds t (fun x hx => h x (by simp [hx])) (by simpa using ht)
      have : (d + B * ofDigits B ds) / B ^ (t+1) = ofDigits B ds / B ^ t := by
        rw [Nat.pow_succ, Nat.mul_comm (B^t) B, ← Nat.div_div_eq_div_mul]
        congr 1
        rw [Nat.add_mul_div_left _ _ hB, Nat.div_eq_of_lt hd, Nat.zero_add]
      simp only [ofDigits, this, ih]
      simp

/-- equal numbers with digit lists of the same length have equal digit lists -/
theorem ofDigits_inj (B : Nat) (hB : 0 < B) : ∀ (ds es : List Nat), ds.length = es.length →
    (∀ d ∈ ds, d < B) → (∀ d ∈ es, d < B) → ofDigits B ds = ofDigits B es → ds = es
  | [], [], _, _, _, _ => rfl
  | [], _ :: _, h, _, _, _ => by simp at h
  | _ :: _, [], h, _, _, _ => by simp at h
  | d :: ds, e :: es, hl, hd, he, h => by
    have hd0 : d < B := hd d (by simp)
    have he0 : e < B := he e (by simp)
    simp only [ofDigits] at h
    have h1 : d = e := by
      have := congrArg (· % B) h
      simpa [Nat.add_mul_mod_self_left, Nat.mod_eq_of_lt hd0, Nat.mod_eq_of_lt he0] using this
    subst h1
    have h2 : ofDigits B ds = ofDigits B es := by
      have : B * ofDigits B ds = B * ofDigits B es := by omega
      exact Nat.eq_of_mul_eq_mul_left hB this
    rw [ofDigits_inj B hB ds es (by simpa using hl) (fun x hx => hd x (by simp [hx]))
      (fun x hx => he x (by simp [hx])) h2]

theorem ofDigits_lt (B : Nat) (hB : 0 < B) : ∀ (ds : List Nat), (∀ d ∈ ds, d < B) →
    ofDigits B ds < B ^ ds.length
  | [], _ => by simp [ofDigits]
  | d :: ds, h => by
    have hd : d < B := h d (by simp)
    have ih := ofDigits_lt B hB ds (fun x hx => h x (by simp [hx]))
    simp only [ofDigits, List.length_cons, Nat.pow_succ]
    have : B * (ofDigits B ds + 1) ≤ B * B ^ ds.length := Nat.mul_le_mul_left B ih
    rw [Nat.mul_add, Nat.mul_one] at this
    rw [Nat.mul_comm (B ^ ds.length) B]
    omega

end NgVerif
