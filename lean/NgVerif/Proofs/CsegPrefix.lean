import NgVerif.Proofs.CsegOwn
/- truncated compressed_segmentation files: the specification decoder is monotone under extension of the
   readable words, hence (with conformance) the package's decoder never mis-decodes a prefix -/
namespace NgVerif.Cseg

/-- a reader `r2` extends `r1`: everything `r1` can read, `r2` reads with the same result -/
def Ext (r1 r2 : Nat → Option Nat) : Prop := ∀ k x, r1 k = some x → r2 k = some x

theorem w32_take_ext (b : Bytes) (j : Nat) : Ext (w32 (b.take j)) (w32 b) := by
  intro k x h
  have hb0 := w32_bound _ _ _ h
  have hb := hb0
  rw [List.length_take] at hb
  rw [w32_some _ _ hb0] at h
  rw [w32_some b k (by omega), ← h]
  congr 2
  rw [List.drop_take, List.take_take]
  congr 1
  omega

theorem decodeIn_ext (itemsize : Nat) (l1 l2 v1 v2 : Nat → Option Nat) (hl : Ext l1 l2) (hv : Ext v1 v2)
    (bits i x : Nat) (h : decodeIn itemsize l1 v1 bits i = some x) : decodeIn itemsize l2 v2 bits i = some x := by
  unfold decodeIn at h ⊢
  by_cases hb : bits = 0
  · simp only [hb, if_true, Option.bind_eq_bind, Option.bind_some] at h ⊢
    by_cases h8 : itemsize = 8
    · simp only [h8, if_true] at h ⊢
      cases hlo : l1 (2 * 0) with
      | none => rw [hlo] at h; simp at h
      | some lo =>
        cases hhi : l1 (2 * 0 + 1) with
        | none => rw [hlo, hhi] at h; simp at h
        | some hi =>
          rw [hlo, hhi] at h
          rw [hl _ _ hlo, hl _ _ hhi]
          exact h
    · simp only [h8, if_false] at h ⊢
      exact hl _ _ h
  · simp only [hb, if_false, Option.bind_eq_bind] at h ⊢
    cases hw : v1 (i * bits / 32) with
    | none => rw [hw] at h; simp at h
    | some w =>
      rw [hw] at h
      rw [hv _ _ hw]
      simp only [Option.map_some, Option.bind_some] at h ⊢
      by_cases h8 : itemsize = 8
      · simp only [h8, if_true] at h ⊢
        cases hlo : l1 (2 * (w / 2 ^ (i * bits % 32) % 2 ^ bits)) with
        | none => rw [hlo] at h; simp at h
        | some lo =>
          cases hhi : l1 (2 * (w / 2 ^ (i * bits % 32) % 2 ^ bits) + 1) with
          | none => rw [hlo, hhi] at h; simp at h
          | some hi =>
            rw [hlo, hhi] at h
            rw [hl _ _ hlo, hl _ _ hhi]
            exact h
      · simp only [h8, if_false] at h ⊢
        exact hl _ _ h

theorem chanVoxel_ext (r1 r2 : Nat → Option Nat) (he : Ext r1 r2) (itemsize : Nat) (s : Shape) (bk : Blk3)
    (z y x v : Nat) (h : chanVoxel r1 itemsize s bk z y x = some v) : chanVoxel r2 itemsize s bk z y x = some v := by
  unfold chanVoxel at h ⊢
  simp only [Option.bind_eq_bind] at h ⊢
  cases h0 : r1 (2 * (x / bk.bx + (gridOf s bk).1 * (y / bk.by' + (gridOf s bk).2.1 * (z / bk.bz)))) with
  | none => rw [h0] at h; simp at h
  | some a =>
    cases h1 : r1 (2 * (x / bk.bx + (gridOf s bk).1 * (y / bk.by' + (gridOf s bk).2.1 * (z / bk.bz))) + 1) with
    | none => rw [h0, h1] at h; simp at h
    | some b =>
      rw [h0, h1] at h
      rw [he _ _ h0, he _ _ h1]
      simp only [Option.bind_some] at h ⊢
      split at h
      · cases h
      · rename_i hok
        rw [if_neg hok]
        exact decodeIn_ext itemsize _ _ _ _ (fun k x hk => he _ _ hk) (fun k x hk => he _ _ hk) _ _ _ h

theorem specVoxel_take (itemsize : Nat) (s : Shape) (bk : Blk3) (b : Bytes) (j c z y x v : Nat)
    (h : specVoxel itemsize s bk (b.take j) c z y x = some v) : specVoxel itemsize s bk b c z y x = some v := by
  unfold specVoxel specVoxelR at h ⊢
  simp only [Option.bind_eq_bind] at h ⊢
  cases hc : w32 (b.take j) c with
  | none => rw [hc] at h; simp at h
  | some off =>
    rw [hc] at h
    rw [w32_take_ext b j _ _ hc]
    simp only [Option.bind_some] at h ⊢
    exact chanVoxel_ext _ _ (fun k x hk => w32_take_ext b j _ _ hk) itemsize s bk z y x v h


/-- TRUNCATED FILES ARE NEVER MIS-DECODED: if the package's decoder accepts a prefix of the bytes its
    encoder produced, it returns exactly the encoded array (everything the specification's
    procedure reads lies inside the prefix and is unchanged) -/
theorem implDecode_prefix (itemsize : Nat) (hi : itemsize = 4 ∨ itemsize = 8) (s : Shape) (bk : Blk3)
    (d : List Nat) (hbx : 0 < bk.bx) (hby : 0 < bk.by') (hbz : 0 < bk.bz)
    (hvals : ∀ v ∈ d, v < 2 ^ (8 * itemsize)) (hd : d.length = s.c * s.z * s.y * s.x)
    (file : Bytes) (h : encode itemsize s bk d = some file) (j : Nat) (a : List Nat)
    (ha : implDecode itemsize s bk (file.take j) = .ok a) : a = d := by
  have h1 := implDecode_conforms itemsize hi s bk hbx hby hbz _ a ha
  have h2 := specDecode_encode itemsize hi s bk d hbx hby hbz hvals hd file h
  unfold specDecode at h1 h2
  obtain ⟨l1, g1⟩ := mapM_some _ _ _ h1
  obtain ⟨l2, g2⟩ := mapM_some _ _ _ h2
  apply List.ext_getElem (by omega)
  intro t ht1 ht2
  have e1 := g1 t (by omega) ht1
  have e2 := g2 t (by omega) ht2
  simp only at e1 e2
  have e3 := specVoxel_take itemsize s bk file j _ _ _ _ _ e1
  rw [e2] at e3
  exact (Option.some.inj e3).symm

end NgVerif.Cseg
