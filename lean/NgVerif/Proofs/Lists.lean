import NgVerif.Model.Prim
namespace NgVerif

/-! ### generic list lemmas -/

theorem starts_length : ∀ (acc : Nat) (l : List Nat), (starts acc l).length = l.length
  | _, [] => rfl
  | acc, a :: t => by simp [starts, starts_length (acc + a) t]

theorem starts_getElem : ∀ (acc : Nat) (l : List Nat) (k : Nat) (hk : k < l.length),
    (starts acc l)[k]'(by rw [starts_length]; exact hk) = acc + (l.take k).sum
  | _, [], k, hk => by simp at hk
  | acc, a :: t, 0, _ => by simp [starts]
  | acc, a :: t, k+1, hk => by
    have := starts_getElem (acc + a) t k (by simpa using hk)
    simp only [starts, List.getElem_cons_succ, this, List.take_succ_cons, List.sum_cons]
    omega

theorem sum_take_add_le : ∀ (l : List Nat) (k : Nat) (hk : k < l.length),
    (l.take k).sum + l[k] ≤ l.sum
  | [], k, hk => by simp at hk
  | a :: t, 0, _ => by simp
  | a :: t, k+1, hk => by
    have := sum_take_add_le t k (by simpa using hk)
    simp only [List.take_succ_cons, List.sum_cons, List.getElem_cons_succ]
    omega

theorem drop_flatten_append {α} : ∀ (L : List (List α)) (R : List α) (k : Nat) (hk : k < L.length)
    (o : Nat), o ≤ L[k].length →
    (L.flatten ++ R).drop (((L.take k).map List.length).sum + o)
      = L[k].drop o ++ ((L.drop (k + 1)).flatten ++ R)
  | [], _, k, hk, _, _ => by simp at hk
  | a :: t, R, 0, _, o, ho => by
    simp only [List.take_zero, List.map_nil, List.sum_nil, Nat.zero_add, List.flatten_cons,
      List.getElem_cons_zero, List.drop_succ_cons, List.drop_zero, List.append_assoc] at *
    rw [List.drop_append_of_le_length ho]
  | a :: t, R, k+1, hk, o, ho => by
    have ih := drop_flatten_append t R k (by simpa using hk) o (by simpa using ho)
    simp only [List.take_succ_cons, List.map_cons, List.sum_cons, List.flatten_cons,
      List.getElem_cons_succ, List.drop_succ_cons, List.append_assoc]
    have e : a.length + ((t.take k).map List.length).sum + o
        = a.length + (((t.take k).map List.length).sum + o) := by omega
    rw [e, List.drop_append, List.drop_eq_nil_of_le (by omega), List.nil_append]
    have e2 : a.length + (((t.take k).map List.length).sum + o) - a.length
        = ((t.take k).map List.length).sum + o := by omega
    rw [e2]
    exact ih


end NgVerif
