import NgVerif.Model.Routing
import NgVerif.Proofs.Digits
namespace NgVerif.Routing

/-- `~(MAX >> k << k)` keeps exactly the low `min k 64` bits -/
theorem lowMask_small : ∀ k, k < 64 → lowMask k = 2 ^ k - 1 := by decide

theorem lowMask_big (k : Nat) (h : 64 ≤ k) : lowMask k = 2 ^ 64 - 1 := by
  simp [lowMask, shl64, shr64, h, not64, MAX64]

theorem lowMask_eq (k : Nat) : lowMask k = 2 ^ (min k 64) - 1 := by
  by_cases h : k < 64
  · rw [lowMask_small k h, Nat.min_eq_left (Nat.le_of_lt h)]
  · rw [lowMask_big k (Nat.le_of_not_lt h), Nat.min_eq_right (Nat.le_of_not_lt h)]

theorem testBit_lowMask (k i : Nat) : (lowMask k).testBit i = decide (i < min k 64) := by
  rw [lowMask_eq, Nat.testBit_two_pow_sub_one]

theorem testBit_not64 (x i : Nat) (hx : x < 2 ^ 64) :
    (not64 x).testBit i = (decide (i < 64) && !x.testBit i) := by
  unfold not64 MAX64
  have e : 2 ^ 64 - 1 - x = 2 ^ 64 - (x + 1) := by omega
  rw [e, Nat.testBit_two_pow_sub_succ hx]

theorem lowMask_lt (k : Nat) : lowMask k < 2 ^ 64 := by
  rw [lowMask_eq]
  have : 2 ^ (min k 64) ≤ 2 ^ 64 := Nat.pow_le_pow_right (by decide) (Nat.min_le_right _ _)
  have : 0 < 2 ^ (min k 64) := Nat.two_pow_pos _
  omega

/-- minishard number = low `m` bits of the preshifted identifier (specification), for all
    `m`, `p` and all 64-bit identifiers, including `m, p ≥ 64` where NumPy's shifts give 0 -/
theorem minishardKey_spec (m p id : Nat) (hid : id < 2 ^ 64) :
    minishardKey m p id = specMinishard m p id := by
  unfold minishardKey specMinishard minishardMask hash shr64
  rw [lowMask_eq, Nat.and_comm, Nat.and_two_pow_sub_one_eq_mod]
  by_cases hp : 64 ≤ p
  · have : id / 2 ^ p = 0 := Nat.div_eq_of_lt (Nat.lt_of_lt_of_le hid (Nat.pow_le_pow_right (by decide) hp))
    simp [hp, this]
  · simp only [hp, if_false, Nat.shiftRight_eq_div_pow]
    by_cases hm : m ≤ 64
    · rw [Nat.min_eq_left hm]
    · have h64 : min m 64 = 64 := Nat.min_eq_right (by omega)
      rw [h64]
      have hlt : id / 2 ^ p < 2 ^ 64 := Nat.lt_of_le_of_lt (Nat.div_le_self _ _) hid
      have hlt' : id / 2 ^ p < 2 ^ m :=
        Nat.lt_of_lt_of_le hlt (Nat.pow_le_pow_right (by decide) (by omega))
      rw [Nat.mod_eq_of_lt hlt, Nat.mod_eq_of_lt hlt']

/-- shard number = the `s` bits above the minishard bits (specification) -/
theorem shardKey_spec (m s p id : Nat) (hid : id < 2 ^ 64) :
    shardKey m s p id = specShard m s p id := by
  have hh : hash p id = id / 2 ^ p := by
    unfold hash shr64
    by_cases hp : 64 ≤ p
    · have : id / 2 ^ p = 0 := Nat.div_eq_of_lt (Nat.lt_of_lt_of_le hid (Nat.pow_le_pow_right (by decide) hp))
      simp [hp, this]
    · simp [hp, Nat.shiftRight_eq_div_pow]
  have hlt : id / 2 ^ p < 2 ^ 64 := Nat.lt_of_le_of_lt (Nat.div_le_self _ _) hid
  unfold shardKey specShard
  rw [hh]
  generalize id / 2 ^ p = h at *
  unfold shr64
  by_cases hm : 64 ≤ m
  · simp only [hm, if_true]
    have : h / 2 ^ m = 0 := Nat.div_eq_of_lt (Nat.lt_of_lt_of_le hlt (Nat.pow_le_pow_right (by decide) hm))
    simp [this]
  · simp only [hm, if_false]
    apply Nat.eq_of_testBit_eq
    intro i
    rw [Nat.testBit_shiftRight, Nat.testBit_and]
    unfold shardMask minishardMask
    rw [Nat.testBit_and, testBit_lowMask, testBit_not64 _ _ (lowMask_lt m), testBit_lowMask,
      Nat.testBit_mod_two_pow, Nat.testBit_div_two_pow]
    have hbit : ∀ j, 64 ≤ j → h.testBit j = false := by
      intro j hj
      apply Nat.testBit_lt_two_pow
      exact Nat.lt_of_lt_of_le hlt (Nat.pow_le_pow_right (by decide) hj)
    by_cases h1 : m + i < 64
    · have a1 : (m + i < min (m + s) 64) = (i < s) := by
        apply propext; constructor <;> intro hx <;> omega
      have a2 : ¬ (m + i < min m 64) := by omega
      simp [a1, a2, h1, Nat.add_comm]
    · have := hbit (m + i) (by omega)
      have a1 : ¬ (m + i < min (m + s) 64) := by omega
      simp [a1, this, Nat.add_comm]

/-! ### file names -/

theorem ofDigits_hexLE (n : Nat) : ofDigits 16 (hexLE n) = n := by
  induction n using Nat.strongRecOn with
  | _ n ih =>
    unfold hexLE
    split
    · simp [ofDigits]
    · rename_i h
      simp only [ofDigits]
      rw [ih (n / 16) (by omega)]
      omega

theorem ofDigits_append_zeros (B : Nat) (ds : List Nat) (k : Nat) :
    ofDigits B (ds ++ List.replicate k 0) = ofDigits B ds := by
  induction ds with
  | nil =>
    induction k with
    | zero => rfl
    | succ k ih =>
      simp only [List.nil_append] at ih ⊢
      simp [List.replicate_succ, ofDigits, ih]
  | cons d ds ih => simp [ofDigits, ih]

/-- the file name parses back (as hexadecimal) to the shard number -/
theorem fileDigits_value (key s : Nat) : ofDigits 16 (fileDigitsLE key s) = key := by
  unfold fileDigitsLE
  simp only [ofDigits_append_zeros, ofDigits_hexLE]

theorem hexLE_length_le (w : Nat) : ∀ n, n < 16 ^ (w + 1) → (hexLE n).length ≤ w + 1 := by
  induction w with
  | zero => intro n hn; unfold hexLE; simp at hn; simp [hn]
  | succ w ih =>
    intro n hn
    unfold hexLE
    split
    · simp
    · have : n / 16 < 16 ^ (w + 1) := by
        rw [Nat.div_lt_iff_lt_mul (by decide)]
        rw [Nat.pow_succ] at hn; exact hn
      have := ih (n / 16) this
      simp only [List.length_cons]; omega

theorem hexLE_length_pos (n : Nat) : 0 < (hexLE n).length := by
  unfold hexLE; split <;> simp

/-- for a shard number below `2^s` (s ≥ 1) the name has exactly `ceil(s/4)` digits -/
theorem fileDigits_length (key s : Nat) (hs : 0 < s) (hk : key < 2 ^ s) :
    (fileDigitsLE key s).length = (s + 3) / 4 := by
  unfold fileDigitsLE
  simp only [List.length_append, List.length_replicate]
  have hw : key < 16 ^ ((s + 3) / 4 - 1 + 1) := by
    have e : (s + 3) / 4 - 1 + 1 = (s + 3) / 4 := by omega
    rw [e]
    have : (16 : Nat) ^ ((s + 3) / 4) = 2 ^ (4 * ((s + 3) / 4)) := by
      rw [Nat.pow_mul]
    rw [this]
    exact Nat.lt_of_lt_of_le hk (Nat.pow_le_pow_right (by decide) (by omega))
  have := hexLE_length_le ((s + 3) / 4 - 1) key hw
  omega

end NgVerif.Routing
