import NgVerif.Model.CsegDecode
import NgVerif.Proofs.Digits
namespace NgVerif.Cseg

/-! ### look-up table -/

theorem mem_insertSorted (v x : Nat) : ∀ t : List Nat, x ∈ insertSorted v t ↔ x = v ∨ x ∈ t
  | [] => by simp [insertSorted]
  | a :: t => by
    simp only [insertSorted]
    split
    · simp
    · split
      · rename_i h; subst h; simp
      · simp only [List.mem_cons, mem_insertSorted v x t]
        constructor
        · rintro (h | h | h) <;> simp [h]
        · rintro (h | h | h) <;> simp [h]

theorem mem_foldl_insert (l : List Nat) : ∀ (acc : List Nat) (x : Nat),
    x ∈ l.foldl (fun acc v => insertSorted v acc) acc ↔ x ∈ l ∨ x ∈ acc := by
  induction l with
  | nil => intro acc x; simp
  | cons a t ih =>
    intro acc x
    simp only [List.foldl_cons, ih, mem_insertSorted, List.mem_cons]
    constructor
    · rintro (h | h | h) <;> simp [h]
    · rintro ((h | h) | h) <;> simp [h]

theorem mem_uniqueSorted (l : List Nat) (x : Nat) : x ∈ uniqueSorted l ↔ x ∈ l := by
  simp [uniqueSorted, mem_foldl_insert]

/-! ### bit widths -/

theorem numBits_spec (n b : Nat) (h : numBits n = some b) : n ≤ 2 ^ b ∧ specBitsOk b = true := by
  unfold numBits at h
  have h1 := List.find?_some h
  have h2 := List.mem_of_find?_eq_some h
  refine ⟨by simpa using h1, ?_⟩
  simp only [Generated.csegBitsEnc, List.mem_cons, List.mem_nil_iff, or_false] at h2
  rcases h2 with rfl | rfl | rfl | rfl | rfl | rfl | rfl <;> rfl

/-! ### packing -/

/-- what the specification says a reader does for in-block position `i` -/
def specRead (bits : Nat) (words : List Nat) (i : Nat) : Option Nat :=
  (words[i * bits / 32]?).map fun w => w / 2 ^ (i * bits % 32) % 2 ^ bits

theorem getElem_drop_take (l : List Nat) (a n r : Nat) (hr : r < n) (h : a + r < l.length) :
    ((l.drop a).take n)[r]! = l[a + r]! := by
  have h1 : r < ((l.drop a).take n).length := by
    simp only [List.length_take, List.length_drop]; omega
  rw [getElem!_pos ((l.drop a).take n) r h1, getElem!_pos l (a + r) h]
  simp [List.getElem_take, List.getElem_drop]

theorem pack_read_vp (bits vp : Nat) (hvp : vp * bits = 32) (hb : 0 < bits) (ix : List Nat)
    (hix : ∀ d ∈ ix, d < 2 ^ bits) (i : Nat) (hi : i < ix.length)
    (hdiv : (i * bits) / 32 = i / vp) (hmod : (i * bits) % 32 = (i % vp) * bits)
    (h32 : 32 / bits = vp) :
    specRead bits (packWords bits ix) i = some ix[i]! := by
  have hvp0 : 0 < vp := by
    rcases Nat.eq_zero_or_pos vp with h | h
    · rw [h] at hvp; simp at hvp
    · exact h
  have hb0 : bits ≠ 0 := by omega
  unfold specRead packWords
  simp only [hb0, if_false, h32, hdiv, hmod]
  have hq : i / vp < (ix.length + vp - 1) / vp := by
    apply (Nat.div_lt_iff_lt_mul hvp0).mpr
    have h1 : vp * ((ix.length + vp - 1) / vp) + (ix.length + vp - 1) % vp = ix.length + vp - 1 :=
      Nat.div_add_mod _ _
    have h2 := Nat.mod_lt (ix.length + vp - 1) hvp0
    rw [Nat.mul_comm]; omega
  have hq' : i / vp < ((List.range ((ix.length + vp - 1) / vp)).map fun j =>
      ofDigits (2 ^ bits) ((ix.drop (j * vp)).take vp)).length := by simpa using hq
  rw [List.getElem?_eq_getElem hq']
  simp only [List.getElem_map, List.getElem_range, Option.map_some]
  congr 1
  rw [Nat.mul_comm (i % vp) bits, Nat.pow_mul]
  have hlen : i % vp < ((ix.drop (i / vp * vp)).take vp).length := by
    simp only [List.length_take, List.length_drop]
    have h1 := Nat.div_add_mod i vp
    have h2 := Nat.mod_lt i hvp0
    have h3 : i / vp * vp = vp * (i / vp) := Nat.mul_comm _ _
    omega
  rw [ofDigits_digit (2 ^ bits) (Nat.two_pow_pos bits) _ (i % vp) ?_ hlen]
  · have h1 := Nat.div_add_mod i vp
    have h3 : i / vp * vp = vp * (i / vp) := Nat.mul_comm _ _
    rw [getElem_drop_take ix (i / vp * vp) vp (i % vp) (Nat.mod_lt i hvp0) (by omega)]
    congr 1; omega
  · intro d hd
    exact hix d (List.mem_of_mem_drop (List.mem_of_mem_take hd))

/-- the six non-zero bit widths of the format -/
theorem pack_read (bits : Nat) (hb : bits = 1 ∨ bits = 2 ∨ bits = 4 ∨ bits = 8 ∨ bits = 16 ∨ bits = 32)
    (ix : List Nat) (hix : ∀ d ∈ ix, d < 2 ^ bits) (i : Nat) (hi : i < ix.length) :
    specRead bits (packWords bits ix) i = some ix[i]! := by
  rcases hb with rfl | rfl | rfl | rfl | rfl | rfl
  · exact pack_read_vp 1 32 rfl (by decide) ix hix i hi (by omega) (by omega) rfl
  · exact pack_read_vp 2 16 rfl (by decide) ix hix i hi (by omega) (by omega) rfl
  · exact pack_read_vp 4 8 rfl (by decide) ix hix i hi (by omega) (by omega) rfl
  · exact pack_read_vp 8 4 rfl (by decide) ix hix i hi (by omega) (by omega) rfl
  · exact pack_read_vp 16 2 rfl (by decide) ix hix i hi (by omega) (by omega) rfl
  · exact pack_read_vp 32 1 rfl (by decide) ix hix i hi (by omega) (by omega) rfl

/-! ### the look-up table as words -/

theorem lutWords4 (lut : List Nat) (k : Nat) (hk : k < lut.length) (hv : ∀ v ∈ lut, v < 2 ^ 32) :
    (lutWords 4 lut)[k]? = some lut[k] := by
  have : (4 : Nat) ≠ 8 := by decide
  simp only [lutWords, this, if_false, List.getElem?_map, List.getElem?_eq_getElem hk, Option.map_some]
  rw [Nat.mod_eq_of_lt (hv _ (List.getElem_mem hk))]

theorem lutWords8 : ∀ (lut : List Nat) (k : Nat) (hk : k < lut.length),
    (lutWords 8 lut)[2 * k]? = some (lut[k] % 2 ^ 32) ∧
    (lutWords 8 lut)[2 * k + 1]? = some (lut[k] / 2 ^ 32)
  | [], k, hk => by simp at hk
  | a :: t, 0, _ => by simp [lutWords]
  | a :: t, k+1, hk => by
    have ih := lutWords8 t k (by simpa using hk)
    have e1 : 2 * (k + 1) = 2 * k + 1 + 1 := by omega
    have e2 : 2 * (k + 1) + 1 = (2 * k + 1) + 1 + 1 := by omega
    simp only [lutWords, if_true, List.flatMap_cons, List.cons_append, List.nil_append,
      List.getElem_cons_succ] at ih ⊢
    rw [e1]
    simpa using ih

/-- BLOCK LEVEL: decoding position `i` of an encoded block (as the specification prescribes)
    returns the `i`-th value of the block, for both label widths and all seven bit widths -/
theorem block_decodes (itemsize : Nat) (hi : itemsize = 4 ∨ itemsize = 8) (vals : List Nat)
    (hv : ∀ v ∈ vals, v < 2 ^ (8 * itemsize)) (eb : EncBlk) (h : encodeBlock itemsize vals = some eb)
    (i : Nat) (hlt : i < vals.length) :
    specBitsOk eb.bits = true ∧
    decodeIn itemsize (fun k => eb.lut[k]?) (fun k => eb.vals[k]?) eb.bits i = some vals[i] := by
  unfold encodeBlock at h
  cases hb : numBits (uniqueSorted vals).length with
  | none => simp [hb] at h
  | some bits =>
    simp only [hb, Option.some.injEq] at h
    subst h
    obtain ⟨hle, hok⟩ := numBits_spec _ _ hb
    refine ⟨hok, ?_⟩
    simp only
    -- the table index of position i
    have hmem : vals[i] ∈ uniqueSorted vals := (mem_uniqueSorted vals _).mpr (List.getElem_mem hlt)
    have hidx : (uniqueSorted vals).idxOf vals[i] < (uniqueSorted vals).length := List.idxOf_lt_length_of_mem hmem
    have hget : (uniqueSorted vals)[(uniqueSorted vals).idxOf vals[i]] = vals[i] := List.getElem_idxOf hidx
    have hidxv : ∀ d ∈ vals.map (fun v => (uniqueSorted vals).idxOf v), d < 2 ^ bits := by
      intro d hd
      obtain ⟨v, hvm, rfl⟩ := List.mem_map.mp hd
      have := List.idxOf_lt_length_of_mem ((mem_uniqueSorted vals v).mpr hvm)
      omega
    have hlutv : ∀ v ∈ uniqueSorted vals, v < 2 ^ (8 * itemsize) :=
      fun v hv' => hv v ((mem_uniqueSorted vals v).mp hv')
    -- index read
    have hread : (if bits = 0 then some 0 else
        ((packWords bits (vals.map fun v => (uniqueSorted vals).idxOf v))[i * bits / 32]?).map
          fun w => w / 2 ^ (i * bits % 32) % 2 ^ bits) = some ((uniqueSorted vals).idxOf vals[i]) := by
      by_cases hb0 : bits = 0
      · subst hb0
        simp only [if_true]
        have : (uniqueSorted vals).length ≤ 1 := by simpa using hle
        congr 1; omega
      · simp only [hb0, if_false]
        have hcases : bits = 1 ∨ bits = 2 ∨ bits = 4 ∨ bits = 8 ∨ bits = 16 ∨ bits = 32 := by
          simp only [specBitsOk, Bool.or_eq_true, beq_iff_eq] at hok
          omega
        have := pack_read bits hcases _ hidxv i (by simpa using hlt)
        simp only [specRead] at this
        rw [this]
        simp [hlt]
    unfold decodeIn
    simp only [hread, Option.bind_eq_bind, Option.bind_some]
    rcases hi with rfl | rfl
    · have : (4 : Nat) ≠ 8 := by decide
      simp only [this, if_false]
      rw [lutWords4 _ _ hidx (by simpa using hlutv), hget]
    · simp only [if_true]
      obtain ⟨h1, h2⟩ := lutWords8 (uniqueSorted vals) _ hidx
      rw [h1, h2, hget]
      simp only [Option.bind_some]
      congr 1
      have := Nat.div_add_mod vals[i] (2 ^ 32)
      omega

end NgVerif.Cseg
