import NgVerif.Model.CsegDecode
import NgVerif.Proofs.CsegIndex
namespace NgVerif.Cseg

theorem fromBuffer_ok (k : Nat) (b : Bytes) (h : b.length % k = 0) : ∃ l, fromBuffer k b = .ok l := by
  unfold fromBuffer
  simp [h]

theorem pySlice_length_nonneg (b : Bytes) (a : Nat) (e : Int) (he : 0 ≤ e) :
    (pySlice b a e).length = min (min e.toNat b.length - a) (b.length - a) := by
  unfold pySlice
  have : ¬ e < 0 := by omega
  simp only [this, if_false, List.length_take, List.length_drop]

/-- the look-up-table slice always holds a whole number of items (for every header content) -/
theorem lut_slice_aligned (itemsize : Nat) (hi : itemsize = 4 ∨ itemsize = 8) (cbuf : Bytes)
    (hlen : 8 ≤ cbuf.length) (lutOff P : Nat) (hP : 1 ≤ P) :
    (pySlice cbuf lutOff ((lutOff : Int) + (itemsize : Int) *
      min (P : Int) (((cbuf.length : Int) - (lutOff : Int)) / (itemsize : Int)))).length % itemsize = 0 := by
  generalize hL : cbuf.length = L at *
  rcases hi with rfl | rfl
  · -- itemsize 4
    generalize hq : ((L : Int) - (lutOff : Int)) / ((4 : Nat) : Int) = q
    have hq1 : 4 * q ≤ (L : Int) - lutOff := by omega
    have hq2 : (L : Int) - lutOff < 4 * q + 4 := by omega
    generalize hm : min (P : Int) q = m
    have hm1 : m ≤ q := by omega
    have hm2 : m ≤ P := by omega
    have hm3 : m = q ∨ m = P := by omega
    have hnn : 0 ≤ (lutOff : Int) + ((4 : Nat) : Int) * m := by omega
    rw [pySlice_length_nonneg _ _ _ hnn, hL]
    by_cases hc : lutOff ≤ L
    · have : 0 ≤ m := by omega
      obtain ⟨mn, rfl⟩ := Int.eq_ofNat_of_zero_le this
      have e : ((lutOff : Int) + ((4 : Nat) : Int) * (mn : Int)).toNat = lutOff + 4 * mn := by omega
      rw [e]
      have : lutOff + 4 * mn ≤ L := by omega
      omega
    · have : ((lutOff : Int) + ((4 : Nat) : Int) * m).toNat ≤ lutOff ∨ L ≤ lutOff := by omega
      omega
  · generalize hq : ((L : Int) - (lutOff : Int)) / ((8 : Nat) : Int) = q
    have hq1 : 8 * q ≤ (L : Int) - lutOff := by omega
    have hq2 : (L : Int) - lutOff < 8 * q + 8 := by omega
    generalize hm : min (P : Int) q = m
    have hm1 : m ≤ q := by omega
    have hm2 : m ≤ P := by omega
    have hnn : 0 ≤ (lutOff : Int) + ((8 : Nat) : Int) * m := by omega
    rw [pySlice_length_nonneg _ _ _ hnn, hL]
    by_cases hc : lutOff ≤ L
    · have : 0 ≤ m := by omega
      obtain ⟨mn, rfl⟩ := Int.eq_ofNat_of_zero_le this
      have e : ((lutOff : Int) + ((8 : Nat) : Int) * (mn : Int)).toNat = lutOff + 8 * mn := by omega
      rw [e]
      have : lutOff + 8 * mn ≤ L := by omega
      omega
    · omega

/-- one block: whatever the bytes, the result is an array of `n` values or the documented error -/
theorem implBlock_total (itemsize : Nat) (hi : itemsize = 4 ∨ itemsize = 8) (cbuf : Bytes) (n bi : Nat)
    (hlen : 8 * bi + 8 ≤ cbuf.length) :
    (∃ l, implBlock itemsize cbuf n bi = .ok l ∧ l.length = n) ∨ implBlock itemsize cbuf n bi = .error .format := by
  unfold implBlock
  have h1 : ¬ cbuf.length < 8 * bi + 8 := by omega
  simp only [h1, if_false, bind, Except.bind]
  split
  · right; rfl
  · -- the look-up table
    have hal := lut_slice_aligned itemsize hi cbuf (by omega)
      (4 * (leVal ((cbuf.drop (8 * bi)).take 4) % 2 ^ 24))
      (2 ^ (leVal ((cbuf.drop (8 * bi)).take 4) / 2 ^ 24)) (Nat.one_le_two_pow)
    obtain ⟨lut, hlut⟩ := fromBuffer_ok itemsize _ hal
    simp only [Nat.cast_pow, Nat.cast_ofNat] at hlut
    simp only [hlut]
    split
    · -- bits = 0
      cases lut with
      | nil => right; rfl
      | cons v t => left; exact ⟨_, rfl, by simp⟩
    · split
      · right; rfl
      · rename_i hve
        -- the packed values
        have hpk : (pySlice cbuf (4 * leVal ((cbuf.drop (8 * bi + 4)).take 4))
            (((4 * leVal ((cbuf.drop (8 * bi + 4)).take 4) +
              4 * ceilDiv n (32 / (leVal ((cbuf.drop (8 * bi)).take 4) / 2 ^ 24)) : Nat) : Int))).length % 4 = 0 := by
          rw [pySlice_length_nonneg _ _ _ (by omega)]
          simp only [Int.toNat_natCast]
          omega
        obtain ⟨packed, hp⟩ := fromBuffer_ok 4 _ hpk
        simp only [hp]
        split
        · right; rfl
        · left; exact ⟨_, rfl, by simp⟩


theorem mapM_total {α β} (f : α → Except Err β) : ∀ (l : List α),
    (∀ x ∈ l, (∃ y, f x = .ok y) ∨ f x = .error .format) →
    (∃ ys, l.mapM f = .ok ys) ∨ l.mapM f = .error .format
  | [], _ => Or.inl ⟨[], rfl⟩
  | a :: t, h => by
    rw [List.mapM_cons]
    rcases h a (by simp) with ⟨y, hy⟩ | he
    · rcases mapM_total f t (fun x hx => h x (by simp [hx])) with ⟨ys, hys⟩ | he
      · left; exact ⟨y :: ys, by rw [hy, hys]; rfl⟩
      · right; rw [hy, he]; rfl
    · right; rw [he]; rfl

theorem voxelCoords_length (s : Shape) : (voxelCoords s).length = s.c * (s.z * (s.y * s.x)) := by
  unfold voxelCoords
  rw [flatMap_length_of_const_len _ (s.z * (s.y * s.x)) _ (by
    intro c _
    exact nested3_length s.z s.y s.x (fun z y x => (c, z, y, x)))]
  simp

theorem implChannel_total (itemsize : Nat) (hi : itemsize = 4 ∨ itemsize = 8) (s : Shape) (bk : Blk3)
    (buf : Bytes) (c : Nat) :
    (∃ y, implChannel itemsize s bk buf c = .ok y) ∨ implChannel itemsize s bk buf c = .error .format := by
  unfold implChannel
  simp only
  split
  · right; rfl
  · rename_i hoff
    apply mapM_total
    intro bi hbi
    have hbi' := List.mem_range.mp hbi
    rcases implBlock_total itemsize hi (buf.drop (4 * leVal ((buf.drop (4 * c)).take 4)))
      (bk.bx * bk.by' * bk.bz) bi (by simp only [List.length_drop]; omega) with ⟨l, hl, _⟩ | he
    · exact Or.inl ⟨l, hl⟩
    · exact Or.inr he

/-- CHUNK LEVEL: for EVERY byte string and every shape / block size, the package's decoder
    returns an array with exactly the requested number of voxels or raises the documented
    InvalidFormatError — never struct.error, ValueError or IndexError -/
theorem implDecode_total (itemsize : Nat) (hi : itemsize = 4 ∨ itemsize = 8) (s : Shape) (bk : Blk3)
    (buf : Bytes) :
    (∃ a, implDecode itemsize s bk buf = .ok a ∧ a.length = s.c * (s.z * (s.y * s.x))) ∨
      implDecode itemsize s bk buf = .error .format := by
  unfold implDecode
  simp only
  split
  · right; rfl
  · rcases mapM_total (implChannel itemsize s bk buf) (List.range s.c)
      (fun c _ => implChannel_total itemsize hi s bk buf c) with ⟨chans, hc⟩ | he
    · rw [hc]
      exact Or.inl ⟨_, rfl, by simp [voxelCoords_length]⟩
    · rw [he]
      exact Or.inr rfl

end NgVerif.Cseg
