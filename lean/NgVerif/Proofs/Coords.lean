import NgVerif.Model.Coords
import NgVerif.Proofs.Bytes
namespace NgVerif.Coords

theorem axisOk_iff (lo hi cs size : Int) (hc : 0 < cs) :
    axisOk lo hi cs size = true ↔ onGridAxis lo hi cs size := by
  simp only [axisOk, onGridAxis, Bool.and_eq_true, decide_eq_true_eq, beq_iff_eq]
  constructor
  · rintro ⟨⟨⟨h0, h1⟩, h2⟩, h3⟩
    refine ⟨lo / cs, Int.ediv_nonneg h0 (Int.le_of_lt hc), ?_, h1, h3⟩
    have := Int.emod_add_mul_ediv lo cs
    rw [h2] at this
    rw [Int.mul_comm]; omega
  · rintro ⟨i, h0, h1, h2, h3⟩
    refine ⟨⟨⟨?_, h2⟩, ?_⟩, h3⟩
    · rw [h1]; exact Int.mul_nonneg h0 (Int.le_of_lt hc)
    · rw [h1]; exact Int.mul_emod_left i cs

theorem validate_iff (size : Int × Int × Int) (css : List (Int × Int × Int)) (b : Box)
    (hpos : ∀ cs ∈ css, 0 < cs.1 ∧ 0 < cs.2.1 ∧ 0 < cs.2.2) :
    validate size css b = true ↔ onGrid size css b := by
  simp only [validate, onGrid, List.any_eq_true, Bool.and_eq_true]
  constructor
  · rintro ⟨cs, hm, ⟨h1, h2⟩, h3⟩
    obtain ⟨p1, p2, p3⟩ := hpos cs hm
    exact ⟨cs, hm, (axisOk_iff _ _ _ _ p1).mp h1, (axisOk_iff _ _ _ _ p2).mp h2, (axisOk_iff _ _ _ _ p3).mp h3⟩
  · rintro ⟨cs, hm, h1, h2, h3⟩
    obtain ⟨p1, p2, p3⟩ := hpos cs hm
    exact ⟨cs, hm, ⟨(axisOk_iff _ _ _ _ p1).mpr h1, (axisOk_iff _ _ _ _ p2).mpr h2⟩, (axisOk_iff _ _ _ _ p3).mpr h3⟩

/-! ### history refinement -/

theorem get_runWrites (valid : Key → Bool) (enc : List Nat → Bytes) (k : Key) :
    ∀ (h : List (Key × List Nat)) (s : Store),
      (runWrites valid enc s h).get k =
        match lastWrite valid k h with
        | some a => some (enc a)
        | none => s.get k
  | [], s => by simp [runWrites, lastWrite]
  | (k', a) :: t, s => by
    simp only [runWrites, write, lastWrite]
    by_cases hv : valid k' = true
    · simp only [hv, if_true]
      rw [get_runWrites valid enc k t (s.put k' (enc a))]
      cases hl : lastWrite valid k t with
      | some r => simp
      | none =>
        simp only [Store.put]
        by_cases hk : k' = k
        · subst hk; simp [hv]
        · have : ¬ k = k' := fun h => hk h.symm
          simp [hk, this]
    · simp only [hv, Bool.false_eq_true, if_false]
      rw [get_runWrites valid enc k t s]
      cases hl : lastWrite valid k t with
      | some r => simp
      | none => simp [hv]

end NgVerif.Coords

namespace NgVerif.Raw

theorem chunk_of_flatMap (k : Nat) : ∀ (vals : List Nat) (i : Nat) (hi : i < vals.length),
    ((vals.flatMap (leBytes k)).drop (k * i)).take k = leBytes k vals[i]
  | [], i, hi => by simp at hi
  | a :: t, 0, _ => by
    simp only [List.flatMap_cons, Nat.mul_zero, List.drop_zero, List.getElem_cons_zero]
    rw [List.take_append_of_le_length (by simp [leBytes_length]),
      List.take_of_length_le (by simp [leBytes_length])]
  | a :: t, i+1, hi => by
    have ih := chunk_of_flatMap k t i (by simpa using hi)
    simp only [List.flatMap_cons, List.getElem_cons_succ]
    have e : k * (i + 1) = (leBytes k a).length + k * i := by simp [leBytes_length, Nat.mul_add]; omega
    rw [e, List.drop_append]
    simp only [leBytes_length, Nat.add_sub_cancel_left]
    rw [List.drop_eq_nil_of_le (by simp [leBytes_length]), List.nil_append]
    exact ih

theorem encode_length (k : Nat) (vals : List Nat) : (encode k vals).length = vals.length * k := by
  induction vals with
  | nil => simp [encode]
  | cons a t ih =>
    simp only [encode, List.flatMap_cons, List.length_append, leBytes_length, List.length_cons] at *
    rw [ih, Nat.add_mul, Nat.one_mul, Nat.add_comm]

/-- raw round trip: decoding the encoding of `vals` returns `vals` -/
theorem decode_encode (k : Nat) (hk : 0 < k) (vals : List Nat) (hv : ∀ v ∈ vals, v < 256 ^ k) :
    decode k vals.length (encode k vals) = .ok vals := by
  unfold decode
  have h1 : (encode k vals).length % k = 0 := by rw [encode_length]; exact Nat.mul_mod_left _ _
  have h2 : (encode k vals).length / k = vals.length := by rw [encode_length]; exact Nat.mul_div_cancel _ hk
  rw [if_neg (fun hc => hc h1), if_neg (fun hc => hc h2)]
  congr 1
  apply List.ext_getElem
  · simp
  · intro i h1 h2
    simp only [List.getElem_map, List.getElem_range]
    have hi : i < vals.length := h2
    simp only [encode]
    rw [chunk_of_flatMap k vals i hi, leVal_leBytes k _ (hv _ (List.getElem_mem hi))]

end NgVerif.Raw
