import NgVerif.Model.Buffers
import NgVerif.Proofs.MiniShard
namespace NgVerif.Buffers
open NgVerif.MS

/-- the invariant of the repaired buffer: the file holds exactly `len` bytes -/
theorem add_inv (b : ODB) (o : List Nat) (e : Ev) (h : b.file.length = b.len) :
    (add b o e).1.file.length = (add b o e).1.len := by
  cases e with
  | ok => simp [add, h]
  | failOpen => simp [add, h]
  | failWrite k => simp [add, h]

/-- one call: normal return = the payload is appended; failure = the buffer is exactly as before -/
theorem add_effect (b : ODB) (o : List Nat) (e : Ev) (h : b.file.length = b.len) :
    (add b o e).1.file = (if e = .ok then b.file ++ o else b.file) := by
  cases e with
  | ok => simp [add]
  | failOpen => simp [add, ← h]
  | failWrite k => simp [add, ← h]

theorem runAdds_spec (b : ODB) (h : b.file.length = b.len) (hist : List (List Nat × Ev)) :
    (runAdds add b hist).file = b.file ++ memory hist ∧
    (runAdds add b hist).len = (b.file ++ memory hist).length := by
  induction hist generalizing b with
  | nil => simp [runAdds, memory, h]
  | cons x t ih =>
    obtain ⟨o, e⟩ := x
    have hi := add_inv b o e h
    have he := add_effect b o e h
    have := ih (add b o e).1 hi
    simp only [runAdds]
    rw [this.1, this.2, he]
    cases e <;> simp [memory, List.append_assoc]

/-- a buffered chunk is still buffered after a flush, or it is among the chunks the flush appended -/
theorem flushFail_keeps (nxt : Nat → Nat) (f okN : Nat) (s : St) (id : Nat) (p : Payload)
    (h : get? s.buf id = some p) :
    get? (flushFail nxt f okN s).1.buf id = some p ∨ (id, p) ∈ (flushFail nxt f okN s).2 := by
  induction f generalizing okN s with
  | zero => left; simpa [flushFail] using h
  | succ f ih =>
    unfold flushFail
    cases hg : get? s.buf (nxt s.appended) with
    | none => left; simpa using h
    | some q =>
      cases okN with
      | zero => left; simpa using h
      | succ n =>
        simp only
        by_cases hid : id = nxt s.appended
        · subst hid
          right
          rw [h] at hg
          cases hg
          exact List.mem_cons_self
        · have hb : get? (append { s with buf := del s.buf (nxt s.appended) } q (nxt s.appended)).buf id = some p := by
            simp only [append]
            rw [get?_del_ne _ _ _ (Ne.symm hid)]
            exact h
          rcases ih n _ hb with h1 | h2
          · left; exact h1
          · right; exact List.mem_cons_of_mem _ h2

/-- and the data grew by exactly the appended payloads, in order -/
theorem flushFail_data (nxt : Nat → Nat) (f okN : Nat) (s : St) :
    (flushFail nxt f okN s).1.data = s.data ++ ((flushFail nxt f okN s).2.flatMap (·.2)) := by
  induction f generalizing okN s with
  | zero => simp [flushFail]
  | succ f ih =>
    unfold flushFail
    cases hg : get? s.buf (nxt s.appended) with
    | none => simp
    | some q =>
      cases okN with
      | zero => simp
      | succ n =>
        simp only
        rw [ih]
        simp [append, List.append_assoc]

end NgVerif.Buffers
