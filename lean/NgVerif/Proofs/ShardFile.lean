import NgVerif.Proofs.Bytes
import NgVerif.Proofs.Lists
import NgVerif.Proofs.Shard
namespace NgVerif.Shard
open NgVerif NgVerif.MS

theorem pairs_length (l : List (Nat × Nat)) : (pairs l).length = 2 * l.length := by
  induction l with
  | nil => rfl
  | cons a t ih => simp only [pairs, List.flatMap_cons, List.length_append, List.length_cons,
      List.length_nil] at *; omega

theorem pairs_getElem : ∀ (l : List (Nat × Nat)) (k : Nat) (hk : k < l.length),
    (pairs l)[2 * k]'(by rw [pairs_length]; omega) = l[k].1
    ∧ (pairs l)[2 * k + 1]'(by rw [pairs_length]; omega) = l[k].2
  | [], k, hk => by simp at hk
  | a :: t, 0, _ => by simp [pairs]
  | a :: t, k+1, hk => by
    have ih := pairs_getElem t k (by simpa using hk)
    have e1 : 2 * (k + 1) = (2 * k) + 1 + 1 := by omega
    have e2 : 2 * (k + 1) + 1 = (2 * k + 1) + 1 + 1 := by omega
    simp only [pairs, List.flatMap_cons, List.getElem_cons_succ] at ih ⊢
    constructor
    · simp only [e1]; exact ih.1
    · simp only [e2]; exact ih.2

/-! ### the two index walks agree -/

theorem lookup_zero_offsets (id : Nat) : ∀ (t : List (Nat × Nat)) (cur pe : Nat),
    lookup (t.map fun (d, sz) => (d, 0, sz)) cur pe id = locate t cur pe id
  | [], _, _ => rfl
  | (d, sz) :: t, cur, pe => by
    simp only [List.map_cons, lookup, locate, Nat.add_zero]
    split
    · rfl
    · exact lookup_zero_offsets id t _ _

theorem locate_shift (id x : Nat) : ∀ (t : List (Nat × Nat)) (cur pe : Nat),
    locate t cur (x + pe) id = (locate t cur pe id).map fun (o, sz) => (x + o, sz)
  | [], _, _ => rfl
  | (d, sz) :: t, cur, pe => by
    simp only [locate]
    split
    · rfl
    · have := locate_shift id x t (cur + d) (pe + sz)
      rw [← Nat.add_assoc] at this
      exact this

/-- the specification's walk over the encoded rows = the minishard's own walk, shifted by the
    data offset of the minishard -/
theorem lookup_rows3 (off id : Nat) (rows : List (Nat × Nat)) :
    lookup (rows3 off rows) 0 0 id = (locate rows 0 0 id).map fun (o, sz) => (off + o, sz) := by
  cases rows with
  | nil => rfl
  | cons hd t =>
    obtain ⟨d, sz⟩ := hd
    simp only [rows3, lookup, locate, Nat.zero_add]
    split
    · simp
    · rw [lookup_zero_offsets, locate_shift]

theorem locate_bound (id : Nat) : ∀ (t : List (Nat × Nat)) (cur pe o sz : Nat),
    locate t cur pe id = some (o, sz) → pe ≤ o ∧ o + sz ≤ pe + sumSz t
  | [], _, _, _, _, h => by simp [locate] at h
  | (d, z) :: t, cur, pe, o, sz, h => by
    simp only [locate] at h
    split at h
    · injection h with h; injection h with h1 h2
      subst h1; subst h2
      simp [sumSz]
    · have := locate_bound id t _ _ o sz h
      simp only [sumSz, List.map_cons, List.sum_cons] at *
      omega

/-! ### well-formedness of the minishards handed to `assemble` -/

structure Wf (minis : List Mini) : Prop where
  /-- each closed minishard's sizes add up to its data (true of every reachable MiniShard state) -/
  sizes : ∀ mn ∈ minis, sumSz mn.rows = mn.data.length
  /-- identifiers and sizes fit in uint64 -/
  small : ∀ mn ∈ minis, ∀ r ∈ mn.rows, r.1 < 2 ^ 64 ∧ r.2 < 2 ^ 64
  /-- the file is smaller than 2^64 bytes -/
  total : dszOf minis + (ilenOf minis).sum < 2 ^ 64

theorem rows3_small (off : Nat) (rows : List (Nat × Nat)) (ho : off < 2 ^ 64)
    (h : ∀ r ∈ rows, r.1 < 2 ^ 64 ∧ r.2 < 2 ^ 64) :
    ∀ x ∈ rows3 off rows, x.1 < 2 ^ 64 ∧ x.2.1 < 2 ^ 64 ∧ x.2.2 < 2 ^ 64 := by
  cases rows with
  | nil => simp [rows3]
  | cons hd t =>
    obtain ⟨d, sz⟩ := hd
    intro x hx
    simp only [rows3, List.mem_cons, List.mem_map] at hx
    rcases hx with hx | ⟨y, hy, hx⟩
    · subst hx
      have := h (d, sz) (by simp)
      exact ⟨this.1, ho, this.2⟩
    · subst hx
      have := h y (by simp [hy])
      exact ⟨this.1, Nat.two_pow_pos 64, this.2⟩

theorem indices_length (minis : List Mini) : (indices minis).length = minis.length := by
  simp [indices, starts_length]

theorem indices_getElem (minis : List Mini) (k : Nat) (hk : k < minis.length) :
    (indices minis)[k]'(by rw [indices_length]; exact hk)
      = indexBytes (((minis.map (·.data.length)).take k).sum) minis[k].rows := by
  simp only [indices, List.getElem_map, List.getElem_zip]
  rw [starts_getElem 0 _ k (by simpa using hk)]
  simp


/-! ### the shard index entries -/

theorem entriesOf_length (dsz : Nat) (ilen : List Nat) : (entriesOf dsz ilen).length = ilen.length := by
  simp [entriesOf, starts_length]

theorem entriesOf_getElem (dsz : Nat) (ilen : List Nat) (j : Nat) (hj : j < ilen.length) :
    (entriesOf dsz ilen)[j]'(by rw [entriesOf_length]; exact hj)
      = (dsz + (ilen.take j).sum, dsz + (ilen.take j).sum + ilen[j]) := by
  simp only [entriesOf, List.getElem_map, List.getElem_zip]
  rw [starts_getElem dsz ilen j hj]

theorem entriesOf_bound (dsz : Nat) (ilen : List Nat) :
    ∀ e ∈ entriesOf dsz ilen, e.1 ≤ dsz + ilen.sum ∧ e.2 ≤ dsz + ilen.sum := by
  intro e he
  obtain ⟨j, hj, rfl⟩ := List.mem_iff_getElem.mp he
  have hj' : j < ilen.length := by rw [entriesOf_length] at hj; exact hj
  rw [entriesOf_getElem dsz ilen j hj']
  have := sum_take_add_le ilen j hj'
  simp only
  omega

theorem mem_pairs (l : List (Nat × Nat)) (v : Nat) (h : v ∈ pairs l) : ∃ e ∈ l, v = e.1 ∨ v = e.2 := by
  simp only [pairs, List.mem_flatMap] at h
  obtain ⟨e, he, hv⟩ := h
  refine ⟨e, he, ?_⟩
  simp at hv
  exact hv

/-- MAIN LEMMA: a reader written from the specification, applied to the file `Shard.close` writes,
    finds every chunk of the minishard that sits at the slot the specification prescribes, and
    returns exactly the bytes the minishard holds for it. -/
theorem specFetch_assemble (m p : Nat) (minis : List Mini) (wf : Wf minis)
    (hslots : minis.length ≤ 2 ^ m) (id k : Nat) (hk : k < minis.length)
    (hpos : (id / 2 ^ p) % 2 ^ m = k) :
    assemble m minis = some (fileOf m minis) ∧
      specFetch m p (fileOf m minis) id =
        (locate minis[k].rows 0 0 id).map fun (o, sz) => (minis[k].data.drop o).take sz := by
  have hilen : (ilenOf minis).length = minis.length := by simp [ilenOf, indices_length]
  have hent : (entriesOf (dszOf minis) (ilenOf minis)).length = minis.length := by
    rw [entriesOf_length, hilen]
  have hasm : assemble m minis = some (fileOf m minis) := by
    unfold assemble
    rw [if_neg (by omega)]
  refine ⟨hasm, ?_⟩
  have hpad : (paddedOf m minis).length = 2 ^ m := by
    simp only [paddedOf, List.length_append, List.length_replicate]; omega
  have hH : (u64s (pairs (paddedOf m minis))).length = 2 ^ m * 16 := by
    rw [u64s_length, pairs_length, hpad]; omega
  have hDlen : ((minis.map (·.data)).flatten).length = dszOf minis := by
    simp [dszOf, List.length_flatten, List.map_map, Function.comp_def]
  have hIlen : ((indices minis).flatten).length = (ilenOf minis).sum := by
    simp [ilenOf, List.length_flatten]
  have hflen : (fileOf m minis).length = 2 ^ m * 16 + dszOf minis + (ilenOf minis).sum := by
    simp only [fileOf, List.length_append, hH, hDlen, hIlen]
  have hki : k < (ilenOf minis).length := by omega
  have hpk : k < (paddedOf m minis).length := by omega
  have hkidx : k < (indices minis).length := by rw [indices_length]; exact hk
  have htotal := wf.total
  -- the two words of slot k
  have hsmall : ∀ v ∈ pairs (paddedOf m minis), v < 2 ^ 64 := by
    intro v hv
    obtain ⟨e, he, hve⟩ := mem_pairs _ v hv
    have hb : e.1 ≤ dszOf minis + (ilenOf minis).sum ∧ e.2 ≤ dszOf minis + (ilenOf minis).sum := by
      simp only [paddedOf] at he
      rcases List.mem_append.mp he with h | h
      · exact entriesOf_bound _ _ e h
      · have := List.eq_of_mem_replicate h; subst this; exact ⟨Nat.le_refl _, Nat.le_refl _⟩
    rcases hve with h | h <;> omega
  have hpadk : (paddedOf m minis)[k] = (dszOf minis + ((ilenOf minis).take k).sum,
      dszOf minis + ((ilenOf minis).take k).sum + (ilenOf minis)[k]) := by
    simp only [paddedOf]
    rw [List.getElem_append_left (by omega)]
    exact entriesOf_getElem _ _ k hki
  have hw1 : word (fileOf m minis) (2 * k) = dszOf minis + ((ilenOf minis).take k).sum := by
    simp only [fileOf, List.append_assoc]
    rw [word_u64s _ _ (2 * k) (by rw [pairs_length]; omega) hsmall, (pairs_getElem _ k hpk).1, hpadk]
  have hw2 : word (fileOf m minis) (2 * k + 1)
      = dszOf minis + ((ilenOf minis).take k).sum + (ilenOf minis)[k] := by
    simp only [fileOf, List.append_assoc]
    rw [word_u64s _ _ (2 * k + 1) (by rw [pairs_length]; omega) hsmall, (pairs_getElem _ k hpk).2, hpadk]
  have hsum := sum_take_add_le (ilenOf minis) k hki
  -- the index region
  have hIk : (ilenOf minis)[k] = ((indices minis)[k]).length := by simp [ilenOf]
  have htk : ((ilenOf minis).take k).sum = (((indices minis).take k).map List.length).sum := by
    simp [ilenOf, List.map_take]
  have hregion : ((fileOf m minis).drop (2 ^ m * 16 + (dszOf minis + ((ilenOf minis).take k).sum))).take
      (ilenOf minis)[k] = (indices minis)[k] := by
    have e0 : 2 ^ m * 16 + (dszOf minis + ((ilenOf minis).take k).sum)
        = (u64s (pairs (paddedOf m minis)) ++ (minis.map (·.data)).flatten).length
          + ((((indices minis).take k).map List.length).sum + 0) := by
      rw [List.length_append, hH, hDlen, htk]; omega
    rw [e0]
    simp only [fileOf]
    rw [List.drop_append]
    have := drop_flatten_append (indices minis) [] k hkidx 0 (Nat.zero_le _)
    simp only [List.append_nil, List.drop_zero] at this
    rw [List.drop_eq_nil_of_le (by omega), List.nil_append]
    have e1 : ∀ a b : Nat, a + b - a = b := by intro a b; omega
    rw [e1, this, hIk, List.take_append_of_le_length (Nat.le_refl _), List.take_length]
  -- decode
  have hoff : ((minis.map (·.data.length)).take k).sum + minis[k].data.length ≤ dszOf minis := by
    have := sum_take_add_le (minis.map (·.data.length)) k (by simpa using hk)
    simpa [dszOf] using this
  have hdec : decodeIndex ((indices minis)[k])
      = some (rows3 (((minis.map (·.data.length)).take k).sum) minis[k].rows) := by
    rw [indices_getElem minis k hk]
    apply decodeIndex_encodeIndex
    apply rows3_small
    · omega
    · exact wf.small _ (List.getElem_mem hk)
  -- run the reader
  unfold specFetch
  simp only [hpos]
  have c1 : ¬ (fileOf m minis).length < 2 ^ m * 16 := by omega
  simp only [c1, if_false, hw1, hw2]
  have c2 : ¬ (dszOf minis + ((ilenOf minis).take k).sum + (ilenOf minis)[k]
        < dszOf minis + ((ilenOf minis).take k).sum
      ∨ (fileOf m minis).length
        < 2 ^ m * 16 + (dszOf minis + ((ilenOf minis).take k).sum + (ilenOf minis)[k])) := by omega
  simp only [c2, if_false]
  have e3 : dszOf minis + ((ilenOf minis).take k).sum + (ilenOf minis)[k]
      - (dszOf minis + ((ilenOf minis).take k).sum) = (ilenOf minis)[k] := by omega
  rw [e3, hregion, hdec]
  simp only [lookup_rows3]
  cases hloc : locate minis[k].rows 0 0 id with
  | none => simp
  | some r =>
    obtain ⟨o, sz⟩ := r
    simp only [Option.map_some]
    have hb := locate_bound id minis[k].rows 0 0 o sz hloc
    have hsz := wf.sizes _ (List.getElem_mem hk)
    have c3 : ¬ (fileOf m minis).length
        < 2 ^ m * 16 + (((minis.map (·.data.length)).take k).sum + o) + sz := by omega
    simp only [c3, if_false]
    congr 1
    -- slice of the data region
    have e4 : 2 ^ m * 16 + (((minis.map (·.data.length)).take k).sum + o)
        = (u64s (pairs (paddedOf m minis))).length
          + ((((minis.map (·.data)).take k).map List.length).sum + o) := by
      rw [hH]
      simp [List.map_take, List.map_map, Function.comp_def]
    rw [e4]
    simp only [fileOf, List.append_assoc]
    rw [List.drop_append, List.drop_eq_nil_of_le (by omega), List.nil_append]
    have e1 : ∀ a b : Nat, a + b - a = b := by intro a b; omega
    rw [e1]
    have := drop_flatten_append (minis.map (·.data)) ((indices minis).flatten) k (by simpa using hk) o
      (by simp; omega)
    rw [this]
    simp only [List.getElem_map]
    rw [List.take_append_of_le_length (by simp only [List.length_drop]; omega)]

end NgVerif.Shard
