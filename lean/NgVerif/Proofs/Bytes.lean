import NgVerif.Model.Prim
import NgVerif.Model.Shard
namespace NgVerif

theorem leBytes_length : ∀ (k v : Nat), (leBytes k v).length = k
  | 0, _ => rfl
  | k+1, v => by simp [leBytes, leBytes_length k]

theorem leVal_leBytes : ∀ (k v : Nat), v < 256 ^ k → leVal (leBytes k v) = v
  | 0, v, h => by simp at h; simp [leBytes, leVal, h]
  | k+1, v, h => by
    have : v / 256 < 256 ^ k := by
      rw [Nat.div_lt_iff_lt_mul (by decide)]
      rw [Nat.pow_succ] at h; exact h
    simp only [leBytes, leVal, leVal_leBytes k (v / 256) this]
    omega

theorem leBytes_lt : ∀ (k v : Nat), ∀ b ∈ leBytes k v, b < 256
  | 0, _ => by simp [leBytes]
  | k+1, v => by
    intro b hb
    simp only [leBytes, List.mem_cons] at hb
    rcases hb with h | h
    · subst h; exact Nat.mod_lt _ (by decide)
    · exact leBytes_lt k _ b h

namespace Shard

theorem u64s_length (l : List Nat) : (u64s l).length = 8 * l.length := by
  induction l with
  | nil => rfl
  | cons a t ih =>
    simp only [u64s, List.flatMap_cons, List.length_append, leBytes_length, List.length_cons] at *
    omega

theorem u64s_cons (a : Nat) (t : List Nat) : u64s (a :: t) = leBytes 8 a ++ u64s t := by
  simp [u64s]

theorem u64s_append (a b : List Nat) : u64s (a ++ b) = u64s a ++ u64s b := by
  simp [u64s]

/-- skipping a prefix of whole words -/
theorem word_append_left (pre b : Bytes) (j k : Nat) (h : pre.length = 8 * j) :
    word (pre ++ b) (j + k) = word b k := by
  unfold word
  have : 8 * (j + k) = pre.length + 8 * k := by omega
  rw [this, List.drop_append]
  have e1 : List.drop (pre.length + 8 * k) pre = [] := List.drop_eq_nil_of_le (by omega)
  have e2 : pre.length + 8 * k - pre.length = 8 * k := by omega
  rw [e1, e2, List.nil_append]

theorem word_zero (v : Nat) (rest : Bytes) (hv : v < 2 ^ 64) :
    word (leBytes 8 v ++ rest) 0 = v := by
  unfold word
  simp only [Nat.mul_zero, List.drop_zero]
  rw [List.take_append_of_le_length (by simp [leBytes_length]),
    List.take_of_length_le (by simp [leBytes_length])]
  exact leVal_leBytes 8 v (by simpa using hv)

/-- word `i` of an encoded list is its `i`-th element -/
theorem word_u64s : ∀ (l : List Nat) (rest : Bytes) (i : Nat) (hi : i < l.length),
    (∀ v ∈ l, v < 2 ^ 64) → word (u64s l ++ rest) i = l[i]
  | [], _, i, hi, _ => by simp at hi
  | a :: t, rest, 0, _, h => by
    rw [u64s_cons, List.append_assoc]
    simpa using word_zero a (u64s t ++ rest) (h a (by simp))
  | a :: t, rest, i+1, hi, h => by
    rw [u64s_cons, List.append_assoc]
    have := word_append_left (leBytes 8 a) (u64s t ++ rest) 1 i (by simp [leBytes_length])
    rw [Nat.add_comm 1 i] at this
    rw [this, word_u64s t rest i (by simpa using hi) (fun v hv => h v (by simp [hv]))]
    simp

/-- decoding an encoded index returns the rows (all entries below 2^64) -/
theorem decodeIndex_encodeIndex (r : List (Nat × Nat × Nat))
    (h : ∀ x ∈ r, x.1 < 2 ^ 64 ∧ x.2.1 < 2 ^ 64 ∧ x.2.2 < 2 ^ 64) :
    decodeIndex (encodeIndex r) = some r := by
  have hlen : (encodeIndex r).length = 24 * r.length := by
    simp only [encodeIndex, List.length_append, u64s_length, List.length_map]; omega
  unfold decodeIndex
  have h24 : (encodeIndex r).length % 24 = 0 := by rw [hlen]; omega
  have hn : (encodeIndex r).length / 24 = r.length := by rw [hlen]; omega
  simp only [h24, hn, ne_eq, not_true_eq_false, if_false]
  congr 1
  apply List.ext_getElem
  · simp
  · intro i h1 h2
    simp only [List.getElem_map, List.getElem_range]
    have hi : i < r.length := h2
    have hA : ∀ v ∈ r.map (·.1), v < 2 ^ 64 := by
      intro v hv; obtain ⟨x, hx, rfl⟩ := List.mem_map.mp hv; exact (h x hx).1
    have hB : ∀ v ∈ r.map (·.2.1), v < 2 ^ 64 := by
      intro v hv; obtain ⟨x, hx, rfl⟩ := List.mem_map.mp hv; exact (h x hx).2.1
    have hC : ∀ v ∈ r.map (·.2.2), v < 2 ^ 64 := by
      intro v hv; obtain ⟨x, hx, rfl⟩ := List.mem_map.mp hv; exact (h x hx).2.2
    have w1 : word (encodeIndex r) i = (r[i]).1 := by
      unfold encodeIndex
      rw [List.append_assoc, word_u64s _ _ i (by simpa using hi) hA]; simp
    have w2 : word (encodeIndex r) (r.length + i) = (r[i]).2.1 := by
      unfold encodeIndex
      rw [List.append_assoc, word_append_left _ _ r.length i (by simp [u64s_length]),
        word_u64s _ _ i (by simpa using hi) hB]; simp
    have w3 : word (encodeIndex r) (2 * r.length + i) = (r[i]).2.2 := by
      unfold encodeIndex
      have e : 2 * r.length + i = r.length + (r.length + i) := by omega
      rw [e, List.append_assoc, word_append_left _ _ r.length (r.length + i) (by simp [u64s_length]),
        word_append_left _ _ r.length i (by simp [u64s_length])]
      have := word_u64s (r.map (·.2.2)) [] i (by simpa using hi) hC
      simpa using this
    rw [w1, w2, w3]

end Shard
end NgVerif
