import NgVerif.Proofs.CsegTotal
import NgVerif.Proofs.CsegMain
import NgVerif.Proofs.CsegList
/-
  The package's own compressed_segmentation decoder (`decode_chunk_into`, model `implDecode`):
  * conformance: whenever it returns an array, the specification decoder returns the same (EVERY byte string)
  * completeness: it accepts a block whenever the specification's procedure decodes every position of it
  * round trip: `implDecode (encode d) = d`
-/
namespace NgVerif.Cseg

theorem take_drop_take {α} (l : List α) (a m x y : Nat) (h : x + y ≤ m) :
    (((l.drop a).take m).drop x).take y = (l.drop (a + x)).take y := by
  rw [List.drop_take, List.take_take, List.drop_drop]
  congr 1
  omega

theorem leVal_append : ∀ (a b : Bytes), leVal (a ++ b) = leVal a + 256 ^ a.length * leVal b
  | [], b => by simp [leVal]
  | x :: t, b => by
    simp only [List.cons_append, leVal, leVal_append t b, List.length_cons, Nat.pow_succ]
    rw [Nat.mul_add, Nat.add_assoc]
    congr 1
    rw [Nat.mul_comm (256 ^ t.length) 256, Nat.mul_assoc]

theorem take8_split (l : Bytes) (p : Nat) (h : p + 8 ≤ l.length) :
    (l.drop p).take 8 = (l.drop p).take 4 ++ (l.drop (p + 4)).take 4 := by
  have : (l.drop p).take 8 = (l.drop p).take (4 + 4) := rfl
  rw [this, List.take_add, List.drop_drop]

/-- value of word `k` when it exists -/
theorem w32_some (b : Bytes) (k : Nat) (h : 4 * k + 4 ≤ b.length) :
    w32 b k = some (leVal ((b.drop (4 * k)).take 4)) := by
  simp [w32, h]

theorem w32_drop (b : Bytes) (o k : Nat) : w32 (b.drop (4 * o)) k = w32 b (o + k) := by
  unfold w32
  simp only [List.length_drop, List.drop_drop]
  have e : 4 * o + 4 * k = 4 * (o + k) := by omega
  rw [e]
  by_cases h : 4 * (o + k) + 4 ≤ b.length
  · rw [if_pos (by omega), if_pos h]
  · rw [if_neg (by omega), if_neg h]

/-- items of `fromBuffer` -/
theorem fromBuffer_getElem (k : Nat) (b : Bytes) (l : List Nat) (h : fromBuffer k b = .ok l) :
    l.length = b.length / k ∧ ∀ j (hj : j < l.length), l[j] = leVal ((b.drop (k * j)).take k) := by
  unfold fromBuffer at h
  split at h
  · cases h
  · injection h with h
    subst h
    refine ⟨by simp, fun j hj => by simp⟩


theorem validBits_cases (b : Nat) (h : validBits b = true) :
    b = 0 ∨ b = 1 ∨ b = 2 ∨ b = 4 ∨ b = 8 ∨ b = 16 ∨ b = 32 := by
  simp only [validBits, Generated.csegBitsDec, List.contains_eq_mem, List.mem_cons, List.mem_nil_iff,
    or_false, decide_eq_true_eq] at h
  exact h

theorem specBitsOk_of_cases (b : Nat)
    (h : b = 0 ∨ b = 1 ∨ b = 2 ∨ b = 4 ∨ b = 8 ∨ b = 16 ∨ b = 32) : specBitsOk b = true := by
  rcases h with rfl | rfl | rfl | rfl | rfl | rfl | rfl <;> decide

/-- a non-negative `pySlice` as drop/take -/
theorem pySlice_nat (b : Bytes) (a e : Nat) : pySlice b a (e : Int) = (b.drop a).take (min e b.length - a) := by
  unfold pySlice
  have : ¬ ((e : Int) < 0) := by omega
  simp only [this, if_false, Int.toNat_natCast]

/-- item `j` of a 4-byte-item slice of `cbuf` starting at byte `4·o` is word `o + j` of `cbuf` -/
theorem slice_word (cbuf : Bytes) (o m j : Nat) (l : List Nat)
    (h : fromBuffer 4 ((cbuf.drop (4 * o)).take m) = .ok l) (hj : j < l.length) :
    w32 cbuf (o + j) = some l[j] := by
  obtain ⟨hlen, hget⟩ := fromBuffer_getElem 4 _ l h
  simp only [List.length_take, List.length_drop] at hlen
  have hb : 4 * j + 4 ≤ min m (cbuf.length - 4 * o) := by omega
  rw [hget j hj, take_drop_take cbuf (4 * o) m (4 * j) 4 (by omega)]
  have e : 4 * o + 4 * j = 4 * (o + j) := by omega
  rw [e]
  exact w32_some cbuf (o + j) (by omega)


theorem slice_item8 (cbuf : Bytes) (o m j : Nat) (l : List Nat)
    (h : fromBuffer 8 ((cbuf.drop (4 * o)).take m) = .ok l) (hj : j < l.length) :
    ∃ lo hi, w32 cbuf (o + 2 * j) = some lo ∧ w32 cbuf (o + 2 * j + 1) = some hi ∧ l[j] = lo + hi * 2 ^ 32 := by
  obtain ⟨hlen, hget⟩ := fromBuffer_getElem 8 _ l h
  simp only [List.length_take, List.length_drop] at hlen
  have hb : 8 * j + 8 ≤ min m (cbuf.length - 4 * o) := by omega
  refine ⟨leVal ((cbuf.drop (4 * (o + 2 * j))).take 4), leVal ((cbuf.drop (4 * (o + 2 * j + 1))).take 4),
    w32_some cbuf _ (by omega), w32_some cbuf _ (by omega), ?_⟩
  rw [hget j hj, take_drop_take cbuf (4 * o) m (8 * j) 8 (by omega),
    take8_split cbuf (4 * o + 8 * j) (by omega), leVal_append]
  have e1 : 4 * o + 8 * j = 4 * (o + 2 * j) := by omega
  have e2 : 4 * (o + 2 * j) + 4 = 4 * (o + 2 * j + 1) := by omega
  have hl4 : ((cbuf.drop (4 * (o + 2 * j))).take 4).length = 4 := by
    simp only [List.length_take, List.length_drop]; omega
  rw [e1, e2, hl4]
  have : (256 : Nat) ^ 4 = 2 ^ 32 := by norm_num
  rw [this, Nat.mul_comm (2 ^ 32)]


/-- position arithmetic of the packed values, vp = 32 / bits -/
theorem pack_pos (bits k : Nat) (hb : bits = 1 ∨ bits = 2 ∨ bits = 4 ∨ bits = 8 ∨ bits = 16 ∨ bits = 32) :
    k * bits / 32 = k / (32 / bits) ∧ k * bits % 32 = k % (32 / bits) * bits := by
  rcases hb with rfl | rfl | rfl | rfl | rfl | rfl <;> omega

/-- BLOCK LEVEL, every byte string: when the package's block decoder returns values, they are the
    values the specification's procedure yields from the same bytes, position by position -/
theorem implBlock_conforms (itemsize : Nat) (hi : itemsize = 4 ∨ itemsize = 8) (cbuf : Bytes) (n bi : Nat)
    (vals : List Nat) (h : implBlock itemsize cbuf n bi = .ok vals) :
    ∃ h0 h1, w32 cbuf (2 * bi) = some h0 ∧ w32 cbuf (2 * bi + 1) = some h1 ∧
      specBitsOk (h0 / 2 ^ 24) = true ∧ vals.length = n ∧
      ∀ i (hi : i < vals.length),
        decodeIn itemsize (fun k => w32 cbuf (h0 % 2 ^ 24 + k)) (fun k => w32 cbuf (h1 + k)) (h0 / 2 ^ 24) i
          = some vals[i] := by
  unfold implBlock at h
  by_cases hlen : cbuf.length < 8 * bi + 8
  · simp [hlen] at h
  have e0 : 4 * (2 * bi) = 8 * bi := by omega
  have e1 : 4 * (2 * bi + 1) = 8 * bi + 4 := by omega
  refine ⟨leVal ((cbuf.drop (8 * bi)).take 4), leVal ((cbuf.drop (8 * bi + 4)).take 4),
    by rw [w32_some cbuf (2 * bi) (by omega), e0], by rw [w32_some cbuf (2 * bi + 1) (by omega), e1], ?_⟩
  simp only [hlen, if_false, bind, Except.bind] at h
  generalize leVal ((cbuf.drop (8 * bi)).take 4) = r0 at h ⊢
  generalize leVal ((cbuf.drop (8 * bi + 4)).take 4) = r1 at h ⊢
  by_cases hvb : validBits (r0 / 2 ^ 24) = true
  · have hcases := validBits_cases _ hvb
    have hspec := specBitsOk_of_cases _ hcases
    simp only [hvb, Bool.not_true, Bool.false_eq_true, if_false] at h
    -- the look-up table
    generalize hS : pySlice cbuf (4 * (r0 % 2 ^ 24)) _ = S at h
    obtain ⟨M, hM⟩ : ∃ M, S = (cbuf.drop (4 * (r0 % 2 ^ 24))).take M := ⟨_, hS.symm.trans rfl⟩
    subst hM
    cases hlut : fromBuffer itemsize ((cbuf.drop (4 * (r0 % 2 ^ 24))).take M) with
    | error e => rw [hlut] at h; cases h
    | ok lut =>
      rw [hlut] at h
      simp only at h
      -- reading entry `idx` of the table the specification's way
      have hlutAt : ∀ idx (hidx : idx < lut.length),
          (if itemsize = 8 then do
              let lo ← w32 cbuf (r0 % 2 ^ 24 + 2 * idx)
              let hi ← w32 cbuf (r0 % 2 ^ 24 + (2 * idx + 1))
              some (lo + hi * 2 ^ 32)
            else w32 cbuf (r0 % 2 ^ 24 + idx)) = some lut[idx] := by
        intro idx hidx
        rcases hi with rfl | rfl
        · simp only [show ¬ (4 = 8) by decide, if_false]
          exact slice_word cbuf _ M idx lut hlut hidx
        · simp only [if_true]
          obtain ⟨lo, hi', hlo, hhi, hv⟩ := slice_item8 cbuf _ M idx lut hlut hidx
          rw [hlo, ← Nat.add_assoc, hhi, hv]
          rfl
      by_cases hb0 : r0 / 2 ^ 24 = 0
      · -- bits = 0
        simp only [hb0, if_true] at h
        cases lut with
        | nil => cases h
        | cons v t =>
          injection h with h
          subst h
          refine ⟨hspec, by simp, ?_⟩
          intro i hi'
          have := hlutAt 0 (by simp)
          simp only [hb0, decodeIn, if_true, Option.bind_eq_bind, Option.bind_some, Nat.mul_zero, Nat.add_zero,
            Nat.zero_add, List.getElem_replicate] at this ⊢
          simpa using this
      · simp only [hb0, if_false] at h
        have hbits : r0 / 2 ^ 24 = 1 ∨ r0 / 2 ^ 24 = 2 ∨ r0 / 2 ^ 24 = 4 ∨ r0 / 2 ^ 24 = 8 ∨
            r0 / 2 ^ 24 = 16 ∨ r0 / 2 ^ 24 = 32 := by
          rcases hcases with h | h | h | h | h | h | h
          · exact absurd h hb0
          · exact Or.inl h
          · exact Or.inr (Or.inl h)
          · exact Or.inr (Or.inr (Or.inl h))
          · exact Or.inr (Or.inr (Or.inr (Or.inl h)))
          · exact Or.inr (Or.inr (Or.inr (Or.inr (Or.inl h))))
          · exact Or.inr (Or.inr (Or.inr (Or.inr (Or.inr h))))
        generalize r0 / 2 ^ 24 = bits at h hbits hspec hb0 ⊢
        by_cases hve : 4 * r1 + 4 * ceilDiv n (32 / bits) > cbuf.length
        · simp [hve] at h
        simp only [hve, if_false] at h
        rw [show ((4 * r1 + 4 * ceilDiv n (32 / bits) : Nat) : Int) = ((4 * r1 + 4 * ceilDiv n (32 / bits) : Nat) : Int) from rfl,
          pySlice_nat] at h
        have hmin : min (4 * r1 + 4 * ceilDiv n (32 / bits)) cbuf.length - 4 * r1 = 4 * ceilDiv n (32 / bits) := by
          omega
        rw [hmin] at h
        cases hpk : fromBuffer 4 ((cbuf.drop (4 * r1)).take (4 * ceilDiv n (32 / bits))) with
        | error e => rw [hpk] at h; cases h
        | ok packed =>
          rw [hpk] at h
          simp only at h
          split at h
          · cases h
          · rename_i hany
            injection h with h
            subst h
            have hplen : packed.length = ceilDiv n (32 / bits) := by
              have := (fromBuffer_getElem 4 _ packed hpk).1
              simp only [List.length_take, List.length_drop] at this
              omega
            refine ⟨hspec, by simp, ?_⟩
            intro i hi'
            simp only [List.length_map, List.length_range] at hi'
            have hvp : 0 < 32 / bits := by rcases hbits with h | h | h | h | h | h <;> simp [h]
            have hq : i / (32 / bits) < packed.length := by
              rw [hplen]; exact div_lt_ceilDiv n _ i hvp hi'
            obtain ⟨p1, p2⟩ := pack_pos bits i hbits
            have hword := slice_word cbuf r1 _ (i / (32 / bits)) packed hpk hq
            -- the index is inside the table
            have hidx : packed[i / (32 / bits)]! / 2 ^ (i % (32 / bits) * bits) % 2 ^ bits < lut.length := by
              apply Nat.lt_of_not_le
              intro hge
              apply hany
              rw [List.any_eq_true]
              exact ⟨_, List.mem_map.mpr ⟨i, List.mem_range.mpr hi', rfl⟩, by simpa using hge⟩
            rw [getElem!_pos packed _ hq] at hidx
            simp only [decodeIn, hb0, if_false, p1, p2, hword, Option.map_some, Option.bind_eq_bind,
              Option.bind_some, List.getElem_map, List.getElem_range]
            rw [getElem!_pos packed _ hq]
            generalize packed[i / (32 / bits)] / 2 ^ (i % (32 / bits) * bits) % 2 ^ bits = idx at hidx ⊢
            rw [getElem!_pos lut idx hidx]
            exact hlutAt idx hidx
  · have hf : validBits (r0 / 2 ^ 24) = false := by simpa using hvb
    simp only [hf, Bool.not_false, if_true] at h
    cases h


theorem mapM_ok_getElem {α β} (f : α → Except Err β) : ∀ (l : List α) (r : List β), l.mapM f = .ok r →
    r.length = l.length ∧ ∀ j (hj : j < l.length) (hr : j < r.length), f l[j] = .ok r[j]
  | [], r, h => by
    simp only [List.mapM_nil, pure, Except.pure] at h
    injection h with h; subst h
    exact ⟨rfl, fun j hj => by simp at hj⟩
  | a :: t, r, h => by
    rw [List.mapM_cons] at h
    cases hfa : f a with
    | error e => rw [hfa] at h; cases h
    | ok b =>
      rw [hfa] at h
      cases ht : t.mapM f with
      | error e => rw [ht] at h; cases h
      | ok bs =>
        rw [ht] at h
        simp only [bind, Except.bind, pure, Except.pure] at h
        injection h with h; subst h
        obtain ⟨hl, hg⟩ := mapM_ok_getElem f t bs ht
        refine ⟨by simp [hl], ?_⟩
        intro j hj hr
        cases j with
        | zero => simpa using hfa
        | succ j => simpa using hg j (by simpa using hj) (by simpa using hr)


theorem inBlock_lt (bx by' bz x y z : Nat) (hbx : 0 < bx) (hby : 0 < by') (hbz : 0 < bz) :
    x % bx + bx * (y % by' + by' * (z % bz)) < bx * by' * bz := by
  have h1 := Nat.mod_lt x hbx
  have h2 := Nat.mod_lt y hby
  have h3 := Nat.mod_lt z hbz
  have a1 : y % by' + by' * (z % bz) < by' * bz := by
    have : by' * (z % bz + 1) ≤ by' * bz := Nat.mul_le_mul_left _ h3
    rw [Nat.mul_add, Nat.mul_one] at this
    omega
  have a2 : bx * (y % by' + by' * (z % bz) + 1) ≤ bx * (by' * bz) := Nat.mul_le_mul_left _ a1
  rw [Nat.mul_add, Nat.mul_one] at a2
  rw [Nat.mul_assoc]
  omega

/-- CHUNK LEVEL, EVERY byte string: whenever the package's decoder returns an array, a decoder
    written from the format specification returns the same array from the same bytes. -/
theorem implDecode_conforms (itemsize : Nat) (hi : itemsize = 4 ∨ itemsize = 8) (s : Shape) (bk : Blk3)
    (hbx : 0 < bk.bx) (hby : 0 < bk.by') (hbz : 0 < bk.bz)
    (buf : Bytes) (a : List Nat) (h : implDecode itemsize s bk buf = .ok a) :
    specDecode itemsize s bk buf = some a := by
  unfold implDecode at h
  simp only at h
  by_cases hlen : buf.length < s.c * (4 + 8 * ((gridOf s bk).1 * (gridOf s bk).2.1 * (gridOf s bk).2.2))
  · simp [hlen] at h
  simp only [hlen, if_false] at h
  cases hch : (List.range s.c).mapM (implChannel itemsize s bk buf) with
  | error e => rw [hch] at h; cases h
  | ok chans =>
    rw [hch] at h
    simp only at h
    injection h with h
    subst h
    obtain ⟨hcl, hcg⟩ := mapM_ok_getElem _ _ _ hch
    simp only [List.length_range] at hcl hcg
    unfold specDecode
    apply mapM_all_some
    intro q hq
    obtain ⟨c, z, y, x⟩ := q
    obtain ⟨hc, hz, hy, hx⟩ := mem_voxelCoords s _ hq
    simp only at hc hz hy hx ⊢
    -- the channel
    have hchan := hcg c hc (by omega)
    simp only [List.getElem_range] at hchan
    unfold implChannel at hchan
    simp only at hchan
    generalize hg : gridOf s bk = g at *
    have hc4 : 4 * c + 4 ≤ buf.length := by
      have : s.c * (4 + 8 * (g.1 * g.2.1 * g.2.2)) ≥ (c + 1) * (4 + 8 * (g.1 * g.2.1 * g.2.2)) :=
        Nat.mul_le_mul_right _ hc
      have e : (c + 1) * (4 + 8 * (g.1 * g.2.1 * g.2.2)) ≥ (c + 1) * 4 := Nat.mul_le_mul_left _ (by omega)
      omega
    have hrc : w32 buf c = some (leVal ((buf.drop (4 * c)).take 4)) := w32_some buf c hc4
    generalize leVal ((buf.drop (4 * c)).take 4) = chOff at hchan hrc
    by_cases hoff : 4 * chOff + 8 * (g.1 * g.2.1 * g.2.2) > buf.length
    · simp [hoff] at hchan
    simp only [hoff, if_false] at hchan
    obtain ⟨hbl, hbg⟩ := mapM_ok_getElem _ _ _ hchan
    simp only [List.length_range] at hbl hbg
    -- the block
    have hgx : x / bk.bx < g.1 := by rw [← hg]; exact div_lt_ceilDiv _ _ _ hbx hx
    have hgy : y / bk.by' < g.2.1 := by rw [← hg]; exact div_lt_ceilDiv _ _ _ hby hy
    have hgz : z / bk.bz < g.2.2 := by rw [← hg]; exact div_lt_ceilDiv _ _ _ hbz hz
    have hbilt := blockIndex_lt g _ _ _ hgx hgy hgz
    generalize hbi : x / bk.bx + g.1 * (y / bk.by' + g.2.1 * (z / bk.bz)) = bi at *
    have hblock := hbg bi hbilt (by omega)
    simp only [List.getElem_range] at hblock
    obtain ⟨h0, h1, hr0, hr1, hok, hvl, hdec⟩ :=
      implBlock_conforms itemsize hi _ _ _ _ hblock
    have hil := inBlock_lt bk.bx bk.by' bk.bz x y z hbx hby hbz
    generalize hii : x % bk.bx + bk.bx * (y % bk.by' + bk.by' * (z % bk.bz)) = i at *
    have hd := hdec i (by omega)
    -- assemble the specification decoder's steps
    unfold specVoxel specVoxelR
    simp only [hrc, Option.bind_eq_bind, Option.bind_some]
    rw [chanVoxel_eq (fun k => w32 buf (chOff + k)) itemsize s bk z y x h0 h1
      (by rw [hg, hbi, ← w32_drop]; exact hr0) (by rw [hg, hbi, ← w32_drop]; exact hr1) hok, hii]
    have e1 : (fun k => w32 buf (chOff + (h0 % 2 ^ 24 + k))) = fun k => w32 (buf.drop (4 * chOff)) (h0 % 2 ^ 24 + k) := by
      funext k; rw [w32_drop]
    have e2 : (fun k => w32 buf (chOff + (h1 + k))) = fun k => w32 (buf.drop (4 * chOff)) (h1 + k) := by
      funext k; rw [w32_drop]
    rw [e1, e2, hd]
    congr 1
    rw [getElem!_pos chans c (by omega), getElem!_pos _ bi (by omega), getElem!_pos _ i (by omega)]


theorem validBits_of_spec (b : Nat) (h : specBitsOk b = true) : validBits b = true := by
  simp only [specBitsOk, Bool.or_eq_true, beq_iff_eq] at h
  rcases h with (((((rfl | rfl) | rfl) | rfl) | rfl) | rfl) | rfl <;> decide

/-- exact length of the look-up-table slice when the table starts inside the buffer -/
theorem lut_slice_length (itemsize : Nat) (hi : itemsize = 4 ∨ itemsize = 8) (cbuf : Bytes)
    (lutOff P : Nat) (hc : lutOff ≤ cbuf.length) :
    (pySlice cbuf lutOff ((lutOff : Int) + (itemsize : Int) *
      min (P : Int) (((cbuf.length : Int) - (lutOff : Int)) / (itemsize : Int)))).length
      = itemsize * min P ((cbuf.length - lutOff) / itemsize) := by
  generalize hL : cbuf.length = L at *
  rcases hi with rfl | rfl
  · have hq : ((L : Int) - (lutOff : Int)) / ((4 : Nat) : Int) = (((L - lutOff) / 4 : Nat) : Int) := by omega
    rw [hq]
    have hm : min (P : Int) (((L - lutOff) / 4 : Nat) : Int) = ((min P ((L - lutOff) / 4) : Nat) : Int) := by omega
    rw [hm]
    have hnn : 0 ≤ (lutOff : Int) + ((4 : Nat) : Int) * ((min P ((L - lutOff) / 4) : Nat) : Int) := by omega
    rw [pySlice_length_nonneg _ _ _ hnn, hL]
    omega
  · have hq : ((L : Int) - (lutOff : Int)) / ((8 : Nat) : Int) = (((L - lutOff) / 8 : Nat) : Int) := by omega
    rw [hq]
    have hm : min (P : Int) (((L - lutOff) / 8 : Nat) : Int) = ((min P ((L - lutOff) / 8) : Nat) : Int) := by omega
    rw [hm]
    have hnn : 0 ≤ (lutOff : Int) + ((8 : Nat) : Int) * ((min P ((L - lutOff) / 8) : Nat) : Int) := by omega
    rw [pySlice_length_nonneg _ _ _ hnn, hL]
    omega


theorem w32_bound (b : Bytes) (k x : Nat) (h : w32 b k = some x) : 4 * k + 4 ≤ b.length := by
  unfold w32 at h
  split at h
  · assumption
  · cases h

/-- what a successful step of the specification's block procedure has read -/
theorem decodeIn_some (itemsize : Nat) (lutAt valAt : Nat → Option Nat) (bits i v : Nat)
    (h : decodeIn itemsize lutAt valAt bits i = some v) :
    ∃ idx, (bits = 0 → idx = 0) ∧
      (bits ≠ 0 → ∃ w, valAt (i * bits / 32) = some w ∧ idx = w / 2 ^ (i * bits % 32) % 2 ^ bits) ∧
      (itemsize = 8 → (∃ lo, lutAt (2 * idx) = some lo) ∧ ∃ hi, lutAt (2 * idx + 1) = some hi) ∧
      (itemsize ≠ 8 → ∃ x, lutAt idx = some x) := by
  unfold decodeIn at h
  by_cases hb : bits = 0
  · simp only [hb, if_true, Option.bind_eq_bind, Option.bind_some] at h
    refine ⟨0, fun _ => rfl, fun hne => absurd hb hne, ?_, ?_⟩
    · intro h8
      simp only [h8, if_true] at h
      cases hlo : lutAt (2 * 0) with
      | none => rw [hlo] at h; simp at h
      | some lo =>
        cases hhi : lutAt (2 * 0 + 1) with
        | none => rw [hlo, hhi] at h; simp at h
        | some hi' => exact ⟨⟨lo, rfl⟩, ⟨hi', rfl⟩⟩
    · intro h8
      simp only [h8, if_false] at h
      exact ⟨v, h⟩
  · simp only [hb, if_false, Option.bind_eq_bind] at h
    cases hw : valAt (i * bits / 32) with
    | none => simp [hw] at h
    | some w =>
      simp only [hw, Option.map_some, Option.bind_some] at h
      refine ⟨w / 2 ^ (i * bits % 32) % 2 ^ bits, fun h0 => absurd h0 hb, fun _ => ⟨w, rfl, rfl⟩, ?_, ?_⟩
      · intro h8
        simp only [h8, if_true] at h
        cases hlo : lutAt (2 * (w / 2 ^ (i * bits % 32) % 2 ^ bits)) with
        | none => rw [hlo] at h; simp at h
        | some lo =>
          cases hhi : lutAt (2 * (w / 2 ^ (i * bits % 32) % 2 ^ bits) + 1) with
          | none => rw [hlo, hhi] at h; simp at h
          | some hi' => exact ⟨⟨lo, rfl⟩, ⟨hi', rfl⟩⟩
      · intro h8
        simp only [h8, if_false] at h
        exact ⟨v, h⟩


/-- the table slice the package cuts out holds every entry that lies inside the buffer and below 2^bits -/
theorem lut_has_entry (itemsize : Nat) (hi : itemsize = 4 ∨ itemsize = 8) (cbuf : Bytes) (lo bits idx : Nat)
    (lut : List Nat)
    (hlut : fromBuffer itemsize (pySlice cbuf (4 * lo) ((↑(4 * lo) : Int) + (↑itemsize : Int) *
      min ((2 : Int) ^ bits) (((↑cbuf.length : Int) - (↑(4 * lo) : Int)) / (↑itemsize : Int)))) = .ok lut)
    (hidx : idx < 2 ^ bits)
    (hin : 4 * lo + itemsize * (idx + 1) ≤ cbuf.length) : idx < lut.length := by
  have hlen := (fromBuffer_getElem itemsize _ lut hlut).1
  have hsl := lut_slice_length itemsize hi cbuf (4 * lo) (2 ^ bits) (by
    rcases hi with rfl | rfl <;> omega)
  simp only [Nat.cast_pow, Nat.cast_ofNat] at hsl
  rw [hsl] at hlen
  rw [hlen]
  rcases hi with rfl | rfl
  · rw [Nat.mul_div_cancel_left _ (by decide : 0 < 4)]
    have : idx + 1 ≤ (cbuf.length - 4 * lo) / 4 := by omega
    omega
  · rw [Nat.mul_div_cancel_left _ (by decide : 0 < 8)]
    have : idx + 1 ≤ (cbuf.length - 4 * lo) / 8 := by omega
    omega


/-- BLOCK LEVEL, every byte string: if the specification's procedure can decode EVERY position of
    the (full) block, the package's block decoder does not refuse the block -/
theorem implBlock_complete (itemsize : Nat) (hi : itemsize = 4 ∨ itemsize = 8) (cbuf : Bytes) (n bi : Nat)
    (hn : 0 < n) (h0 h1 : Nat)
    (hr0 : w32 cbuf (2 * bi) = some h0) (hr1 : w32 cbuf (2 * bi + 1) = some h1)
    (hok : specBitsOk (h0 / 2 ^ 24) = true)
    (hall : ∀ i, i < n → ∃ v, decodeIn itemsize (fun k => w32 cbuf (h0 % 2 ^ 24 + k))
      (fun k => w32 cbuf (h1 + k)) (h0 / 2 ^ 24) i = some v) :
    ∃ vals, implBlock itemsize cbuf n bi = .ok vals := by
  have hb1 := w32_bound _ _ _ hr1
  have hlen : ¬ cbuf.length < 8 * bi + 8 := by omega
  have e0 : 4 * (2 * bi) = 8 * bi := by omega
  have e1 : 4 * (2 * bi + 1) = 8 * bi + 4 := by omega
  have hv0 : leVal ((cbuf.drop (8 * bi)).take 4) = h0 := by
    have := w32_some cbuf (2 * bi) (by omega)
    rw [hr0, e0] at this
    exact (Option.some.inj this).symm
  have hv1 : leVal ((cbuf.drop (8 * bi + 4)).take 4) = h1 := by
    have := w32_some cbuf (2 * bi + 1) (by omega)
    rw [hr1, e1] at this
    exact (Option.some.inj this).symm
  have hvb := validBits_of_spec _ hok
  have hcases := validBits_cases _ hvb
  unfold implBlock
  simp only [hlen, if_false, bind, Except.bind, hv0, hv1, hvb, Bool.not_true, Bool.false_eq_true]
  generalize h0 % 2 ^ 24 = lo at *
  generalize h0 / 2 ^ 24 = bits at *
  -- the look-up table
  have hal := lut_slice_aligned itemsize hi cbuf (by omega) (4 * lo) (2 ^ bits) (Nat.one_le_two_pow)
  obtain ⟨lut, hlut⟩ := fromBuffer_ok itemsize _ hal
  simp only [Nat.cast_pow, Nat.cast_ofNat] at hlut
  simp only [hlut]
  -- entries of the table reached by the specification's procedure are inside the slice
  have hentry : ∀ i, i < n → ∀ idx, idx < 2 ^ bits →
      ((itemsize = 8 → (∃ l, w32 cbuf (lo + 2 * idx) = some l) ∧ ∃ h, w32 cbuf (lo + (2 * idx + 1)) = some h) ∧
       (itemsize ≠ 8 → ∃ x, w32 cbuf (lo + idx) = some x)) → idx < lut.length := by
    intro i _ idx hidx hrd
    apply lut_has_entry itemsize hi cbuf lo bits idx lut hlut hidx
    rcases hi with rfl | rfl
    · obtain ⟨x, hx⟩ := hrd.2 (by decide)
      have := w32_bound _ _ _ hx
      omega
    · obtain ⟨_, ⟨h, hh⟩⟩ := hrd.1 rfl
      have := w32_bound _ _ _ hh
      omega
  by_cases hb0 : bits = 0
  · simp only [hb0, if_true]
    obtain ⟨v, hv⟩ := hall 0 hn
    obtain ⟨idx, hz, _, h8, h4⟩ := decodeIn_some _ _ _ _ _ _ hv
    have hidx0 := hz hb0
    subst hidx0
    have : 0 < lut.length := hentry 0 hn 0 (by rw [hb0]; decide) ⟨h8, h4⟩
    cases lut with
    | nil => simp at this
    | cons a t => exact ⟨_, rfl⟩
  · simp only [hb0, if_false]
    have hbits : bits = 1 ∨ bits = 2 ∨ bits = 4 ∨ bits = 8 ∨ bits = 16 ∨ bits = 32 := by
      rcases hcases with h | h | h | h | h | h | h
      · exact absurd h hb0
      · exact Or.inl h
      · exact Or.inr (Or.inl h)
      · exact Or.inr (Or.inr (Or.inl h))
      · exact Or.inr (Or.inr (Or.inr (Or.inl h)))
      · exact Or.inr (Or.inr (Or.inr (Or.inr (Or.inl h))))
      · exact Or.inr (Or.inr (Or.inr (Or.inr (Or.inr h))))
    have hvp : 0 < 32 / bits := by rcases hbits with h | h | h | h | h | h <;> simp [h]
    -- the last position reads the last packed word
    have hve : ¬ (4 * h1 + 4 * ceilDiv n (32 / bits) > cbuf.length) := by
      obtain ⟨v, hv⟩ := hall (n - 1) (by omega)
      obtain ⟨idx, _, hw, _, _⟩ := decodeIn_some _ _ _ _ _ _ hv
      obtain ⟨w, hww, _⟩ := hw hb0
      have hbw := w32_bound _ _ _ hww
      rw [(pack_pos bits (n - 1) hbits).1] at hbw
      unfold ceilDiv
      omega
    simp only [hve, if_false]
    have hpk : (pySlice cbuf (4 * h1) ((↑(4 * h1 + 4 * ceilDiv n (32 / bits)) : Int))).length % 4 = 0 := by
      rw [pySlice_nat]
      simp only [List.length_take, List.length_drop]
      omega
    obtain ⟨packed, hp⟩ := fromBuffer_ok 4 _ hpk
    simp only [hp]
    have hp' := hp
    rw [pySlice_nat] at hp'
    have hmin : min (4 * h1 + 4 * ceilDiv n (32 / bits)) cbuf.length - 4 * h1 = 4 * ceilDiv n (32 / bits) := by omega
    rw [hmin] at hp'
    have hplen : packed.length = ceilDiv n (32 / bits) := by
      have := (fromBuffer_getElem 4 _ packed hp').1
      simp only [List.length_take, List.length_drop] at this
      omega
    have hnone : ¬ ((List.map (fun k => packed[k / (32 / bits)]! / 2 ^ (k % (32 / bits) * bits) % 2 ^ bits)
        (List.range n)).any fun k => decide (lut.length ≤ k)) = true := by
      intro hany
      rw [List.any_eq_true] at hany
      obtain ⟨k, hk, hle⟩ := hany
      obtain ⟨i, hi', rfl⟩ := List.mem_map.mp hk
      have hi'' := List.mem_range.mp hi'
      obtain ⟨v, hv⟩ := hall i hi''
      obtain ⟨idx, _, hw, h8, h4⟩ := decodeIn_some _ _ _ _ _ _ hv
      obtain ⟨w, hww, hidx⟩ := hw hb0
      obtain ⟨p1, p2⟩ := pack_pos bits i hbits
      rw [p1] at hww
      rw [p2] at hidx
      have hq : i / (32 / bits) < packed.length := by rw [hplen]; exact div_lt_ceilDiv n _ i hvp hi''
      have hword := slice_word cbuf h1 _ (i / (32 / bits)) packed hp' hq
      rw [hww] at hword
      have hwe : w = packed[i / (32 / bits)] := Option.some.inj hword
      rw [getElem!_pos packed _ hq, ← hwe, ← hidx] at hle
      have := hentry i hi'' idx (by rw [hidx]; exact Nat.mod_lt _ (Nat.two_pow_pos _)) ⟨h8, h4⟩
      simp at hle
      omega
    simp only [hnone]
    exact ⟨_, rfl⟩


set_option maxRecDepth 8000 in
/-- CHANNEL LEVEL: in the words `_encode_channel` produces, EVERY position of EVERY (full, padded)
    block can be decoded by the specification's procedure; and the header table is complete -/
theorem channel_blocks_decode (itemsize : Nat) (hi : itemsize = 4 ∨ itemsize = 8) (s : Shape) (bk : Blk3)
    (d : List Nat) (c : Nat) (hbx : 0 < bk.bx) (hby : 0 < bk.by') (hbz : 0 < bk.bz)
    (hvals : ∀ v ∈ d, v < 2 ^ (8 * itemsize))
    (ch : List Nat) (h : encodeChannel itemsize s bk d c = some ch)
    (rd : Nat → Option Nat) (hrd : ∀ k, k < ch.length → rd k = ch[k]?) :
    2 * ((gridOf s bk).1 * (gridOf s bk).2.1 * (gridOf s bk).2.2) ≤ ch.length ∧
    ∀ bi, bi < (gridOf s bk).1 * (gridOf s bk).2.1 * (gridOf s bk).2.2 →
      ∃ h0 h1, rd (2 * bi) = some h0 ∧ rd (2 * bi + 1) = some h1 ∧ specBitsOk (h0 / 2 ^ 24) = true ∧
        ∀ i, i < bk.bx * bk.by' * bk.bz →
          ∃ v, decodeIn itemsize (fun k => rd (h0 % 2 ^ 24 + k)) (fun k => rd (h1 + k)) (h0 / 2 ^ 24) i = some v := by
  unfold encodeChannel at h
  simp only at h
  cases hm : (blockCoords (gridOf s bk)).mapM
      (fun x => encodeBlock itemsize (blockVals s bk d c x.1 x.2.1 x.2.2)) with
  | none => simp [hm] at h
  | some blks =>
    simp only [hm] at h
    split at h
    · simp at h
    · rename_i hany
      injection h with h
      generalize hg : gridOf s bk = g at *
      obtain ⟨hlen, hblk⟩ := mapM_some _ _ _ hm
      have hcl : (blockCoords g).length = g.1 * g.2.1 * g.2.2 := by
        rw [blockCoords_length]; ring
      generalize hacc : blks.foldl (stepBlk (2 * (g.1 * g.2.1 * g.2.2))) { body := [], luts := [], hdrs := [] } = a at *
      have good := good_run (2 * (g.1 * g.2.1 * g.2.2)) blks _ [] (good_init _)
      rw [hacc, List.nil_append] at good
      have hhl : a.hdrs.length = blks.length := good.len
      have hH : (hdrWords a.hdrs).length = 2 * (g.1 * g.2.1 * g.2.2) := by
        rw [hdrWords_length, hhl, hlen, hcl]
      have hch : ch = hdrWords a.hdrs ++ a.body := by rw [← h]; rfl
      have hchlen : (hdrWords a.hdrs).length ≤ ch.length := by rw [hch, List.length_append]; omega
      refine ⟨by omega, ?_⟩
      intro bi hbilt
      have hbic : bi < (blockCoords g).length := by omega
      have hbib : bi < blks.length := by omega
      have hbih : bi < a.hdrs.length := by omega
      have henc := hblk bi hbic hbib
      obtain ⟨hbits, hrl, hrv⟩ := good.hdrs bi hbib hbih
      rw [← hH] at hrl hrv
      obtain ⟨hw0, hw1⟩ := hdrWords_getElem a.hdrs bi hbih
      have hsmall : a.hdrs[bi].1 < 2 ^ 24 := by
        have : ¬ (2 ^ 24 ≤ a.hdrs[bi].1 ∨ 2 ^ 32 ≤ a.hdrs[bi].2.2) := by
          intro hc
          apply hany
          rw [List.any_eq_true]
          exact ⟨a.hdrs[bi], List.getElem_mem _, by simpa using hc⟩
        omega
      have r0 : rd (2 * bi) = some (a.hdrs[bi].1 + a.hdrs[bi].2.1 * 2 ^ 24) := by
        rw [hrd _ (by rw [hdrWords_length] at hchlen; omega), hch,
          List.getElem?_append_left (by rw [hdrWords_length]; omega)]; exact hw0
      have r1 : rd (2 * bi + 1) = some a.hdrs[bi].2.2 := by
        rw [hrd _ (by rw [hdrWords_length] at hchlen; omega), hch,
          List.getElem?_append_left (by rw [hdrWords_length]; omega)]; exact hw1
      have e1 : (a.hdrs[bi].1 + a.hdrs[bi].2.1 * 2 ^ 24) % 2 ^ 24 = a.hdrs[bi].1 := by
        rw [Nat.add_mul_mod_self_right, Nat.mod_eq_of_lt hsmall]
      have e2 : (a.hdrs[bi].1 + a.hdrs[bi].2.1 * 2 ^ 24) / 2 ^ 24 = blks[bi].bits := by
        rw [Nat.add_mul_div_right _ _ (Nat.two_pow_pos 24), Nat.div_eq_of_lt hsmall, Nat.zero_add, hbits]
      have hvl : (blockVals s bk d c (blockCoords g)[bi].1 (blockCoords g)[bi].2.1 (blockCoords g)[bi].2.2).length
          = bk.bx * bk.by' * bk.bz := by
        rw [blockVals_length]; ring
      have hok0 := (block_decodes itemsize hi _
        (blockVals_bound s bk d _ (Nat.two_pow_pos _) hvals c _ _ _) blks[bi] henc 0 (by
          rw [hvl]
          exact Nat.mul_pos (Nat.mul_pos hbx hby) hbz)).1
      refine ⟨_, _, r0, r1, by rw [e2]; exact hok0, ?_⟩
      intro i hilt
      have hil : i < (blockVals s bk d c (blockCoords g)[bi].1 (blockCoords g)[bi].2.1
          (blockCoords g)[bi].2.2).length := by rw [hvl]; exact hilt
      obtain ⟨_, hdec⟩ := block_decodes itemsize hi _
        (blockVals_bound s bk d _ (Nat.two_pow_pos _) hvals c _ _ _) blks[bi] henc i hil
      refine ⟨(blockVals s bk d c (blockCoords g)[bi].1 (blockCoords g)[bi].2.1 (blockCoords g)[bi].2.2)[i], ?_⟩
      rw [e1, e2]
      apply decodeIn_congr itemsize blks[bi].lut blks[bi].vals _ _ _ _ _ _ _ hdec
      · intro k hk
        obtain ⟨q1, q2⟩ := readsAt_channel _ _ _ _ hrl k hk
        rw [hrd _ (by rw [hch]; exact q2), hch]; exact q1
      · intro k hk
        obtain ⟨q1, q2⟩ := readsAt_channel _ _ _ _ hrv k hk
        rw [hrd _ (by rw [hch]; exact q2), hch]; exact q1


theorem mapM_ok_of_all_ok {α β} (f : α → Except Err β) : ∀ (l : List α),
    (∀ x ∈ l, ∃ y, f x = .ok y) → ∃ ys, l.mapM f = .ok ys
  | [], _ => ⟨[], rfl⟩
  | a :: t, h => by
    obtain ⟨y, hy⟩ := h a List.mem_cons_self
    obtain ⟨ys, hys⟩ := mapM_ok_of_all_ok f t (fun x hx => h x (List.mem_cons_of_mem _ hx))
    exact ⟨y :: ys, by rw [List.mapM_cons, hy, hys]; rfl⟩

theorem sum_ge_of_all_ge (l : List Nat) (m : Nat) (h : ∀ x ∈ l, m ≤ x) : l.length * m ≤ l.sum := by
  induction l with
  | nil => simp
  | cons a t ih =>
    have := ih (fun x hx => h x (List.mem_cons_of_mem _ hx))
    have ha := h a List.mem_cons_self
    simp only [List.length_cons, List.sum_cons]
    rw [Nat.add_mul, Nat.one_mul]
    omega

set_option maxRecDepth 8000 in
/-- the package's decoder does not refuse the bytes its encoder produces -/
theorem implDecode_accepts_encode (itemsize : Nat) (hi : itemsize = 4 ∨ itemsize = 8) (s : Shape) (bk : Blk3)
    (d : List Nat) (hbx : 0 < bk.bx) (hby : 0 < bk.by') (hbz : 0 < bk.bz)
    (hvals : ∀ v ∈ d, v < 2 ^ (8 * itemsize))
    (file : Bytes) (h : encode itemsize s bk d = some file) :
    ∃ a, implDecode itemsize s bk file = .ok a := by
  unfold encode at h
  cases hw : encodeWords itemsize s bk d with
  | none => simp [hw] at h
  | some ws =>
    simp only [hw] at h
    split at h
    · rename_i hall
      injection h with h
      subst h
      have hsmall : ∀ w ∈ ws, w < 2 ^ 32 := by
        intro w hwm
        have := List.all_eq_true.mp hall w hwm
        simpa using this
      unfold encodeWords at hw
      cases hm : (List.range s.c).mapM (fun c => encodeChannel itemsize s bk d c) with
      | none => simp [hm] at hw
      | some chans =>
        simp only [hm, Option.some.injEq] at hw
        obtain ⟨hlen, hch⟩ := mapM_some _ _ _ hm
        have hcl : chans.length = s.c := by simpa using hlen
        have hsl : (starts s.c (chans.map (·.length))).length = s.c := by
          rw [starts_length]; simpa using hcl
        generalize hg : gridOf s bk = g at *
        generalize hng : g.1 * g.2.1 * g.2.2 = ng at *
        -- every channel holds at least its header table
        have hchlen : ∀ c (hc : c < chans.length), 2 * ng ≤ (chans[c]).length := by
          intro c hc
          have henc := hch c (by omega) hc
          simp only [List.getElem_range] at henc
          have := (channel_blocks_decode itemsize hi s bk d c hbx hby hbz hvals _ henc
            (fun k => (chans[c])[k]?) (fun k _ => rfl)).1
          rw [hg, hng] at this
          exact this
        have hsum : chans.length * (2 * ng) ≤ (chans.map (·.length)).sum := by
          have := sum_ge_of_all_ge (chans.map (·.length)) (2 * ng) (by
            intro x hx
            obtain ⟨ch, hchm, rfl⟩ := List.mem_map.mp hx
            obtain ⟨c, hc, rfl⟩ := List.getElem_of_mem hchm
            exact hchlen c hc)
          simpa using this
        have hwl : ws.length = s.c + (chans.map (·.length)).sum := by
          rw [← hw, List.length_append, hsl, List.length_flatten]
        have hfl : (toBytes ws).length = 4 * ws.length := toBytes_length ws
        unfold implDecode
        simp only [hg, hng]
        have hlen1 : ¬ (toBytes ws).length < s.c * (4 + 8 * ng) := by
          rw [hfl, hwl]
          have : s.c * (4 + 8 * ng) = 4 * s.c + 4 * (s.c * (2 * ng)) := by ring
          rw [this, ← hcl]
          omega
        simp only [hlen1, if_false]
        obtain ⟨ys, hys⟩ := mapM_ok_of_all_ok (implChannel itemsize s bk (toBytes ws)) (List.range s.c) (by
          intro c hcm
          have hc : c < s.c := List.mem_range.mp hcm
          have hcc : c < chans.length := by omega
          have henc := hch c (by simpa using hc) hcc
          simp only [List.getElem_range] at henc
          -- the channel offset word
          have hoff : ws[c]? = some (s.c + ((chans.map (·.length)).take c).sum) := by
            rw [← hw, List.getElem?_append_left (by omega),
              List.getElem?_eq_getElem (by omega),
              starts_getElem s.c _ c (by simpa using hcc)]
          have hchan : ∀ k, k < (chans[c]).length →
              ws[s.c + ((chans.map (·.length)).take c).sum + k]? = (chans[c])[k]? := by
            intro k hk
            have hdrop := drop_flatten_append chans [] c hcc 0 (Nat.zero_le _)
            simp only [List.append_nil, List.drop_zero, Nat.add_zero] at hdrop
            have e : s.c + ((chans.map (·.length)).take c).sum + k
                = (starts s.c (chans.map (·.length))).length + (((chans.take c).map List.length).sum + k) := by
              rw [hsl, List.map_take, Nat.add_assoc]
            rw [← hw, e, List.getElem?_append_right (by omega)]
            have e2 : (starts s.c (chans.map (·.length))).length + (((chans.take c).map List.length).sum + k)
                - (starts s.c (chans.map (·.length))).length = ((chans.take c).map List.length).sum + k := by omega
            rw [e2, ← List.getElem?_drop, hdrop, List.getElem?_append_left hk]
          generalize hco : s.c + ((chans.map (·.length)).take c).sum = chOff at hoff hchan
          have hcw : w32 (toBytes ws) c = some chOff := by rw [w32_toBytes ws hsmall, hoff]
          have hc4 := w32_bound _ _ _ hcw
          have hlv : leVal (((toBytes ws).drop (4 * c)).take 4) = chOff := by
            have := w32_some (toBytes ws) c hc4
            rw [hcw] at this
            exact (Option.some.inj this).symm
          have hpart := sum_take_add_le (chans.map (·.length)) c (by simpa using hcc)
          simp only [List.getElem_map] at hpart
          have h2ng := hchlen c hcc
          unfold implChannel
          simp only [hg, hng, hlv]
          have hoffok : ¬ (4 * chOff + 8 * ng > (toBytes ws).length) := by
            rw [hfl, hwl, ← hco]; omega
          simp only [hoffok, if_false]
          -- every block
          have hrd : ∀ k, k < (chans[c]).length → w32 ((toBytes ws).drop (4 * chOff)) k = (chans[c])[k]? := by
            intro k hk
            rw [w32_drop, w32_toBytes ws hsmall, hchan k hk]
          obtain ⟨_, hblocks⟩ := channel_blocks_decode itemsize hi s bk d c hbx hby hbz hvals _ henc _ hrd
          rw [hg, hng] at hblocks
          apply mapM_ok_of_all_ok
          intro bi hbm
          obtain ⟨h0, h1, r0, r1, hok, hall'⟩ := hblocks bi (List.mem_range.mp hbm)
          exact implBlock_complete itemsize hi _ _ bi (Nat.mul_pos (Nat.mul_pos hbx hby) hbz) h0 h1 r0 r1 hok hall')
        rw [hys]
        exact ⟨_, rfl⟩
    · simp at h


/-- ROUND TRIP THROUGH THE PACKAGE'S OWN DECODER: `decode_chunk_into (encode_chunk a) = a`, for every
    chunk shape, block size, label width and label array the encoder accepts -/
theorem implDecode_encode (itemsize : Nat) (hi : itemsize = 4 ∨ itemsize = 8) (s : Shape) (bk : Blk3)
    (d : List Nat) (hbx : 0 < bk.bx) (hby : 0 < bk.by') (hbz : 0 < bk.bz)
    (hvals : ∀ v ∈ d, v < 2 ^ (8 * itemsize)) (hd : d.length = s.c * s.z * s.y * s.x)
    (file : Bytes) (h : encode itemsize s bk d = some file) :
    implDecode itemsize s bk file = .ok d := by
  obtain ⟨a, ha⟩ := implDecode_accepts_encode itemsize hi s bk d hbx hby hbz hvals file h
  have hspec := implDecode_conforms itemsize hi s bk hbx hby hbz file a ha
  rw [specDecode_encode itemsize hi s bk d hbx hby hbz hvals hd file h] at hspec
  rw [ha, Option.some.inj hspec]

end NgVerif.Cseg
