import NgVerif.Proofs.CsegBlock
import NgVerif.Proofs.CsegLayout
import NgVerif.Proofs.CsegIndex
import NgVerif.Proofs.Lists
import NgVerif.Proofs.Bytes
namespace NgVerif.Cseg

/-! ### helpers -/

theorem mapM_some {α β} (f : α → Option β) : ∀ (l : List α) (r : List β), l.mapM f = some r →
    r.length = l.length ∧ ∀ j (hj : j < l.length) (hr : j < r.length), f l[j] = some r[j]
  | [], r, h => by
    simp at h; subst h; exact ⟨rfl, fun j hj => by simp at hj⟩
  | a :: t, r, h => by
    simp only [List.mapM_cons, Option.pure_def, Option.bind_eq_bind] at h
    cases hfa : f a with
    | none => simp [hfa] at h
    | some b =>
      cases ht : t.mapM f with
      | none => simp [hfa, ht] at h
      | some bs =>
        simp [hfa, ht] at h
        subst h
        obtain ⟨h1, h2⟩ := mapM_some f t bs ht
        refine ⟨by simp [h1], ?_⟩
        intro j hj hr
        cases j with
        | zero => simpa using hfa
        | succ j => simpa using h2 j (by simpa using hj) (by simpa using hr)

theorem getElem?_lt_of_some {α} (l : List α) (k : Nat) (v : α) (h : l[k]? = some v) : k < l.length := by
  apply Nat.lt_of_not_le
  intro hge
  rw [List.getElem?_eq_none_iff.mpr hge] at h
  exact absurd h (by simp)

/-- a successful decode only touches words inside the two regions, so any reader that agrees
    with them there gives the same result -/
theorem decodeIn_congr (itemsize : Nat) (lut vals : List Nat) (lutAt valAt : Nat → Option Nat)
    (bits i v : Nat)
    (hl : ∀ k, k < lut.length → lutAt k = lut[k]?) (hv : ∀ k, k < vals.length → valAt k = vals[k]?)
    (h : decodeIn itemsize (fun k => lut[k]?) (fun k => vals[k]?) bits i = some v) :
    decodeIn itemsize lutAt valAt bits i = some v := by
  unfold decodeIn at h ⊢
  -- the index read
  have hidx : ∃ idx, (if bits = 0 then some 0 else
        (vals[i * bits / 32]?).map fun w => w / 2 ^ (i * bits % 32) % 2 ^ bits) = some idx ∧
      (if bits = 0 then some 0 else
        (valAt (i * bits / 32)).map fun w => w / 2 ^ (i * bits % 32) % 2 ^ bits) = some idx := by
    by_cases hb : bits = 0
    · exact ⟨0, by simp [hb], by simp [hb]⟩
    · simp only [hb, if_false] at h ⊢
      cases hw : vals[i * bits / 32]? with
      | none => simp [hw] at h
      | some w =>
        have := getElem?_lt_of_some _ _ _ hw
        exact ⟨w / 2 ^ (i * bits % 32) % 2 ^ bits, by simp, by rw [hv _ this, hw]; simp⟩
  obtain ⟨idx, h1, h2⟩ := hidx
  simp only [h1, Option.bind_eq_bind, Option.bind_some] at h
  simp only [h2, Option.bind_eq_bind, Option.bind_some]
  by_cases h8 : itemsize = 8
  · simp only [h8, if_true] at h ⊢
    cases hlo : lut[2 * idx]? with
    | none => simp [hlo] at h
    | some lo =>
      cases hhi : lut[2 * idx + 1]? with
      | none => simp [hlo, hhi] at h
      | some hi =>
        have a1 := getElem?_lt_of_some _ _ _ hlo
        have a2 := getElem?_lt_of_some _ _ _ hhi
        rw [hl _ a1, hl _ a2, hlo, hhi]
        simpa [hlo, hhi] using h
  · simp only [h8, if_false] at h ⊢
    have a1 := getElem?_lt_of_some _ _ _ h
    rw [hl _ a1, h]

/-! ### bounds on block values -/

theorem foldl_mostFrequent_mem (cnt : Nat → Nat) : ∀ (u : List Nat) (b : Nat),
    u.foldl (fun best v => if cnt best < cnt v then v else best) b = b ∨
    u.foldl (fun best v => if cnt best < cnt v then v else best) b ∈ u
  | [], b => Or.inl rfl
  | a :: t, b => by
    simp only [List.foldl_cons]
    rcases foldl_mostFrequent_mem cnt t (if cnt b < cnt a then a else b) with h | h
    · rw [h]; split
      · right; simp
      · left; rfl
    · right; exact List.mem_cons_of_mem _ h

theorem mostFrequent_bound (l : List Nat) (B : Nat) (hB : 0 < B) (h : ∀ v ∈ l, v < B) :
    mostFrequent l < B := by
  unfold mostFrequent
  simp only
  have hu : ∀ v ∈ uniqueSorted l, v < B := fun v hv => h v ((mem_uniqueSorted l v).mp hv)
  have hhead : (uniqueSorted l).headD 0 < B := by
    cases hq : uniqueSorted l with
    | nil => simpa using hB
    | cons a t => simp only [List.headD_cons]; exact hu a (by rw [hq]; simp)
  rcases foldl_mostFrequent_mem (fun v => l.count v) (uniqueSorted l) ((uniqueSorted l).headD 0) with h1 | h1
  · rw [h1]; exact hhead
  · exact hu _ h1

theorem vox_bound (s : Shape) (d : List Nat) (B : Nat) (hB : 0 < B) (h : ∀ v ∈ d, v < B) (c z y x : Nat) :
    vox s d c z y x < B := by
  unfold vox
  generalize ((c * s.z + z) * s.y + y) * s.x + x = k
  by_cases hk : k < d.length
  · rw [getElem!_pos d k hk]; exact h _ (List.getElem_mem hk)
  · rw [getElem!_neg d k hk]; exact hB

theorem blockVals_bound (s : Shape) (b : Blk3) (d : List Nat) (B : Nat) (hB : 0 < B)
    (h : ∀ v ∈ d, v < B) (c bxi byi bzi : Nat) : ∀ v ∈ blockVals s b d c bxi byi bzi, v < B := by
  intro v hv
  unfold blockVals at hv
  simp only [List.mem_map] at hv
  obtain ⟨cell, _, rfl⟩ := hv
  obtain ⟨dz, dy, dx⟩ := cell
  simp only
  split
  · exact vox_bound s d B hB h _ _ _ _
  · apply mostFrequent_bound _ B hB
    intro w hw
    simp only [List.mem_filterMap] at hw
    obtain ⟨cell', _, hc⟩ := hw
    obtain ⟨dz', dy', dx'⟩ := cell'
    simp only at hc
    split at hc
    · injection hc with hc; rw [← hc]; exact vox_bound s d B hB h _ _ _ _
    · simp at hc

/-! ### one channel -/

/-- unfolding of the channel decoder once the two header words are known -/
theorem chanVoxel_eq (rd : Nat → Option Nat) (itemsize : Nat) (s : Shape) (bk : Blk3) (z y x h0 h1 : Nat)
    (hr0 : rd (2 * (x / bk.bx + (gridOf s bk).1 * (y / bk.by' + (gridOf s bk).2.1 * (z / bk.bz)))) = some h0)
    (hr1 : rd (2 * (x / bk.bx + (gridOf s bk).1 * (y / bk.by' + (gridOf s bk).2.1 * (z / bk.bz))) + 1) = some h1)
    (hok : specBitsOk (h0 / 2 ^ 24) = true) :
    chanVoxel rd itemsize s bk z y x =
      decodeIn itemsize (fun k => rd (h0 % 2 ^ 24 + k)) (fun k => rd (h1 + k)) (h0 / 2 ^ 24)
        (x % bk.bx + bk.bx * (y % bk.by' + bk.by' * (z % bk.bz))) := by
  unfold chanVoxel
  simp only [hr0, hr1, Option.bind_eq_bind, Option.bind_some, hok, Bool.not_true, Bool.false_eq_true,
    if_false]


set_option maxRecDepth 8000 in
/-- CHANNEL LEVEL: the specification decoder, reading the words `_encode_channel` produced,
    returns every voxel of the channel -/
theorem channel_decodes (itemsize : Nat) (hi : itemsize = 4 ∨ itemsize = 8) (s : Shape) (bk : Blk3)
    (d : List Nat) (c : Nat) (hbx : 0 < bk.bx) (hby : 0 < bk.by') (hbz : 0 < bk.bz)
    (hvals : ∀ v ∈ d, v < 2 ^ (8 * itemsize))
    (ch : List Nat) (h : encodeChannel itemsize s bk d c = some ch)
    (rd : Nat → Option Nat) (hrd : ∀ k, k < ch.length → rd k = ch[k]?)
    (z y x : Nat) (hz : z < s.z) (hy : y < s.y) (hx : x < s.x) :
    chanVoxel rd itemsize s bk z y x = some (vox s d c z y x) := by
  unfold encodeChannel at h
  simp only at h
  cases hm : (blockCoords (gridOf s bk)).mapM
      (fun x => encodeBlock itemsize (blockVals s bk d c x.1 x.2.1 x.2.2)) with
  | none => simp [hm] at h
  | some blks =>
    simp only [hm] at h
    split at h
    · simp at h
    · rename_i hany
      injection h with h
      -- names
      generalize hg : gridOf s bk = g at *
      have hgx : x / bk.bx < g.1 := by rw [← hg]; exact div_lt_ceilDiv _ _ _ hbx hx
      have hgy : y / bk.by' < g.2.1 := by rw [← hg]; exact div_lt_ceilDiv _ _ _ hby hy
      have hgz : z / bk.bz < g.2.2 := by rw [← hg]; exact div_lt_ceilDiv _ _ _ hbz hz
      generalize hbi : x / bk.bx + g.1 * (y / bk.by' + g.2.1 * (z / bk.bz)) = bi at *
      obtain ⟨hlen, hblk⟩ := mapM_some _ _ _ hm
      have hcl : (blockCoords g).length = g.1 * g.2.1 * g.2.2 := by
        rw [blockCoords_length]; ring
      have hbilt : bi < g.1 * g.2.1 * g.2.2 := by rw [← hbi]; exact blockIndex_lt g _ _ _ hgx hgy hgz
      have hbic : bi < (blockCoords g).length := by omega
      have hbib : bi < blks.length := by omega
      have hcoord : (blockCoords g)[bi] = (x / bk.bx, y / bk.by', z / bk.bz) := by
        have := blockCoords_getElem g _ _ _ hgx hgy hgz
        rw [hbi, List.getElem?_eq_getElem hbic] at this
        exact Option.some.inj this
      have henc := hblk bi hbic hbib
      rw [hcoord] at henc
      simp only at henc
      -- layout
      generalize hacc : blks.foldl (stepBlk (2 * (g.1 * g.2.1 * g.2.2))) { body := [], luts := [], hdrs := [] } = a at *
      have good := good_run (2 * (g.1 * g.2.1 * g.2.2)) blks _ [] (good_init _)
      rw [hacc, List.nil_append] at good
      have hhl : a.hdrs.length = blks.length := good.len
      have hH : (hdrWords a.hdrs).length = 2 * (g.1 * g.2.1 * g.2.2) := by
        rw [hdrWords_length, hhl, hlen, hcl]
      have hbih : bi < a.hdrs.length := by omega
      obtain ⟨hbits, hrl, hrv⟩ := good.hdrs bi hbib hbih
      rw [← hH] at hrl hrv
      have hch : ch = hdrWords a.hdrs ++ a.body := by rw [← h]; rfl
      obtain ⟨hw0, hw1⟩ := hdrWords_getElem a.hdrs bi hbih
      -- the 24-bit assertion
      have hsmall : a.hdrs[bi].1 < 2 ^ 24 := by
        have : ¬ (2 ^ 24 ≤ a.hdrs[bi].1 ∨ 2 ^ 32 ≤ a.hdrs[bi].2.2) := by
          intro hc
          apply hany
          rw [List.any_eq_true]
          exact ⟨a.hdrs[bi], List.getElem_mem _, by simpa using hc⟩
        omega
      -- block level
      have hi_lt : x % bk.bx + bk.bx * (y % bk.by' + bk.by' * (z % bk.bz))
          < (blockVals s bk d c (x / bk.bx) (y / bk.by') (z / bk.bz)).length := by
        have := blockVals_getElem s bk d c z y x hbx hby hbz hz hy hx
        exact getElem?_lt_of_some _ _ _ this
      have hval : (blockVals s bk d c (x / bk.bx) (y / bk.by') (z / bk.bz))[
          x % bk.bx + bk.bx * (y % bk.by' + bk.by' * (z % bk.bz))] = vox s d c z y x := by
        have := blockVals_getElem s bk d c z y x hbx hby hbz hz hy hx
        rw [List.getElem?_eq_getElem hi_lt] at this
        exact Option.some.inj this
      obtain ⟨hok, hdec⟩ := block_decodes itemsize hi _
        (blockVals_bound s bk d _ (Nat.two_pow_pos _) hvals c _ _ _) blks[bi] henc _ hi_lt
      rw [hval] at hdec
      -- run the channel decoder
      have hchlen : (hdrWords a.hdrs).length ≤ ch.length := by rw [hch, List.length_append]; omega
      have r0 : rd (2 * bi) = some (a.hdrs[bi].1 + a.hdrs[bi].2.1 * 2 ^ 24) := by
        rw [hrd _ (by rw [hdrWords_length] at hchlen; omega), hch,
          List.getElem?_append_left (by rw [hdrWords_length]; omega)]; exact hw0
      have r1 : rd (2 * bi + 1) = some a.hdrs[bi].2.2 := by
        rw [hrd _ (by rw [hdrWords_length] at hchlen; omega), hch,
          List.getElem?_append_left (by rw [hdrWords_length]; omega)]; exact hw1
      have e1 : (a.hdrs[bi].1 + a.hdrs[bi].2.1 * 2 ^ 24) % 2 ^ 24 = a.hdrs[bi].1 := by
        rw [Nat.add_mul_mod_self_right, Nat.mod_eq_of_lt hsmall]
      have e2 : (a.hdrs[bi].1 + a.hdrs[bi].2.1 * 2 ^ 24) / 2 ^ 24 = blks[bi].bits := by
        rw [Nat.add_mul_div_right _ _ (Nat.two_pow_pos 24), Nat.div_eq_of_lt hsmall, Nat.zero_add, hbits]
      rw [chanVoxel_eq rd itemsize s bk z y x _ _
        (by rw [hg, hbi]; exact r0) (by rw [hg, hbi]; exact r1) (by rw [e2]; exact hok), e1, e2]
      apply decodeIn_congr itemsize blks[bi].lut blks[bi].vals _ _ _ _ _ _ _ hdec
      · intro k hk
        obtain ⟨q1, q2⟩ := readsAt_channel _ _ _ _ hrl k hk
        rw [hrd _ (by rw [hch]; exact q2), hch]; exact q1
      · intro k hk
        obtain ⟨q1, q2⟩ := readsAt_channel _ _ _ _ hrv k hk
        rw [hrd _ (by rw [hch]; exact q2), hch]; exact q1


/-! ### words and bytes -/

theorem toBytes_length (ws : List Nat) : (toBytes ws).length = 4 * ws.length := by
  induction ws with
  | nil => rfl
  | cons a t ih =>
    simp only [toBytes, List.flatMap_cons, List.length_append, leBytes_length, List.length_cons] at *
    omega

theorem w32_toBytes : ∀ (ws : List Nat), (∀ w ∈ ws, w < 2 ^ 32) → ∀ k, w32 (toBytes ws) k = ws[k]?
  | [], _, k => by simp [w32, toBytes]
  | a :: t, h, 0 => by
    have ha : a < 256 ^ 4 := by have := h a (by simp); omega
    simp only [w32, toBytes_length, List.length_cons, Nat.mul_zero, List.drop_zero, List.getElem?_cons_zero]
    rw [if_pos (by omega)]
    simp only [toBytes, List.flatMap_cons]
    rw [List.take_append_of_le_length (by simp [leBytes_length]),
      List.take_of_length_le (by simp [leBytes_length]), leVal_leBytes 4 a ha]
  | a :: t, h, k+1 => by
    have ih := w32_toBytes t (fun w hw => h w (by simp [hw])) k
    simp only [w32, toBytes_length, List.length_cons, List.getElem?_cons_succ] at ih ⊢
    have e : 4 * (k + 1) = (leBytes 4 a).length + 4 * k := by simp [leBytes_length]; omega
    have hd : (toBytes (a :: t)).drop (4 * (k + 1)) = (toBytes t).drop (4 * k) := by
      simp only [toBytes, List.flatMap_cons]
      rw [e, List.drop_append]
      simp [leBytes_length]
    rw [hd, ← ih]
    by_cases hc : 4 * k + 4 ≤ 4 * t.length
    · rw [if_pos (by omega), if_pos hc]
    · rw [if_neg (by omega), if_neg hc]

/-! ### the whole file -/

/-- FILE LEVEL: the specification decoder recovers every voxel from the bytes `encode_chunk`
    produces -/
theorem file_decodes (itemsize : Nat) (hi : itemsize = 4 ∨ itemsize = 8) (s : Shape) (bk : Blk3)
    (d : List Nat) (hbx : 0 < bk.bx) (hby : 0 < bk.by') (hbz : 0 < bk.bz)
    (hvals : ∀ v ∈ d, v < 2 ^ (8 * itemsize))
    (file : Bytes) (h : encode itemsize s bk d = some file)
    (c z y x : Nat) (hc : c < s.c) (hz : z < s.z) (hy : y < s.y) (hx : x < s.x) :
    specVoxel itemsize s bk file c z y x = some (vox s d c z y x) ∧ file.length % 4 = 0 := by
  unfold encode at h
  cases hw : encodeWords itemsize s bk d with
  | none => simp [hw] at h
  | some ws =>
    simp only [hw] at h
    split at h
    · rename_i hall
      injection h with h
      subst h
      have hsmall : ∀ w ∈ ws, w < 2 ^ 32 := by
        intro w hwm
        have := List.all_eq_true.mp hall w hwm
        simpa using this
      refine ⟨?_, by rw [toBytes_length]; omega⟩
      unfold encodeWords at hw
      cases hm : (List.range s.c).mapM (fun c => encodeChannel itemsize s bk d c) with
      | none => simp [hm] at hw
      | some chans =>
        simp only [hm, Option.some.injEq] at hw
        obtain ⟨hlen, hch⟩ := mapM_some _ _ _ hm
        have hcl : chans.length = s.c := by simpa using hlen
        have hcc : c < chans.length := by omega
        have henc := hch c (by simpa using hc) hcc
        simp only [List.getElem_range] at henc
        have hsl : (starts s.c (chans.map (·.length))).length = s.c := by
          rw [starts_length]; simpa using hcl
        -- the channel offset word
        have hoff : ws[c]? = some (s.c + ((chans.map (·.length)).take c).sum) := by
          rw [← hw, List.getElem?_append_left (by omega),
            List.getElem?_eq_getElem (by omega),
            starts_getElem s.c _ c (by simpa using hcc)]
        -- words of the channel
        have hchan : ∀ k, k < (chans[c]).length →
            ws[s.c + ((chans.map (·.length)).take c).sum + k]? = (chans[c])[k]? := by
          intro k hk
          have hdrop := drop_flatten_append chans [] c hcc 0 (Nat.zero_le _)
          simp only [List.append_nil, List.drop_zero, Nat.add_zero] at hdrop
          have e : s.c + ((chans.map (·.length)).take c).sum + k
              = (starts s.c (chans.map (·.length))).length + (((chans.take c).map List.length).sum + k) := by
            rw [hsl, List.map_take, Nat.add_assoc]
          rw [← hw, e, List.getElem?_append_right (by omega)]
          have e2 : (starts s.c (chans.map (·.length))).length + (((chans.take c).map List.length).sum + k)
              - (starts s.c (chans.map (·.length))).length = ((chans.take c).map List.length).sum + k := by omega
          rw [e2, ← List.getElem?_drop, hdrop, List.getElem?_append_left hk]
        unfold specVoxel specVoxelR
        simp only [w32_toBytes ws hsmall, hoff, Option.bind_eq_bind, Option.bind_some]
        exact channel_decodes itemsize hi s bk d c hbx hby hbz hvals _ henc _ hchan z y x hz hy hx
    · simp at h

end NgVerif.Cseg
