import NgVerif.Model.CsegDecode
namespace NgVerif.Cseg

/-- `l` can be read from `body` at word offset `o` (relative to the channel start; the header
    table of `H` words precedes `body`) -/
def ReadsAt (H : Nat) (body : List Nat) (o : Nat) (l : List Nat) : Prop :=
  H ≤ o ∧ ∀ i, i < l.length → body[o - H + i]? = l[i]?

theorem ReadsAt.mono {H body o l} (more : List Nat) (h : ReadsAt H body o l) :
    ReadsAt H (body ++ more) o l := by
  refine ⟨h.1, fun i hi => ?_⟩
  have h2 := h.2 i hi
  have hlt : o - H + i < body.length := by
    apply Nat.lt_of_not_le
    intro hge
    have hn : body[o - H + i]? = none := List.getElem?_eq_none_iff.mpr hge
    rw [h2] at hn
    have : l[i]? ≠ none := by
      rw [List.getElem?_eq_getElem hi]; simp
    exact this hn
  rw [List.getElem?_append_left hlt, h2]

theorem readsAt_end (H : Nat) (body l : List Nat) : ReadsAt H (body ++ l) (H + body.length) l := by
  refine ⟨by omega, fun i hi => ?_⟩
  have : H + body.length - H + i = body.length + i := by omega
  rw [this, List.getElem?_append_right (by omega)]
  simp

/-- block `b` is correctly described by header entry `h` in `body` -/
def HdrOk (H : Nat) (body : List Nat) (h : Nat × Nat × Nat) (b : EncBlk) : Prop :=
  h.2.1 = b.bits ∧ ReadsAt H body h.1 b.lut ∧ ReadsAt H body h.2.2 b.vals

structure Good (H : Nat) (a : Acc) (done : List EncBlk) : Prop where
  luts : ∀ l o, (l, o) ∈ a.luts → ReadsAt H a.body o l
  len : a.hdrs.length = done.length
  hdrs : ∀ t (ht : t < done.length) (ht' : t < a.hdrs.length), HdrOk H a.body a.hdrs[t] done[t]

theorem findLut_mem {luts : List (List Nat × Nat)} {k : List Nat} {o : Nat}
    (h : findLut luts k = some o) : (k, o) ∈ luts := by
  induction luts with
  | nil => simp [findLut] at h
  | cons hd t ih =>
    obtain ⟨l, o'⟩ := hd
    by_cases e : l = k
    · simp [findLut, e] at h; subst h; subst e; simp
    · simp [findLut, e] at h; exact List.mem_cons_of_mem _ (ih h)

theorem good_step (H : Nat) (a : Acc) (done : List EncBlk) (b : EncBlk) (g : Good H a done) :
    Good H (stepBlk H a b) (done ++ [b]) := by
  unfold stepBlk
  cases hf : findLut a.luts b.lut with
  | some o =>
    have hmem := findLut_mem hf
    have hro := g.luts _ _ hmem
    constructor
    · intro l o' hm
      exact (g.luts l o' hm).mono _
    · simp [g.len]
    · intro t ht ht'
      simp only [List.length_append, List.length_singleton] at ht
      by_cases e : t < done.length
      · have e' : t < a.hdrs.length := by rw [g.len]; exact e
        rw [List.getElem_append_left e', List.getElem_append_left e]
        obtain ⟨h1, h2, h3⟩ := g.hdrs t e e'
        exact ⟨h1, h2.mono _, h3.mono _⟩
      · have e2 : t = done.length := by omega
        subst e2
        have e3 : done.length = a.hdrs.length := g.len.symm
        simp only [e3, List.getElem_append_right (Nat.le_refl _), Nat.sub_self, List.getElem_cons_zero]
        have : (done ++ [b])[a.hdrs.length]'(by simp [e3]) = b := by
          simp [← e3]
        rw [this]
        exact ⟨rfl, hro.mono _, readsAt_end H a.body b.vals⟩
  | none =>
    constructor
    · intro l o' hm
      rcases List.mem_cons.mp hm with hm | hm
      · cases hm
        exact (readsAt_end H a.body b.lut).mono _
      · exact ((g.luts l o' hm).mono b.lut).mono _
    · simp [g.len]
    · intro t ht ht'
      simp only [List.length_append, List.length_singleton] at ht
      by_cases e : t < done.length
      · have e' : t < a.hdrs.length := by rw [g.len]; exact e
        rw [List.getElem_append_left e', List.getElem_append_left e]
        obtain ⟨h1, h2, h3⟩ := g.hdrs t e e'
        exact ⟨h1, (h2.mono _).mono _, (h3.mono _).mono _⟩
      · have e2 : t = done.length := by omega
        subst e2
        have e3 : done.length = a.hdrs.length := g.len.symm
        simp only [e3, List.getElem_append_right (Nat.le_refl _), Nat.sub_self, List.getElem_cons_zero]
        have : (done ++ [b])[a.hdrs.length]'(by simp [e3]) = b := by
          simp [← e3]
        rw [this]
        exact ⟨rfl, (readsAt_end H a.body b.lut).mono _, readsAt_end H (a.body ++ b.lut) b.vals⟩

theorem good_run (H : Nat) : ∀ (blks : List EncBlk) (a : Acc) (done : List EncBlk),
    Good H a done → Good H (blks.foldl (stepBlk H) a) (done ++ blks)
  | [], a, done, g => by simpa using g
  | b :: bs, a, done, g => by
    have := good_run H bs (stepBlk H a b) (done ++ [b]) (good_step H a done b g)
    simpa [List.append_assoc] using this

theorem good_init (H : Nat) : Good H { body := [], luts := [], hdrs := [] } [] :=
  ⟨by intro l o h; simp at h, rfl, by intro t ht; simp at ht⟩

/-! ### the channel as a word list: header table ++ body -/

def hdrWords (hdrs : List (Nat × Nat × Nat)) : List Nat :=
  hdrs.flatMap fun h => [h.1 + h.2.1 * 2 ^ 24, h.2.2]

theorem hdrWords_length (hdrs : List (Nat × Nat × Nat)) : (hdrWords hdrs).length = 2 * hdrs.length := by
  induction hdrs with
  | nil => rfl
  | cons a t ih => simp only [hdrWords, List.flatMap_cons, List.length_append, List.length_cons,
      List.length_nil] at *; omega

theorem hdrWords_getElem : ∀ (hdrs : List (Nat × Nat × Nat)) (j : Nat) (hj : j < hdrs.length),
    (hdrWords hdrs)[2 * j]? = some (hdrs[j].1 + hdrs[j].2.1 * 2 ^ 24) ∧
    (hdrWords hdrs)[2 * j + 1]? = some hdrs[j].2.2
  | [], j, hj => by simp at hj
  | a :: t, 0, _ => by simp [hdrWords]
  | a :: t, j+1, hj => by
    have ih := hdrWords_getElem t j (by simpa using hj)
    have e1 : 2 * (j + 1) = 2 * j + 1 + 1 := by omega
    simp only [hdrWords, List.flatMap_cons, List.cons_append, List.nil_append,
      List.getElem_cons_succ] at ih ⊢
    rw [e1]
    simpa using ih

/-- reading a region recorded by `ReadsAt` from the whole channel (and the read is in range) -/
theorem readsAt_channel (hw body : List Nat) (o : Nat) (l : List Nat)
    (h : ReadsAt hw.length body o l) (k : Nat) (hk : k < l.length) :
    (hw ++ body)[o + k]? = l[k]? ∧ o + k < (hw ++ body).length := by
  obtain ⟨h1, h2⟩ := h
  have e : o + k - hw.length = o - hw.length + k := by omega
  have hin : o - hw.length + k < body.length := by
    apply Nat.lt_of_not_le
    intro hge
    have hn : body[o - hw.length + k]? = none := List.getElem?_eq_none_iff.mpr hge
    rw [h2 k hk, List.getElem?_eq_getElem hk] at hn
    exact absurd hn (by simp)
  constructor
  · rw [List.getElem?_append_right (by omega), e, h2 k hk]
  · rw [List.length_append]; omega

end NgVerif.Cseg
