import NgVerif.Model.Slices
import NgVerif.Proofs.Tiling
/-
  Slices: the chunk loop of `slices_to_raw_chunks` stores at every output position the input pixel the
  orientation code designates (C15).
-/
namespace NgVerif.Slices
open NgVerif.Tiling

theorem flip_flip (s : Int) (n i : Nat) (hi : i < n) :
    flipIdx s n (flipIdx s n i) = i ∧ flipIdx s n i < n := by
  unfold flipIdx
  split <;> simp_all <;> omega

theorem group_pos (n cs g k : Nat) (reversed : Bool)
    (hk : k < min (cs * (g + 1)) n - cs * g) :
    flipIdx (if reversed then -1 else 1) n ((groupFiles n cs g reversed).getD k 0) = cs * g + k ∧
    (groupFiles n cs g reversed).getD k 0 < n := by
  unfold groupFiles flipIdx
  have hlt : k < ((List.range (min (cs * (g + 1)) n - cs * g)).map fun k =>
      if reversed = true then n - 1 - (cs * g + k) else cs * g + k).length := by simpa using hk
  have e : ((List.range (min (cs * (g + 1)) n - cs * g)).map fun k =>
      if reversed = true then n - 1 - (cs * g + k) else cs * g + k).getD k 0
      = if reversed = true then n - 1 - (cs * g + k) else cs * g + k := by
    rw [List.getD_eq_getElem?_getD, List.getElem?_eq_getElem hlt]
    simp
  rw [e]
  cases reversed <;> simp <;> omega

theorem flipIdx_sign (s : Int) (n i : Nat) : flipIdx s n i = flipIdx (if (s == -1) = true then -1 else 1) n i := by
  unfold flipIdx
  by_cases h : s = -1 <;> simp [h]

theorem axis_core (s : Int) (n cs j d : Nat) (hd : d < min (cs * (j + 1)) n - cs * j) :
    cs * j + d < n ∧ flipIdx s n (flipIdx s n (cs * j + d)) = cs * j + d ∧ flipIdx s n (cs * j + d) < n := by
  have h : cs * j + d < n := by
    have := Nat.min_le_right (cs * (j + 1)) n
    omega
  exact ⟨h, flip_flip s n _ h⟩

theorem slice_core (s : Int) (n cs g d : Nat) (hd : d < min (cs * (g + 1)) n - cs * g) :
    cs * g + d < n ∧
    flipIdx s n ((groupFiles n cs g (s == -1)).getD (cs * g + d - cs * g) 0) = cs * g + d ∧
    (groupFiles n cs g (s == -1)).getD (cs * g + d - cs * g) 0 < n := by
  have h : cs * g + d < n := by
    have := Nat.min_le_right (cs * (g + 1)) n
    omega
  rw [Nat.add_sub_cancel_left, flipIdx_sign]
  exact ⟨h, group_pos n cs g d (s == -1) hd⟩

theorem slice_core' (s : Int) (n cs g d : Nat) (hd : d < min (cs * (g + 1)) n - cs * g) :
    cs * g + d < n ∧
    flipIdx s n ((groupFiles n cs g (s == -1))[d]?.getD 0) = cs * g + d ∧
    (groupFiles n cs g (s == -1))[d]?.getD 0 < n := by
  have := slice_core s n cs g d hd
  simpa [List.getD_eq_getElem?_getD] using this

theorem mem_boxVoxels (bx by' bz : Nat × Nat) (o : List Nat) :
    o ∈ boxVoxels [bx, by', bz] ↔ ∃ dz < bz.2 - bz.1, ∃ dy < by'.2 - by'.1, ∃ dx < bx.2 - bx.1,
      o = [bx.1 + dx, by'.1 + dy, bz.1 + dz] := by
  simp only [boxVoxels, List.getD_cons_zero, List.getD_cons_succ, List.mem_flatMap, List.mem_map, List.mem_range]
  constructor
  · rintro ⟨dz, hz, dy, hy, dx, hx, rfl⟩; exact ⟨dz, hz, dy, hy, dx, hx, rfl⟩
  · rintro ⟨dz, hz, dy, hy, dx, hx, rfl⟩; exact ⟨dz, hz, dy, hy, dx, hx, rfl⟩

/-- the six axis permutations -/
def sixPerms : List (List Nat) := [[0, 1, 2], [0, 2, 1], [1, 0, 2], [1, 2, 0], [2, 0, 1], [2, 1, 0]]

/-- what one written chunk must satisfy: as many pixels as positions, and at every position `o` of its
    box (C order) the stored input pixel `p` is inside the input stack, `o` is inside the volume, and `p`
    is the pixel the orientation designates for `o` (`outCoord p = o`) -/
def ChunkGood (perm : List Nat) (inv : List Int) (size : List Nat) (ch : SChunk) : Prop :=
  ch.pix.length = (boxVoxels ch.box).length ∧
  ∀ k, k < (boxVoxels ch.box).length →
    let o := (boxVoxels ch.box).getD k []
    let p := ch.pix.getD k []
    let nIn := permute size perm 0
    outCoord perm inv nIn p = o ∧
    (o.getD 0 0 < size.getD 0 0 ∧ o.getD 1 0 < size.getD 1 0 ∧ o.getD 2 0 < size.getD 2 0) ∧
    (p.getD 0 0 < nIn.getD 0 0 ∧ p.getD 1 0 < nIn.getD 1 0 ∧ p.getD 2 0 < nIn.getD 2 0)

set_option hygiene false in
/-- one permutation: unfold the loop, name the chunk and the position, feed the per-axis facts to simp -/
macro "slices_case" e:term : tactic => `(tactic| (
  have e := $e
  simp only [stackChunks, e, permute, List.mem_flatMap, List.mem_map, List.mem_range, Tiling.ranges,
    List.map_cons, List.map_nil, List.getD_cons_zero, List.getD_cons_succ] at hch
  obtain ⟨g, hg, rr, ⟨j1, hj1, rfl⟩, cr, ⟨j0, hj0, rfl⟩, rfl⟩ := hch
  refine ⟨by simp, ?_⟩
  intro k hk
  simp only [List.getD_eq_getElem?_getD, List.getElem?_map, List.getElem?_eq_getElem hk, Option.map_some,
    Option.getD_some]
  have ho := List.getElem_mem hk
  generalize (boxVoxels _)[k] = o at ho ⊢
  rw [mem_boxVoxels] at ho
  obtain ⟨dz, hz, dy, hy, dx, hx, rfl⟩ := ho
  simp only at hz hy hx
  have a0x := axis_core i0 _ _ _ _ hx; have a1x := axis_core i1 _ _ _ _ hx; have a2x := slice_core' i2 _ _ _ _ hx
  have a0y := axis_core i0 _ _ _ _ hy; have a1y := axis_core i1 _ _ _ _ hy; have a2y := slice_core' i2 _ _ _ _ hy
  have a0z := axis_core i0 _ _ _ _ hz; have a1z := axis_core i1 _ _ _ _ hz; have a2z := slice_core' i2 _ _ _ _ hz
  simp [outCoord, pixelAt, permute, List.range_succ, List.find?, a0x, a1x, a2x, a0y, a1y, a2y, a0z, a1z, a2z]))

/-- EVERY chunk written by the loop is good, for each of the six axis permutations, every combination
    of reversed axes, every stack size and every chunk size -/
theorem stackChunks_good (perm : List Nat) (hp : perm ∈ sixPerms) (i0 i1 i2 : Int)
    (s0 s1 s2 c0 c1 c2 : Nat) (ch : SChunk)
    (hch : ch ∈ stackChunks perm [i0, i1, i2] [s0, s1, s2] [c0, c1, c2]) :
    ChunkGood perm [i0, i1, i2] [s0, s1, s2] ch := by
  unfold ChunkGood
  simp only [sixPerms, List.mem_cons, List.not_mem_nil, or_false] at hp
  rcases hp with rfl | rfl | rfl | rfl | rfl | rfl
  · slices_case (by decide : invertPerm [0, 1, 2] = [0, 1, 2])
  · slices_case (by decide : invertPerm [0, 2, 1] = [0, 2, 1])
  · slices_case (by decide : invertPerm [1, 0, 2] = [1, 0, 2])
  · slices_case (by decide : invertPerm [1, 2, 0] = [2, 0, 1])
  · slices_case (by decide : invertPerm [2, 0, 1] = [1, 2, 0])
  · slices_case (by decide : invertPerm [2, 1, 0] = [2, 1, 0])

/-! ### every output voxel lies in exactly one written chunk -/

/-- position `o` lies in the box -/
def inBox (box : List (Nat × Nat)) (o : List Nat) : Prop :=
  ∀ ax, ax < 3 → (box.getD ax (0, 0)).1 ≤ o.getD ax 0 ∧ o.getD ax 0 < (box.getD ax (0, 0)).2

theorem inBox3 (a b c : Nat × Nat) (x y z : Nat) :
    inBox [a, b, c] [x, y, z] ↔ (a.1 ≤ x ∧ x < a.2) ∧ (b.1 ≤ y ∧ y < b.2) ∧ (c.1 ≤ z ∧ z < c.2) := by
  unfold inBox
  constructor
  · intro h
    exact ⟨by simpa using h 0 (by omega), by simpa using h 1 (by omega), by simpa using h 2 (by omega)⟩
  · rintro ⟨h0, h1, h2⟩ ax hax
    match ax, hax with
    | 0, _ => simpa using h0
    | 1, _ => simpa using h1
    | 2, _ => simpa using h2

set_option hygiene false in
/-- one permutation: `g`, `j1`, `j0` are the slice-group, row-chunk and column-chunk numbers of the voxel -/
macro "slices_cover" e:term "," g:term "," hg:term "," j1:term "," hj1:term "," j0:term "," hj0:term : tactic =>
  `(tactic| (
  have e := $e
  simp only [stackChunks, e, permute, List.mem_flatMap, List.mem_map, List.mem_range, Tiling.ranges,
    List.map_cons, List.map_nil, List.getD_cons_zero, List.getD_cons_succ]
  refine ⟨_, ⟨$g, $hg, _, ⟨$j1, $hj1, rfl⟩, _, ⟨$j0, $hj0, rfl⟩, rfl⟩, ?_, ?_⟩
  · rw [inBox3]
    exact ⟨(mx _).mpr rfl, (my _).mpr rfl, (mz _).mpr rfl⟩
  · rintro ch' ⟨g, hg, rr, ⟨j1, hj1, rfl⟩, cr, ⟨j0, hj0, rfl⟩, rfl⟩ hin
    rw [inBox3] at hin
    obtain ⟨h1, h2, h3⟩ := hin
    have := (mx _).mp h1; have := (my _).mp h2; have := (mz _).mp h3
    subst_vars
    rfl))

theorem stackChunks_cover (perm : List Nat) (hp : perm ∈ sixPerms) (i0 i1 i2 : Int)
    (s0 s1 s2 c0 c1 c2 x y z : Nat) (hc0 : 0 < c0) (hc1 : 0 < c1) (hc2 : 0 < c2)
    (hx : x < s0) (hy : y < s1) (hz : z < s2) :
    ∃ ch ∈ stackChunks perm [i0, i1, i2] [s0, s1, s2] [c0, c1, c2], inBox ch.box [x, y, z] ∧
      ∀ ch' ∈ stackChunks perm [i0, i1, i2] [s0, s1, s2] [c0, c1, c2], inBox ch'.box [x, y, z] → ch' = ch := by
  have mx := Tiling.mem_range_iff s0 c0 hc0 x hx
  have my := Tiling.mem_range_iff s1 c1 hc1 y hy
  have mz := Tiling.mem_range_iff s2 c2 hc2 z hz
  have gx := Tiling.index_in_grid s0 c0 x hx
  have gy := Tiling.index_in_grid s1 c1 y hy
  have gz := Tiling.index_in_grid s2 c2 z hz
  simp only [sixPerms, List.mem_cons, List.not_mem_nil, or_false] at hp
  rcases hp with rfl | rfl | rfl | rfl | rfl | rfl
  · slices_cover (by decide : invertPerm [0, 1, 2] = [0, 1, 2]), z / c2, gz, y / c1, gy, x / c0, gx
  · slices_cover (by decide : invertPerm [0, 2, 1] = [0, 2, 1]), y / c1, gy, z / c2, gz, x / c0, gx
  · slices_cover (by decide : invertPerm [1, 0, 2] = [1, 0, 2]), z / c2, gz, x / c0, gx, y / c1, gy
  · slices_cover (by decide : invertPerm [1, 2, 0] = [2, 0, 1]), x / c0, gx, z / c2, gz, y / c1, gy
  · slices_cover (by decide : invertPerm [2, 0, 1] = [1, 2, 0]), y / c1, gy, x / c0, gx, z / c2, gz
  · slices_cover (by decide : invertPerm [2, 1, 0] = [2, 1, 0]), x / c0, gx, y / c1, gy, z / c2, gz

/-- a code accepted by the tables has one of the six permutations -/
theorem validCode_perm (code : List Char) (p : List Nat) (hp : perm code = some p)
    (hv : validCode code = true) : p.length = 3 ∧ p.contains 0 = true ∧ p.contains 1 = true ∧ p.contains 2 = true := by
  unfold validCode at hv
  rw [hp] at hv
  cases hi : inv code with
  | none => simp [hi] at hv
  | some i => simp [hi] at hv; simp [hv]

/-- a list of three numbers containing 0, 1 and 2 is one of the six permutations -/
theorem perm3_mem_six (p : List Nat) (h3 : p.length = 3) (h0 : p.contains 0 = true) (h1 : p.contains 1 = true)
    (h2 : p.contains 2 = true) : p ∈ sixPerms := by
  match p, h3 with
  | [a, b, c], _ =>
    simp only [List.contains_cons, List.contains_nil, Bool.or_false, Bool.or_eq_true, beq_iff_eq] at h0 h1 h2
    simp only [sixPerms, List.mem_cons, List.cons.injEq, List.not_mem_nil, or_false, and_true]
    omega

end NgVerif.Slices
