import NgVerif.Model.MiniShard
/-
  Proofs for the reorder buffer: invariant linking the concrete state to the set stored so far,
  termination and result of gap filling, order independence.
-/
namespace NgVerif.MS

theorem get?_del_self (l : List (Nat × Payload)) (i : Nat) : get? (del l i) i = none := by
  induction l with
  | nil => rfl
  | cons h t ih =>
    obtain ⟨k, v⟩ := h
    by_cases hk : k = i <;> simp [del, get?, hk, ih]

theorem get?_del_ne (l : List (Nat × Payload)) (i j : Nat) (h : i ≠ j) :
    get? (del l i) j = get? l j := by
  induction l with
  | nil => rfl
  | cons hd t ih =>
    obtain ⟨k, v⟩ := hd
    by_cases hk : k = i
    · subst hk
      have : ¬ k = j := h
      simp [del, get?, ih, this]
    · by_cases hj : k = j
      · subst hj; simp [del, get?, hk]
      · simp [del, get?, hk, hj, ih]

theorem del_length_le (l : List (Nat × Payload)) (i : Nat) : (del l i).length ≤ l.length := by
  induction l with
  | nil => simp [del]
  | cons hd t ih =>
    obtain ⟨k, v⟩ := hd
    by_cases hk : k = i <;> simp [del, hk] <;> omega

theorem del_length_lt (l : List (Nat × Payload)) (i : Nat) (v : Payload) (h : get? l i = some v) :
    (del l i).length < l.length := by
  induction l with
  | nil => simp [get?] at h
  | cons hd t ih =>
    obtain ⟨k, w⟩ := hd
    by_cases hk : k = i
    · have := del_length_le t i
      simp [del, hk]; omega
    · simp [get?, hk] at h
      have := ih h
      simp [del, hk]; omega

variable (nxt : Nat → Nat)

structure W (S : Nat → Option Payload) (s : St) : Prop where
  same : { s with buf := [] } = canon nxt S s.appended
  buffered : ∀ id, get? s.buf id = if nxt s.appended ≤ id then S id else none


theorem canon_congr (S T : Nat → Option Payload) (n : Nat)
    (h : ∀ r, r < n → S (nxt r) = T (nxt r)) : canon nxt S n = canon nxt T n := by
  induction n with
  | zero => rfl
  | succ n ih =>
    simp only [canon]
    rw [ih (fun r hr => h r (by omega)), h n (by omega)]

theorem canon_appended (S : Nat → Option Payload) (n : Nat) : (canon nxt S n).appended = n := by
  induction n with
  | zero => rfl
  | succ n ih => simp [canon, append, ih]

variable (mono : ∀ a b, a < b → nxt a < nxt b)
include mono

theorem nxt_le (a b : Nat) (h : a ≤ b) : nxt a ≤ nxt b := by
  rcases Nat.lt_or_eq_of_le h with h | h
  · exact Nat.le_of_lt (mono a b h)
  · subst h; exact Nat.le_refl _

theorem nxt_inj (a b : Nat) (h : nxt a = nxt b) : a = b := by
  rcases Nat.lt_trichotomy a b with h1 | h1 | h1
  · have := mono a b h1; omega
  · exact h1
  · have := mono b a h1; omega

/-- flushing re-establishes "next id is not stored" and keeps the canonical prefix -/
theorem flush_W (S : Nat → Option Payload)
    (supp : ∀ id, (S id).isSome → ∃ r, nxt r = id) :
    ∀ (fuel : Nat) (s : St), W nxt S s → s.buf.length ≤ fuel →
      W nxt S (flush nxt fuel s) ∧ S (nxt (flush nxt fuel s).appended) = none ∧
      s.appended ≤ (flush nxt fuel s).appended ∧
      ((∀ r, r < s.appended → (S (nxt r)).isSome) →
        ∀ r, r < (flush nxt fuel s).appended → (S (nxt r)).isSome) ∧
      (∀ r, s.appended ≤ r → r < (flush nxt fuel s).appended → (S (nxt r)).isSome) := by
  intro fuel
  induction fuel with
  | zero =>
    intro s hw hl
    have hb : s.buf = [] := List.eq_nil_of_length_eq_zero (by omega)
    refine ⟨hw, ?_, Nat.le_refl _, fun hp => hp, fun r h1 h2 => by simp [flush] at h2; omega⟩
    have := hw.buffered (nxt s.appended)
    simp [hb, get?] at this
    simpa [flush] using this.symm
  | succ f ih =>
    intro s hw hl
    simp only [flush]
    cases hg : get? s.buf (nxt s.appended) with
    | none =>
      dsimp only
      refine ⟨hw, ?_, Nat.le_refl _, fun hp => hp, fun r h1 h2 => by omega⟩
      have := hw.buffered (nxt s.appended)
      rw [hg] at this
      simpa using this.symm
    | some p =>
      have hS : S (nxt s.appended) = some p := by
        have := hw.buffered (nxt s.appended)
        rw [hg] at this
        simpa using this.symm
      have hstep : W nxt S (append { s with buf := del s.buf (nxt s.appended) } p (nxt s.appended)) := by
        constructor
        · -- same
          show { append { s with buf := del s.buf (nxt s.appended) } p (nxt s.appended) with buf := [] }
              = canon nxt S (s.appended + 1)
          simp only [canon, hS, Option.getD_some]
          rw [← hw.same]
          rfl
        · intro id
          show get? (del s.buf (nxt s.appended)) id = if nxt (s.appended + 1) ≤ id then S id else none
          by_cases hid : nxt s.appended = id
          · subst hid
            rw [get?_del_self]
            have := mono s.appended (s.appended+1) (by omega)
            rw [if_neg (by omega)]
          · rw [get?_del_ne _ _ _ hid, hw.buffered id]
            cases hSi : S id with
            | none => simp
            | some q =>
              obtain ⟨r, hr⟩ := supp id (by simp [hSi])
              subst hr
              by_cases hlt : s.appended < r
              · have h1 := nxt_le nxt mono (s.appended+1) r (by omega)
                have h2 := mono s.appended r hlt
                rw [if_pos (by omega), if_pos h1]
              · have hne : r ≠ s.appended := fun e => hid (by rw [e])
                have h2 := mono r s.appended (by omega)
                have h3 := mono r (s.appended+1) (by omega)
                rw [if_neg (by omega), if_neg (by omega)]
      have hlen : (append { s with buf := del s.buf (nxt s.appended) } p (nxt s.appended)).buf.length ≤ f := by
        have := del_length_lt s.buf (nxt s.appended) p hg
        show (del s.buf (nxt s.appended)).length ≤ f
        omega
      obtain ⟨i1, i2, i3, i4, i5⟩ := ih _ hstep hlen
      have happ : (append { s with buf := del s.buf (nxt s.appended) } p (nxt s.appended)).appended
          = s.appended + 1 := rfl
      dsimp only
      refine ⟨i1, i2, by omega, ?_, ?_⟩
      · intro hp
        apply i4
        intro r hr
        rw [happ] at hr
        by_cases e : r = s.appended
        · rw [e, hS]; rfl
        · exact hp r (by omega)
      · intro r h1 h2
        by_cases e : r = s.appended
        · rw [e, hS]; rfl
        · exact i5 r (by rw [happ]; omega) h2

/-- invariant between operations -/
structure Inv (S : Nat → Option Payload) (s : St) : Prop where
  w : W nxt S s
  nextAbsent : S (nxt s.appended) = none
  present : ∀ r, r < s.appended → (S (nxt r)).isSome

theorem store_inv (S : Nat → Option Payload) (s : St) (id : Nat) (p : Payload)
    (supp : ∀ j, (S j).isSome → ∃ r, nxt r = j)
    (hinv : Inv nxt S s) (hnew : S id = none) (hid : ∃ r, nxt r = id) :
    ∃ s', store nxt s id p = some s' ∧ Inv nxt (update S id p) s' := by
  obtain ⟨r, hr⟩ := hid
  have hra : s.appended ≤ r := by
    apply Nat.le_of_not_lt
    intro hlt
    have := hinv.present r hlt
    rw [hr, hnew] at this
    simp at this
  have hle : nxt s.appended ≤ id := hr ▸ nxt_le nxt mono _ _ hra
  have supp' : ∀ j, (update S id p j).isSome → ∃ r, nxt r = j := by
    intro j hj
    by_cases e : j = id
    · exact ⟨r, by rw [hr, e]⟩
    · simp [update, e] at hj
      exact supp j hj
  have below : ∀ q, q < s.appended → S (nxt q) = update S id p (nxt q) := by
    intro q hq
    have : nxt q ≠ id := by
      have := mono q s.appended hq
      omega
    simp [update, this]
  unfold store
  rw [if_neg (by omega)]
  by_cases heq : nxt s.appended = id
  · rw [if_pos heq]
    refine ⟨_, rfl, ?_⟩
    -- state after append, before flush
    have hw1 : W nxt (update S id p) (append s p id) := by
      constructor
      · show { append s p id with buf := [] } = canon nxt (update S id p) (s.appended + 1)
        simp only [canon]
        rw [← canon_congr nxt S (update S id p) s.appended below, ← hinv.w.same, heq]
        simp [update, append]
      · intro j
        show get? s.buf j = if nxt (s.appended + 1) ≤ j then update S id p j else none
        rw [hinv.w.buffered j]
        by_cases e : j = id
        · subst e
          have := mono s.appended (s.appended + 1) (by omega)
          rw [if_pos (by omega), if_neg (by omega), hnew]
        · simp only [update, e, if_false]
          cases hSj : S j with
          | none => simp
          | some q =>
            obtain ⟨r', hr'⟩ := supp j (by simp [hSj])
            subst hr'
            by_cases hlt : s.appended < r'
            · have h1 := nxt_le nxt mono (s.appended+1) r' (by omega)
              have h2 := mono s.appended r' hlt
              rw [if_pos (by omega), if_pos h1]
            · have hne : r' ≠ s.appended := by
                intro e'; apply e; rw [e']; exact heq
              have h2 := mono r' s.appended (by omega)
              have h3 := mono r' (s.appended+1) (by omega)
              rw [if_neg (by omega), if_neg (by omega)]
    have hp1 : ∀ q, q < (append s p id).appended → (update S id p (nxt q)).isSome := by
      intro q hq
      have hq' : q < s.appended + 1 := hq
      by_cases e : q = s.appended
      · rw [e, heq]; simp [update]
      · rw [← below q (by omega)]; exact hinv.present q (by omega)
    have hf := flush_W nxt mono (update S id p) supp' _ (append s p id) hw1 (Nat.le_refl _)
    exact ⟨hf.1, hf.2.1, hf.2.2.2.1 hp1⟩
  · rw [if_neg heq]
    refine ⟨_, rfl, ?_⟩
    have hlt : nxt s.appended < id := by omega
    constructor
    · constructor
      · show { s with buf := [] } = canon nxt (update S id p) s.appended
        rw [← canon_congr nxt S (update S id p) s.appended below]
        exact hinv.w.same
      · intro j
        show get? ((id, p) :: del s.buf id) j = if nxt s.appended ≤ j then update S id p j else none
        by_cases e : id = j
        · subst e
          simp [get?, update, hle]
        · have e' : ¬ j = id := fun h => e h.symm
          simp only [get?, e, if_false, update, e']
          rw [get?_del_ne _ _ _ e, hinv.w.buffered j]
    · show update S id p (nxt s.appended) = none
      have : nxt s.appended ≠ id := heq
      simp [update, this, hinv.nextAbsent]
    · intro q hq
      show (update S id p (nxt q)).isSome
      rw [← below q hq]
      exact hinv.present q hq


/-! ### close: gap filling with zero-length entries -/

theorem eq_nil_of_get?_none (l : List (Nat × Payload)) (h : ∀ j, get? l j = none) : l = [] := by
  cases l with
  | nil => rfl
  | cons hd t =>
    obtain ⟨k, v⟩ := hd
    have := h k
    simp [get?] at this

/-- canonical-form invariant of the close phase (no "present" requirement any more) -/
structure C (S : Nat → Option Payload) (s : St) : Prop where
  w : W nxt S s
  nextAbsent : S (nxt s.appended) = none

theorem gap_W (S : Nat → Option Payload) (s : St)
    (supp : ∀ j, (S j).isSome → ∃ r, nxt r = j) (c : C nxt S s) :
    W nxt S (append s [] (nxt s.appended)) := by
  constructor
  · show { append s [] (nxt s.appended) with buf := [] } = canon nxt S (s.appended + 1)
    simp only [canon, c.nextAbsent, Option.getD_none]
    rw [← c.w.same]
    rfl
  · intro j
    show get? s.buf j = if nxt (s.appended + 1) ≤ j then S j else none
    rw [c.w.buffered j]
    cases hSj : S j with
    | none => simp
    | some q =>
      obtain ⟨r, hr⟩ := supp j (by simp [hSj])
      subst hr
      by_cases hlt : s.appended < r
      · have h1 := nxt_le nxt mono (s.appended+1) r (by omega)
        have h2 := mono s.appended r hlt
        rw [if_pos (by omega), if_pos h1]
      · have hne : r ≠ s.appended := by
          intro e; rw [e, c.nextAbsent] at hSj; simp at hSj
        have h2 := mono r s.appended (by omega)
        have h3 := mono r (s.appended+1) (by omega)
        rw [if_neg (by omega), if_neg (by omega)]

/-- what `close` guarantees: empty buffer, canonical contents, every stored id written,
    and no trailing gap entry -/
structure Closed (S : Nat → Option Payload) (a0 : Nat) (s : St) : Prop where
  empty : s.buf = []
  same : s = canon nxt S s.appended
  all : ∀ j, (S j).isSome → j < nxt s.appended
  ge : a0 ≤ s.appended
  tight : s.appended = a0 ∨ (S (nxt (s.appended - 1))).isSome

theorem all_below_of_empty (S : Nat → Option Payload) (s : St) (c : C nxt S s) (he : s.buf = []) :
    ∀ j, (S j).isSome → j < nxt s.appended := by
  intro j hj
  apply Nat.lt_of_not_le
  intro hle
  have := c.w.buffered j
  rw [he, if_pos hle] at this
  simp [get?] at this
  rw [← this] at hj
  simp at hj

theorem close_spec (S : Nat → Option Payload) (R : Nat)
    (supp : ∀ j, (S j).isSome → ∃ r, r < R ∧ nxt r = j) :
    ∀ (fuel : Nat) (s : St), C nxt S s → R ≤ s.appended + fuel →
      Closed nxt S s.appended (closeLoop nxt fuel s) := by
  have supp' : ∀ j, (S j).isSome → ∃ r, nxt r = j := fun j hj =>
    let ⟨r, _, h⟩ := supp j hj; ⟨r, h⟩
  have emptyOfR : ∀ s : St, C nxt S s → R ≤ s.appended → s.buf = [] := by
    intro s c hR
    apply eq_nil_of_get?_none nxt mono
    intro j
    rw [c.w.buffered j]
    by_cases hle : nxt s.appended ≤ j
    · rw [if_pos hle]
      cases hSj : S j with
      | none => rfl
      | some q =>
        obtain ⟨r, hr, hrj⟩ := supp j (by simp [hSj])
        have := nxt_le nxt mono r s.appended (by omega)
        have hlt : r < s.appended := by omega
        have := mono r s.appended hlt
        omega
    · rw [if_neg hle]
  have closedOfEmpty : ∀ s : St, C nxt S s → s.buf = [] → Closed nxt S s.appended s := by
    intro s c he
    refine ⟨he, ?_, all_below_of_empty nxt mono S s c he, Nat.le_refl _, Or.inl rfl⟩
    have := c.w.same
    rw [← this]
    cases s; simp_all
  intro fuel
  induction fuel with
  | zero =>
    intro s c hR
    exact closedOfEmpty s c (emptyOfR s c (by omega))
  | succ f ih =>
    intro s c hR
    simp only [closeLoop]
    by_cases he : s.buf.isEmpty
    · rw [if_pos he]
      exact closedOfEmpty s c (List.isEmpty_iff.mp he)
    · rw [if_neg he]
      have hw1 := gap_W nxt mono S s supp' c
      obtain ⟨f1, f2, f3, _, f5⟩ :=
        flush_W nxt mono S supp' _ (append s [] (nxt s.appended)) hw1 (Nat.le_refl _)
      have ha1 : (append s [] (nxt s.appended)).appended = s.appended + 1 := rfl
      have cmid : C nxt S (flush nxt (append s [] (nxt s.appended)).buf.length
          (append s [] (nxt s.appended))) := ⟨f1, f2⟩
      have hres := ih _ cmid (by omega)
      refine ⟨hres.empty, hres.same, hres.all, by have := hres.ge; omega, ?_⟩
      right
      rcases hres.tight with ht | ht
      · -- the loop stopped right after this iteration: the last appended entry is a stored one
        rw [ht]
        by_cases hprog : (flush nxt (append s [] (nxt s.appended)).buf.length
            (append s [] (nxt s.appended))).appended = s.appended + 1
        · -- no progress in flush: impossible, the buffer would still be non-empty
          exfalso
          have hall := hres.all
          rw [ht, hprog] at hall
          have hne : s.buf ≠ [] := fun h => he (List.isEmpty_iff.mpr h)
          apply hne
          apply eq_nil_of_get?_none nxt mono
          intro j
          rw [c.w.buffered j]
          by_cases hle : nxt s.appended ≤ j
          · rw [if_pos hle]
            cases hSj : S j with
            | none => rfl
            | some q =>
              have hj := hall j (by simp [hSj])
              obtain ⟨r, hr⟩ := supp' j (by simp [hSj])
              subst hr
              have hra : r = s.appended := by
                rcases Nat.lt_trichotomy r s.appended with h | h | h
                · have := mono r s.appended h; omega
                · exact h
                · have := nxt_le nxt mono (s.appended + 1) r (by omega); omega
              rw [hra, c.nextAbsent] at hSj
              simp at hSj
          · rw [if_neg hle]
        · apply f5
          · rw [ha1]; omega
          · omega
      · exact ht

/-- two closed states for the same stored set coincide: the final index and data of a minishard
    depend only on *what* was stored, not on the order (given the same start rank `a0`) -/
theorem closed_unique (S : Nat → Option Payload) (a0 : Nat) (s t : St)
    (hs : Closed nxt S a0 s) (ht : Closed nxt S a0 t) : s = t := by
  have key : ∀ (u v : St), Closed nxt S a0 u → Closed nxt S a0 v → ¬ u.appended < v.appended := by
    intro u v hu hv hlt
    rcases hv.tight with h | h
    · have := hu.ge; omega
    · have hb := hu.all _ h
      have := nxt_le nxt mono u.appended (v.appended - 1) (by omega)
      omega
  have e : s.appended = t.appended := by
    have h1 := key s t hs ht
    have h2 := key t s ht hs
    omega
  rw [hs.same, ht.same, e]


/-! ### whole histories -/


theorem run_inv : ∀ (ops : List (Nat × Payload)) (S : Nat → Option Payload) (s : St),
    (∀ j, (S j).isSome → ∃ r, nxt r = j) → Inv nxt S s → Ok nxt S ops →
    ∃ s', runAll nxt s ops = some s' ∧ Inv nxt (mapOf S ops) s' ∧
      (∀ j, (mapOf S ops j).isSome → ∃ r, nxt r = j)
  | [], S, s, supp, hinv, _ => ⟨s, rfl, hinv, supp⟩
  | (id, p) :: ops, S, s, supp, hinv, hok => by
    obtain ⟨hnew, hid, hrest⟩ := hok
    obtain ⟨s1, hs1, hinv1⟩ := store_inv nxt mono S s id p supp hinv hnew hid
    have supp1 : ∀ j, (update S id p j).isSome → ∃ r, nxt r = j := by
      intro j hj
      by_cases e : j = id
      · rw [e]; exact hid
      · simp [update, e] at hj; exact supp j hj
    obtain ⟨s', hs', hinv', hsupp'⟩ := run_inv ops (update S id p) s1 supp1 hinv1 hrest
    refine ⟨s', ?_, hinv', hsupp'⟩
    simp only [runAll, hs1]
    exact hs'

theorem inv_appended_unique (S : Nat → Option Payload) (s t : St)
    (hs : Inv nxt S s) (ht : Inv nxt S t) : s.appended = t.appended := by
  rcases Nat.lt_trichotomy s.appended t.appended with h | h | h
  · have := ht.present s.appended h
    rw [hs.nextAbsent] at this; simp at this
  · exact h
  · have := hs.present t.appended h
    rw [ht.nextAbsent] at this; simp at this


theorem inv_init : Inv nxt empty St.init := by
  refine ⟨⟨rfl, ?_⟩, rfl, ?_⟩
  · intro j; simp only [St.init, get?, empty]; exact (ite_self _).symm
  · intro r hr; simp [St.init] at hr

/-- C05 (one minishard): any two histories that store the same set of chunks — in any order —
    never raise, and after `close` leave identical data bytes and identical index rows -/
theorem order_independent (ops1 ops2 : List (Nat × Payload)) (R fuel : Nat)
    (h1 : Ok nxt empty ops1) (h2 : Ok nxt empty ops2)
    (hS : mapOf empty ops1 = mapOf empty ops2)
    (hR : ∀ j, (mapOf empty ops1 j).isSome → ∃ r, r < R ∧ nxt r = j) (hf : R ≤ fuel) :
    ∃ s1 s2, runAll nxt St.init ops1 = some s1 ∧ runAll nxt St.init ops2 = some s2 ∧
      closeLoop nxt fuel s1 = closeLoop nxt fuel s2 := by
  have supp0 : ∀ j, (empty j).isSome → ∃ r, nxt r = j := by intro j hj; simp [empty] at hj
  obtain ⟨s1, r1, i1, _⟩ := run_inv nxt mono ops1 empty St.init supp0 (inv_init nxt mono) h1
  obtain ⟨s2, r2, i2, _⟩ := run_inv nxt mono ops2 empty St.init supp0 (inv_init nxt mono) h2
  rw [← hS] at i2
  refine ⟨s1, s2, r1, r2, ?_⟩
  have ea := inv_appended_unique nxt mono _ s1 s2 i1 i2
  have c1 := close_spec nxt mono _ R hR fuel s1 ⟨i1.w, i1.nextAbsent⟩ (by omega)
  have c2 := close_spec nxt mono _ R hR fuel s2 ⟨i2.w, i2.nextAbsent⟩ (by omega)
  rw [← ea] at c2
  exact closed_unique nxt mono _ _ _ _ c1 c2


end NgVerif.MS
