import NgVerif.Model.Http
/-
  C14 — Reading over HTTP gives the same bytes as reading the files locally.
  Byte identity of plain chunks/infos is the identity function of `fetchFile` on a 2xx reply (the
  server's mapping of URL to file is the documented configuration, emulated by the harness);
  sharded reads share `populate`/`lookup` with the local reader (C04/C05) and differ only in
  `read_bytes`, modelled here.
-/
namespace NgVerif.Props.C14
open NgVerif NgVerif.Http

/-- plain accessor: every HTTP error status (4xx, 5xx) and every transport failure is a
    data-access error, never bytes; a successful reply is returned unchanged -/
theorem plain_faults_are_errors (r : Reply) :
    match r with
    | .transport => fetchFile r = .error .dataAccess
    | .status code body =>
      (400 ≤ code ∧ code < 600 → fetchFile r = .error .dataAccess) ∧
      (¬ (400 ≤ code ∧ code < 600) → fetchFile r = .ok body) := by
  cases r with
  | transport => rfl
  | status code body =>
    simp only [fetchFile, raises]
    constructor
    · intro h; simp [h]
    · intro h; simp [h]

/-- existence probe: 404 means absent, any other error status or transport failure is an error -/
theorem exists_probe (r : Reply) :
    match r with
    | .transport => fileExists r = .error .dataAccess
    | .status code _ =>
      (code = 404 → fileExists r = .ok false) ∧
      (code ≠ 404 → 400 ≤ code ∧ code < 600 → fileExists r = .error .dataAccess) := by
  cases r with
  | transport => rfl
  | status code body =>
    simp only [fileExists, raises]
    constructor
    · intro h; simp [h]
    · intro h1 h2; simp [h1, h2]

/-- sharded reads: the bytes handed to the index walk are EXACTLY `length` bytes of a non-error
    reply, otherwise an IOError-class error — short, over-long (Range ignored) and error replies
    can never be mistaken for shard data -/
theorem shard_read_exact_or_error (length : Nat) (r : Reply) :
    (∃ b, shardReadBytes length r = .ok b ∧ b.length = length ∧ r = .status (match r with | .status c _ => c | _ => 0) b)
    ∨ shardReadBytes length r = .error .ioError := by
  cases r with
  | transport => right; rfl
  | status code body =>
    simp only [shardReadBytes]
    by_cases h1 : raises code = true
    · right; simp [h1]
    · by_cases h2 : body.length = length
      · left; exact ⟨body, by simp [h1, h2], h2, rfl⟩
      · right; simp [h1, h2]

/-- over a server that honours Range requests, the HTTP shard reader returns EXACTLY what the
    local shard reader returns whenever the requested bytes exist, and an error (never fewer
    bytes) when they do not -/
theorem http_read_eq_local_read (file : Bytes) (offset length : Nat) (hl : 0 < length) :
    (offset + length ≤ file.length →
      shardReadBytes length (serveRange file offset length) = .ok (localRead file offset length)) ∧
    (file.length < offset + length →
      shardReadBytes length (serveRange file offset length) = .error .ioError) := by
  have hne : length ≠ 0 := Nat.pos_iff_ne_zero.mp hl
  unfold serveRange
  rw [if_neg hne]
  constructor
  · intro h
    have h1 : ¬ file.length ≤ offset := by omega
    rw [if_neg h1]
    have h2 : (localRead file offset length).length = length := by
      simp only [localRead, List.length_take, List.length_drop]; omega
    simp [shardReadBytes, raises, h2]
  · intro h
    by_cases h1 : file.length ≤ offset
    · rw [if_pos h1]; simp [shardReadBytes, raises]
    · rw [if_neg h1]
      have h2 : (localRead file offset length).length ≠ length := by
        simp only [localRead, List.length_take, List.length_drop]; omega
      simp [shardReadBytes, raises, h2]

/-- the same for EVERY length, including the empty chunk (defect F32, repaired: the invalid
    Range "bytes=N-(N-1)" made servers send the whole file, which the length check refused) -/
theorem http_read_eq_local_read_all (file : Bytes) (offset length : Nat)
    (h : offset + length ≤ file.length) :
    httpRead file offset length = .ok (localRead file offset length) := by
  unfold httpRead
  by_cases hl : length = 0
  · rw [if_pos hl]; subst hl; simp [localRead]
  · rw [if_neg hl]
    exact (http_read_eq_local_read file offset length (Nat.pos_of_ne_zero hl)).1 h

/-- … so the two shard readers agree on EVERY request, present bytes or not: same bytes or both
    an I/O error (the local reader refuses short reads since the repair of F34) -/
theorem http_read_eq_file_read (file : Bytes) (offset length : Nat) :
    httpRead file offset length = fileRead file offset length := by
  by_cases h : offset + length ≤ file.length
  · rw [http_read_eq_local_read_all file offset length h]
    have : (localRead file offset length).length = length := by
      simp only [localRead, List.length_take, List.length_drop]; omega
    simp [fileRead, this]
  · by_cases hz : length = 0
    · subst hz
      simp [httpRead, fileRead, localRead]
    have hl : 0 < length := by omega
    have hne : length ≠ 0 := hz
    have h2 : (localRead file offset length).length ≠ length := by
      simp only [localRead, List.length_take, List.length_drop]; omega
    unfold httpRead fileRead
    rw [if_neg hne, (http_read_eq_local_read file offset length hl).2 (by omega), if_pos h2]

/-- legacy `.index` + `.data` pairs: a request that does not straddle the header boundary reads
    the same bytes from the split files as from the single-file layout -/
theorem legacy_split_reads_same (idx data : Bytes) (offset length : Nat)
    (hs : offset + length ≤ idx.length ∨ idx.length ≤ offset) :
    (match legacyPick idx.length offset with
     | (true, o) => localRead idx o length
     | (false, o) => localRead data o length) = localRead (idx ++ data) offset length := by
  unfold legacyPick localRead
  by_cases h : offset < idx.length
  · rw [if_pos h]
    have h2 : offset + length ≤ idx.length := by omega
    simp only [List.drop_append_of_le_length (Nat.le_of_lt h)]
    rw [List.take_append_of_le_length (by simp only [List.length_drop]; omega)]
  · rw [if_neg h]
    have h2 : idx.length ≤ offset := by omega
    simp only []
    rw [List.drop_append, List.drop_eq_nil_of_le h2, List.nil_append]

example : shardReadBytes 2 (serveRange [1, 2, 3, 4] 1 2) = .ok [2, 3] := rfl
example : shardReadBytes 2 (serveRange [1, 2, 3, 4] 3 2) = .error .ioError := rfl

/-- dispatch: with no sharding option given, the sharded reader is chosen exactly when the
    dataset's info declares sharding (an unreadable or malformed info means: not sharded) -/
theorem dispatch_follows_info (info : Option Bool) :
    dispatchSharded false info = true ↔ info = some true := by
  unfold dispatchSharded
  cases info with
  | none => simp
  | some b => cases b <;> simp

/-- the chunk URL is built from the flat pattern (the constant name is read from the source) -/
theorem chunk_url_uses_flat_pattern : Generated.httpChunkPatternName = "_CHUNK_PATTERN_FLAT" := by decide

end NgVerif.Props.C14
