import NgVerif.Proofs.Source
import NgVerif.Proofs.Pyramid
/-
  C06 — Each pyramid level equals the whole previous level downscaled once.
  Per axis (the three axes of the octant copy are independent, and every downscaler of the package
  is block-local: C07): `Pyramid.plan` is the copy schedule of one new chunk, `sourceStart` the old
  voxel a new voxel is computed from, `specStart` what downscaling the whole level would use.
-/
namespace NgVerif.Props.C06
open NgVerif NgVerif.Pyramid

/-- With compatible chunk sizes (`f ∣ old chunk`, new chunk = half or twice half), for ALL sizes,
    chunk sizes and positions: no copy of any new chunk fails … -/
theorem compatible_plan_succeeds (a : Axis) (hc : compatible a) (n : Nat) (hn : a.nc * n < a.ns) :
    ∃ parts, plan a n = .ok parts := by
  obtain ⟨k, _, _, _, _, _, h⟩ := plan_compatible a hc n hn
  exact ⟨_, h⟩

/-- … and every voxel of the new level is computed from exactly the old voxels that downscaling
    the entire previous level as one array uses: nothing unwritten, nothing from a wrong region. -/
theorem new_level_is_global_downscale (a : Axis) (hc : compatible a) (p : Nat) (hp : p < a.ns) :
    sourceStart a p = .ok (specStart a p) :=
  axis_correct a hc p hp

/-- NEVER SILENTLY WRONG: for ALL sizes and ALL chunk sizes of the two levels — compatible or not,
    powers of two or not — if the copy schedule of every new chunk along the axis completes without
    raising, then every voxel of the new level is computed from exactly the old voxels that the
    global downscaling uses. (A level is either right or the command fails; the repaired defect F24
    was the one family of sizes for which the unchanged code did neither.) -/
theorem completed_level_is_correct (a : Axis)
    (hall : ∀ n, a.nc * n < a.ns → ∃ parts, plan a n = .ok parts) (p : Nat) (hp : p < a.ns) :
    sourceStart a p = .ok (specStart a p) :=
  completed_is_correct a hall p hp

/-- … and when there are several new chunks along an axis, completing without an error is possible
    ONLY for compatible chunk sizes: the first chunk's schedule already decides it. -/
theorem success_requires_compatible_sizes (a : Axis) (parts : List Part) (h0 : plan a 0 = .ok parts)
    (hN : a.nc < a.ns) : compatible a :=
  plan_zero_ok_compat a parts h0 hN

/-- the source block of a new voxel lies inside ONE old chunk, so downscaling chunk by chunk with a
    block-local downscaler gives the same value as downscaling the whole level -/
theorem source_block_in_one_chunk (f k p : Nat) (hf : f = 1 ∨ f = 2) (hk : 0 < k) :
    (f * p) / (f * k) = (f * p + f - 1) / (f * k) :=
  block_in_one_chunk f k p hf hk

/-- non-vacuity: 64 → 32 voxels, chunks 8 → 8 -/
example : compatible ⟨64, 32, 8, 8⟩ := by
  refine ⟨by decide, by decide, by decide, by decide, ⟨4, by decide⟩, Or.inr (by decide)⟩

/-- regression witness for the repaired defect F24: `half = 1` with a new chunk four times larger
    (source extent 1, destination extent 3) is now refused instead of being broadcast -/
theorem incompatible_sizes_are_refused : plan ⟨64, 32, 2, 4⟩ 0 = .error .shape := by decide

/-- an axis that is halved with an old chunk size of 1 cannot be processed: ZeroDivisionError -/
theorem chunk_size_one_on_halved_axis : plan ⟨8, 4, 1, 2⟩ 0 = .error .zeroDiv := by decide

/-- non-vacuity of `completed_level_is_correct`: every new chunk of a compatible axis has a schedule -/
example : ∀ n, 8 * n < 32 → ∃ parts, plan ⟨64, 32, 8, 8⟩ n = .ok parts :=
  fun n hn => compatible_plan_succeeds ⟨64, 32, 8, 8⟩
    ⟨by decide, by decide, by decide, by decide, ⟨4, by decide⟩, Or.inr (by decide)⟩ n hn

/-- TRANSLATED SOURCE. `half_chunk` and `chunk_fetch_factor` as they stand in /repo's source (translated on every
    run) are the `half` and `fetch` of the axis model all C06 theorems are about -/
theorem source_chunk_arithmetic_is_the_model (a : Pyramid.Axis) :
    Generated.Src.pyrHalfChunk (osz := a.oc) (f := Pyramid.factor a) = ((Pyramid.half a : Nat) : Int) ∧
    Generated.Src.pyrFetchFactor (nsz := a.nc) (hc := Pyramid.half a) = ((Pyramid.fetch a : Nat) : Int) :=
  Source.pyramid_arith_eq_model a

end NgVerif.Props.C06
