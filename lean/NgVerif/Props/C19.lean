import NgVerif.Model.Pipeline
import NgVerif.Proofs.Coords
/-
  C19 — All-in-one conversion equals the step-by-step pipeline and steps are repeatable.
  The two programs are compositions of the same functions (C16 info, C08 scales, C01 volume
  writing, C06/C07 pyramid); what is specific to the command level is stated here: the order
  of parameter setting and scale filling, the info round trip between stand-alone commands,
  repetition of data-writing steps, and the exit status.
-/
namespace NgVerif.Props.C19
open NgVerif NgVerif.Pipeline

/-- Both programs produce the same info for every full-resolution info, every option pair and
    every number of levels, provided the info file written by one stand-alone command is parsed
    back unchanged by the next (JSON round trip: law of the external). -/
theorem all_in_one_info_eq_stepwise (reparse : InfoM → InfoM) (hjson : ∀ i, reparse i = i) (n : Nat)
    (fullres : InfoM) (ty enc : Option String) :
    allInOneInfo n fullres ty enc = stepwiseInfo reparse n fullres ty enc := by
  simp [allInOneInfo, stepwiseInfo, hjson]

/-- Every scale of the generated info carries the requested encoding (and a block size when it
    is compressed_segmentation) — the parameters are set BEFORE the first scale is copied. -/
theorem requested_encoding_on_every_scale (n : Nat) (fullres : InfoM) (ty : Option String) (enc : String)
    (s : ScaleM) (hs : s ∈ (allInOneInfo n fullres ty (some enc)).scales) (hne : fullres.scales ≠ []) :
    s.encoding = some enc ∧ (enc = "compressed_segmentation" → s.csegBlock.isSome = true) := by
  cases hsc : fullres.scales with
  | nil => exact absurd hsc hne
  | cons s0 rest =>
    simp only [allInOneInfo, setParams, hsc, fillScales, List.mem_map, List.mem_range] at hs
    obtain ⟨L, _, rfl⟩ := hs
    constructor
    · simp [setScale0]
    · intro he
      subst he
      simp only [setScale0]
      cases s0.csegBlock <;> simp

/-- … which the opposite order does not achieve: with two levels, filling first leaves the second
    scale with the old encoding (regression witness for the order of the two calls) -/
theorem order_of_calls_matters :
    let i : InfoM := ⟨none, "uint32", 1, [⟨0, none, none⟩]⟩
    (setParams (fillScales 2 i) none (some "compressed_segmentation")).scales ≠
      (fillScales 2 (setParams i none (some "compressed_segmentation"))).scales := by
  decide

/-- compressed_segmentation promotes 8/16-bit types to uint32 and nothing else -/
theorem cseg_promotes_small_types (i : InfoM) (ty : Option String) (s0 : ScaleM) (rest : List ScaleM)
    (hs : i.scales = s0 :: rest) :
    (setParams i ty (some "compressed_segmentation")).dataType =
      (if i.dataType = "uint8" ∨ i.dataType = "uint16" then "uint32" else i.dataType) := by
  simp [setParams, hs, setScale0]

/-- Both programs select the same downscaler for every method option (including "auto", which is
    resolved from the info's type AFTER `--type` / `--encoding` were applied), given the JSON round trip. -/
theorem same_downscaling_method (reparse : InfoM → InfoM) (hjson : ∀ i, reparse i = i) (n : Nat)
    (method : String) (fullres : InfoM) (ty enc : Option String) :
    allInOneMethod method fullres ty enc = stepwiseMethod reparse n method fullres ty enc := by
  unfold allInOneMethod stepwiseMethod stepwiseInfo
  rw [hjson, hjson]
  cases hsc : fullres.scales with
  | nil => simp [setParams, fillScales, hsc]
  | cons s0 rest => simp [setParams, fillScales, hsc]

/-- … and resolving "auto" BEFORE the parameters are applied gives another method for a segmentation
    requested on the command line (regression witness for the order of the two calls) -/
theorem method_resolution_order_matters :
    let i : InfoM := ⟨some "image", "uint32", 1, [⟨0, none, none⟩]⟩
    resolveMethod "auto" i.type ≠ allInOneMethod "auto" i (some "segmentation") none := by
  decide

/-- Exit status 0 means that EVERY step of the command succeeded (writing the info, every chunk
    write, the final flush of buffered shards), for every list of steps. -/
theorem status_zero_iff_all_steps_ok {ε} (steps : List (Except ε Unit)) :
    status steps = 0 ↔ ∀ st ∈ steps, ∃ u, st = .ok u := by
  induction steps with
  | nil => simp [status]
  | cons a t ih =>
    cases a with
    | ok u =>
      simp only [status, ih, List.mem_cons]
      constructor
      · intro h st hst
        rcases hst with rfl | hm
        · exact ⟨u, rfl⟩
        · exact h st hm
      · intro h st hm
        exact h st (Or.inr hm)
    | error e =>
      simp only [status, List.mem_cons]
      constructor
      · intro h; cases h
      · intro h
        obtain ⟨u, hu⟩ := h (.error e) (Or.inl rfl)
        cases hu

/-- Re-running a chunk-writing step (same writes in the same order) leaves every chunk of the
    dataset decoding to the same array as after the first run: for every history of writes, every
    codec and every position. -/
theorem rerun_writes_same_contents (valid : Coords.Key → Bool) (enc : List Nat → Bytes)
    (dec : Bytes → Option (List Nat)) (hcodec : ∀ a, dec (enc a) = some a) (s0 : Coords.Store)
    (h : List (Coords.Key × List Nat)) (k : Coords.Key) (hk : valid k = true) :
    Coords.read valid dec (Coords.runWrites valid enc (Coords.runWrites valid enc s0 h) h) k =
      Coords.read valid dec (Coords.runWrites valid enc s0 h) k := by
  unfold Coords.read
  simp only [hk, Bool.not_true, Bool.false_eq_true, if_false]
  rw [Coords.get_runWrites, Coords.get_runWrites]
  cases hl : Coords.lastWrite valid k h with
  | some a => simp
  | none => simp [Coords.get_runWrites, hl]

/-- compute-scales writes level `L+1` as the downscaling of level `L` and only reads level 0:
    a second run on its own output changes nothing, for every downscaler and every number of levels. -/
theorem compute_scales_idempotent {V} (ds : V → V) (n : Nat) (hn : 0 < n) (st : Nat → V) :
    computeScales ds n (computeScales ds n st) = computeScales ds n st := by
  funext L
  simp only [computeScales]
  by_cases h : L < n
  · simp [h, hn, level]
  · simp [h]

/-- and every level it leaves is the downscaling of the level above -/
theorem levels_are_successive_downscalings {V} (ds : V → V) (n : Nat) (st : Nat → V) (L : Nat)
    (h : L + 1 < n) :
    computeScales ds n st (L + 1) = ds (computeScales ds n st L) := by
  simp only [computeScales]
  have h2 : L < n := by omega
  simp [h, h2, level]

end NgVerif.Props.C19
