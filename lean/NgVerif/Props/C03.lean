import NgVerif.Proofs.Source
import NgVerif.Proofs.Enc
import NgVerif.Proofs.Coords
import NgVerif.Proofs.CsegOwn
/-
  C03 — Writing then reading a chunk returns the same array for lossless encodings; positions off
  the chunk grid are rejected. (compressed_segmentation round trip: C02; JPEG shape: C10.)
-/
namespace NgVerif.Props.C03
open NgVerif NgVerif.Coords

/-- `validate_chunk_coords` accepts a sextuple of ARBITRARY integers exactly when it is a cell of
    the chunk grid of one of the scale's chunk sizes (non-negative index, start inside the volume,
    end clipped to the volume), for every size and every list of positive chunk sizes. -/
theorem grid_test_is_exact (size : Int × Int × Int) (css : List (Int × Int × Int)) (b : Box)
    (hpos : ∀ cs ∈ css, 0 < cs.1 ∧ 0 < cs.2.1 ∧ 0 < cs.2.2) :
    validate size css b = true ↔ onGrid size css b :=
  validate_iff size css b hpos

example : validate (100, 100, 100) [(64, 64, 64)] ⟨64, 100, 0, 64, 64, 100⟩ = true := by decide

/-- the test before the `fix:` commit accepted cells before and beyond the volume -/
theorem old_test_counterexamples :
    axisOld (-64) 0 64 100 = true ∧ ¬ onGridAxis (-64) 0 64 100 ∧
    axisOld 128 100 64 100 = true ∧ ¬ onGridAxis 128 100 64 100 := by
  refine ⟨by decide, ?_, by decide, ?_⟩
  · rintro ⟨i, h0, h1, _, _⟩; omega
  · rintro ⟨i, _, _, h2, _⟩; omega

/-- off-grid writes are rejected and leave the store untouched -/
theorem off_grid_write_rejected (valid : Key → Bool) (enc : List Nat → Bytes) (s : Store) (k : Key)
    (a : List Nat) (h : valid k = false) : write valid enc s k a = .error .offGrid := by
  simp [write, h]

/-- raw encoding: decode ∘ encode is the identity for every item size and every value list -/
theorem raw_round_trip (itemsize : Nat) (hk : 0 < itemsize) (vals : List Nat)
    (hv : ∀ v ∈ vals, v < 256 ^ itemsize) :
    Raw.decode itemsize vals.length (Raw.encode itemsize vals) = .ok vals :=
  Raw.decode_encode itemsize hk vals hv

/-- compressed_segmentation: the package's own decoder inverts its encoder, for every chunk shape,
    block size, label width and label array (so the codec hypothesis of the history theorem below
    is met by this encoding as well as by raw) -/
theorem cseg_round_trip (itemsize : Nat) (hi : itemsize = 4 ∨ itemsize = 8) (s : Cseg.Shape)
    (bk : Cseg.Blk3) (d : List Nat) (hbx : 0 < bk.bx) (hby : 0 < bk.by') (hbz : 0 < bk.bz)
    (hvals : ∀ v ∈ d, v < 2 ^ (8 * itemsize)) (hd : d.length = s.c * s.z * s.y * s.x)
    (file : Bytes) (h : Cseg.encode itemsize s bk d = some file) :
    Cseg.implDecode itemsize s bk file = .ok d :=
  Cseg.implDecode_encode itemsize hi s bk d hbx hby hbz hvals hd file h

/-- For EVERY history of writes (any keys, any positions, valid or not, with overwrites) through a
    store that behaves like a map, and every lossless codec: reading `k` returns the array of the
    LAST accepted write to `k`, independent of all writes to other positions; if there was none
    it behaves as on the initial store. -/
theorem read_returns_last_write (valid : Key → Bool) (enc : List Nat → Bytes)
    (dec : Bytes → Option (List Nat)) (hcodec : ∀ a, dec (enc a) = some a)
    (s0 : Store) (h : List (Key × List Nat)) (k : Key) (hk : valid k = true) :
    Coords.read valid dec (runWrites valid enc s0 h) k =
      match lastWrite valid k h with
      | some a => .ok a
      | none => Coords.read valid dec s0 k := by
  unfold Coords.read
  simp only [hk, Bool.not_true, Bool.false_eq_true, if_false]
  rw [get_runWrites]
  cases lastWrite valid k h with
  | some a => simp [hcodec]
  | none => rfl

/-- per-scale encoder selection (`get_encoder`): a codec is returned EXACTLY for the well-formed requests —
    data type one of the five Neuroglancer types, a positive channel count, and `raw`, or
    `compressed_segmentation` with a block size and a 32/64-bit unsigned type, or `jpeg` with uint8 and one or
    three channels (tables regenerated from the source) — and it is the codec the scale names; every other
    request (missing keys included) ends in `InvalidInfoError`, for every request -/
theorem encoder_selection_follows_info (r : Enc.Req) (c : Enc.Codec) :
    Enc.select r = some c ↔ Enc.Served r c :=
  ⟨Enc.select_sound r c, Enc.select_complete r c⟩

example : Enc.select ⟨some "uint64", some 2, some "compressed_segmentation", true⟩ = some .cseg ∧
    Enc.select ⟨some "uint16", some 1, some "compressed_segmentation", true⟩ = none ∧
    Enc.select ⟨some "uint8", some 2, some "jpeg", false⟩ = none := by decide

/-- TRANSLATED SOURCE. `Generated.Src.validateCond` is the condition of `validate_chunk_coords` as it stands in
    /repo's source, translated mechanically on every run. It accepts a sextuple for a listed chunk size exactly
    when that sextuple is a cell of the chunk grid — for all integers and positive chunk sizes. (If the source
    condition is edited, this theorem is re-checked against the new text; if it no longer holds the check
    searches for a sextuple on which the real function and the grid specification disagree.) -/
theorem source_grid_test_is_exact (size : Int × Int × Int) (css : List (Int × Int × Int)) (b : Box)
    (hpos : ∀ cs ∈ css, 0 < cs.1 ∧ 0 < cs.2.1 ∧ 0 < cs.2.2) :
    (∃ cs ∈ css, Generated.Src.validateCond (xmin := b.xmin) (xmax := b.xmax) (ymin := b.ymin) (ymax := b.ymax)
        (zmin := b.zmin) (zmax := b.zmax) (xs := size.1) (ys := size.2.1) (zs := size.2.2)
        (xcs := cs.1) (ycs := cs.2.1) (zcs := cs.2.2)) ↔ onGrid size css b := by
  rw [← validate_iff size css b hpos]
  simp only [validate, List.any_eq_true]
  constructor
  · rintro ⟨cs, hm, h⟩
    exact ⟨cs, hm, (Source.validateCond_iff_model b _ _ _ _ _ _).mp h⟩
  · rintro ⟨cs, hm, h⟩
    exact ⟨cs, hm, (Source.validateCond_iff_model b _ _ _ _ _ _).mpr h⟩

end NgVerif.Props.C03
