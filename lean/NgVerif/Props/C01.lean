import NgVerif.Proofs.Source
import NgVerif.Proofs.Volume
import NgVerif.Props.C11
/-
  C01 — Volume conversion preserves every voxel of the input image.
  The conversion loop writes, for every cell `((x0,x1),(y0,y1),(z0,z1))` of `Tiling.volumeLoop`,
  the chunk `chunk[c, z, y, x] = convert(volume[x0 + x, y0 + y, z0 + z, c])` (the `moveaxis` in
  `volume_to_precomputed`; compared with the real chunks by the tie). The value conversion is C11,
  the chunk store C03/C12/C05.
-/
namespace NgVerif.Props.C01
open NgVerif NgVerif.Tiling NgVerif.Volume

/-- every voxel position of the volume lies in EXACTLY ONE written chunk, for all sizes and all
    (non-cubic) chunk sizes: no voxel is missing, none comes from two chunks -/
theorem every_voxel_written_exactly_once (size cs : Nat × Nat × Nat)
    (hc : 0 < cs.1 ∧ 0 < cs.2.1 ∧ 0 < cs.2.2) (x y z : Nat)
    (hx : x < size.1) (hy : y < size.2.1) (hz : z < size.2.2) :
    ∃ c ∈ volumeLoop size cs, inCell c x y z ∧ ∀ c' ∈ volumeLoop size cs, inCell c' x y z → c' = c := by
  obtain ⟨c, hm, hin, hu⟩ := voxel_in_exactly_one_chunk size cs hc x y z hx hy hz
  exact ⟨c, (mem_volumeLoop size cs c).mpr hm, hin,
    fun c' hc' h' => hu c' ((mem_volumeLoop size cs c').mp hc') h'⟩

/-- the written chunk coordinates are cells of the chunk grid (hence accepted by
    `validate_chunk_coords`, C03): non-empty, aligned, clipped to the volume -/
theorem written_chunks_on_grid (size cs : Nat) (hs : 0 < size) (hc : 0 < cs) (r : Nat × Nat)
    (hr : r ∈ ranges size cs) : ∃ i, r.1 = cs * i ∧ r.1 < size ∧ r.2 = min (r.1 + cs) size ∧ r.1 < r.2 := by
  simp only [ranges, List.mem_map, List.mem_range] at hr
  obtain ⟨i, hi, rfl⟩ := hr
  obtain ⟨h1, h2⟩ := range_onGrid size cs hs hc i hi
  refine ⟨i, rfl, h1, ?_, h2⟩
  simp only
  rw [Nat.mul_add, Nat.mul_one]

/-- the documented value mapping (header slope/intercept, then [input_min, input_max] onto the
    target range), as the code implements it by rewriting the proxy's slope and intercept -/
theorem value_mapping (raw slope inter imin imax omin omax : ℚ) (h : imax ≠ imin) :
    let ps := (omax - omin) / (imax - imin)
    let pi := omin - imin * ps
    raw * (slope * ps) + (inter * ps + pi) = ((raw * slope + inter) - imin) * ps + omin ∧
    imin * ps + pi = omin ∧ imax * ps + pi = omax :=
  scaling_algebra raw slope inter imin imax omin omax h

/-- CONTENT, not only boxes: `Volume.convert` is the conversion loop with the chunk it hands to
    `write_chunk` (slicing `volume[x0:x1, y0:y1, z0:z1, :]`, `moveaxis` to `(C, Z, Y, X)`; compared call by
    call with the real loop on identity volumes). Reading the stored chunks back the way every reader of the
    format does (the chunk whose box contains the position, C-order index in its `(C, Z, Y, X)` array)
    returns, for EVERY voxel position and channel, the input value of that same position: none missing,
    none from a wrong place, border chunks and the axis transposition included — for all volume sizes, channel
    counts and non-cubic chunk sizes. -/
theorem every_voxel_reads_back {α} (vol : Nat → Nat → Nat → Nat → α) (C : Nat) (size cs : Nat × Nat × Nat)
    (hc : 0 < cs.1 ∧ 0 < cs.2.1 ∧ 0 < cs.2.2) (x y z c : Nat)
    (hx : x < size.1) (hy : y < size.2.1) (hz : z < size.2.2) (hch : c < C) :
    readVoxel (convert vol C size cs) x y z c = some (vol x y z c) :=
  readVoxel_convert vol C size cs hc x y z c hx hy hz hch

/-- the same statement about the EXECUTABLE model `rewriteScaling` (run by the driver over exact rationals
    next to the slope/intercept the real code leaves on the nibabel proxy): for every raw value the rewritten
    scaling is "header scaling, then [input_min, input_max] onto the target range"; a voxel whose scaled
    value is input_min lands on the target minimum, input_max on the target maximum -/
theorem value_mapping_of_model {K : Type} [Field K] (raw slope inter imin imax omin omax : K) (h : imax ≠ imin) :
    let r := rewriteScaling slope inter imin imax omin omax
    raw * r.1 + r.2 = ((raw * slope + inter) - imin) * ((omax - omin) / (imax - imin)) + omin ∧
    (∀ v, v * slope + inter = imin → v * r.1 + r.2 = omin) ∧
    (∀ v, v * slope + inter = imax → v * r.1 + r.2 = omax) :=
  rewriteScaling_spec raw slope inter imin imax omin omax h

example : readVoxel (convert (fun x y z c => 1000 * x + 100 * y + 10 * z + c) 2 (3, 2, 3) (2, 2, 2)) 2 1 2 1
    = some 2121 := by decide

example : (volumeLoop (5, 4, 3) (2, 3, 2)).length = 12 := by decide

/-- TRANSLATED SOURCE. The loop bounds of `volume_to_precomputed` as they stand in /repo's source (translated on
    every run: `range((size-1)//cs+1)`, `cs*i`, `min(cs*(i+1), size)`) are the chunk ranges the model iterates
    over, for all sizes ≥ 1 and chunk sizes -/
theorem source_loop_bounds_are_the_model (s c i : Nat) (hs : 1 ≤ s) :
    Generated.Src.volCountZ (size_2 := s) (chunk_size_2 := c) = ((count s c : Nat) : Int) ∧
    Generated.Src.volCountX (size_0 := s) (chunk_size_0 := c) = ((count s c : Nat) : Int) ∧
    Generated.Src.volLowerZ (chunk_size_2 := c) (z_chunk_idx := i) = ((c * i : Nat) : Int) ∧
    Generated.Src.volUpperZ (chunk_size_2 := c) (z_chunk_idx := i) (size_2 := s) = ((min (c * (i + 1)) s : Nat) : Int) ∧
    Generated.Src.volUpperX (chunk_size_0 := c) (x_chunk_idx := i) (size_0 := s) = ((min (c * (i + 1)) s : Nat) : Int) :=
  ⟨(Source.volCount_eq_model s c hs).1, (Source.volCount_eq_model s c hs).2, (Source.volBounds_eq_model s c i).1,
   (Source.volBounds_eq_model s c i).2.1, (Source.volBounds_eq_model s c i).2.2⟩

end NgVerif.Props.C01
