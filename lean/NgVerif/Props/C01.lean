import NgVerif.Proofs.Volume
import NgVerif.Props.C11
/-
  C01 — Volume conversion preserves every voxel of the input image.
  The conversion loop writes, for every cell `((x0,x1),(y0,y1),(z0,z1))` of `Tiling.volumeLoop`,
  the chunk `chunk[c, z, y, x] = convert(volume[x0 + x, y0 + y, z0 + z, c])` (the `moveaxis` in
  `volume_to_precomputed`; compared with the real chunks by the tie). The value conversion is C11,
  the chunk store C03/C12/C05.
-/
namespace NgVerif.Props.C01
open NgVerif NgVerif.Tiling NgVerif.Volume

/-- every voxel position of the volume lies in EXACTLY ONE written chunk, for all sizes and all
    (non-cubic) chunk sizes: no voxel is missing, none comes from two chunks -/
theorem every_voxel_written_exactly_once (size cs : Nat × Nat × Nat)
    (hc : 0 < cs.1 ∧ 0 < cs.2.1 ∧ 0 < cs.2.2) (x y z : Nat)
    (hx : x < size.1) (hy : y < size.2.1) (hz : z < size.2.2) :
    ∃ c ∈ volumeLoop size cs, inCell c x y z ∧ ∀ c' ∈ volumeLoop size cs, inCell c' x y z → c' = c := by
  obtain ⟨c, hm, hin, hu⟩ := voxel_in_exactly_one_chunk size cs hc x y z hx hy hz
  exact ⟨c, (mem_volumeLoop size cs c).mpr hm, hin,
    fun c' hc' h' => hu c' ((mem_volumeLoop size cs c').mp hc') h'⟩

/-- the written chunk coordinates are cells of the chunk grid (hence accepted by
    `validate_chunk_coords`, C03): non-empty, aligned, clipped to the volume -/
theorem written_chunks_on_grid (size cs : Nat) (hs : 0 < size) (hc : 0 < cs) (r : Nat × Nat)
    (hr : r ∈ ranges size cs) : ∃ i, r.1 = cs * i ∧ r.1 < size ∧ r.2 = min (r.1 + cs) size ∧ r.1 < r.2 := by
  simp only [ranges, List.mem_map, List.mem_range] at hr
  obtain ⟨i, hi, rfl⟩ := hr
  obtain ⟨h1, h2⟩ := range_onGrid size cs hs hc i hi
  refine ⟨i, rfl, h1, ?_, h2⟩
  simp only
  rw [Nat.mul_add, Nat.mul_one]

/-- the documented value mapping (header slope/intercept, then [input_min, input_max] onto the
    target range), as the code implements it by rewriting the proxy's slope and intercept -/
theorem value_mapping (raw slope inter imin imax omin omax : ℚ) (h : imax ≠ imin) :
    let ps := (omax - omin) / (imax - imin)
    let pi := omin - imin * ps
    raw * (slope * ps) + (inter * ps + pi) = ((raw * slope + inter) - imin) * ps + omin ∧
    imin * ps + pi = omin ∧ imax * ps + pi = omax :=
  scaling_algebra raw slope inter imin imax omin omax h

example : (volumeLoop (5, 4, 3) (2, 3, 2)).length = 12 := by decide

end NgVerif.Props.C01
