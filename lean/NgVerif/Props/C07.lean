import NgVerif.Proofs.Down
import NgVerif.Proofs.Majority
import NgVerif.Proofs.Conv
/-
  C07 — Downscalers compute the documented block statistic exactly (one channel; the code treats
  channels independently). Arrays are functions z → y → x → value with extents `e`.
-/
namespace NgVerif.Props.C07
open NgVerif NgVerif.Down

/-- averaging: for factors in {1,2} per axis, EVERY extent ≥ 1 (odd and size-1 axes included),
    edge padding or any outside value, the three sequential pad-and-average stages of the code
    compute, at every output voxel, the sum over the source block of the input COMPLETED beyond its
    border (edge value, resp. outside value); dividing by 2^(number of halved axes) is the mean. -/
theorem average_is_block_mean (f : Arr3) (e : Ext) (o : Option Int) (fz fy fx : Nat)
    (hfz : fz = 1 ∨ fz = 2) (hfy : fy = 1 ∨ fy = 2) (hfx : fx = 1 ∨ fx = 2)
    (hz : 0 < e.z) (hy : 0 < e.y) (hx : 0 < e.x) (z y x : Nat)
    (hzo : z < (outExt e fz fy fx).z) (hyo : y < (outExt e fz fy fx).y) (hxo : x < (outExt e fz fy fx).x) :
    sums f e o fz fy fx z y x = blockSum (completed f e o) fz fy fx z y x :=
  sums_eq_blockSum f e o fz fy fx hfz hfy hfx hz hy hx z y x hzo hyo hxo

/-- … and for uint8/uint16/uint32 data the stored value is that mean rounded half to even and
    saturated — never a wrap (composition with C11's theorem; float64 arithmetic is exact on these
    ranges) … -/
theorem average_rounds_half_even (t : Conv.Ty) (ht : t = .u8 ∨ t = .u16 ∨ t = .u32)
    (f : Arr3) (e : Ext) (o : Option Int) (fz fy fx z y x : Nat) :
    average t f e o fz fy fx z y x =
      some (Conv.nearestInt t ⟨sums f e o fz fy fx z y x, halvings fz fy fx⟩) := by
  unfold average
  apply Conv.toInt_float_small .f64 t rfl
  rcases ht with rfl | rfl | rfl <;> simp

/-- … which lies between the minimum and maximum of the contributing values. -/
theorem mean_within_bounds (n : Int) (k : Nat) (lo hi : Int) (h1 : lo * 2 ^ k ≤ n) (h2 : n ≤ hi * 2 ^ k) :
    lo ≤ Conv.rint ⟨n, k⟩ ∧ Conv.rint ⟨n, k⟩ ≤ hi :=
  rint_bounds n k lo hi h1 h2

example : average .u8 (fun _ _ x => if x = 0 then 1 else if x = 1 then 2 else 255) ⟨1, 1, 3⟩ none 1 1 2 0 0 0
    = some 2 := by decide   -- (1 + 2) / 2 = 1.5 → 2 (ties to even)

/-- majority: the result is a label of the block with maximal count, the smallest one on ties -/
theorem majority_is_most_frequent_smallest (l : List Nat) (hne : l ≠ []) :
    Cseg.mostFrequent l ∈ l ∧ (∀ v, l.count v ≤ l.count (Cseg.mostFrequent l)) ∧
    (∀ v ∈ l, l.count v = l.count (Cseg.mostFrequent l) → Cseg.mostFrequent l ≤ v) :=
  Cseg.mostFrequent_spec l hne

example : Cseg.mostFrequent [9, 3, 3, 3, 3, 9, 9, 9] = 3 := by decide

/-- striding: the block's first voxel -/
theorem stride_is_first_voxel (f : Arr3) (fz fy fx z y x : Nat) :
    stride f fz fy fx z y x = f (z * fz) (y * fy) (x * fx) := rfl

/-- the method may be spelled `auto` (the commands' default): for an image it builds exactly what `average` builds
    and otherwise what `stride` builds, WITH THE SAME OPTIONS … -/
theorem auto_selects_the_named_method_with_the_same_options (ty : String) (o : Option Int) :
    getDownscaler "auto" ty o = getDownscaler (if ty = "image" then "average" else "stride") ty o := by
  by_cases h : ty = "image" <;> simp [getDownscaler, h]

/-- … so whichever spelling selects averaging, the voxel computed is the averaging model's with the CALLER'S
    outside value (to which `average_is_block_mean` and `average_rounds_half_even` then apply): the option is
    never dropped on the way to the downscaler -/
theorem selected_average_uses_the_outside_value (m ty : String) (o : Option Int)
    (h : m = "average" ∨ (m = "auto" ∧ ty = "image"))
    (t : Conv.Ty) (f : Arr3) (e : Ext) (fz fy fx z y x : Nat) :
    (getDownscaler m ty o).map (fun s => s.voxel t f e fz fy fx z y x) =
      some (average t f e o fz fy fx z y x) := by
  rcases h with h | ⟨h1, h2⟩
  · subst h; simp [getDownscaler, Sel.voxel]
  · subst h1; subst h2; simp [getDownscaler, Sel.voxel]

/-- every accepted name selects the statistic it names, and nothing else is accepted -/
theorem selection_is_by_name (m ty : String) (o : Option Int) :
    (getDownscaler m ty o).isSome ↔ m = "auto" ∨ m = "average" ∨ m = "majority" ∨ m = "stride" := by
  unfold getDownscaler
  by_cases h0 : m = "auto"
  · subst h0; by_cases h : ty = "image" <;> simp [h]
  · by_cases h1 : m = "average"
    · subst h1; simp
    · by_cases h2 : m = "majority"
      · subst h2; simp
      · by_cases h3 : m = "stride"
        · subst h3; simp
        · simp [h0, h1, h2, h3]

example : getDownscaler "auto" "image" (some 255) = some (.average (some 255)) := by decide
example : getDownscaler "auto" "segmentation" (some 255) = some .stride := by decide
example : getDownscaler "nearest" "image" none = none := by decide

end NgVerif.Props.C07
