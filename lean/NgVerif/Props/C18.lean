import NgVerif.Proofs.Fault
import NgVerif.Proofs.Coords
import NgVerif.Proofs.CsegPrefix
import NgVerif.Model.Http
import NgVerif.Proofs.Buffers
/-
  C18 — I/O failures and interrupted writes never yield silently wrong data.
  The store of one chunk as a program of I/O primitives under an injected failure or an
  interruption (`Fault.storeRun`), the reader on what is left (`Fault.readChunk`), the shard file
  while `Shard.close` runs, and the HTTP readers' handling of failing requests.
  Law of an external used as a modelling assumption (validated by the harness, not proved): a
  non-empty strict prefix of a gzip stream is refused by gzip (class `gzTorn`). The codec
  hypothesis `hprefix` is proved for raw and for compressed_segmentation; JPEG is an external.
-/
namespace NgVerif.Props.C18
open NgVerif NgVerif.Fault

/-- An injected failure of ANY primitive is reported as a data-access error, never as success;
    success is reported only when the whole stream is on disk. -/
theorem failure_is_reported (gz : Bool) (glen : Nat) (old : Disk) (payload : Bytes) (ev : Event) :
    (∀ k j, ev = .fault k j → (storeRun gz glen old payload ev).1 = .dataAccess) ∧
    ((storeRun gz glen old payload ev).1 = .ok →
      (storeRun gz glen old payload ev).2 = fullFile gz payload) := by
  constructor
  · intro k j h; subst h; simp only [storeRun]; split <;> rfl
  · intro h
    cases ev with
    | none => rfl
    | fault k j => simp only [storeRun] at h; split at h <;> cases h
    | crash k j => simp only [storeRun] at h; split at h <;> (try split at h) <;> cases h

/-- MAIN (any codec): after an injected failure or an interruption at ANY primitive with ANY
    number of stream bytes written, a reader of that chunk gets what it got before the store,
    or exactly the new array, or an error — never another array. `hprefix`: the decoder either
    refuses a prefix of the encoder's output or decodes it to the encoded array (proved below for
    raw and for compressed_segmentation). -/
theorem interrupted_store_never_wrong (dec : Bytes → Option (List Nat)) (payload : Bytes)
    (vals : List Nat) (hdec : dec payload = some vals)
    (hprefix : ∀ j, dec (payload.take j) = none ∨ dec (payload.take j) = some vals)
    (gz : Bool) (glen : Nat) (old : Disk) (ev : Event) :
    readChunk dec (storeRun gz glen old payload ev).2 = readChunk dec old ∨
    readChunk dec (storeRun gz glen old payload ev).2 = .ok vals ∨
    ∃ e, readChunk dec (storeRun gz glen old payload ev).2 = .error e := by
  have hempty : dec [] = some vals ∨ dec [] = none := by
    have := hprefix 0
    simp only [List.take_zero] at this
    exact this.symm
  have hpart : ∀ j, readChunk dec (partialFile gz glen payload j) = .ok vals ∨
      ∃ e, readChunk dec (partialFile gz glen payload j) = .error e := by
    intro j
    unfold partialFile
    cases gz with
    | true =>
      simp only [if_true]
      by_cases h0 : j = 0
      · rw [if_pos h0]
        rcases hempty with h | h
        · left; simp [readChunk, fetch, h]
        · right; exact ⟨.format, by simp [readChunk, fetch, h]⟩
      · rw [if_neg h0]
        by_cases h1 : j < glen
        · rw [if_pos h1]; right; exact ⟨.dataAccess, rfl⟩
        · rw [if_neg h1]; left; simp [readChunk, fetch, hdec]
    | false =>
      simp only [Bool.false_eq_true, if_false]
      rcases hprefix j with h | h
      · right; exact ⟨.format, by simp [readChunk, fetch, h]⟩
      · left; simp [readChunk, fetch, h]
  cases ev with
  | none =>
    right; left
    show readChunk dec (fullFile gz payload) = .ok vals
    cases gz <;> simp [fullFile, readChunk, fetch, hdec]
  | fault k j =>
    by_cases hk : k ≤ 1
    · left; simp only [storeRun, if_pos hk]
    · right; simp only [storeRun, if_neg hk]; exact hpart j
  | crash k j =>
    by_cases hk : k ≤ 1
    · left; simp only [storeRun, if_pos hk]
    · right
      by_cases h2 : k = 2
      · simp only [storeRun, if_neg hk, if_pos h2]; exact hpart 0
      · simp only [storeRun, if_neg hk, if_neg h2]; exact hpart j

/-- raw chunks meet `hprefix` and `hdec`: for every item size and every non-empty array, the
    decoder refuses every strict prefix of the encoding (length test) and accepts the whole. -/
theorem raw_refuses_strict_prefixes (itemsize : Nat) (hk : 0 < itemsize) (vals : List Nat)
    (hv : ∀ v ∈ vals, v < 256 ^ itemsize) (j : Nat) (hj : j < (Raw.encode itemsize vals).length) :
    Raw.decode itemsize vals.length ((Raw.encode itemsize vals).take j) = .error .format ∧
    Raw.decode itemsize vals.length (Raw.encode itemsize vals) = .ok vals := by
  refine ⟨?_, Raw.decode_encode itemsize hk vals hv⟩
  have hlen : (Raw.encode itemsize vals).length = vals.length * itemsize := Raw.encode_length itemsize vals
  have h1 : ((Raw.encode itemsize vals).take j).length = j := by
    rw [List.length_take]; omega
  unfold Raw.decode
  rw [h1]
  by_cases hm : j % itemsize = 0
  · rw [if_neg (fun h => h hm)]
    have : j / itemsize ≠ vals.length := by
      intro hc
      have := Nat.div_add_mod j itemsize
      rw [hm, hc, Nat.add_zero, Nat.mul_comm] at this
      omega
    rw [if_pos this]
  · rw [if_pos hm]

/-- raw chunks, stated outright (no codec hypothesis left): plain or gzip-compressed, any
    previous state of the file, any failure or interruption point -/
theorem interrupted_raw_store_never_wrong (itemsize : Nat) (hk : 0 < itemsize) (vals : List Nat)
    (hv : ∀ v ∈ vals, v < 256 ^ itemsize) (gz : Bool) (glen : Nat) (old : Disk) (ev : Event) :
    let dec := fun b => (Raw.decode itemsize vals.length b).toOption
    let d := (storeRun gz glen old (Raw.encode itemsize vals) ev).2
    readChunk dec d = readChunk dec old ∨ readChunk dec d = .ok vals ∨ ∃ e, readChunk dec d = .error e := by
  intro dec d
  apply interrupted_store_never_wrong dec (Raw.encode itemsize vals) vals
  · simp [dec, Raw.decode_encode itemsize hk vals hv, Except.toOption]
  · intro j
    by_cases hj : j < (Raw.encode itemsize vals).length
    · left; simp [dec, (raw_refuses_strict_prefixes itemsize hk vals hv j hj).1, Except.toOption]
    · right
      rw [List.take_of_length_le (by omega)]
      simp [dec, Raw.decode_encode itemsize hk vals hv, Except.toOption]

/-- compressed_segmentation chunks, stated outright: whatever prefix of the encoder's output an
    interrupted or failed store leaves behind, the package's own decoder either refuses it or returns
    exactly the encoded array; so the reader gets the old chunk, the new chunk, or an error. -/
theorem interrupted_cseg_store_never_wrong (itemsize : Nat) (hi : itemsize = 4 ∨ itemsize = 8)
    (s : Cseg.Shape) (bk : Cseg.Blk3) (d : List Nat) (hbx : 0 < bk.bx) (hby : 0 < bk.by') (hbz : 0 < bk.bz)
    (hvals : ∀ v ∈ d, v < 2 ^ (8 * itemsize)) (hd : d.length = s.c * s.z * s.y * s.x)
    (file : Bytes) (h : Cseg.encode itemsize s bk d = some file)
    (gz : Bool) (glen : Nat) (old : Disk) (ev : Event) :
    let dec := fun b => (Cseg.implDecode itemsize s bk b).toOption
    let dk := (storeRun gz glen old file ev).2
    readChunk dec dk = readChunk dec old ∨ readChunk dec dk = .ok d ∨ ∃ e, readChunk dec dk = .error e := by
  intro dec dk
  apply interrupted_store_never_wrong dec file d
  · simp [dec, Cseg.implDecode_encode itemsize hi s bk d hbx hby hbz hvals hd file h, Except.toOption]
  · intro j
    cases hr : Cseg.implDecode itemsize s bk (file.take j) with
    | error e => left; simp [dec, hr, Except.toOption]
    | ok a =>
      right
      have := Cseg.implDecode_prefix itemsize hi s bk d hbx hby hbz hvals hd file h j a hr
      simp [dec, hr, Except.toOption, this]

/-- A shard file interrupted at ANY point before the final index write (zeroed placeholder
    followed by any prefix of data and minishard indices) lists no chunk: every chunk of that
    shard is absent for the package's reader, for every sharding specification. -/
theorem partial_shard_lists_nothing (m p : Nat) (body : Bytes) (j id : Nat) :
    Shard.implFetch m p (partialShard m body j) id = none := by
  unfold Shard.implFetch partialShard
  rw [populate_zero_header]
  rfl

/-- … and a file shorter than the index placeholder is refused -/
theorem truncated_shard_index_refused (m p : Nat) (file : Bytes) (h : file.length < 2 ^ m * 16) (id : Nat) :
    Shard.implFetch m p file id = none := by
  unfold Shard.implFetch Shard.populate
  simp [h]

/-- HTTP: a failing request (transport failure or any 4xx/5xx reply) is an error for the plain
    reader and for the shard reader; neither ever returns bytes for it. -/
theorem http_failure_is_error (r : Http.Reply) (length : Nat)
    (hbad : r = .transport ∨ ∃ code body, r = .status code body ∧ 400 ≤ code ∧ code < 600) :
    Http.fetchFile r = .error .dataAccess ∧ Http.shardReadBytes length r = .error .ioError := by
  rcases hbad with rfl | ⟨code, body, rfl, h1, h2⟩
  · exact ⟨rfl, rfl⟩
  · simp [Http.fetchFile, Http.shardReadBytes, Http.raises, h1, h2]

/-- non-vacuity: a 2-value uint16 chunk, gzip, write fails after 5 stream bytes -/
example : (storeRun true 30 .absent (Raw.encode 2 [513, 7]) (.fault 2 5)) = (.dataAccess, .gzTorn) := by decide

/-! ### the sharded writer's disk-backed buffers under I/O failures (defects F35, F36, repaired) -/

open NgVerif.Buffers in
/-- `OnDiskByteArray` after ANY history of appends, each of which may fail at `open` or after any number
    of bytes of its payload reached the file: the buffer file holds exactly the payloads of the appends
    that returned normally, in order, and the length the object reports is the length of that file — so
    "everything stored earlier" keeps its place when one append fails and the caller goes on -/
theorem disk_buffer_holds_exactly_the_successful_appends (hist : List (List Nat × Ev)) :
    (runAdds add ⟨[], 0⟩ hist).file = memory hist ∧
    (runAdds add ⟨[], 0⟩ hist).len = (memory hist).length := by
  simpa using runAdds_spec ⟨[], 0⟩ rfl hist

open NgVerif.Buffers in
/-- regression witness for F35: before the repair one failed append (nothing written) made the reported
    length disagree with the file for good — the offsets of every later minishard of the shard were
    computed from it -/
theorem old_disk_buffer_counterexample :
    let b := runAdds addOld ⟨[], 0⟩ [([1, 2], .failOpen), ([3], .ok)]
    b.file = [3] ∧ b.len = 3 := by decide

open NgVerif.Buffers NgVerif.MS in
/-- `flush_buffer` whose append number `okN + 1` raises, for every state, enumeration and `okN`: every
    chunk that was waiting in the reorder buffer is still there with its bytes, or is one of the chunks
    this flush appended; and the data grew by exactly the appended payloads. No chunk whose store had
    returned normally disappears. -/
theorem failed_flush_loses_no_chunk (nxt : Nat → Nat) (f okN : Nat) (s : St) :
    (∀ id p, get? s.buf id = some p →
      get? (flushFail nxt f okN s).1.buf id = some p ∨ (id, p) ∈ (flushFail nxt f okN s).2) ∧
    (flushFail nxt f okN s).1.data = s.data ++ ((flushFail nxt f okN s).2.flatMap (·.2)) :=
  ⟨fun id p h => flushFail_keeps nxt f okN s id p h, flushFail_data nxt f okN s⟩

open NgVerif.Buffers NgVerif.MS in
/-- regression witness for F36: before the repair the chunk was taken out of the buffer first; when its
    append failed it was neither buffered nor appended -/
theorem old_flush_counterexample :
    let s : St := ⟨0, 0, [(0, [7])], [], []⟩
    let r := flushFailOld id 1 0 s
    get? s.buf 0 = some [7] ∧ get? r.1.buf 0 = none ∧ r.2 = [] ∧ r.1.data = [] := by decide

end NgVerif.Props.C18
