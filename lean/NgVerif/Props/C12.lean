import NgVerif.Proofs.FileStore
import NgVerif.Proofs.ChunkNames
/-
  C12 — File storage returns the latest stored bytes under every layout option.
  `FileStore` models `FileAccessor` over an abstract file system (component lists → contents), with
  the code's probing order; tied to the real accessor by operation histories on a real directory
  (return values, exception classes and the whole directory tree after every history).
-/
namespace NgVerif.Props.C12
open NgVerif NgVerif.FileStore

/-- fetching a file returns exactly the bytes most recently stored under that name, and the store
    touches no other path — for every configuration (flat/gzip), MIME type and prior file-system
    state. Hypothesis for the compressed case: no UNcompressed file with the same name exists
    (a name is always stored with the same MIME type; no stored name is another name + ".gz"). -/
theorem fetch_returns_latest_store (cfg : Cfg) (fs fs' : FS) (rel : String) (p : Path) (buf : Bytes)
    (mime : String) (ow : Bool) (hc : confined rel = some p) (hp : p ≠ [])
    (hs : storeFile cfg fs rel buf mime ow = .ok fs')
    (hplain : compresses cfg mime = true → fs.get p = none) :
    fetchFile fs' rel = .ok (.bytes buf) ∧ ∀ q, q ≠ targetOf cfg mime p → fs'.get q = fs.get q :=
  fetch_after_store cfg fs fs' rel p buf mime ow hc hp hs hplain

/-- storing without permission to overwrite fails with a data-access error when the target
    exists (the error result carries no new file system: existing content is untouched) -/
theorem no_overwrite_without_permission (cfg : Cfg) (fs : FS) (rel : String) (p : Path) (buf : Bytes)
    (mime : String) (hc : confined rel = some p) (hex : (fs.get (targetOf cfg mime p)).isSome = true) :
    storeFile cfg fs rel buf mime false = .error .access :=
  store_no_overwrite cfg fs rel p buf mime hc hex

/-- names that are absolute or contain a ".." component are refused by all three file
    operations, with a result that does not depend on the file system at all -/
theorem escaping_names_refused (cfg : Cfg) (fs : FS) (rel : String) (buf : Bytes) (mime : String)
    (ow : Bool) (h : rel.startsWith "/" = true ∨
      ((rel.splitOn "/").filter fun s => s != "" && s != ".").contains ".." = true) :
    storeFile cfg fs rel buf mime ow = .error .refused ∧ fetchFile fs rel = .error .refused ∧
    fileExists fs rel = .error .refused :=
  refused_before_any_access cfg fs rel buf mime ow ((confined_none_iff rel).mpr h)

/-- chunks land at the documented path (`key/x-X_y-Y_z-Z` or `key/x-X/y-Y/z-Z`, ".gz" appended iff
    compression applies — MIME table regenerated from the source) … -/
theorem chunk_layout (cfg : Cfg) (mime key : String) (x0 x1 y0 y1 z0 z1 : Nat) :
    targetOf cfg mime (chunkPath cfg.flat key (x0, x1, y0, y1, z0, z1)) =
      (let p := if cfg.flat then [key, coordStr x0 x1 ++ "_" ++ coordStr y0 y1 ++ "_" ++ coordStr z0 z1]
                else [key, coordStr x0 x1, coordStr y0 y1, coordStr z0 z1]
       if cfg.gzip && !(Generated.noCompressMimeTypes.contains mime) then gzName p else p) := by
  cases hf : cfg.flat <;> simp [targetOf, chunkPath, compresses, hf]

/-- … and a dataset written under ANY configuration is read back by `fetch_chunk` under any other
    (the reader probes all four candidate paths, which are pairwise distinct), provided the other
    three candidates are unused. -/
theorem chunk_read_under_any_configuration (cfg : Cfg) (fs fs' : FS) (key : String)
    (c : Nat × Nat × Nat × Nat × Nat × Nat) (buf : Bytes) (mime : String) (ow : Bool)
    (hs : storeChunk cfg fs key c buf mime ow = .ok fs')
    (hfree : ∀ q, (q = chunkPath true key c ∨ q = chunkPath false key c ∨
        q = gzName (chunkPath true key c) ∨ q = gzName (chunkPath false key c)) →
        q ≠ targetOf cfg mime (chunkPath cfg.flat key c) → fs.get q = none) :
    fetchChunk fs' key c = .ok (.bytes buf) :=
  fetch_chunk_after_store cfg fs fs' key c buf mime ow hs hfree

/-- distinct chunks have distinct file names: in both layouts the name determines the key and all
    six coordinates (decimal digits contain neither '-' nor '_'; `Nat.repr` is injective) -/
theorem chunk_names_injective (flat : Bool) (key key' : String) (c c' : Nat × Nat × Nat × Nat × Nat × Nat)
    (h : chunkPath flat key c = chunkPath flat key' c') : key = key' ∧ c = c' :=
  chunkPath_inj flat key key' c c' h

/-- FRAME: storing a chunk changes what `fetch_chunk` returns for NO other chunk — another key or
    other coordinates — under any configuration, MIME type and prior file-system state (none of the
    four candidate paths of the other chunk is the path written). -/
theorem store_chunk_leaves_other_chunks_alone (cfg : Cfg) (fs fs' : FS) (key : String)
    (c : Nat × Nat × Nat × Nat × Nat × Nat) (buf : Bytes) (mime : String) (ow : Bool)
    (hs : storeChunk cfg fs key c buf mime ow = .ok fs')
    (key' : String) (c' : Nat × Nat × Nat × Nat × Nat × Nat) (hne : ¬ (key = key' ∧ c = c')) :
    fetchChunk fs' key' c' = fetchChunk fs key' c' :=
  store_chunk_frame cfg fs fs' key c buf mime ow hs key' c' hne

/-- non-vacuity of the frame theorem: a store that succeeds -/
example : ∃ fs', storeChunk ⟨true, false⟩ [] "k" (0, 1, 0, 1, 0, 1) [1] "application/octet-stream" true = .ok fs' := by
  have h : chunkRefused "k" = false := by decide
  exact ⟨_, by simp only [storeChunk, h, Bool.false_eq_true, if_false]; rfl⟩

/-- keys that are refused, and keys with dots or sub-directories that are not -/
example : chunkRefused "" = true ∧ chunkRefused "../x" = true ∧ chunkRefused "a/../../b" = true ∧
    chunkRefused "/abs" = true ∧ chunkRefused "lvl/0" = false ∧ chunkRefused "v1..2" = false ∧
    chunkRefused "./k" = false := by decide

/-- chunk names are confined too (defect F38, repaired): a scale key that makes the chunk's relative name
    absolute (the empty key) or that contains a `..` component is refused by `store_chunk` AND `fetch_chunk`,
    whatever the configuration, coordinates and file-system state - nothing outside the dataset directory is
    read or written, and the file system is not touched -/
theorem escaping_chunk_keys_refused (cfg : Cfg) (fs : FS) (key : String) (c : Nat × Nat × Nat × Nat × Nat × Nat)
    (buf : Bytes) (mime : String) (ow : Bool) (h : chunkRefused key = true) :
    storeChunk cfg fs key c buf mime ow = .error .refused ∧ fetchChunk fs key c = .error .refused :=
  chunk_key_escape_refused cfg fs key c buf mime ow h

end NgVerif.Props.C12
