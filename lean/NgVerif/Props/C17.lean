import NgVerif.Proofs.Vtk
import NgVerif.Proofs.Mesh
/-
  C17 — Mesh files follow the formats Neuroglancer reads and survive a round trip.
  (VTK export and fragment links: checked on the real writers by a recogniser of Neuroglancer's
  VTK subset grammar and by JSON parsing — harness, not theorems.)
-/
namespace NgVerif.Props.C17
open NgVerif NgVerif.Mesh

/-- layout: vertex count (uint32 LE), float32 coordinates, uint32 triangle indices — by the
    definition of `save`; and reading it back returns the same vertices and triangles, for every
    mesh whose indices reference existing vertices -/
theorem precomputed_mesh_round_trip (coords tris : List Nat) (hc : coords.length % 3 = 0)
    (ht : tris.length % 3 = 0) (hn : coords.length / 3 < 2 ^ 32)
    (hcv : ∀ v ∈ coords, v < 2 ^ 32) (hidx : ∀ t ∈ tris, t < coords.length / 3) :
    save coords tris = leBytes 4 (coords.length / 3) ++ u32s coords ++ u32s tris ∧
    read (save coords tris) = .ok (coords, tris) :=
  ⟨rfl, read_save coords tris hc ht hn hcv hidx⟩

example : read (save [1, 2, 3, 4, 5, 6, 7, 8, 9] [0, 1, 2, 2, 1, 0]) = .ok ([1, 2, 3, 4, 5, 6, 7, 8, 9], [0, 1, 2, 2, 1, 0]) := by
  decide

/-- for EVERY byte string the reader returns a mesh all of whose triangle indices reference
    existing vertices, or the mesh-data error (truncated header, truncated vertices, a triangle
    array that is not a whole number of triangles, an index ≥ vertex count) — nothing else -/
theorem reader_total (b : Bytes) :
    (∃ v t, read b = .ok (v, t) ∧ ∀ x ∈ t, x < leVal (b.take 4)) ∨ read b = .error .meshData :=
  read_total b

example : read [1, 0] = .error .meshData ∧ read (save [1, 2, 3] [0, 0, 1]) = .error .meshData := by decide

/-- affine transforms: the signed volume of a triangle's edge vectors against any reference
    direction is multiplied by det R … -/
theorem signed_volume_scales_by_det {K : Type} [CommRing K] (R M : Matrix (Fin 3) (Fin 3) K) :
    (R * M).det = R.det * M.det := signed_volume_transform R M

/-- … reversing the winding negates it … -/
theorem winding_reversal_negates {K : Type} [CommRing K] (u v w : Fin 3 → K) :
    Matrix.det (Matrix.of ![v, u, w]) = - Matrix.det (Matrix.of ![u, v, w]) := signed_volume_swap u v w

/-- … so reversing it exactly when the transform mirrors space (det R < 0) keeps every triangle's
    outward orientation, for every non-singular R -/
theorem outward_orientation_kept {K : Type} [Field K] [LinearOrder K] [IsStrictOrderedRing K]
    (dR vol : K) (hR : dR ≠ 0) :
    let vol' := if dR < 0 then -(dR * vol) else dR * vol
    (0 < vol → 0 < vol') ∧ (vol < 0 → vol' < 0) := orientation_preserved dR vol hR

/-- the executable model of `affine_transform_mesh` (the definition the driver runs next to the real
    function): EVERY vertex is moved by `R·v + t`, the triangle list keeps its length and order, and
    each triangle is reversed exactly when `det R < 0` -/
theorem affine_moves_every_vertex {K : Type} [CommRing K] [LinearOrder K] [IsStrictOrderedRing K]
    (m : M3 K) (t : V3 K) (vs : List (V3 K)) (ts : List (Nat × Nat × Nat)) :
    (affineTransform m t vs ts).1 = vs.map (m.apply t) ∧
    (affineTransform m t vs ts).2 = ts.map (fun tr => if m.det < 0 then flipTri tr else tr) := by
  rw [affineTransform_eq]; exact ⟨rfl, rfl⟩

/-- … and for every non-singular transform (rotations, shears, mirrors, any scale), every triangle and
    EVERY reference point `p`: the triangle as written in the output (new index order, new vertex
    coordinates) is seen from the transformed `p` with the same orientation as the input triangle is seen
    from `p` — inside stays inside, outside stays outside, coplanar stays coplanar -/
theorem affine_keeps_outward_orientation {K : Type} [CommRing K] [LinearOrder K] [IsStrictOrderedRing K]
    (m : M3 K) (t p d : V3 K) (vs : List (V3 K)) (tr : Nat × Nat × Nat) (hdet : m.det ≠ 0) :
    let v := fun i => vs.getD i d
    let v' := fun i => (vs.map (m.apply t)).getD i (m.apply t d)
    let tr' := if m.det < 0 then flipTri tr else tr
    let o := orient p (v tr.1) (v tr.2.1) (v tr.2.2)
    let o' := orient (m.apply t p) (v' tr'.1) (v' tr'.2.1) (v' tr'.2.2)
    (0 < o → 0 < o') ∧ (o < 0 → o' < 0) ∧ (o = 0 → o' = 0) :=
  affine_orientation m t p vs tr hdet d

/-- a mirror really flips: non-vacuity of the `det < 0` branch on the model the driver executes -/
example : affineTransform (α := Int) ⟨-1, 0, 0, 0, 1, 0, 0, 0, 1⟩ ⟨5, 0, 0⟩ [⟨1, 2, 3⟩] [(0, 1, 2)]
    = ([⟨4, 2, 3⟩], [(2, 1, 0)]) := by decide

/-- fragment links: the file name is determined by, and determines, the label (no two labels share a file) -/
theorem link_file_name_injective (dir : String) (nc : Bool) (l l' : Nat)
    (h : linkName dir l nc = linkName dir l' nc) : l = l' := linkName_injective dir nc l l' h

/-- fragment links list exactly the fragments given for each label: for every CSV whose labels are pairwise distinct,
    run over a mesh directory that holds none of their files, the run completes, the file of every row holds exactly
    that row's fragment list (in order), and every other file of the directory is left as it was -/
theorem links_list_exactly_the_given_fragments (dir : String) (nc : Bool) (rows : List (Nat × List String))
    (s : LinkStore) (hd : (rows.map (·.1)).Nodup) (hfree : ∀ r ∈ rows, linkGet s (linkName dir r.1 nc) = none) :
    (links dir nc rows s).2 = true ∧
    (∀ r ∈ rows, linkGet (links dir nc rows s).1 (linkName dir r.1 nc) = some r.2) ∧
    (∀ name, (∀ r ∈ rows, name ≠ linkName dir r.1 nc) → linkGet (links dir nc rows s).1 name = linkGet s name) :=
  links_spec dir nc rows s hd hfree

/-- ... and a row whose file is already there (a label given twice, or a second run over the same directory) stops
    the run with an error at that row: nothing is overwritten, so no file ever lists fragments of another row -/
theorem links_never_overwrite (dir : String) (nc : Bool) (l : Nat) (fr : List String) (rest : List (Nat × List String))
    (s : LinkStore) (h : (linkGet s (linkName dir l nc)).isSome) :
    links dir nc ((l, fr) :: rest) s = (s, false) := links_existing_aborts dir nc l fr rest s h

/-- the directory a complete run leaves does not depend on the order of the CSV rows (pairwise distinct labels) -/
theorem links_do_not_depend_on_row_order (dir : String) (nc : Bool) (rows rows' : List (Nat × List String))
    (hp : rows.Perm rows') (hd : (rows.map (·.1)).Nodup) (name : String) :
    linkGet (links dir nc rows []).1 name = linkGet (links dir nc rows' []).1 name :=
  links_order_independent dir nc rows rows' hp hd name

/-- for EVERY CSV (labels repeated or not), every starting directory and wherever the run stops: a file of the
    directory afterwards either was there before with the same content, or is the file of one of the rows and lists
    exactly that row's fragments - no file ever lists fragments that no row gave for its label -/
theorem links_files_come_from_rows (dir : String) (nc : Bool) (rows : List (Nat × List String))
    (s : LinkStore) (name : String) (fr : List String)
    (h : linkGet (links dir nc rows s).1 name = some fr) :
    linkGet s name = some fr ∨ ∃ r ∈ rows, name = linkName dir r.1 nc ∧ fr = r.2 :=
  Mesh.links_files_come_from_rows dir nc rows s name fr h

example : links "mesh" false [(7, ["a", "b"]), (10, []), (7, ["c"])] [] =
    ([("mesh/10:0", []), ("mesh/7:0", ["a", "b"])], false) ∧
    (links "mesh" true [(7, ["a", "b"]), (10, [])] []).2 = true := by decide

/-- the VTK export is parseable by the subset grammar Neuroglancer accepts: for EVERY title, vertex list,
    triangle list over existing vertices and list of vertex attributes with one to four components and one
    row per vertex, the token-level file the writer model produces (compared byte for byte with the real
    writer's output on every run) is accepted by the recogniser of that subset: header, title of at most 255
    characters, `ASCII`, `DATASET POLYDATA`, `POINTS n float` followed by exactly n rows of three numbers,
    `POLYGONS m 4m` followed by exactly m rows `3 a b c`, optional `POINT_DATA n` with `SCALARS`/`LOOKUP_TABLE`
    blocks of n rows each -/
theorem vtk_export_is_accepted (title version : String) (pts : List (List String)) (tris : List (List Nat))
    (attrs : List Vtk.Attr) (hp : ∀ p ∈ pts, p.length = 3)
    (ht : ∀ t ∈ tris, t.length = 3 ∧ ∀ i ∈ t, i < pts.length)
    (ha : ∀ a ∈ attrs, 1 ≤ a.comps ∧ a.comps ≤ 4 ∧ a.rows.length = pts.length ∧ ∀ r ∈ a.rows, r.length = a.comps) :
    Vtk.accepts (Vtk.write title version pts tris attrs) = true :=
  Vtk.write_accepted title version pts tris attrs hp ht ha

/-- the recogniser is not vacuous: it refuses a triangle over a missing vertex, a five-component attribute
    (the writer only warns about those), and a wrong polygon count -/
example : Vtk.accepts (Vtk.write "t" "1" [["0", "0", "0"]] [[0, 0, 1]] []) = false ∧
    Vtk.accepts (Vtk.write "t" "1" [["0", "0", "0"]] [] [⟨"a", 5, [["1", "2", "3", "4", "5"]]⟩]) = false ∧
    Vtk.accepts (Vtk.write "t" "1" [["0", "0", "0"]] [[0, 0, 0]] [⟨"a", 2, [["1", "2"]]⟩]) = true := by decide

end NgVerif.Props.C17
