import NgVerif.Proofs.Source
import NgVerif.Proofs.MiniShard
import NgVerif.Proofs.Shard
import NgVerif.Proofs.ShardImpl
import NgVerif.Proofs.Buffers
/-
  C05 — Sharded storage returns what was stored, whatever the order of writes.
  Statements are about one minishard (the unit of reordering); a shard file is a function of its
  closed minishards (`Shard.assemble`), so byte-identical minishards give byte-identical files.
  `nxt` is instantiated with the code's `next_cmc` formula.
-/
namespace NgVerif.Props.C05
open NgVerif NgVerif.MS NgVerif.Shard

/-- Any two histories that store the same set of (pairwise distinct) chunks of a minishard — in
    ANY order — never raise, and after `close` leave identical data bytes and identical index
    rows; hence identical shard files. Holds for all bit triples and all payloads. -/
theorem order_independent (m s p masked : Nat) (ops1 ops2 : List (Nat × Payload)) (R fuel : Nat)
    (h1 : Ok (nextId m s p masked) MS.empty ops1) (h2 : Ok (nextId m s p masked) MS.empty ops2)
    (hS : mapOf MS.empty ops1 = mapOf MS.empty ops2)
    (hR : ∀ j, (mapOf MS.empty ops1 j).isSome → ∃ r, r < R ∧ nextId m s p masked r = j)
    (hf : R ≤ fuel) :
    ∃ s1 s2, runAll (nextId m s p masked) St.init ops1 = some s1 ∧
      runAll (nextId m s p masked) St.init ops2 = some s2 ∧
      closeLoop (nextId m s p masked) fuel s1 = closeLoop (nextId m s p masked) fuel s2 :=
  MS.order_independent (nextId m s p masked) (nextId_strictMono m s p masked) ops1 ops2 R fuel
    h1 h2 hS hR hf

/-- non-vacuity: a concrete out-of-order history satisfies the hypotheses -/
example : Ok (nextId 1 1 1 4) MS.empty [(13, [1,2]), (4, [9]), (5, [])] := by
  refine ⟨rfl, ⟨3, by decide⟩, rfl, ⟨0, by decide⟩, rfl, ⟨1, by decide⟩, trivial⟩

/-- After any such history and `close`, reading a chunk of this minishard back from the closed
    state (walking the index rows exactly as a reader does) returns the stored bytes for every
    stored identifier, the EMPTY payload for an identifier that was skipped over (a gap entry),
    and nothing at all for identifiers beyond the last stored one: a chunk that was never stored
    is never reported with data. -/
theorem closed_reads_back (m s p masked : Nat) (ops : List (Nat × Payload)) (R fuel : Nat)
    (hok : Ok (nextId m s p masked) MS.empty ops)
    (hR : ∀ j, (mapOf MS.empty ops j).isSome → ∃ r, r < R ∧ nextId m s p masked r = j)
    (hf : R ≤ fuel) :
    ∃ st, runAll (nextId m s p masked) St.init ops = some st ∧
      let closed := closeLoop (nextId m s p masked) fuel st
      (∀ r, r < closed.appended →
          readBack closed (nextId m s p masked r)
            = some ((mapOf MS.empty ops (nextId m s p masked r)).getD []))
      ∧ (∀ j q, mapOf MS.empty ops j = some q → readBack closed j = some q)
      ∧ (∀ id, (∀ r, r < closed.appended → nextId m s p masked r ≠ id) → readBack closed id = none) := by
  have mono := nextId_strictMono m s p masked
  have supp0 : ∀ j, (MS.empty j).isSome → ∃ r, nextId m s p masked r = j := by
    intro j hj; simp [MS.empty] at hj
  obtain ⟨st, hrun, hinv, _⟩ :=
    run_inv (nextId m s p masked) mono ops MS.empty St.init supp0 (inv_init _ mono) hok
  refine ⟨st, hrun, ?_⟩
  have hc := close_spec (nextId m s p masked) mono _ R hR fuel st ⟨hinv.w, hinv.nextAbsent⟩ (by omega)
  simp only
  generalize closeLoop (nextId m s p masked) fuel st = closed at hc
  have hsame := hc.same
  refine ⟨?_, ?_, ?_⟩
  · intro r hr
    rw [hsame]
    exact readBack_canon _ _ mono _ r hr
  · intro j q hq
    obtain ⟨r, _, hrj⟩ := hR j (by simp [hq])
    have hlt : j < nextId m s p masked closed.appended := hc.all j (by simp [hq])
    have hr : r < closed.appended := by
      apply Nat.lt_of_not_le
      intro hge
      have := nxt_le (nextId m s p masked) mono _ _ hge
      omega
    rw [hsame]
    rw [← hrj, readBack_canon _ _ mono _ r hr, hrj, hq]
    rfl
  · intro id hid
    rw [hsame]
    exact readBack_canon_absent _ _ mono _ id hid

/-- FILE LEVEL, the package's own reader: after any history of stores into the minishards of a
    shard and `close`, `fetch_chunk` on the written file returns, for every stored identifier, the
    stored bytes — for every bit triple, ANY set of present minishards (in particular with unused
    lower-numbered minishards, where the specification reader fails: finding F8), any order of
    stores. Hypotheses: the closed minishards are the ones the writer produced (`hmini`), distinct
    minishards have distinct numbers, and the first identifier of each lies in it. -/
theorem stored_chunk_read_by_own_reader
    (m s p masked : Nat) (minis : List Mini) (wf : Wf minis) (hslots : minis.length ≤ 2 ^ m)
    (hfirst : ∀ mn ∈ minis, ∃ d sz t, mn.rows = (d, sz) :: t ∧ Routing.minishardKey m p d = mn.key)
    (hkeys : ∀ i j (hi : i < minis.length) (hj : j < minis.length), minis[i].key = minis[j].key → i = j)
    (k : Nat) (hk : k < minis.length)
    (ops : List (Nat × Payload)) (R fuel : Nat)
    (hok : Ok (nextId m s p masked) MS.empty ops)
    (hR : ∀ j, (mapOf MS.empty ops j).isSome → ∃ r, r < R ∧ nextId m s p masked r = j)
    (hf : R ≤ fuel)
    (hmini : ∀ st, runAll (nextId m s p masked) St.init ops = some st →
        minis[k].data = (closeLoop (nextId m s p masked) fuel st).data ∧
        minis[k].rows = (closeLoop (nextId m s p masked) fuel st).rows)
    (j : Nat) (q : Payload) (hstored : mapOf MS.empty ops j = some q)
    (hpos : Routing.minishardKey m p j = minis[k].key) :
    implFetch m p (fileOf m minis) j = some q := by
  rw [implFetch_fileOf m p minis wf hslots hfirst hkeys j k hk hpos]
  obtain ⟨st, hrun, _, hread, _⟩ := closed_reads_back m s p masked ops R fuel hok hR hf
  obtain ⟨hd, hr⟩ := hmini st hrun
  have := hread j q hstored
  rw [hd, hr]
  simp only [readBack] at this
  cases hloc : locate (closeLoop (nextId m s p masked) fuel st).rows 0 0 j with
  | none => rw [hloc] at this; simp at this
  | some r =>
    rw [hloc] at this
    obtain ⟨o, sz⟩ := r
    simpa using this

/-- non-vacuity, and the F8 layout: minishard 1 alone in a shard with two slots is read back by
    the package's reader -/
example : implFetch 1 0 (fileOf 1 [⟨1, [7], [(1, 1)]⟩]) 1 = some [7] := by decide

open NgVerif.Buffers in
/-- buffering strategy: the disk-backed byte array is a drop-in for the in-memory one — after every
    history of appends (failing ones included) its file holds what a `bytearray` receiving the successful
    appends holds, and reports that length; hence the same `data` goes into the shard file under both
    strategies -/
theorem disk_buffer_equals_memory_buffer (hist : List (List Nat × Ev)) :
    (runAdds add ⟨[], 0⟩ hist).file = memory hist ∧
    (runAdds add ⟨[], 0⟩ hist).len = (memory hist).length := by
  simpa using runAdds_spec ⟨[], 0⟩ rfl hist

/-- TRANSLATED SOURCE. `MiniShard.next_cmc` as it stands in /repo's source (translated on every run) is the
    identifier enumeration `nextId` the order-independence theorems are instantiated with, given that the
    preshift mask is `2^p - 1` -/
theorem source_next_cmc_is_the_model (m s p masked n : Nat) :
    Generated.Src.nextCmc (appended := n) (preshift_bits := p) (shard_bits := s) (minishard_bits := m)
      (masked_bits := masked) (preshift_mask := 2 ^ p - 1) = Shard.nextId m s p masked n :=
  Source.nextCmc_eq_model m s p masked n

end NgVerif.Props.C05
