import NgVerif.Proofs.Source
import NgVerif.Proofs.Scales
import NgVerif.Proofs.Enc
/-
  C08 — Generated scale metadata is consistent and usable by every later step (integer part of the
  generator; the float stage — delays and keys — is observed and checked by the harness).
-/
namespace NgVerif.Props.C08
open NgVerif NgVerif.Scales

/-- scale sizes: level L is the full size divided by the per-axis power of two, rounded up
    (definition of `sizeAt`), and CONSECUTIVE scales differ by a factor 1 (delayed axis) or 2 with
    the new size = ceil(old / 2) — what `compute_dyadic_downscaling` requires. All sizes, levels. -/
theorem consecutive_scales_factor_one_or_two (s L d : Nat) :
    sizeAt s (L + 1) d = if L < d then sizeAt s L d else ceilDiv (sizeAt s L d) 2 :=
  sizeAt_succ s L d

/-- axes with coarser voxels (delay d) start downscaling exactly d levels later -/
theorem delayed_axis_unchanged (s L d : Nat) (hs : 0 < s) (h : L ≤ d) : sizeAt s L d = s := by
  unfold sizeAt fac ceilDiv
  have : L - d = 0 := by omega
  rw [this]
  simp only [Nat.pow_zero, Nat.div_one]
  omega

/-- chunk sizes are powers of two (by construction `2^x`) whose exponents add up to `3e ± 1`:
    about `target^3` voxels per chunk — for EVERY delay triple, level and target exponent
    (including target chunk size 1 and extreme anisotropy, where the unrepaired code asserted) -/
theorem chunk_holds_about_target_voxels (d1 d2 d3 e L : Nat) :
    ∃ x1 x2 x3, chunkExps [d1, d2, d3] e L = [x1, x2, x3] ∧
      x1 + x2 + x3 ≤ 3 * e + 1 ∧ 3 * e ≤ x1 + x2 + x3 + 1 :=
  chunk_volume d1 d2 d3 e L

example : chunkSizes [0, 1, 2] 6 0 = [128, 64, 32] := by decide
example : chunkSizes [3, 0, 2] 0 0 = [1, 1, 1] := by decide   -- target chunk size 1 (repaired F22)

/-- the last scale fits in at most two target-size chunks along every axis (with the scale count
    of the repaired generator, no `max_scales`) -/
theorem last_scale_fits_two_chunks (sizes delays : List Nat) (e s d : Nat)
    (hm : (s, d) ∈ List.zip sizes delays) :
    sizeAt s (count sizes delays e none - 1) d ≤ 2 * 2 ^ e :=
  last_scale_fits sizes delays e s d hm

/-- PARTIAL — "consecutive scales have compatible chunk sizes": when the axis delays take at most
    two values (0 and one other — volumes with at most two distinct voxel sizes after rounding to
    powers of two), the target exponent is at least 1 and no anisotropy reduction is needed, the
    chunk-size exponents of EVERY pair of consecutive levels satisfy, on every axis, the relation the
    pyramid computation needs (`compatExp`: halved axis — old chunk even, new chunk half or all of
    it; axis not yet halved — new chunk equal to or twice the old one; this is `Pyramid.compatible`
    in exponents). What is missing from the full statement is known finding F21 (three distinct
    delays), witnessed below, and target chunk size 1 (finding F28). -/
theorem chunk_sizes_compatible_partial (a b c e L : Nat) (he : 1 ≤ e)
    (htwo : (a = 0 ∨ a = max (max a b) c) ∧ (b = 0 ∨ b = max (max a b) c) ∧ (c = 0 ∨ c = max (max a b) c))
    (hsum : (max (max a b) c - a) + ((max (max a b) c - b) + (max (max a b) c - c)) ≤ 3 * e) :
    ∃ o1 o2 o3 n1 n2 n3, chunkExps [a, b, c] e L = [o1, o2, o3] ∧ chunkExps [a, b, c] e (L + 1) = [n1, n2, n3] ∧
      compatExp L a o1 n1 ∧ compatExp L b o2 n2 ∧ compatExp L c o3 n3 :=
  compat3 a b c e L he htwo hsum

/-- KNOWN FINDING F21 (kernel-checked witness): with three distinct delays (3, 5, 0) and target 16
    the first axis is not halved between levels 0 and 1, yet its chunk size shrinks from 16 to 8 —
    a combination the pyramid computation refuses. -/
theorem three_delays_counterexample :
    chunkExps [3, 5, 0] 4 0 = [4, 2, 7] ∧ chunkExps [3, 5, 0] 4 1 = [3, 2, 6] ∧ ¬ compatExp 0 3 4 3 := by
  refine ⟨by decide, by decide, ?_⟩
  simp [compatExp]

example : compatExp 0 1 4 4 ∧ compatExp 0 0 5 5 := by simp [compatExp]

/-- regression witness for repaired defect F27 (delay subtracted instead of added) -/
example : count [256, 256, 2048] [0, 0, 1] 6 none = 6 ∧ sizeAt 2048 5 1 = 128 := by decide

/-- "axes with coarser voxels start downscaling later so voxels tend towards isotropy": the delay the code
    computes for an axis whose voxel size is `q = n/d ≥ 1` times the finest one (`int(round(log2 q))`, model
    `Scales.delay`, decided in integer arithmetic) is exactly the number of halvings of the finest axis after
    which the two voxel sizes are within a factor `√2` of each other: `q / 2^k ∈ [1/√2, √2)`, for EVERY
    rational ratio. From level `k` on both axes are halved together, so the ratio stays there. -/
theorem delay_is_the_level_of_near_isotropy (n d : Nat) (hd : 0 < d) :
    n * n < 2 ^ (2 * delay n d + 1) * (d * d) ∧
    (delay n d = 0 ∨ 2 ^ (2 * delay n d - 1) * (d * d) ≤ n * n) :=
  delay_spec n d hd

example : delays [(1, 1), (3, 2), (40, 1)] = [0, 1, 5] := by decide

open NgVerif.Pipeline in
/-- "every such info is accepted by the encoders": for every full-resolution info with a first scale and at
    least one channel, every type/encoding option pair and number of levels, EVERY scale of the generated info
    that is `raw` is served by the raw codec, and every scale that is `compressed_segmentation` is served by
    that codec as soon as the announced data type is one it takes (the generator has promoted uint8/uint16 to
    uint32 and put a block size on every scale — that part needs no hypothesis) -/
theorem generated_scales_served_by_encoders (n : Nat) (full : InfoM) (ty enc : Option String)
    (hne : full.scales ≠ []) (hnc : 0 < full.numChannels) (s : ScaleM)
    (hs : s ∈ (allInOneInfo n full ty enc).scales)
    (hty : Generated.neuroglancerDataTypes.contains (allInOneInfo n full ty enc).dataType = true) :
    (s.encoding = some "raw" → Enc.select (Enc.ofInfo (allInOneInfo n full ty enc) s) = some .raw) ∧
    (s.encoding = some "compressed_segmentation" →
      Generated.csegDataTypes.contains (allInOneInfo n full ty enc).dataType = true →
      Enc.select (Enc.ofInfo (allInOneInfo n full ty enc) s) = some .cseg) := by
  have hch : (allInOneInfo n full ty enc).numChannels = full.numChannels := by
    cases hsc : full.scales with
    | nil => exact absurd hsc hne
    | cons s0 rest => simp [allInOneInfo, setParams, fillScales, hsc]
  constructor
  · intro he
    apply Enc.select_complete
    exact ⟨_, _, _, rfl, rfl, he, by simp only [hch]; exact_mod_cast hnc, hty, rfl⟩
  · intro he hct
    have hblk : s.csegBlock.isSome = true := by
      cases hsc : full.scales with
      | nil => exact absurd hsc hne
      | cons s0 rest =>
        simp only [allInOneInfo, setParams, hsc, fillScales, List.mem_map, List.mem_range] at hs
        obtain ⟨L, _, rfl⟩ := hs
        simp only [setScale0] at he ⊢
        split at he <;> simp_all <;> (cases s0.csegBlock <;> simp)
    apply Enc.select_complete
    exact ⟨_, _, _, rfl, rfl, he, by simp only [hch]; exact_mod_cast hnc, hty, rfl, hblk, hct⟩

/-- TRANSLATED SOURCE. The per-level arithmetic of `fill_scales_for_dyadic_pyramid.downscale_info` as it stands in
    /repo's source (translated on every run): the axis factor `2 ** max(0, level - delay)`, the scale size
    `ceil_div(size, factor)`, the anisotropy factor `max(0, max_delay - delay - level)`, the base chunk exponent and
    the chunk size `2 ** (base + factor)` are the quantities `fac`, `sizeAt` and `chunkExps` of the model -/
theorem source_scale_arithmetic_is_the_model (s L d maxd e sum af : Nat) (hs : 1 ≤ s) (hbase : (sum + 1) / 3 ≤ e) :
    Generated.Src.scaleFactor (scale_level := L) (delay := d) = ((fac L d : Nat) : Int) ∧
    Generated.Src.scaleSize (sz := s) (axis_factor := ((fac L d : Nat) : Int)) = ((sizeAt s L d : Nat) : Int) ∧
    Generated.Src.anisotropyFactor (max_delay := maxd) (delay := d) (scale_level := L) = ((maxd - d - L : Nat) : Int) ∧
    Generated.Src.baseChunkExponent (target_chunk_exponent := e) (sum_anisotropy_factors := sum)
      = ((e - (sum + 1) / 3 : Nat) : Int) ∧
    Generated.Src.chunkSizeOfExponent (base_chunk_exponent := ((e - (sum + 1) / 3 : Nat) : Int)) (anisotropy_factor := af)
      = ((2 ^ ((e - (sum + 1) / 3) + af) : Nat) : Int) :=
  Source.scales_arith_eq_model s L d maxd e sum af hs hbase

/-- the hypotheses of `generated_scales_served_by_encoders` are met by a uint16 volume asked to become a
    compressed_segmentation pyramid of two levels: the type is promoted to uint32 and both scales get the codec -/
example :
    let i := Pipeline.allInOneInfo 2 ⟨none, "uint16", 1, [⟨0, none, none⟩]⟩ none (some "compressed_segmentation")
    i.dataType = "uint32" ∧ i.scales.length = 2 ∧
    i.scales.all (fun s => Enc.select (Enc.ofInfo i s) == some .cseg) = true := by decide

end NgVerif.Props.C08
