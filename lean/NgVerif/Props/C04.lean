import NgVerif.Proofs.ShardFile
import NgVerif.Props.C05
/-
  C04 — Sharded output is readable by any reader that follows the sharded format.

  `Shard.specFetch` is a reader written from the format text only; `Shard.fileOf` is the file
  `Shard.close` writes (tied to the real files byte for byte on every run). The shard file NAME and
  the shard / minishard NUMBERS are covered by C09's theorems.
-/
namespace NgVerif.Props.C04
open NgVerif NgVerif.MS NgVerif.Shard

/-- Every chunk stored through the writer is retrieved, byte for byte, by the specification
    reader — for every bit triple, every set of minishards whose numbers coincide with their
    position in the file (`k`-th present minishard has number `k`, i.e. no lower-numbered minishard
    of the shard is unused), every subset and every ORDER of stores (`ops` is an arbitrary history
    of distinct identifiers of minishard `k`), all payloads, raw encodings.
    This is the property at full strength MINUS known finding F8 (see `slot_counterexample`). -/
theorem stored_chunk_readable_by_spec_reader
    (m s p masked : Nat) (minis : List Mini) (wf : Wf minis) (hslots : minis.length ≤ 2 ^ m)
    (k : Nat) (hk : k < minis.length)
    (ops : List (Nat × Payload)) (R fuel : Nat)
    (hok : Ok (nextId m s p masked) MS.empty ops)
    (hR : ∀ j, (mapOf MS.empty ops j).isSome → ∃ r, r < R ∧ nextId m s p masked r = j)
    (hf : R ≤ fuel)
    (hmini : ∀ st, runAll (nextId m s p masked) St.init ops = some st →
        minis[k].data = (closeLoop (nextId m s p masked) fuel st).data ∧
        minis[k].rows = (closeLoop (nextId m s p masked) fuel st).rows)
    (j : Nat) (q : Payload) (hstored : mapOf MS.empty ops j = some q)
    (hpos : (j / 2 ^ p) % 2 ^ m = k) :
    assemble m minis = some (fileOf m minis) ∧ specFetch m p (fileOf m minis) j = some q := by
  obtain ⟨h1, h2⟩ := specFetch_assemble m p minis wf hslots j k hk hpos
  refine ⟨h1, ?_⟩
  obtain ⟨st, hrun, _, hread, _⟩ := C05.closed_reads_back m s p masked ops R fuel hok hR hf
  obtain ⟨hd, hr⟩ := hmini st hrun
  have := hread j q hstored
  rw [h2, hd, hr]
  simp only [readBack] at this
  cases hloc : locate (closeLoop (nextId m s p masked) fuel st).rows 0 0 j with
  | none => rw [hloc] at this; simp at this
  | some r =>
    rw [hloc] at this
    obtain ⟨o, sz⟩ := r
    simpa using this

/-- A never-stored identifier of that minishard is reported by the specification reader as
    absent or with an EMPTY payload, never with data. -/
theorem absent_chunk_has_no_data
    (m s p masked : Nat) (minis : List Mini) (wf : Wf minis) (hslots : minis.length ≤ 2 ^ m)
    (k : Nat) (hk : k < minis.length)
    (ops : List (Nat × Payload)) (R fuel : Nat)
    (hok : Ok (nextId m s p masked) MS.empty ops)
    (hR : ∀ j, (mapOf MS.empty ops j).isSome → ∃ r, r < R ∧ nextId m s p masked r = j)
    (hf : R ≤ fuel)
    (hmini : ∀ st, runAll (nextId m s p masked) St.init ops = some st →
        minis[k].data = (closeLoop (nextId m s p masked) fuel st).data ∧
        minis[k].rows = (closeLoop (nextId m s p masked) fuel st).rows)
    (j : Nat) (habsent : mapOf MS.empty ops j = none) (hpos : (j / 2 ^ p) % 2 ^ m = k) :
    specFetch m p (fileOf m minis) j = none ∨ specFetch m p (fileOf m minis) j = some [] := by
  obtain ⟨_, h2⟩ := specFetch_assemble m p minis wf hslots j k hk hpos
  obtain ⟨st, hrun, hranks, _, hnone⟩ := C05.closed_reads_back m s p masked ops R fuel hok hR hf
  obtain ⟨hd, hr⟩ := hmini st hrun
  rw [h2, hd, hr]
  by_cases hex : ∃ r, r < (closeLoop (nextId m s p masked) fuel st).appended ∧ nextId m s p masked r = j
  · obtain ⟨r, hr1, hr2⟩ := hex
    have := hranks r hr1
    rw [hr2, habsent] at this
    right
    simp only [readBack] at this
    cases hloc : locate (closeLoop (nextId m s p masked) fuel st).rows 0 0 j with
    | none => rw [hloc] at this; simp at this
    | some x => rw [hloc] at this; obtain ⟨o, sz⟩ := x; simpa using this
  · left
    have := hnone j (fun r hr h => hex ⟨r, hr, h⟩)
    simp only [readBack] at this
    cases hloc : locate (closeLoop (nextId m s p masked) fuel st).rows 0 0 j with
    | none => simp
    | some x => rw [hloc] at this; simp at this

/-- KNOWN FINDING F8 (kernel-checked witness): when a lower-numbered minishard is unused the
    index of minishard 1 is written at slot 0 and the specification reader does not find the
    chunk. `minishard_bits = 1`, one chunk with identifier 1 and payload [7]. -/
theorem slot_counterexample :
    assemble 1 [⟨1, [7], [(1, 1)]⟩] = some (fileOf 1 [⟨1, [7], [(1, 1)]⟩]) ∧
    specFetch 1 0 (fileOf 1 [⟨1, [7], [(1, 1)]⟩]) 1 = none ∧
    implFetch 1 0 (fileOf 1 [⟨1, [7], [(1, 1)]⟩]) 1 = some [7] := by
  decide

/-- non-vacuity of the main theorem's layout hypotheses: two minishards 0 and 1, both present -/
example : specFetch 1 0 (fileOf 1 [⟨0, [5, 6], [(0, 2)]⟩, ⟨1, [7], [(1, 1)]⟩]) 1 = some [7]
    ∧ specFetch 1 0 (fileOf 1 [⟨0, [5, 6], [(0, 2)]⟩, ⟨1, [7], [(1, 1)]⟩]) 0 = some [5, 6] := by
  decide

end NgVerif.Props.C04
