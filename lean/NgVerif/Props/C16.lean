import NgVerif.Proofs.Transform
/-
  C16 — Generated metadata and transform place the image correctly in space.
-/
namespace NgVerif.Props.C16
open NgVerif NgVerif.Transform

/-- For EVERY affine (rotations, shears, flips, singular ones included), every translation and
    every non-zero voxel size, over any field: the Neuroglancer transform built by the code
    (`R = A / v` column-wise, translation `10^6·t − R·(½·res)`, `res = 10^6·v`) maps the
    corner-based coordinate of the CENTRE of voxel `i`, `(i + ½)·res`, to `10^6·(A·i + t)` —
    the physical position (in nm) that the file's affine assigns to that voxel centre. -/
theorem transform_maps_voxel_centres {K : Type} [Field K] (A : Fin 3 → Fin 3 → K) (t v i : Fin 3 → K)
    (c : K) (hv : ∀ k, v k ≠ 0) (r : Fin 3) :
    let R : Fin 3 → Fin 3 → K := fun a b => A a b / v b
    let res : Fin 3 → K := fun b => c * v b
    let t' : K := c * t r - ∑ b, R r b * ((1/2 : K) * res b)
    (∑ b, R r b * ((i b + 1/2) * res b)) + t' = c * ((∑ b, A r b * i b) + t r) :=
  half_voxel A t v i c hv r

/-- data type announced in the info: the input type when Neuroglancer supports it (then it holds
    every value exactly and the exit status is 0), otherwise float32 WITH the imperfect-type flag
    (exit status 4) -/
theorem announced_type_exact_or_flagged (name : String) :
    (guessedType name = (name, false) ∧ ["uint8", "uint16", "uint32", "uint64", "float32"].contains name = true)
    ∨ guessedType name = ("float32", true) := by
  unfold guessedType
  split
  · left; exact ⟨rfl, by assumption⟩
  · right; rfl

/-- the same statement for the EXECUTABLE model (`rowG`, the definition the driver evaluates next to
    `nibabel_image_to_info` on every run), over any field: row `r` of the generated transform is
    `[R₀, R₁, R₂, t']` and maps the corner-based coordinate of the centre of voxel `i` to
    `10^6·(A·i + t)`, for every affine and non-zero voxel sizes -/
theorem generated_row_maps_voxel_centres {K : Type} [Field K] (a : Nat → Nat → K) (t v i : Nat → K) (c : K)
    (h0 : v 0 ≠ 0) (h1 : v 1 ≠ 0) (h2 : v 2 ≠ 0) (r : Nat) :
    ∃ R0 R1 R2 t', rowG a t v (c / 2) c 0 r = [R0, R1, R2, t'] ∧
      R0 * ((i 0 + 1/2) * (c * v 0)) + R1 * ((i 1 + 1/2) * (c * v 1)) + R2 * ((i 2 + 1/2) * (c * v 2)) + t'
        = c * (a r 0 * i 0 + a r 1 * i 1 + a r 2 * i 2 + t r) :=
  rowG_maps_centre a t v i c h0 h1 h2 r

/-- and the driver's own rational arithmetic is sound: the row it computes over `Q` (numerator /
    denominator pairs), read in ℚ, IS the row of the formula over ℚ — for all inputs with non-zero
    denominators and positive voxel sizes. Together with the previous theorem (at `K = ℚ`) this is the
    half-voxel statement about exactly the numbers the driver prints and the harness compares with the
    matrix written by the real code. -/
theorem generated_row_arithmetic_sound (a : Nat → Nat → Q) (t v : Nat → Q) (half million zero : Q) (r : Nat)
    (ha : ∀ r c, (a r c).d ≠ 0) (ht : ∀ r, (t r).d ≠ 0) (hv : ∀ c, (v c).d ≠ 0 ∧ 0 < (v c).n)
    (hh : half.d ≠ 0) (hm : million.d ≠ 0) (hz : zero.d ≠ 0) :
    (rowG a t v half million zero r).map Q.val =
      rowG (fun r c => (a r c).val) (fun r => (t r).val) (fun c => (v c).val) half.val million.val zero.val r :=
  rowG_val a t v half million zero r ha ht hv hh hm hz

/-- non-vacuity and a concrete instance on the list-level entry point the driver calls: identity
    affine with 2 mm voxels and translation (10, 20, 30) mm gives R = diag(½) and t' = 10^6·t − 10^6/2·… -/
example : (neuroglancerTransform
    [⟨2, 1⟩, ⟨0, 1⟩, ⟨0, 1⟩, ⟨10, 1⟩, ⟨0, 1⟩, ⟨2, 1⟩, ⟨0, 1⟩, ⟨20, 1⟩, ⟨0, 1⟩, ⟨0, 1⟩, ⟨2, 1⟩, ⟨30, 1⟩]
    [⟨2, 1⟩, ⟨2, 1⟩, ⟨2, 1⟩]).map (fun q => (q.n / q.d : Int))
    = [1, 0, 0, 9000000, 0, 1, 0, 19000000, 0, 0, 1, 29000000] := by decide

end NgVerif.Props.C16
