import NgVerif.Proofs.Transform
/-
  C16 — Generated metadata and transform place the image correctly in space.
-/
namespace NgVerif.Props.C16
open NgVerif NgVerif.Transform

/-- For EVERY affine (rotations, shears, flips, singular ones included), every translation and
    every non-zero voxel size, over any field: the Neuroglancer transform built by the code
    (`R = A / v` column-wise, translation `10^6·t − R·(½·res)`, `res = 10^6·v`) maps the
    corner-based coordinate of the CENTRE of voxel `i`, `(i + ½)·res`, to `10^6·(A·i + t)` —
    the physical position (in nm) that the file's affine assigns to that voxel centre. -/
theorem transform_maps_voxel_centres {K : Type} [Field K] (A : Fin 3 → Fin 3 → K) (t v i : Fin 3 → K)
    (c : K) (hv : ∀ k, v k ≠ 0) (r : Fin 3) :
    let R : Fin 3 → Fin 3 → K := fun a b => A a b / v b
    let res : Fin 3 → K := fun b => c * v b
    let t' : K := c * t r - ∑ b, R r b * ((1/2 : K) * res b)
    (∑ b, R r b * ((i b + 1/2) * res b)) + t' = c * ((∑ b, A r b * i b) + t r) :=
  half_voxel A t v i c hv r

/-- data type announced in the info: the input type when Neuroglancer supports it (then it holds
    every value exactly and the exit status is 0), otherwise float32 WITH the imperfect-type flag
    (exit status 4) -/
theorem announced_type_exact_or_flagged (name : String) :
    (guessedType name = (name, false) ∧ ["uint8", "uint16", "uint32", "uint64", "float32"].contains name = true)
    ∨ guessedType name = ("float32", true) := by
  unfold guessedType
  split
  · left; exact ⟨rfl, by assumption⟩
  · right; rfl

end NgVerif.Props.C16
