import NgVerif.Proofs.Source
import NgVerif.Proofs.Readable
import NgVerif.Proofs.Tiling
import NgVerif.Model.Stats
/-
  C20 — Reported statistics match the dataset that is actually produced.
  Only property statements live here; helper lemmas are in Proofs/.
-/
namespace NgVerif.Props.C20
open NgVerif NgVerif.Readable

/-- Human-readable quantities: for EVERY count below 999·2^60 (the docstring's range), with the
    prefix table regenerated from the source, the output is a plain number ≤ 999, or `d.d Xi`
    with 1.0 ≤ value ≤ 9.9, or `w Xi` with 10 ≤ w ≤ 999 — never the fallback format. -/
theorem readable_good (n : Nat) (hn : n < 999 * 2 ^ 60) : good (count n) := by
  have hF := f64round_le n (Nat.le_of_lt hn)
  unfold count countWith
  simp only
  generalize f64round n = F at *
  split
  · simpa [good]
  · rename_i h
    simp only [Generated.iecPrefixes]
    apply go1 F _ _ _ _ _ _ _ _ hF
    simp only [Nat.reducePow]; omega

/-- at least two significant digits -/
theorem readable_two_significant_digits (n : Nat) (hn : n < 999 * 2 ^ 60) : twoSig (count n) :=
  twoSig_of_good _ (readable_good n hn)

/-- never more than six characters (two-letter prefixes; `width` is tied to the real string
    length by the correspondence run, which compares `render` with Python's string) -/
theorem readable_at_most_six_chars (n : Nat) (hn : n < 999 * 2 ^ 60) : width (count n) ≤ 6 :=
  width_le_six _ (readable_good n hn)

/-- within rounding distance of the true value: the shown number is the nearest multiple of the
    shown unit to the float64 value `F` of the count, and `F` is within `n/2^53` of `n`
    (`F = n` below 2^53). Holds for every `n`, including beyond the six-character range. -/
theorem readable_accurate (n : Nat) :
    accurate (f64round n) (count n)
    ∧ 2 ^ 53 * (f64round n - n) ≤ n ∧ 2 ^ 53 * (n - f64round n) ≤ n
    ∧ (n < 2 ^ 53 → f64round n = n) := by
  refine ⟨?_, (f64round_close n).1, (f64round_close n).2, f64round_small n⟩
  unfold count countWith
  simp only
  split
  · simp [accurate]
  · apply go_accurate
    · simp [Generated.iecPrefixes]
    · intro k hk
      simp only [Generated.iecPrefixes, List.mem_cons, List.mem_nil_iff, or_false] at hk
      rcases hk with h | h | h | h | h | h <;> subst h <;> decide

/-- non-vacuity: a count in the band the unrepaired code got wrong -/
example : (10240 : Nat) < 999 * 2 ^ 60 ∧ count 10240 = .whole 10 1024 "ki" := by decide

/-- the code before the `fix:` commit violated the property (kept as a regression witness:
    `known_findings.json` lists it as fixed; the check replays 10189…10240 on the real code) -/
theorem old_code_counterexample :
    countOld 10240 = .tenths 0 1048576 "Mi" ∧ ¬ twoSig (countOld 10240) := by
  have h : countOld 10240 = .tenths 0 1048576 "Mi" := by decide
  refine ⟨h, ?_⟩
  rw [h]; simp [twoSig]

/-- Number of chunks reported per (scale, chunk size) = number of cells of the chunk grid that
    every conversion loop (`volume_to_precomputed`, `convert_chunks_for_scale`,
    `compute_dyadic_downscaling`) iterates over. -/
theorem reported_chunks_eq_grid (size cs : Nat × Nat × Nat) (itemsize ch : Nat) (sb : Option Nat) :
    (Stats.row size cs itemsize ch sb).chunks = (Tiling.grid3 size cs).length := by
  rw [Tiling.length_grid3]; rfl

/-- Reported raw size = sum over the written chunks of their raw-encoded length
    (`voxels · itemsize · channels`) = byte size of the decoded level. -/
theorem reported_bytes_eq_sum_of_chunks (size cs : Nat × Nat × Nat) (itemsize ch : Nat)
    (sb : Option Nat)
    (hs : 0 < size.1 ∧ 0 < size.2.1 ∧ 0 < size.2.2) (hc : 0 < cs.1 ∧ 0 < cs.2.1 ∧ 0 < cs.2.2) :
    (Stats.row size cs itemsize ch sb).bytes
      = (((Tiling.grid3 size cs).map Tiling.cellVoxels).sum) * itemsize * ch := by
  rw [Tiling.sum_cellVoxels size cs hs hc]; rfl

example : (0 < (5:Nat) ∧ 0 < (4:Nat) ∧ 0 < (3:Nat)) ∧ (Tiling.grid3 (5,4,3) (2,2,2)).length = 12 := by
  decide

/-- every voxel of an axis belongs to exactly one chunk range (no chunk missing, none twice) -/
theorem axis_partition (size cs : Nat) (hc : 0 < cs) (x : Nat) (hx : x < size) :
    ∃ r ∈ Tiling.ranges size cs, (r.1 ≤ x ∧ x < r.2) ∧
      ∀ r' ∈ Tiling.ranges size cs, (r'.1 ≤ x ∧ x < r'.2) → r' = r :=
  Tiling.exists_unique_range size cs hc x hx

/-- TRANSLATED SOURCE. `utils.ceil_div` as it stands in /repo's source (translated on every run) is the model's
    `ceilDiv` for every dividend ≥ 1 (the chunk counts of scale-stats, of the scale generator and of the pyramid) -/
theorem source_ceil_div_is_the_model (a b : Nat) (ha : 1 ≤ a) :
    Generated.Src.ceilDiv (a := a) (b := b) = ((ceilDiv a b : Nat) : Int) :=
  Source.ceilDiv_eq_model a b ha

/-- TRANSLATED SOURCE. The per-axis chunk count of `scale-stats` as it stands in /repo's source is the count of
    chunks the conversion loops write along that axis (`Tiling.count`) -/
theorem source_chunk_count_is_the_model (s c : Nat) (hs : 1 ≤ s) :
    Generated.Src.statsChunksPerAxis (s := s) (cs := c) = ((Tiling.count s c : Nat) : Int) :=
  Source.statsCount_eq_model s c hs

end NgVerif.Props.C20
