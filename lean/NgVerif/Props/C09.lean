import NgVerif.Proofs.Source
import NgVerif.Proofs.Morton
import NgVerif.Proofs.Routing
/-
  C09 — Chunk identifiers and shard routing follow the specification for every grid.
-/
deriving instance DecidableEq for Except

namespace NgVerif.Props.C09
open NgVerif NgVerif.Morton NgVerif.Routing

/-- For every grid and every position inside it the identifier computed by the code's loop is
    the compressed Morton code of the specification (bit `i` of axis `d` is used iff
    `i < ceil(log2 grid[d])`, interleaved level by level, x fastest). Any number of axes. -/
theorem code_eq_spec (gs cs : List Nat) (hl : cs.length = gs.length)
    (hin : ∀ d (hd : d < gs.length), cs[d]'(by omega) < gs[d]) :
    code gs (cs.map Int.ofNat) = .ok (spec gs cs) := by
  unfold code
  rw [any_neg_false, all_in_grid gs cs hl hin, map_toNat_ofNat]
  simp [codeN, spec, allBits_eq_spec]

/-- Distinct positions of the grid get distinct identifiers. -/
theorem code_injective (gs cs cs' : List Nat) (hl : cs.length = gs.length) (hl' : cs'.length = gs.length)
    (hin : ∀ d (hd : d < gs.length), cs[d]'(by omega) < gs[d])
    (hin' : ∀ d (hd : d < gs.length), cs'[d]'(by omega) < gs[d])
    (h : code gs (cs.map Int.ofNat) = code gs (cs'.map Int.ofNat)) : cs = cs' := by
  rw [code_eq_spec gs cs hl hin, code_eq_spec gs cs' hl' hin'] at h
  have h' : spec gs cs = spec gs cs' := by injection h
  unfold spec at h'
  rw [← allBits_eq_spec, ← allBits_eq_spec] at h'
  exact codeN_injective gs cs cs' (maxBits gs) hl hl' (grid_le_pow_maxBits gs) hin hin' h'

/-- Identifiers are below `2^(total number of bits)`. -/
theorem code_lt_two_pow_total_bits (gs cs : List Nat) : spec gs cs < 2 ^ sumBits gs := by
  unfold spec
  rw [← allBits_eq_spec]
  exact codeN_lt gs cs (maxBits gs)

/-- non-vacuity: the 3×4×2 grid used in the regression replay -/
example : code [3, 4, 2] [2, 3, 1] = .ok 30 ∧ sumBits [3, 4, 2] = 5 := ⟨by decide, by decide⟩

/-- Positions outside the grid are rejected (upper side; the unrepaired code used `≤`). -/
theorem code_rejects_beyond_grid (gs : List Nat) (cs : List Int) (d : Nat) (hd : d < gs.length)
    (hl : cs.length = gs.length) (hout : (gs[d] : Int) ≤ cs[d]'(by omega)) :
    ∃ e, code gs cs = .error e := by
  unfold code
  by_cases hneg : cs.any (· < 0) = true
  · rw [if_pos hneg]; exact ⟨_, rfl⟩
  · have hall : (List.zip cs gs).all (fun (c, g) => c < (g : Int)) = false := by
      rw [List.all_eq_false]
      refine ⟨(cs[d]'(by omega), gs[d]), ?_, ?_⟩
      · have : (List.zip cs gs)[d]'(by simp; omega) = (cs[d]'(by omega), gs[d]) := by simp
        rw [← this]; exact List.getElem_mem _
      · simp; omega
    rw [if_neg hneg, hall]; exact ⟨_, rfl⟩

/-- Negative positions are rejected. -/
theorem code_rejects_negative (gs : List Nat) (cs : List Int) (c : Int) (hc : c ∈ cs) (hneg : c < 0) :
    ∃ e, code gs cs = .error e := by
  unfold code
  have : cs.any (· < 0) = true := List.any_eq_true.mpr ⟨c, hc, by simpa using hneg⟩
  rw [if_pos this]; exact ⟨_, rfl⟩

/-- Chunk positions off the chunk lattice are rejected by `get_cmc`. -/
theorem getCmc_rejects_off_lattice (sizes chunk : List Nat) (mins : List Int) (d : Nat)
    (h1 : d < mins.length) (h2 : d < chunk.length) (hoff : mins[d] % (chunk[d] : Int) ≠ 0) :
    ∃ e, getCmc sizes chunk mins = .error e := by
  unfold getCmc
  have : (List.zip mins chunk).any (fun (lo, c) => lo % (c : Int) != 0) = true := by
    rw [List.any_eq_true]
    refine ⟨(mins[d], chunk[d]), ?_, ?_⟩
    · have : (List.zip mins chunk)[d]'(by simp; omega) = (mins[d], chunk[d]) := by simp
      rw [← this]; exact List.getElem_mem _
    · simpa using hoff
  rw [if_pos this]; exact ⟨_, rfl⟩

example : getCmc [100, 100, 100] [64, 64, 64] [64, 0, 1] = .error "ShardedIOError:lattice" := by decide
example : getCmc [100, 100, 100] [64, 64, 64] [128, 0, 0] = .error "ShardedIOError:outside" := by decide
example : getCmc [100, 100, 100] [64, 64, 64] [-64, 0, 0] = .error "ShardedIOError:negative" := by decide

/-- Minishard number: the masks and shifts of the code (NumPy uint64 semantics, including
    shifts by 64 or more) give the specification's value for every 64-bit identifier and all
    bit counts. -/
theorem minishard_number_spec (m p id : Nat) (hid : id < 2 ^ 64) :
    minishardKey m p id = (id / 2 ^ p) % 2 ^ m := minishardKey_spec m p id hid

/-- Shard number. -/
theorem shard_number_spec (m s p id : Nat) (hid : id < 2 ^ 64) :
    shardKey m s p id = (id / 2 ^ p / 2 ^ m) % 2 ^ s := shardKey_spec m s p id hid

/-- The shard file name is the shard number in hexadecimal (it parses back to it) … -/
theorem file_name_value (key s : Nat) : ofDigits 16 (fileDigitsLE key s) = key :=
  fileDigits_value key s

/-- … left-padded to exactly `ceil(shard_bits / 4)` digits. -/
theorem file_name_width (m s p id : Nat) (hid : id < 2 ^ 64) (hs : 0 < s) :
    (fileDigitsLE (shardKey m s p id) s).length = (s + 3) / 4 := by
  apply fileDigits_length _ _ hs
  rw [shardKey_spec m s p id hid]
  exact Nat.mod_lt _ (Nat.two_pow_pos s)

example : (0xabcdef : Nat) < 2 ^ 64 ∧ shardKey 2 9 1 0xabcdef = 0x1bd := by decide

/-- TRANSLATED SOURCE. The mask properties of `ShardSpec` and `get_shard_key` / `get_minishard_key` as they stand in
    /repo's source (translated on every run into the 64-bit primitives `not64`, `shl64`, `shr64`, `&&&`) are the
    definitions `minishard_number_spec` and `shard_number_spec` are about -/
theorem source_routing_is_the_model (m s p id : Nat) :
    Generated.Src.minishardMask (minishard_bits := m) = Routing.minishardMask m ∧
    Generated.Src.preshiftMask (preshift_bits := p) = Routing.preshiftMask p ∧
    Generated.Src.shardMask (minishard_bits := m) (shard_bits := s) (minishard_mask := Routing.minishardMask m)
      = Routing.shardMask m s ∧
    Generated.Src.shardKey (shard_mask := Routing.shardMask m s) (hash_cmc := Routing.hash p id) (minishard_bits := m)
      = Routing.shardKey m s p id ∧
    Generated.Src.minishardKey (minishard_mask := Routing.minishardMask m) (hash_cmc := Routing.hash p id)
      = Routing.minishardKey m p id :=
  Source.routing_eq_model m s p id

end NgVerif.Props.C09
