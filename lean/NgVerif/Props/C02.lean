import NgVerif.Proofs.CsegMain
import NgVerif.Proofs.CsegList
import NgVerif.Proofs.CsegOwn
/-
  C02 — compressed_segmentation output conforms to the Neuroglancer format.

  `Cseg.encode` models `encode_chunk` (tied to the real encoder byte for byte on every run);
  `Cseg.specVoxel` is a decoder written from the published format only.
-/
namespace NgVerif.Props.C02
open NgVerif NgVerif.Cseg

/-- For uint32 and uint64 labels, ANY number of channels, ANY chunk shape and ANY block size
    (non-cubic, chunk smaller than or not divisible by the block), any label values: whenever the
    encoder produces a file (i.e. its own assertions hold: look-up table offsets below 2^24 words
    — the format's limit — and offsets that fit in 32 bits), the specification decoder recovers
    exactly the original label at EVERY voxel, and the file is 4-byte aligned. -/
theorem spec_decoder_recovers_every_voxel
    (itemsize : Nat) (hi : itemsize = 4 ∨ itemsize = 8) (s : Shape) (bk : Blk3) (d : List Nat)
    (hbx : 0 < bk.bx) (hby : 0 < bk.by') (hbz : 0 < bk.bz)
    (hvals : ∀ v ∈ d, v < 2 ^ (8 * itemsize))
    (file : Bytes) (h : encode itemsize s bk d = some file)
    (c z y x : Nat) (hc : c < s.c) (hz : z < s.z) (hy : y < s.y) (hx : x < s.x) :
    specVoxel itemsize s bk file c z y x = some (vox s d c z y x) ∧ file.length % 4 = 0 :=
  file_decodes itemsize hi s bk d hbx hby hbz hvals file h c z y x hc hz hy hx

/-- The same at the level of whole arrays: decoding every voxel in C order (c, z, y, x) gives back
    exactly the array that was encoded. -/
theorem spec_decoder_recovers_the_array
    (itemsize : Nat) (hi : itemsize = 4 ∨ itemsize = 8) (s : Shape) (bk : Blk3) (d : List Nat)
    (hbx : 0 < bk.bx) (hby : 0 < bk.by') (hbz : 0 < bk.bz)
    (hvals : ∀ v ∈ d, v < 2 ^ (8 * itemsize)) (hd : d.length = s.c * s.z * s.y * s.x)
    (file : Bytes) (h : encode itemsize s bk d = some file) :
    specDecode itemsize s bk file = some d :=
  specDecode_encode itemsize hi s bk d hbx hby hbz hvals hd file h

/-- The package's OWN decoder (`decode_chunk_into`) recovers the array from its encoder's output:
    `decode (encode a) = a` for every chunk shape, block size, label width and label array. -/
theorem own_decoder_round_trip
    (itemsize : Nat) (hi : itemsize = 4 ∨ itemsize = 8) (s : Shape) (bk : Blk3) (d : List Nat)
    (hbx : 0 < bk.bx) (hby : 0 < bk.by') (hbz : 0 < bk.bz)
    (hvals : ∀ v ∈ d, v < 2 ^ (8 * itemsize)) (hd : d.length = s.c * s.z * s.y * s.x)
    (file : Bytes) (h : encode itemsize s bk d = some file) :
    implDecode itemsize s bk file = .ok d :=
  implDecode_encode itemsize hi s bk d hbx hby hbz hvals hd file h

/-- non-vacuity: a 2-channel 3×2×3 chunk with a non-cubic block is encoded (the hypotheses of the
    theorem are satisfiable, including a block that needs padding and a shared look-up table) -/
example : (encode 4 ⟨2, 3, 2, 3⟩ ⟨2, 2, 1⟩
    [1, 1, 2, 1, 1, 2, 5, 5, 5, 5, 5, 5, 7, 7, 7, 7, 7, 7,
     1, 1, 2, 1, 1, 2, 5, 5, 5, 5, 5, 5, 7, 7, 7, 7, 7, 7]).isSome = true := by decide

/-- Block level, usable on its own: decoding in-block position `i` as the specification
    prescribes returns the `i`-th value of the block — all seven bit widths, both label widths. -/
theorem block_round_trip (itemsize : Nat) (hi : itemsize = 4 ∨ itemsize = 8) (vals : List Nat)
    (hv : ∀ v ∈ vals, v < 2 ^ (8 * itemsize)) (eb : EncBlk) (h : encodeBlock itemsize vals = some eb)
    (i : Nat) (hlt : i < vals.length) :
    specBitsOk eb.bits = true ∧
    decodeIn itemsize (fun k => eb.lut[k]?) (fun k => eb.vals[k]?) eb.bits i = some vals[i] :=
  block_decodes itemsize hi vals hv eb h i hlt

/-- Bit packing: position `i` of `_pack_encoded_values`' words, read as the specification says
    (`word = i·bits / 32`, `shift = i·bits mod 32`, mask), is table index `i`. -/
theorem packed_values_read_back (bits : Nat)
    (hb : bits = 1 ∨ bits = 2 ∨ bits = 4 ∨ bits = 8 ∨ bits = 16 ∨ bits = 32)
    (ix : List Nat) (hix : ∀ d ∈ ix, d < 2 ^ bits) (i : Nat) (hi : i < ix.length) :
    specRead bits (packWords bits ix) i = some ix[i]! :=
  pack_read bits hb ix hix i hi

end NgVerif.Props.C02
