import NgVerif.Proofs.CsegTotal
import NgVerif.Proofs.CsegOwn
import NgVerif.Model.Raw
/-
  C10 — Decoders never misbehave on malformed chunk data.
  "Valid data is never rejected" for compressed_segmentation is C02 (encoder output) plus the
  correspondence run on files written by an independent encoder; hanging is excluded because
  every model function is total and structurally bounded by the grid and block sizes.
-/
namespace NgVerif.Props.C10
open NgVerif

/-- compressed_segmentation: for EVERY byte string, shape and block size the package's decoder
    returns an array with exactly the requested number of voxels, or the documented
    InvalidFormatError — never struct.error / ValueError / IndexError. -/
theorem cseg_decoder_total (itemsize : Nat) (hi : itemsize = 4 ∨ itemsize = 8) (s : Cseg.Shape)
    (bk : Cseg.Blk3) (buf : Bytes) :
    (∃ a, Cseg.implDecode itemsize s bk buf = .ok a ∧ a.length = s.c * (s.z * (s.y * s.x))) ∨
      Cseg.implDecode itemsize s bk buf = .error .format :=
  Cseg.implDecode_total itemsize hi s bk buf

/-- the look-up-table slice handed to `np.frombuffer` always holds whole items, whatever the
    header says (this is what rules out ValueError) -/
theorem cseg_lut_slice_aligned (itemsize : Nat) (hi : itemsize = 4 ∨ itemsize = 8) (cbuf : Bytes)
    (hlen : 8 ≤ cbuf.length) (lutOff P : Nat) (hP : 1 ≤ P) :
    (Cseg.pySlice cbuf lutOff ((lutOff : Int) + (itemsize : Int) *
      min (P : Int) (((cbuf.length : Int) - (lutOff : Int)) / (itemsize : Int)))).length % itemsize = 0 :=
  Cseg.lut_slice_aligned itemsize hi cbuf hlen lutOff P hP

/-- … and it never returns a WRONG array: for EVERY byte string, whenever the package's decoder
    returns an array, a decoder written from the format specification returns that same array
    from the same bytes (so "valid data is never mis-decoded", and anything it accepts is valid
    in the specification's sense). -/
theorem cseg_decoder_conforms_to_specification (itemsize : Nat) (hi : itemsize = 4 ∨ itemsize = 8)
    (s : Cseg.Shape) (bk : Cseg.Blk3) (hbx : 0 < bk.bx) (hby : 0 < bk.by') (hbz : 0 < bk.bz)
    (buf : Bytes) (a : List Nat) (h : Cseg.implDecode itemsize s bk buf = .ok a) :
    Cseg.specDecode itemsize s bk buf = some a :=
  Cseg.implDecode_conforms itemsize hi s bk hbx hby hbz buf a h

/-- valid data is never rejected: the encoder's output is accepted (and decoded to the input) -/
theorem cseg_decoder_accepts_encoder_output (itemsize : Nat) (hi : itemsize = 4 ∨ itemsize = 8)
    (s : Cseg.Shape) (bk : Cseg.Blk3) (d : List Nat) (hbx : 0 < bk.bx) (hby : 0 < bk.by') (hbz : 0 < bk.bz)
    (hvals : ∀ v ∈ d, v < 2 ^ (8 * itemsize)) (file : Bytes) (h : Cseg.encode itemsize s bk d = some file) :
    ∃ a, Cseg.implDecode itemsize s bk file = .ok a :=
  Cseg.implDecode_accepts_encode itemsize hi s bk d hbx hby hbz hvals file h

/-- raw: exactly the byte strings of the right length are accepted, with the right number of
    values; everything else is InvalidFormatError. -/
theorem raw_decoder_total (itemsize count : Nat) (hi : 0 < itemsize) (buf : Bytes) :
    (buf.length = count * itemsize → ∃ a, Raw.decode itemsize count buf = .ok a ∧ a.length = count) ∧
    (buf.length ≠ count * itemsize → Raw.decode itemsize count buf = .error .format) := by
  unfold Raw.decode
  constructor
  · intro h
    have h1 : buf.length % itemsize = 0 := by rw [h]; exact Nat.mul_mod_left _ _
    have h2 : buf.length / itemsize = count := by rw [h]; exact Nat.mul_div_cancel _ hi
    rw [if_neg (fun hc => hc h1), if_neg (fun hc => hc h2)]
    exact ⟨_, rfl, by simp⟩
  · intro h
    by_cases h1 : buf.length % itemsize = 0
    · have h2 : buf.length / itemsize ≠ count := by
        intro hc
        apply h
        have := Nat.div_add_mod buf.length itemsize
        rw [h1, hc, Nat.add_zero] at this
        rw [← this, Nat.mul_comm]
      rw [if_neg (fun hc => hc h1), if_pos h2]
    · rw [if_pos h1]

/-- JPEG wrapper: for EVERY behaviour of the image library (open fails / wrong mode / pixel
    decoding fails / any pixel count) the wrapper returns an array of the requested size or the
    documented error. -/
theorem jpeg_wrapper_total (p : Raw.Pil) (nch count : Nat) :
    Raw.jpegWrapper p nch count = .ok count ∨ Raw.jpegWrapper p nch count = .error .format := by
  unfold Raw.jpegWrapper
  split
  · right; rfl
  · split
    · right; rfl
    · split
      · right; rfl
      · split
        · right; rfl
        · split
          · right; rfl
          · left; rfl

example : Raw.jpegWrapper ⟨true, true, false, false, 0⟩ 1 64 = .error .format := by decide

end NgVerif.Props.C10
