import NgVerif.Proofs.Conv
/-
  C11 — Data-type conversion rounds to nearest and saturates, never wraps.
  `Conv.toInt` models `get_chunk_dtype_transformer` for integer targets on exact values
  (`none` = the final cast would be out of range, i.e. a wrap). Conversions to float32 are a single
  NumPy cast, assumed correctly rounded and checked against `Conv.nearestF32` by the tie.
-/
namespace NgVerif.Props.C11
open NgVerif NgVerif.Conv

/-- integer → integer, ALL 8×8 type pairs and all values of the input type: preserved exactly when
    representable, otherwise the target minimum / maximum; never a wrap (result is `some`). -/
theorem int_to_int_exact_or_saturated (inT outT : Ty) (hi : inT.isInt = true) (n : Int)
    (hlo : inT.min ≤ n) (hhi : n ≤ inT.max) :
    toInt inT outT ⟨n, 0⟩ = some (clamp outT.min outT.max n) :=
  toInt_int inT outT hi n hlo hhi

example : toInt .i64 .u64 ⟨2 ^ 53 + 1, 0⟩ = some (2 ^ 53 + 1) := by decide
example : toInt .i16 .u16 ⟨-1, 0⟩ = some 0 := by decide

/-- float32/float64 → 8/16/32-bit integers, every finite value: nearest integer, ties to even,
    saturating; never a wrap. -/
theorem float_to_small_int_nearest (inT outT : Ty) (hi : inT.isInt = false)
    (ho : outT = .u8 ∨ outT = .u16 ∨ outT = .u32 ∨ outT = .i8 ∨ outT = .i16 ∨ outT = .i32) (v : Val) :
    toInt inT outT v = some (nearestInt outT v) :=
  toInt_float_small inT outT hi ho v

example : toInt .f32 .u8 ⟨5, 1⟩ = some 2 ∧ toInt .f32 .u8 ⟨7, 1⟩ = some 4 ∧ toInt .f64 .u32 ⟨-3, 1⟩ = some 0 := by
  decide

/-- float → uint64 below 2^64: nearest, saturating at 0. -/
theorem float_to_u64_partial (inT : Ty) (hi : inT.isInt = false) (v : Val) (h : rint v ≤ 2 ^ 64 - 1) :
    toInt inT .u64 v = some (nearestInt .u64 v) :=
  toInt_float_u64 inT hi v h

/-- KNOWN FINDING F6 (kernel-checked): a finite float at or above 2^64 is NOT saturated to
    2^64 - 1 — the clip bound rounds up to 2^64 and the final cast is out of range. -/
theorem float_to_u64_wraps_at_two_pow_64 (inT : Ty) (hi : inT.isInt = false) (v : Val)
    (h : 2 ^ 64 ≤ rint v) : toInt inT .u64 v = none ∧ nearestInt .u64 v = 2 ^ 64 - 1 :=
  toInt_float_u64_overflow inT hi v h

end NgVerif.Props.C11
