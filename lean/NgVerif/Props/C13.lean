import NgVerif.Proofs.Source
import NgVerif.Proofs.Convert
import NgVerif.Proofs.Conv
import NgVerif.Proofs.CsegList
/-
  C13 — Re-encoding a dataset preserves its voxels exactly for lossless targets.
  The loop of `convert_chunks` over a reader and a writer of the dataset I/O layer (C03), for any
  lossless destination codec (raw: below; compressed_segmentation: C02) and any store that
  behaves like a map (plain files: C12; shards: C05). Source and destination are different
  stores; the loop only reads the source.
-/
namespace NgVerif.Props.C13
open NgVerif NgVerif.Coords NgVerif.Convert

/-- The loop visits EXACTLY the cells of the destination's chunk grid, for every scale size and
    every list of chunk sizes: a key is visited iff it is a grid cell of that scale. -/
theorem loop_visits_exactly_the_grid (s : ScaleInfo)
    (hs : 0 < s.size.1 ∧ 0 < s.size.2.1 ∧ 0 < s.size.2.2)
    (hpos : ∀ cs ∈ s.chunkSizes, 0 < cs.1 ∧ 0 < cs.2.1 ∧ 0 < cs.2.2) (k : Key) :
    k ∈ planScale s ↔ k.1 = s.key ∧ onGrid (toI s.size) (s.chunkSizes.map toI) k.2 := by
  constructor
  · exact planScale_onGrid s hs hpos k
  · rintro ⟨h1, h2⟩
    have := onGrid_planScale s hpos k.2 h2
    rw [← h1] at this
    exact this

/-- MAIN: for every destination info (any number of scales with distinct keys, any sizes, any
    lists of chunk sizes), every source that can be read at the visited keys, every value
    transform and every destination codec that is lossless on the transformed arrays: the command
    succeeds, every visited chunk of the destination decodes to the transformed source chunk, and
    nothing else in the destination store changes. -/
theorem conversion_preserves_every_chunk (dst : List ScaleInfo)
    (hd : dst.Pairwise (fun a b => a.key ≠ b.key))
    (hsz : ∀ s ∈ dst, 0 < s.size.1 ∧ 0 < s.size.2.1 ∧ 0 < s.size.2.2)
    (hpos : ∀ s ∈ dst, ∀ cs ∈ s.chunkSizes, 0 < cs.1 ∧ 0 < cs.2.1 ∧ 0 < cs.2.2)
    (rd : Key → Except IOErr (List Nat)) (srcArr : Key → List Nat)
    (hrd : ∀ k ∈ plan dst, rd k = .ok (srcArr k))
    (tr : Nat → Nat) (enc : Key → List Nat → Bytes) (dec : Key → Bytes → Option (List Nat))
    (hcodec : ∀ k ∈ plan dst, dec k (enc k ((srcArr k).map tr)) = some ((srcArr k).map tr))
    (st0 : Store) :
    ∃ st, run rd tr (writeK (validFor dst) enc) st0 (plan dst) = .ok st ∧
      (∀ k ∈ plan dst, readK (validFor dst) dec st k = .ok ((srcArr k).map tr)) ∧
      (∀ k, k ∉ plan dst → st.get k = st0.get k) := by
  obtain ⟨st, hrun, hget⟩ := run_ok (validFor dst) enc rd tr srcArr (plan dst) st0
    (plan_valid dst hd hsz hpos) hrd
  refine ⟨st, hrun, ?_, ?_⟩
  · intro k hk
    simp only [readK, plan_valid dst hd hsz hpos k hk, Bool.not_true, Bool.false_eq_true, if_false,
      hget k, hk, if_true, hcodec k hk]
  · intro k hk
    rw [hget k, if_neg hk]

/-- A success status means EVERY chunk of the destination grid was read from the source and
    written: any failing read (missing chunk, undecodable chunk, cell not on the source's grid)
    or refused write aborts the command. -/
theorem success_means_every_chunk_converted (rd : Key → Except IOErr (List Nat)) (tr : Nat → Nat)
    (wr : Store → Key → List Nat → Except IOErr Store) (dst : List ScaleInfo) (st0 st : Store)
    (h : run rd tr wr st0 (plan dst) = .ok st) (k : Key) (hk : k ∈ plan dst) :
    ∃ a, rd k = .ok a :=
  run_ok_reads rd tr wr (plan dst) st0 st h k hk

/-- A destination cell that is not a cell of the source's grid (different chunk size or volume
    size) is never re-tiled silently: the command fails. -/
theorem off_source_grid_aborts (validS : Key → Bool) (decS : Key → Bytes → Option (List Nat))
    (src : Store) (tr : Nat → Nat) (wr : Store → Key → List Nat → Except IOErr Store)
    (dst : List ScaleInfo) (st0 : Store) (k : Key) (hk : k ∈ plan dst) (hbad : validS k = false) :
    ∀ st, run (readK validS decS src) tr wr st0 (plan dst) ≠ .ok st := by
  intro st h
  obtain ⟨a, ha⟩ := run_ok_reads _ tr wr (plan dst) st0 st h k hk
  simp [readK, hbad] at ha

/-- Compatible source: a source scale with the same key and size listing the destination's
    chunk size accepts every key the loop visits for that chunk size. -/
theorem compatible_source_accepts (src : List ScaleInfo)
    (hd : src.Pairwise (fun a b => a.key ≠ b.key)) (s' : ScaleInfo) (hs' : s' ∈ src)
    (hsz : 0 < s'.size.1 ∧ 0 < s'.size.2.1 ∧ 0 < s'.size.2.2)
    (hpos' : ∀ cs ∈ s'.chunkSizes, 0 < cs.1 ∧ 0 < cs.2.1 ∧ 0 < cs.2.2)
    (cs : Nat × Nat × Nat) (hcs : cs ∈ s'.chunkSizes) (k : Key)
    (hk : k ∈ planScale ⟨s'.key, s'.size, [cs]⟩) : validFor src k = true := by
  obtain ⟨hkey, hgrid⟩ := planScale_onGrid ⟨s'.key, s'.size, [cs]⟩ hsz
    (by intro c hc; rw [List.mem_singleton.mp hc]; exact hpos' cs hcs) k hk
  unfold validFor
  simp only [] at hkey
  rw [hkey, find_scale src hd s' hs']
  simp only []
  have hposI : ∀ c ∈ s'.chunkSizes.map toI, 0 < c.1 ∧ 0 < c.2.1 ∧ 0 < c.2.2 := by
    intro cI hm
    obtain ⟨c, hc, rfl⟩ := List.mem_map.mp hm
    obtain ⟨p1, p2, p3⟩ := hpos' c hc
    simp only [toI]
    exact ⟨by exact_mod_cast p1, by exact_mod_cast p2, by exact_mod_cast p3⟩
  apply (validate_iff _ _ _ hposI).mpr
  obtain ⟨c, hc, hg⟩ := hgrid
  simp only [List.map_cons, List.map_nil, List.mem_singleton] at hc
  subst hc
  exact ⟨toI cs, List.mem_map.mpr ⟨cs, hcs, rfl⟩, hg⟩

/-- raw destination: the codec hypothesis holds for every item size and every array of values
    that fit the item size -/
theorem raw_codec_lossless (itemsize : Nat) (hk : 0 < itemsize) (vals : List Nat)
    (hv : ∀ v ∈ vals, v < 256 ^ itemsize) :
    Raw.decode itemsize vals.length (Raw.encode itemsize vals) = .ok vals :=
  Raw.decode_encode itemsize hk vals hv

/-- compressed_segmentation destination: the codec hypothesis holds for every chunk shape, block
    size and label array the encoder accepts (decoder written from the format specification) -/
theorem cseg_codec_lossless (itemsize : Nat) (hi : itemsize = 4 ∨ itemsize = 8) (s : Cseg.Shape)
    (bk : Cseg.Blk3) (d : List Nat) (hbx : 0 < bk.bx) (hby : 0 < bk.by') (hbz : 0 < bk.bz)
    (hvals : ∀ v ∈ d, v < 2 ^ (8 * itemsize)) (hd : d.length = s.c * s.z * s.y * s.x)
    (file : Bytes) (h : Cseg.encode itemsize s bk d = some file) :
    Cseg.specDecode itemsize s bk file = some d :=
  Cseg.specDecode_encode itemsize hi s bk d hbx hby hbz hvals hd file h

/-- "wider data type": an integer conversion whose output range contains the input range is the
    identity on every representable value -/
theorem widening_is_identity (inT outT : Conv.Ty) (hi : inT.isInt = true) (n : Int)
    (hlo : inT.min ≤ n) (hhi : n ≤ inT.max) (hmin : outT.min ≤ inT.min) (hmax : inT.max ≤ outT.max) :
    Conv.toInt inT outT ⟨n, 0⟩ = some n := by
  rw [Conv.toInt_int inT outT hi n hlo hhi]
  unfold Conv.clamp
  rw [if_neg (by omega), if_neg (by omega)]

/-- non-vacuity: a two-scale destination with a non-dividing chunk size; 2·2·1 + 1 = 5 chunks -/
example : (plan [⟨"a", (5, 4, 3), [(4, 2, 4)]⟩, ⟨"b", (3, 2, 2), [(4, 4, 4)]⟩]).length = 5 := by decide

/-- non-vacuity of the main theorem: a one-scale destination with two chunks, an identity codec and a
    constant source satisfy all its hypotheses -/
example : ∃ st, run (fun _ => .ok [7]) id (writeK (validFor [⟨"a", (2, 1, 1), [(1, 1, 1)]⟩]) (fun _ a => a))
    Store.empty (plan [⟨"a", (2, 1, 1), [(1, 1, 1)]⟩]) = .ok st := by
  obtain ⟨st, h, _⟩ := conversion_preserves_every_chunk [⟨"a", (2, 1, 1), [(1, 1, 1)]⟩]
    (by simp) (by simp) (by intro s hs cs hcs; simp at hs; subst hs; simp at hcs; subst hcs; decide)
    (fun _ => .ok [7]) (fun _ => [7]) (fun _ _ => rfl) id (fun _ a => a)
    (fun _ b => some b) (fun _ _ => by simp) Store.empty
  exact ⟨st, h⟩

/-- TRANSLATED SOURCE. The chunk boxes `convert_chunks_for_scale` computes, as they stand in /repo's source
    (translated on every run), are the cells of the model's grid: `cs·i` and `min(cs·(i+1), size)` -/
theorem source_conversion_boxes_are_the_model (s c i : Nat) :
    Generated.Src.cvtLowerX (chunk_size_0 := c) (x_idx := i) = ((c * i : Nat) : Int) ∧
    Generated.Src.cvtUpperX (chunk_size_0 := c) (x_idx := i) (size_0 := s) = ((min (c * (i + 1)) s : Nat) : Int) ∧
    Generated.Src.cvtUpperZ (chunk_size_2 := c) (z_idx := i) (size_2 := s) = ((min (c * (i + 1)) s : Nat) : Int) :=
  Source.cvtBounds_eq_model s c i

end NgVerif.Props.C13
