import NgVerif.Model.Slices
import NgVerif.Proofs.Tiling
/-
  C15 — Slice stacks are assembled with the requested anatomical orientation.
-/
namespace NgVerif.Props.C15
open NgVerif NgVerif.Slices

/-- the list of accepted codes read from the source has 48 entries, all distinct, and every one
    of them designates a signed permutation of the three axes (re-checked by the kernel against
    the tables regenerated from the source on every run) -/
theorem orientation_tables_valid :
    Generated.possibleAxisOrientations.length = 48 ∧
    Generated.possibleAxisOrientations.eraseDups.length = 48 ∧
    Generated.possibleAxisOrientations.all validCode = true := by decide

/-- reversing an axis is an involution on its index range: the map input ↔ output is a bijection
    on every axis, for every extent -/
theorem flip_involutive (s : Int) (n i : Nat) (hi : i < n) :
    flipIdx s n (flipIdx s n i) = i ∧ flipIdx s n i < n := by
  unfold flipIdx
  split <;> simp_all <;> omega

/-- the slices of group `g`, in loading order, are exactly the `cs` (or fewer, for the last group)
    consecutive output positions `cs·g … ` of the slice axis — also for a REVERSED slice axis, where
    the unrepaired code selected nothing for the last group (F16): position `k` of the group holds
    file `n-1-(cs·g+k)`, whose flipped index is `cs·g + k`. All counts, all chunk depths. -/
theorem slice_group_positions (n cs g k : Nat) (reversed : Bool)
    (hk : k < min (cs * (g + 1)) n - cs * g) :
    (groupFiles n cs g reversed).length = min (cs * (g + 1)) n - cs * g ∧
    flipIdx (if reversed then -1 else 1) n ((groupFiles n cs g reversed).getD k 0) = cs * g + k ∧
    (groupFiles n cs g reversed).getD k 0 < n := by
  unfold groupFiles flipIdx
  simp only [List.length_map, List.length_range, true_and]
  have hlt : k < ((List.range (min (cs * (g + 1)) n - cs * g)).map fun k =>
      if reversed = true then n - 1 - (cs * g + k) else cs * g + k).length := by simpa using hk
  have e : ((List.range (min (cs * (g + 1)) n - cs * g)).map fun k =>
      if reversed = true then n - 1 - (cs * g + k) else cs * g + k).getD k 0
      = if reversed = true then n - 1 - (cs * g + k) else cs * g + k := by
    rw [List.getD_eq_getElem?_getD, List.getElem?_eq_getElem hlt]
    simp
  rw [e]
  cases reversed <;> simp <;> omega

example : groupFiles 5 2 2 true = [0] ∧ groupFiles 5 2 0 true = [4, 3] := by decide

end NgVerif.Props.C15
