import NgVerif.Proofs.Source
import NgVerif.Model.Slices
import NgVerif.Proofs.Tiling
import NgVerif.Proofs.Slices
/-
  C15 — Slice stacks are assembled with the requested anatomical orientation.
-/
namespace NgVerif.Props.C15
open NgVerif NgVerif.Slices

/-- the list of accepted codes read from the source has 48 entries, all distinct, and every one
    of them designates a signed permutation of the three axes (re-checked by the kernel against
    the tables regenerated from the source on every run) -/
theorem orientation_tables_valid :
    Generated.possibleAxisOrientations.length = 48 ∧
    Generated.possibleAxisOrientations.eraseDups.length = 48 ∧
    Generated.possibleAxisOrientations.all validCode = true := by decide

/-- reversing an axis is an involution on its index range: the map input ↔ output is a bijection
    on every axis, for every extent -/
theorem flip_involutive (s : Int) (n i : Nat) (hi : i < n) :
    flipIdx s n (flipIdx s n i) = i ∧ flipIdx s n i < n := by
  unfold flipIdx
  split <;> simp_all <;> omega

/-- the slices of group `g`, in loading order, are exactly the `cs` (or fewer, for the last group)
    consecutive output positions `cs·g … ` of the slice axis — also for a REVERSED slice axis, where
    the unrepaired code selected nothing for the last group (F16): position `k` of the group holds
    file `n-1-(cs·g+k)`, whose flipped index is `cs·g + k`. All counts, all chunk depths. -/
theorem slice_group_positions (n cs g k : Nat) (reversed : Bool)
    (hk : k < min (cs * (g + 1)) n - cs * g) :
    (groupFiles n cs g reversed).length = min (cs * (g + 1)) n - cs * g ∧
    flipIdx (if reversed then -1 else 1) n ((groupFiles n cs g reversed).getD k 0) = cs * g + k ∧
    (groupFiles n cs g reversed).getD k 0 < n := by
  unfold groupFiles flipIdx
  simp only [List.length_map, List.length_range, true_and]
  have hlt : k < ((List.range (min (cs * (g + 1)) n - cs * g)).map fun k =>
      if reversed = true then n - 1 - (cs * g + k) else cs * g + k).length := by simpa using hk
  have e : ((List.range (min (cs * (g + 1)) n - cs * g)).map fun k =>
      if reversed = true then n - 1 - (cs * g + k) else cs * g + k).getD k 0
      = if reversed = true then n - 1 - (cs * g + k) else cs * g + k := by
    rw [List.getD_eq_getElem?_getD, List.getElem?_eq_getElem hlt]
    simp
  rw [e]
  cases reversed <;> simp <;> omega

example : groupFiles 5 2 2 true = [0] ∧ groupFiles 5 2 0 true = [4, 3] := by decide

/-- THE WHOLE STACK, every accepted orientation code. `stackChunks` is the chunk loop of
    `slices_to_raw_chunks` at index level (slice groups × row chunks × column chunks; flips by negative
    steps, `np.moveaxis`, `permute`/`invert_permutation` of slicings and coordinates; its output is compared
    with the recorded `write_chunk` calls of the real code on every run). For every code the tables accept
    (its axes are then one of the six permutations), every combination of reversed axes, every volume size
    and every chunk size: each written chunk has exactly one stored pixel per position of its box, every
    position lies inside the volume, the stored pixel lies inside the input stack, and it is the pixel the
    orientation code designates for that position (`outCoord pixel = position`: axes permuted and reversed
    exactly as the code says). -/
theorem every_chunk_holds_designated_pixels (code : List Char) (p : List Nat) (hp : perm code = some p)
    (hv : validCode code = true) (i0 i1 i2 : Int) (s0 s1 s2 c0 c1 c2 : Nat) (ch : SChunk)
    (hch : ch ∈ stackChunks p [i0, i1, i2] [s0, s1, s2] [c0, c1, c2]) :
    ch.pix.length = (boxVoxels ch.box).length ∧
    ∀ k, k < (boxVoxels ch.box).length →
      let o := (boxVoxels ch.box).getD k []
      let px := ch.pix.getD k []
      let nIn := permute [s0, s1, s2] p 0
      outCoord p [i0, i1, i2] nIn px = o ∧
      (o.getD 0 0 < s0 ∧ o.getD 1 0 < s1 ∧ o.getD 2 0 < s2) ∧
      (px.getD 0 0 < nIn.getD 0 0 ∧ px.getD 1 0 < nIn.getD 1 0 ∧ px.getD 2 0 < nIn.getD 2 0) := by
  obtain ⟨h3, h0, h1, h2⟩ := validCode_perm code p hp hv
  exact stackChunks_good p (perm3_mem_six p h3 h0 h1 h2) i0 i1 i2 s0 s1 s2 c0 c1 c2 ch hch

/-- … and the whole stack is converted, whatever the number of slices relative to the chunk depth: every
    voxel (x, y, z) of the output volume lies in the box of EXACTLY ONE written chunk -/
theorem every_voxel_in_exactly_one_chunk (code : List Char) (p : List Nat) (hp : perm code = some p)
    (hv : validCode code = true) (i0 i1 i2 : Int) (s0 s1 s2 c0 c1 c2 x y z : Nat)
    (hc : 0 < c0 ∧ 0 < c1 ∧ 0 < c2) (hx : x < s0) (hy : y < s1) (hz : z < s2) :
    ∃ ch ∈ stackChunks p [i0, i1, i2] [s0, s1, s2] [c0, c1, c2], inBox ch.box [x, y, z] ∧
      ∀ ch' ∈ stackChunks p [i0, i1, i2] [s0, s1, s2] [c0, c1, c2], inBox ch'.box [x, y, z] → ch' = ch := by
  obtain ⟨h3, h0, h1, h2⟩ := validCode_perm code p hp hv
  exact stackChunks_cover p (perm3_mem_six p h3 h0 h1 h2) i0 i1 i2 s0 s1 s2 c0 c1 c2 x y z hc.1 hc.2.1 hc.2.2 hx hy hz

/-- non-vacuity: code "PIL" is accepted, has permutation (1, 2, 0) with all three axes reversed, and the
    loop writes 8 chunks for a 3×2×3 volume with 2×1×2 chunks -/
example : validCode "PIL".toList = true ∧ perm "PIL".toList = some [1, 2, 0] ∧ inv "PIL".toList = some [-1, -1, -1] ∧
    (stackChunks [1, 2, 0] [-1, -1, -1] [3, 2, 3] [2, 1, 2]).length = 8 := by decide

/-- TRANSLATED SOURCE. The slice-group arithmetic of `slices_to_raw_chunks` as it stands in /repo's source
    (translated on every run): number of groups, the in-order window of group `g`, and for a REVERSED slice axis
    the start `n - 1 - first` and the (exclusive) stop `n - 1 - last` of the negative-step slice, whose `k`-th element
    is the `k`-th file of the model's `groupFiles` — for every slice count, chunk depth, group and position -/
theorem source_slice_windows_are_the_model (n cs g k : Nat) (hn : 1 ≤ n) (hk : k < min (cs * (g + 1)) n - cs * g) :
    Generated.Src.sliceGroups (input_size_2 := n) (input_chunk_size_2 := cs) = ((Tiling.count n cs : Nat) : Int) ∧
    Generated.Src.sliceFirstInOrder (input_chunk_size_2 := cs) (slice_chunk_idx := g) = ((cs * g : Nat) : Int) ∧
    Generated.Src.sliceLastInOrder (input_chunk_size_2 := cs) (slice_chunk_idx := g) (input_size_2 := n)
      = ((min (cs * (g + 1)) n : Nat) : Int) ∧
    Generated.Src.sliceFirstReversed (input_size_2 := n) (first_slice_in_order := ((cs * g : Nat) : Int)) - (k : Int)
      = (((groupFiles n cs g true).getD k 0 : Nat) : Int) ∧
    Generated.Src.sliceLastReversed (input_size_2 := n) (last_slice_in_order := ((min (cs * (g + 1)) n : Nat) : Int))
      < Generated.Src.sliceFirstReversed (input_size_2 := n) (first_slice_in_order := ((cs * g : Nat) : Int)) - (k : Int) :=
  Source.slices_arith_eq_model n cs g k hn hk

end NgVerif.Props.C15
