import NgVerif.Generated.Tables
import NgVerif.Model.Prim
import NgVerif.Model.Readable
import NgVerif.Model.Stats
import NgVerif.Model.Tiling
import NgVerif.Proofs.Readable
import NgVerif.Proofs.Tiling
import NgVerif.Props.C20
