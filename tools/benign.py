#!/usr/bin/env python3
"""Behaviour-preserving rewrites (seeded/<Cxx>-b<k>/): the checks must stay silent on them.
  benign.py import <prop> <k>   copy /tmp/wt/<prop>/mutants/b<k>.* to seeded/<prop>-b<k>/ after checking that it applies
                                and that the baseline tests still pass in a scratch worktree
  benign.py run <id> [tier]     apply to /repo, run ./check <prop>, undo, record the verdict in meta.json
  benign.py runall [tier]
"""
import json
import os
import shutil
import subprocess
import sys
import tempfile

sys.path.insert(0, os.path.dirname(os.path.abspath(__file__)))
import mutants  # noqa: E402

VERIF = mutants.VERIF
SEEDED = mutants.SEEDED


def cmd_import(prop, k):
    src = f"/tmp/wt/{prop}/mutants"
    diff = os.path.join(src, f"b{k}.diff")
    wt = tempfile.mkdtemp(prefix="bv_", dir="/tmp")
    os.rmdir(wt)
    rc, out = mutants.sh(["git", "-C", "/repo", "worktree", "add", "-q", "--detach", wt, "HEAD"])
    if rc:
        print(out)
        return 1
    try:
        rc, out = mutants.sh(["git", "apply", diff], cwd=wt)
        if rc:
            print(f"{prop}-b{k}: patch does not apply: {out[:200]}")
            return 1
        lost = mutants.run_suite(wt)
        env = dict(os.environ, PYTHONPATH=os.path.join(wt, "src"), TQDM_DISABLE="1")
        demo = os.path.join(src, f"b{k}_demo.py")
        d1 = d0 = None
        if os.path.exists(demo):
            os.makedirs(os.path.join(wt, "mutants"), exist_ok=True)
            shutil.copy(demo, os.path.join(wt, "mutants", os.path.basename(demo)))
            _, d1 = mutants.sh(["/venv/bin/python", os.path.join("mutants", os.path.basename(demo))], cwd=wt, env=env)
            mutants.sh(["git", "checkout", "--", "src"], cwd=wt)
            _, d0 = mutants.sh(["/venv/bin/python", os.path.join("mutants", os.path.basename(demo))], cwd=wt, env=env)
        same = d0 is not None and d0.strip().splitlines()[-1:] == d1.strip().splitlines()[-1:]
        ok = not lost and same
        print(f"{prop}-b{k}: baseline tests lost={len(lost)}, demo digest identical={same} => {'CONFIRMED' if ok else 'REJECTED'}")
        if not ok:
            return 1
        dst = os.path.join(SEEDED, f"{prop}-b{k}")
        os.makedirs(dst, exist_ok=True)
        shutil.copy(diff, os.path.join(dst, "patch.diff"))
        for name, target in ((f"b{k}_demo.py", "demo.py"), (f"b{k}.md", "notes.md")):
            if os.path.exists(os.path.join(src, name)):
                shutil.copy(os.path.join(src, name), os.path.join(dst, target))
        json.dump({"id": f"{prop}-b{k}", "property": prop, "kind": "behaviour-preserving rewrite",
                   "origin": "independent sub-agent given only the property text",
                   "confirmed": {"baseline_tests_lost_with_change": 0, "demo_digest_identical": True}},
                  open(os.path.join(dst, "meta.json"), "w"), indent=1)
        return 0
    finally:
        mutants.sh(["git", "-C", "/repo", "worktree", "remove", "--force", wt])


def cmd_run(mid, tier="quick"):
    d = os.path.join(SEEDED, mid)
    meta = json.load(open(os.path.join(d, "meta.json")))
    prop = meta["property"]
    rc, out = mutants.sh(["git", "-C", "/repo", "apply", os.path.join(d, "patch.diff")])
    if rc:
        print(f"{mid}: patch does not apply any more: {out[:200]}")
        return 1
    try:
        p = subprocess.run([os.path.join(VERIF, "check"), prop, "--tier", tier], cwd=VERIF, stdout=subprocess.PIPE,
                           stderr=subprocess.STDOUT, text=True, timeout=7200)
        lines = [l for l in p.stdout.splitlines() if l.startswith(("OK", "VIOLATION", "  "))]
        verdict = "silent" if p.returncode == 0 else ("alarm (no failing input)" if "no-failing-input-found" in p.stdout
                                                       else "ALARM with failing input")
        print(f"{mid} [{tier}]: {verdict}")
        for l in lines[:4]:
            print("    " + l[:300])
        meta.setdefault("check_results", {})[tier] = {"verdict": verdict, "output": lines[:4]}
        json.dump(meta, open(os.path.join(d, "meta.json"), "w"), indent=1)
    finally:
        mutants.sh(["git", "-C", "/repo", "checkout", "--", "."])
    return 0


def main():
    a = sys.argv[1:]
    if a and a[0] == "import":
        return cmd_import(a[1], a[2])
    if a and a[0] == "run":
        return cmd_run(a[1], a[2] if len(a) > 2 else "quick")
    if a and a[0] == "runall":
        for mid in sorted(os.listdir(SEEDED)):
            if "-b" in mid:
                cmd_run(mid, a[1] if len(a) > 1 else "quick")
        return 0
    print(__doc__)
    return 2


if __name__ == "__main__":
    sys.exit(main())
