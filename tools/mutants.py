#!/usr/bin/env python3
"""Seeded-change management.

  mutants.py import  <prop> <k>      verify /tmp/wt/<prop>/mutants/m<k>.* in a fresh scratch worktree of /repo
                                     and, if confirmed, keep it as /verif/seeded/<prop>-m<k>/
  mutants.py run     <id> [tier]     apply seeded/<id>/patch.diff to /repo, run ./check <prop>, undo, record result
  mutants.py runall  [tier]          run every seeded change against its property's check
"""
import json
import os
import shutil
import subprocess
import sys
import tempfile
import xml.etree.ElementTree as ET

VERIF = os.path.dirname(os.path.dirname(os.path.abspath(__file__)))
SEEDED = os.path.join(VERIF, "seeded")
BASE = json.load(open("/root/.vp/BASELINE.json"))


def sh(cmd, cwd=None, env=None, timeout=3000):
    p = subprocess.run(cmd, cwd=cwd, env=env, stdout=subprocess.PIPE, stderr=subprocess.STDOUT, text=True,
                       timeout=timeout)
    return p.returncode, p.stdout


def run_suite(wt):
    env = dict(os.environ, PYTHONPATH=os.path.join(wt, "src"))
    with tempfile.TemporaryDirectory() as d:
        x = os.path.join(d, "r.xml")
        sh(["/venv/bin/python", "-m", "pytest", "-q", "-p", "no:cacheprovider", "--timeout=900",
            "--continue-on-collection-errors", "--junitxml=" + x], cwd=wt, env=env)
        passed = set()
        for tc in ET.parse(x).getroot().iter("testcase"):
            if not any(c.tag in ("failure", "error", "skipped") for c in tc):
                passed.add(tc.get("classname") + "::" + tc.get("name"))
    return [t for t in BASE["stable_pass"] if t not in passed]


def cmd_import(prop, k):
    src = f"/tmp/wt/{prop}/mutants"
    diff = os.path.join(src, f"m{k}.diff")
    demo = os.path.join(src, f"m{k}_demo.py")
    notes = os.path.join(src, f"m{k}.md")
    for f in (diff, demo):
        if not os.path.exists(f):
            print("missing", f)
            return 1
    wt = tempfile.mkdtemp(prefix="mv_", dir="/tmp")
    os.rmdir(wt)
    rc, out = sh(["git", "-C", "/repo", "worktree", "add", "-q", "--detach", wt, "HEAD"])
    if rc:
        print(out)
        return 1
    try:
        env = dict(os.environ, PYTHONPATH=os.path.join(wt, "src"), TQDM_DISABLE="1")
        os.makedirs(os.path.join(wt, "mutants"))
        shutil.copy(demo, os.path.join(wt, "mutants", os.path.basename(demo)))
        rc0, out0 = sh(["/venv/bin/python", os.path.join("mutants", os.path.basename(demo))], cwd=wt, env=env)
        rc, out = sh(["git", "apply", diff], cwd=wt)
        if rc:
            print("patch does not apply:", out)
            return 1
        rc1, out1 = sh(["/venv/bin/python", os.path.join("mutants", os.path.basename(demo))], cwd=wt, env=env)
        missing = run_suite(wt)
        ok = rc0 == 0 and rc1 != 0 and not missing
        print(f"{prop}-m{k}: demo unchanged rc={rc0}, demo with change rc={rc1}, "
              f"baseline tests lost with change={len(missing)} => {'CONFIRMED' if ok else 'REJECTED'}")
        if not ok:
            print(out0[-500:] if rc0 else "", out1[-300:], missing[:5])
            return 1
        dest = os.path.join(SEEDED, f"{prop}-m{k}")
        os.makedirs(dest, exist_ok=True)
        shutil.copy(diff, os.path.join(dest, "patch.diff"))
        shutil.copy(demo, os.path.join(dest, "demo.py"))
        if os.path.exists(notes):
            shutil.copy(notes, os.path.join(dest, "notes.md"))
        note_text = open(notes).read() if os.path.exists(notes) else ""
        meta = {
            "id": f"{prop}-m{k}", "property": prop, "origin": "independent sub-agent given only the property text",
            "needs_to_manifest": note_text[:1500],
            "confirmed": {
                "how": "fresh scratch worktree of /repo HEAD outside /repo and /verif; tools/mutants.py import",
                "demo_unchanged_exit": rc0, "demo_with_change_exit": rc1,
                "demo_with_change_output_tail": out1[-400:],
                "baseline_tests_lost_with_change": len(missing),
            },
        }
        with open(os.path.join(dest, "meta.json"), "w") as f:
            json.dump(meta, f, indent=1)
        return 0
    finally:
        sh(["git", "-C", "/repo", "worktree", "remove", "--force", wt])


def cmd_verify(mid, rebase=False):
    """Re-confirm a seeded change against the CURRENT /repo HEAD in a scratch worktree
    (optionally re-generating patch.diff with fuzz when a later fix: commit moved the context)."""
    d = os.path.join(SEEDED, mid)
    meta = json.load(open(os.path.join(d, "meta.json")))
    wt = tempfile.mkdtemp(prefix="mv_", dir="/tmp")
    os.rmdir(wt)
    rc, out = sh(["git", "-C", "/repo", "worktree", "add", "-q", "--detach", wt, "HEAD"])
    if rc:
        print(out)
        return 1
    try:
        env = dict(os.environ, PYTHONPATH=os.path.join(wt, "src"), TQDM_DISABLE="1")
        os.makedirs(os.path.join(wt, "mutants"))
        shutil.copy(os.path.join(d, "demo.py"), os.path.join(wt, "mutants", "demo.py"))
        rc0, out0 = sh(["/venv/bin/python", "mutants/demo.py"], cwd=wt, env=env)
        rc, out = sh(["git", "apply", os.path.join(d, "patch.diff")], cwd=wt)
        if rc and rebase:
            rc, out = sh(["patch", "-p1", "-F3", "--no-backup-if-mismatch", "-i", os.path.join(d, "patch.diff")], cwd=wt)
            if rc == 0:
                _, newdiff = sh(["git", "diff", "--", "src"], cwd=wt)
                with open(os.path.join(d, "patch.diff"), "w") as f:
                    f.write(newdiff)
                meta["rebased"] = "patch.diff regenerated against a later /repo HEAD (context moved by a fix: commit)"
        if rc:
            print(f"{mid}: patch does not apply: {out[-300:]}")
            return 1
        rc1, out1 = sh(["/venv/bin/python", "mutants/demo.py"], cwd=wt, env=env)
        missing = run_suite(wt)
        ok = rc0 == 0 and rc1 != 0 and not missing
        meta["confirmed"].update({"reverified_demo_unchanged_exit": rc0, "reverified_demo_with_change_exit": rc1,
                                  "reverified_tests_lost": len(missing)})
        with open(os.path.join(d, "meta.json"), "w") as f:
            json.dump(meta, f, indent=1)
        print(f"{mid}: unchanged rc={rc0}, with change rc={rc1}, tests lost={len(missing)} => "
              f"{'CONFIRMED' if ok else 'REJECTED'}")
        return 0 if ok else 1
    finally:
        sh(["git", "-C", "/repo", "worktree", "remove", "--force", wt])


def cmd_run(mid, tier="quick"):
    d = os.path.join(SEEDED, mid)
    meta = json.load(open(os.path.join(d, "meta.json")))
    prop = meta["property"]
    rc, out = sh(["git", "-C", "/repo", "status", "--porcelain"])
    if out.strip():
        print("/repo is not clean; refusing")
        return 2
    rc, out = sh(["git", "-C", "/repo", "apply", os.path.join(d, "patch.diff")])
    if rc:
        print("patch does not apply to /repo:", out)
        return 2
    try:
        rc, out = sh([os.path.join(VERIF, "check"), prop, "--tier", tier], cwd=VERIF, timeout=7200)
    finally:
        sh(["git", "-C", "/repo", "checkout", "--", "."])
    lines = [ln for ln in out.splitlines() if ln.startswith("VIOLATION") or ln.startswith("  ")]
    verdict = "caught" if rc == 1 and any(ln.startswith("VIOLATION") for ln in lines) else \
        ("MISSED" if rc == 0 else f"error rc={rc}")
    with_input = verdict == "caught" and "no-failing-input-found" not in " ".join(lines[:1])
    meta.setdefault("check_results", {})[tier] = {
        "verdict": verdict, "with_failing_input": with_input, "output": lines[:4]}
    with open(os.path.join(d, "meta.json"), "w") as f:
        json.dump(meta, f, indent=1)
    print(f"{mid} [{tier}]: {verdict}{' (failing input)' if with_input else ''}")
    for ln in lines[:3]:
        print("   ", ln[:200])
    if verdict.startswith("error"):
        print(out[-400:])
    return 0


def cmd_run_wt(mid, tier="quick"):
    """like `run`, but against a scratch worktree of /repo (NGV_REPO): /repo itself is not touched, so this can run
    next to other work (use from a `vp run` snapshot, whose /verif copy receives the evidence and the results)"""
    d = os.path.join(SEEDED, mid)
    meta = json.load(open(os.path.join(d, "meta.json")))
    prop = meta["property"]
    wt = tempfile.mkdtemp(prefix="mw_", dir="/tmp")
    os.rmdir(wt)
    rc, out = sh(["git", "-C", "/repo", "worktree", "add", "-q", "--detach", wt, "HEAD"])
    if rc:
        print(out)
        return 2
    try:
        rc, out = sh(["git", "apply", os.path.join(d, "patch.diff")], cwd=wt)
        if rc:
            print(f"{mid}: patch does not apply: {out[-200:]}")
            return 2
        rc, out = sh([os.path.join(VERIF, "check"), prop, "--tier", tier], cwd=VERIF, timeout=7200,
                     env=dict(os.environ, NGV_REPO=wt))
    finally:
        sh(["git", "-C", "/repo", "worktree", "remove", "--force", wt])
    lines = [ln for ln in out.splitlines() if ln.startswith("VIOLATION") or ln.startswith("  ")]
    benign = "-b" in mid
    verdict = "caught" if rc == 1 and any(ln.startswith("VIOLATION") for ln in lines) else \
        ("MISSED" if rc == 0 else f"error rc={rc}")
    with_input = verdict == "caught" and "no-failing-input-found" not in " ".join(lines[:1])
    if benign:
        meta.setdefault("check_results", {})[tier] = {
            "verdict": "silent" if verdict == "MISSED" else "ALARM", "output": lines[:4]}
    else:
        meta.setdefault("check_results", {})[tier] = {
            "verdict": verdict, "with_failing_input": with_input, "output": lines[:4]}
    with open(os.path.join(d, "meta.json"), "w") as f:
        json.dump(meta, f, indent=1)
    tag = ("silent (ok)" if verdict == "MISSED" else "ALARM on a benign rewrite") if benign else \
        f"{verdict}{' (failing input)' if with_input else ''}"
    print(f"{mid} [{tier}]: {tag}", flush=True)
    if verdict.startswith("error") or (benign and verdict != "MISSED"):
        print(out[-600:])
    return 0


def main():
    a = sys.argv[1:]
    if a[0] == "runall-wt":
        tier = a[1] if len(a) > 1 else "quick"
        only = a[2] if len(a) > 2 else None
        for mid in sorted(os.listdir(SEEDED)):
            if only and not mid.startswith(only):
                continue
            cmd_run_wt(mid, tier)
        return 0
    if a[0] == "run-wt":
        return cmd_run_wt(a[1], a[2] if len(a) > 2 else "quick")
    if a[0] == "import":
        return cmd_import(a[1], a[2])
    if a[0] == "verify":
        return cmd_verify(a[1], rebase=len(a) > 2 and a[2] == "rebase")
    if a[0] == "run":
        return cmd_run(a[1], a[2] if len(a) > 2 else "quick")
    if a[0] == "runall":
        tier = a[1] if len(a) > 1 else "quick"
        only = a[2] if len(a) > 2 else None
        for mid in sorted(os.listdir(SEEDED)):
            if only and not mid.startswith(only):
                continue
            cmd_run(mid, tier)
        return 0


if __name__ == "__main__":
    sys.exit(main())
