#!/bin/sh
# run every claimed check with several seeds on the current tree; print only non-OK endings
cd "$(dirname "$0")/.."
for seed in "$@"; do
  for p in $(python3 -c "import json; print(' '.join(c['property_id'] for c in json.load(open('MANIFEST.json'))['checks']))"); do
    out=$(VERIF_SEED=$seed ./check $p --tier ${TIER:-quick} 2>&1 | grep -v "^KNOWN-FINDING" | tail -2)
    case "$out" in
      OK*) ;;
      *) echo "seed=$seed $p: $out" | cut -c1-400 ;;
    esac
  done
done
echo sweep-done
