#!/usr/bin/env python3
"""Regenerate /verif/MANIFEST.json from the per-property table below (keeps it valid at all times)."""
import json
import os

HERE = os.path.dirname(os.path.dirname(os.path.abspath(__file__)))

CLAIMS = {
    "C18": dict(
        text="Lean 4 theorems over a model of one store as a program of I/O primitives (makedirs, open, "
             "write*, close) run under an injected failure or an interruption at ANY primitive with ANY number "
             "of stream bytes written, and of the reader on what is left: a failure is always reported as a "
             "data-access error and success only when the whole stream is on disk; MAIN: afterwards a reader "
             "gets what it got before, or exactly the new array, or an error - never another array - for any "
             "codec that refuses a prefix of its output or decodes it to the encoded array; raw and "
             "compressed_segmentation (the package's own decoder, via conformance to the specification "
             "decoder and monotonicity of the latter under prefixes) meet that hypothesis (proved), and the "
             "statement is given outright for both, plain or gzip; a shard file with a zeroed "
             "index placeholder followed by ANY prefix of data and indices lists no chunk, for every sharding "
             "specification, and one shorter than the placeholder is refused; failing HTTP requests are errors "
             "for both readers. Tie/oracle: call-site level injection - for EVERY recorded I/O call of every "
             "operation of the file accessor (4 layouts) and of sharded write sessions and fetches x {ENOSPC, "
             "EACCES, EIO, ENOENT}, plus a forked child killed before every call and in the middle of every "
             "write; fresh readers afterwards; outcome / file state / read-back compared with the Lean model; "
             "real kernel failures (RLIMIT_FSIZE, /dev/full); every strict prefix of chunk files (raw, "
             "compressed_segmentation, jpeg x plain, gzip) and of shard files; every request of HTTP operations "
             "failing 9 ways.",
        note="Trusted: Lean kernel; standard axioms; hand-written primitive-level model (tie = exhaustive over "
             "the recorded traces per dataset); gzip refusing non-empty strict prefixes is a modelling assumption "
             "and jpeg truncation an external, both validated on every prefix tried, not theorems; kernel "
             "write-back/power-loss behaviour and torn final index writes are outside the model.",
        technique="Lean 4 proof (case analysis over failure/interruption events, prefix rejection, zero-index "
                  "shard) + exhaustive call-site fault and kill injection on the real accessors",
        ref="DESIGN.md §6 C18"),
    "C19": dict(
        text="Lean 4 theorems at the command level: the all-in-one command and the documented sequence build "
             "the same info for every full-resolution info, option pair and number of levels, given that the "
             "info file written by one stand-alone command is parsed back unchanged by the next (JSON round "
             "trip, hypothesis); every scale of the generated info carries the requested encoding and, for "
             "compressed_segmentation, a block size, because the parameters are set before the first scale is "
             "copied (and a kernel-checked witness that the opposite order does not); compressed_segmentation "
             "promotes 8/16-bit types to uint32 and nothing else; both programs select the same downscaler for "
             "every method option, 'auto' being resolved after --type is applied (with a witness that the "
             "opposite order differs); exit status 0 iff every step of the command "
             "succeeded, for every list of steps; re-running the same chunk writes leaves every chunk decoding "
             "to the same array (any history, any codec); compute-scales is idempotent and leaves level L+1 = "
             "downscale(level L) for every downscaler and number of levels. Voxel-level content of the steps "
             "is C01/C06/C07/C13. Tie/oracle: both programs run on synthetic NIfTI volumes with the same "
             "options (encoding, type, downscaling method, --flat, --no-gzip, --input-min/max), infos compared "
             "as JSON values and with the Lean info model, every chunk of every scale decoded and compared; "
             "steps repeated; convert-chunks twice; scale-stats read-only; sharded sequences as subprocesses; "
             "obstructed destinations must give a non-zero status.",
        note="Trusted: Lean kernel; standard axioms; hand-written command-level model (the equality of the two "
             "programs is a composition argument; the tie is the differential run of the two real programs on "
             "every case); JSON round trip is a hypothesis; process start-up, argparse and logging are "
             "exercised, not modelled.",
        technique="Lean 4 proof (command-level composition, idempotence, exit status) + differential execution "
                  "of the two real programs and of repeated steps",
        ref="DESIGN.md §6 C19"),
    "C20": dict(
        text="Lean 4 theorems over an exact model of readable_count (float64 rounding of the count, "
             "round-half-even formatting, prefix table regenerated from the source): for every n < 999·2^60 "
             "the output has ≥2 significant digits, ≤6 characters and is the nearest value at the shown "
             "precision; reported chunk count = length of the chunk grid every conversion loop iterates, "
             "reported bytes = sum of the raw chunk sizes. Model tied to the code on every run by a "
             "differential run (boundary bands of every prefix, float64 ties, random infos through "
             "show_scales_info, real volume_to_precomputed runs with a recording writer).",
        note="Trusted: Lean kernel; axioms propext/Classical.choice/Quot.sound; the hand-written model "
             "(tie = sampling + regenerated _IEC_PREFIXES); CPython's correctly rounded float formatting.",
        technique="Lean 4 proof (induction/omega over exact integer model) + differential correspondence",
        ref="DESIGN.md §6 C20"),
    "C09": dict(
        text="Lean 4 theorems: for every grid (any number of axes) and every in-grid position the loop of "
             "compressed_morton_code equals the specification's bit interleaving, is injective and below "
             "2^(sum of bits); positions outside the grid, negative or off the chunk lattice are rejected; "
             "shard and minishard numbers computed with the code's uint64 masks/shifts (incl. shifts >= 64) "
             "equal the specification for all bit triples and all 64-bit identifiers; the file name parses "
             "back to the shard number and has ceil(shard_bits/4) digits. Tie: exhaustive differential run "
             "over all positions (+ outside neighbours) of all small grids, sampled huge grids, and all "
             "small bit triples against the real ShardVolumeSpec / ShardSpec / CMCReadWrite / ShardCMC.",
        note="Trusted: Lean kernel; standard axioms; hand-written model (tie = exhaustive small grids + "
             "sampling); float ceil/log2 in ShardVolumeSpec assumed exact below 2^53 (checked per sample).",
        technique="Lean 4 proof (digit-list injectivity, testBit extensionality) + differential correspondence",
        ref="DESIGN.md §6 C09"),
    "C05": dict(
        text="Lean 4 theorems about the write-side reorder buffer (MiniShard store/flush/close) instantiated "
             "with the code's next_cmc formula: any two histories storing the same set of distinct chunks, "
             "in ANY order, never raise and close to identical data bytes and index rows (hence identical "
             "shard files); reading the closed minishard back returns the stored bytes for every stored "
             "id, an empty payload for skipped ids and nothing beyond the last one; FILE LEVEL: the package's "
             "own reader (populate_minishard_dict + fetch_cmc_chunk) applied to the file Shard.close writes "
             "returns the stored bytes of every stored chunk for ANY set of present minishards and any bit "
             "triple (also in the F8 layout where the specification reader fails). Tie: after every store "
             "the real MiniShard's state (_appended, _last_chunk_id, buffered keys, data length, header "
             "rows) is compared with the Lean state machine, both buffering strategies; whole datasets are "
             "written twice (different order/strategy), compared byte for byte with each other and with "
             "Lean's Shard.assemble, and every stored / never-stored chunk is fetched via a fresh accessor.",
        note="Trusted: Lean kernel; standard axioms; hand-written model (tie = sampling, thorough adds all "
             "permutations of small subsets); next_cmc assumed not to wrap (bits <= 64); zlib deterministic.",
        technique="Lean 4 proof (invariant over operation histories, rank measure for gap filling) + "
                  "state-level differential correspondence",
        ref="DESIGN.md §6 C05"),
    "C04": dict(
        text="Lean 4 theorem specFetch_assemble: a reader written only from the sharded-format text, applied "
             "to the bytes Shard.close writes (model tied byte-for-byte to the real files), returns exactly "
             "the stored bytes of every chunk of every minishard that sits at the slot the specification "
             "prescribes — for all bit triples, any number of minishards, any subset and order of stores, "
             "all payloads (composition with C05's theorems); never-stored ids yield nothing or an empty "
             "payload. The remaining case (a lower-numbered minishard unused) is FALSE of the code: "
             "kernel-checked counterexample theorem + known finding F8; gzip-vs-zlib is known finding F10. "
             "Tie/oracle: real datasets read back from disk by an independent strict specification reader "
             "and by Lean's specFetch.",
        note="Trusted: Lean kernel; standard axioms; hand-written file-layout model (tie = byte comparison "
             "of real shard files with the model on sampled datasets); file sizes < 2^64; gzip/zlib external.",
        technique="Lean 4 proof (byte-level layout lemmas, LE round trip, refinement to the minishard "
                  "model) + specification-reader oracle on real files",
        ref="DESIGN.md §6 C04"),
    "C02": dict(
        text="Lean 4 theorem file_decodes: for uint32/uint64, any channel count, any chunk shape and any "
             "(non-cubic, non-dividing) block size, whenever the encoder model emits a file the decoder "
             "written only from the format text returns the original label at EVERY voxel and the file is "
             "4-byte aligned; composed from kernel-checked layers (sorted-distinct LUT + index, bit packing "
             "for all six non-zero widths, append-only arena with LUT sharing, block/voxel index arithmetic, "
             "channel offsets, little-endian words); the same at the level of whole arrays in C order; and the "
             "package's OWN decoder model inverts the encoder (own_decoder_round_trip: decode(encode a) = a "
             "for every shape, block size, label width and array). Tie: the real encoder's bytes equal the model's bytes "
             "on every sampled chunk (all bit widths, padding, LUT sharing across blocks), the real decoder "
             "equals the model of the package decoder; oracle: Lean's specification decoder on the REAL bytes.",
        note="Trusted: Lean kernel; standard axioms (Mathlib's ring used for index identities); hand-written "
             "model (tie = sampling); np.unique/np.pad/argmax semantics as modelled; bit-width table "
             "regenerated from the source.",
        technique="Lean 4 proof (layered refinement encoder -> format decoder) + byte-level differential "
                  "correspondence",
        ref="DESIGN.md §6 C02"),
    "C10": dict(
        text="Lean 4 theorems over a model of decode_chunk_into in which every primitive's failure mode is "
             "explicit (struct.unpack_from on short buffers, Python slicing with clamping, np.frombuffer size "
             "checks, fancy-index IndexError): for EVERY byte string, shape and block size the result is an "
             "array with exactly the requested number of voxels or InvalidFormatError, never another "
             "exception (cseg_decoder_total, incl. the Int-arithmetic lemma that the LUT slice is always "
             "item-aligned); for EVERY byte string, whenever that decoder returns an array a decoder written "
             "from the format specification returns the same array (it never mis-decodes), it accepts a block "
             "whenever the specification's procedure decodes every position of it, and it accepts the "
             "encoder's output; raw decoder accepts exactly the right length; the JPEG wrapper returns the right "
             "size or the documented error for every behaviour of PIL. All model functions are total "
             "(no hang). Tie: outcome class and decoded arrays of the real decoders vs the models on "
             "thousands of malformed inputs (all truncations, byte flips, targeted header edits) and on "
             "valid files written by an independent encoder (valid data never rejected).",
        note="Trusted: Lean kernel; standard axioms; hand-written decoder model (tie = mutation-based "
             "sampling); PIL observed per input, not modelled; struct/numpy primitive semantics as modelled.",
        technique="Lean 4 proof (totality / error-class analysis of the decoder model) + mutation-based "
                  "differential correspondence",
        ref="DESIGN.md §6 C10"),
    "C03": dict(
        text="Lean 4 theorems: validate_chunk_coords (model of the repaired test, Python % on arbitrary "
             "integers) accepts a sextuple IFF it is a cell of the chunk grid of a listed chunk size "
             "(grid_test_is_exact), with kernel-checked counterexamples of the pre-fix test; raw "
             "decode∘encode = id for every item size; for EVERY history of writes through a map-like store "
             "and a lossless codec a read returns the last accepted write to that position and off-grid "
             "writes are rejected (refinement of the I/O layer to key ⇀ array); compressed_segmentation: the "
             "package's own decoder inverts its encoder for every shape, block size and array (so both "
             "lossless codecs meet the history theorem's hypothesis). JPEG shape is C10. Tie: boundary-grid fuzz of all six coordinates vs the "
             "model and the grid predicate; write/read histories over the real PrecomputedIO with "
             "FileAccessor (4 layouts), ShardedFileAccessor and a dict accessor, all encodings/types, "
             "big-endian / strided / narrower input arrays, same and fresh handles.",
        note="Trusted: Lean kernel; standard axioms; hand-written model (tie = sampling + per-axis "
             "exhaustive boundary sets); store map law = C12/C05; JPEG error bound exploration-level only.",
        technique="Lean 4 proof (iff characterisation, history refinement) + differential correspondence",
        ref="DESIGN.md §6 C03"),
    "C11": dict(
        text="Lean 4 theorems on an exact-value model of get_chunk_dtype_transformer (dyadic rationals, "
             "NumPy promotion / safe-cast tables, rint half-even, clip with bounds converted to the work "
             "type, range-checked final cast): integer->integer for ALL type pairs and values is exact or "
             "saturated; float->8/16/32-bit integers is the nearest integer (ties to even) saturating, for "
             "every finite value; float->uint64 likewise below 2^64; the result is never a wrap. At >= 2^64 "
             "the statement is FALSE of the code: kernel-checked counterexample theorem + known finding F6 "
             "(test-pinned). Tie: all 50 type pairs x boundary/random values x {preserve, reuse} x "
             "{contiguous, strided, read-only} against the model, an independent exact oracle (incl. "
             "nearest-float32) and NumPy's own promotion/can_cast tables; input bytes hashed.",
        note="Trusted: Lean kernel; standard axioms; hand-written model (tie = boundary sampling); NumPy's "
             "float casts assumed correctly rounded (checked against nearestF32); NaN/inf outside the property.",
        technique="Lean 4 proof (case analysis over type tables + linear integer arithmetic) + "
                  "differential correspondence",
        ref="DESIGN.md §6 C11"),
    "C07": dict(
        text="Lean 4 theorems (arrays as functions, all extents): the three sequential pad-and-average stages "
             "of AveragingDownscaler compute at every output voxel the block sum of the input completed with "
             "the edge value or any outside value (odd and size-1 axes included), hence the exact mean; for "
             "u8/u16/u32 the stored value is that mean rounded half to even and saturated, never a wrap, and "
             "lies between min and max of the contributing values; the majority result is a label of the block "
             "with maximal count, the smallest on ties (proof over the arg-max fold on the sorted distinct "
             "labels); striding returns the block's first voxel. uint64 >= 2^53 / float32 go through float64 "
             "(known finding F6 for uint64, tolerance for float32). Tie: real downscalers vs exact oracle "
             "and the Lean model on odd/even/size-1 shapes, all factor triples, tie-heavy label patterns, "
             "outside values incl. 0.",
        note="Trusted: Lean kernel; standard axioms; hand-written model (tie = sampling, thorough adds all "
             "shapes <= 4^3 x all factors); float64 exactness on values < 2^50 assumed (checked by the tie).",
        technique="Lean 4 proof (sum/padding commutation, fold invariant on sorted list, rounding bounds) "
                  "+ differential correspondence",
        ref="DESIGN.md §6 C07"),
    "C06": dict(
        text="Lean 4 theorems on the per-axis copy schedule of compute_dyadic_downscaling (half_chunk, "
             "chunk_fetch_factor, parts A/B, the shape test added by the fix): with compatible chunk sizes "
             "(f | old chunk, new chunk = half or twice half) for ALL sizes, chunk sizes and chunk positions "
             "every copy succeeds and every voxel of the new level is computed from exactly the old voxels the "
             "global downscale uses (axis_correct), and that source block lies in one old chunk; NEVER SILENTLY "
             "WRONG: for ALL sizes and ALL chunk sizes, compatible or not, if the schedule of every new chunk "
             "completes without raising then every new voxel comes from exactly the right old voxels, and with "
             "several new chunks on an axis success is possible only for compatible sizes; kernel-checked "
             "witnesses that the half=1/fetch-factor-4 case (repaired defect F24) and chunk size 1 on a halved "
             "axis are refused with an error. Tie/oracle: every transition run in isolation on the real code "
             "with poisoned np.empty (two patterns), the new level read back and compared with the real "
             "downscaler applied to the whole previous level; ok/error outcome compared with the Lean plan, "
             "incl. arbitrary non-power-of-two hand-made chunk sizes.",
        note="Trusted: Lean kernel; standard axioms (Mathlib ring for two product identities); hand-written "
             "per-axis model (tie = sampling); the three axes are independent in the code (separate slices), "
             "which is part of the model, not a theorem; block-locality of the downscalers from C07.",
        technique="Lean 4 proof (linear extent arithmetic per axis) + differential correspondence with "
                  "whole-array oracle",
        ref="DESIGN.md §6 C06"),
    "C08": dict(
        text="Lean 4 theorems on the integer part of fill_scales_for_dyadic_pyramid (sizes, factors, anisotropy "
             "factors with the repaired reduction loop, chunk exponents, scale count with the repaired delay "
             "sign): consecutive scales differ by factor 1 (delayed axis) or 2 with new = ceil(old/2); chunk "
             "exponents add up to 3e±1 for EVERY delay triple, level and target exponent (incl. target 1 and "
             "extreme anisotropy); the last scale fits in two target-size chunks per axis for all sizes; PARTIAL "
             "for 'compatible chunk sizes': with at most two distinct axis delays, target exponent >= 1 and no "
             "anisotropy reduction, every pair of consecutive levels satisfies the per-axis relation the "
             "pyramid computation needs (chunk_sizes_compatible_partial); the missing part is known finding "
             "F21, kernel-checked witness three_delays_counterexample. Float "
             "stage (delays, keys, units) observed: delays compared with exact-rational nearest integers. "
             "Oracle on the real info: distinct keys, size/resolution relation, power-of-two chunks, isotropy "
             "bound to the finest axis, acceptance by the encoders (incl. through generate-scales-info main() "
             "and a re-parsed file) and chunk-size compatibility with the pyramid step; the latter is FALSE "
             "for three distinct axis delays (known finding F21) and for target chunk size 1 (known finding F28).",
        note="Trusted: Lean kernel; standard axioms; hand-written model (tie = sampling); libm log2 / float "
             "products observed, not modelled; key uniqueness is an oracle check, not a theorem.",
        technique="Lean 4 proof (integer arithmetic, termination measure for the reduction loop) + "
                  "differential correspondence + structural oracle",
        ref="DESIGN.md §6 C08"),
    "C01": dict(
        text="Lean 4 theorems: for all sizes and all (non-cubic) chunk sizes every voxel position lies in exactly "
             "one cell of the loop of volume_to_precomputed (nothing missing, nothing twice), every written "
             "cell is on the chunk grid, and the documented value mapping (header slope/intercept, then "
             "[input_min,input_max] onto the target range) equals the rewritten slope/intercept the code "
             "hands to nibabel (over Q); value conversion = C11, chunk stores = C03/C12/C05. End-to-end tie: "
             "NIfTI files (3-D, 4-D, RGB; ten on-disk types; patched header scaling) converted by the real "
             "volume_file_to_precomputed under deep/flat x gzip/plain and sharded layouts, full load and "
             "--mmap, --ignore-scaling, --input-min/max, raw and compressed_segmentation; every chunk read back "
             "through a fresh accessor and each voxel compared with the exact mapping; write order compared "
             "with the Lean loop. Found and repaired F29/F30/F31; values >= 2^64 into uint64 = known finding F6.",
        note="Trusted: Lean kernel; standard axioms (Mathlib field_simp/ring over Q); nibabel's reading and "
             "float scaling (tolerance 2^-18 relative for non-exact cases, counted in the evidence); tie = sampling.",
        technique="Lean 4 proof (partition of the index space, field identity) + end-to-end differential "
                  "correspondence",
        ref="DESIGN.md §6 C01"),
    "C12": dict(
        text="Lean 4 theorems on a model of FileAccessor over an abstract file system (component lists, gzip "
             "as an abstract tag, the code's probing order plain/.gz and flat/sub-directory with last match "
             "winning, directory conflicts): a fetch returns exactly the bytes of the latest store and the "
             "store touches no other path; storing without permission to overwrite an existing target fails "
             "with a data-access error; absolute names and names with a '..' component are refused by all "
             "three file operations with a result independent of the file system; chunks land at the "
             "documented path (MIME exception table regenerated from the source) and a chunk written under "
             "any configuration is read under any other (four pairwise distinct candidate paths). Tie: "
             "operation histories on a real directory compared op by op (values, exception classes) and by "
             "final tree with the model; every read repeated through the three other configurations.",
        note="Trusted: Lean kernel; standard axioms; hand-written model (tie = random histories with forced "
             "name collisions); gzip round trip and rejection of non-gzip data (external); hypothesis: a name "
             "is stored with one MIME type and no stored name is another + '.gz' (excluded point executed and "
             "counted in the evidence).",
        technique="Lean 4 proof (map refinement with lookup-order lemmas) + history-based differential "
                  "correspondence",
        ref="DESIGN.md §6 C12"),
    "C16": dict(
        text="Lean 4 theorem (Mathlib, any field): for EVERY affine (rotations, shears, flips, even singular), "
             "translation and non-zero voxel sizes the transform the code builds (columns divided by the voxel "
             "size, translation 10^6 t - R(res/2)) maps the corner-based coordinate of every voxel centre to the "
             "position the file's affine assigns to it, in nanometres; the announced data type is the input type "
             "when Neuroglancer supports it, otherwise float32 together with exit status 4. Tie: NIfTI files "
             "with rotated/sheared/flipped/anisotropic affines, 3-D/4-D/RGB, scaled headers, run through the "
             "real volume_file_to_info; the 12 transform entries compared with the Lean rational model, the "
             "voxel-centre identity, size, channels, resolution, sharding option, representability of the "
             "delivered values and the URL form parse-back checked on the written files.",
        note="Trusted: Lean kernel; standard axioms; voxel sizes (column norms) observed from nibabel, not "
             "modelled; float64 evaluation vs exact rationals within 1e-9 relative; URL form exploration-level.",
        technique="Lean 4 proof (field identity via field_simp/ring) + differential correspondence on "
                  "rational arithmetic",
        ref="DESIGN.md §6 C16"),
    "C17": dict(
        text="Lean 4 theorems: the precomputed mesh file is [uint32 vertex count][float32 coordinates][uint32 "
             "triangles] and read(save m) = m for every mesh whose indices reference existing vertices; for "
             "EVERY byte string the reader returns a mesh with all indices in range or the mesh-data error, "
             "nothing else; under an affine transform the signed volume of a triangle against any reference "
             "direction is multiplied by det R (Mathlib det_mul), swapping two vertices negates it, hence "
             "reversing the winding exactly when det R < 0 preserves every triangle's orientation for all "
             "non-singular R over any ordered field. Tie/oracle: real writers/readers on meshes with "
             "C/Fortran/transposed float32/float64 vertices, all truncations and targeted corruptions, "
             "integer affine maps with both determinant signs, GIfTI -> precomputed conversion (mm -> nm) read "
             "back through the accessor, VTK export parsed by a recogniser of Neuroglancer's subset grammar, "
             "fragment-link files for labels up to 2^64-1.",
        note="Trusted: Lean kernel; standard axioms (Mathlib determinant/order lemmas); hand-written byte model "
             "(tie = sampling + exhaustive truncation); json.dumps/csv parsing of the link tool are externals "
             "(fragment names are opaque tokens in the model); "
             "float formatting '%.9g' observed.",
        technique="Lean 4 proof (byte layout round trip, totality, determinant identity) + differential "
                  "correspondence and grammar recogniser",
        ref="DESIGN.md §6 C17"),
    "C13": dict(
        text="Lean 4 theorems over a model of the convert_chunks loop (reader and writer are the dataset I/O "
             "layer of C03 over map-like stores, codecs may depend on the chunk): the loop visits EXACTLY the "
             "cells of the destination's chunk grid, for every scale size and list of chunk sizes (both "
             "directions, via the grid-test theorem of C03); MAIN: for every destination info with distinct "
             "keys, every readable source, every value transform and every codec lossless on the transformed "
             "arrays, the command succeeds, every visited destination chunk decodes to the transformed source "
             "chunk and nothing else in the store changes; success implies every planned chunk was read and "
             "written (no silent skip); a destination cell off the source's grid aborts the command; a source "
             "scale listing the destination's chunk size accepts every visited key; raw codec lossless for "
             "every item size; integer widening is the identity on every representable value (from C11). "
             "compressed_segmentation losslessness is C02's theorem. Tie/oracle: every pairing of source kind "
             "(files, shards, HTTP plain/sharded over a loopback server) x (--copy-info / pre-made info) each "
             "run, then random pairings, in-process (write order compared with the Lean plan) and as a "
             "subprocess of the console module; destination decoded by a fresh accessor and by specification "
             "readers; source tree hashed before/after.",
        note="Trusted: Lean kernel; standard axioms; hand-written loop model (tie = recorded write order vs "
             "plan on every in-process case); stores assumed map-like (C12/C05 theorems); in-place conversion "
             "(source = destination) not exercised; jpeg outside the property.",
        technique="Lean 4 proof (loop invariant over the planned key list + grid exactness) + differential "
                  "correspondence on whole-dataset conversions",
        ref="DESIGN.md §6 C13"),
    "C14": dict(
        text="Lean 4 theorems over a model of the HTTP readers' decision logic (the requests library and the "
             "server are a parameter `Reply`): every 4xx/5xx status and every transport failure is a "
             "data-access error and a 2xx body is returned unchanged (plain reader); 404 on the existence probe "
             "means absent, every other error status an error; the sharded reader hands on EXACTLY the "
             "requested number of bytes of a non-error reply or raises; over a server honouring Range (RFC "
             "7233 model `serveRange`) HTTP read_bytes equals the local read_bytes for every offset and length "
             "whose bytes exist (zero length included - repaired defect F32) and is an error otherwise; legacy "
             ".index/.data pairs read the same bytes as the single .shard file for every request not "
             "straddling the header; dispatch picks the sharded reader iff the info declares sharding; the "
             "chunk URL pattern name is regenerated from the source. Index walk and look-up are the theorems "
             "of C04/C05 (shared code). Tie/oracle: a loopback static server emulating the documented "
             "configuration with programmable persistent faults; plain datasets in all 4 layouts and "
             "two-scale sharded datasets (raw/gzip, .shard and legacy pairs) fetched through "
             "get_accessor_for_url and compared byte for byte with the local accessors and the files; "
             "read_bytes compared with the model on inside/straddling/past-end ranges.",
        note="Trusted: Lean kernel; standard axioms; hand-written decision model (tie = sampling over a real "
             "socket); requests/urllib3 and the emulated server (RFC 7233 range semantics) are externals; "
             "redirects, proxies and TLS are not exercised.",
        technique="Lean 4 proof (decision logic over abstract replies, list slicing) + differential "
                  "correspondence over a loopback HTTP server with fault injection",
        ref="DESIGN.md §6 C14"),
    "C15": dict(
        text="Lean 4 theorems over the orientation tables REGENERATED from the source on every run: the list "
             "of accepted codes has 48 distinct entries and each designates a signed permutation of the axes "
             "(kernel decide); reversing an axis is an involution on its index range; the slices of every "
             "group, in loading order, occupy exactly the consecutive output positions of that group for ALL "
             "slice counts and chunk depths, also for a reversed slice axis (the repaired empty-last-group "
             "defect F16). Tie/oracle: all 48 codes on real PNG/TIFF stacks (grey/RGB, 1-2 directories, slice "
             "counts below/at/above multiples of the chunk depth, non-cubic chunks, all layouts) converted by "
             "convert_slices_in_directory, every voxel read back and compared with the pixel the code "
             "designates, and with the Lean index map.",
        note="Trusted: Lean kernel; standard axioms; hand-written index model (tie = all 48 codes per run, "
             "random geometry); scikit-image decoding and sorted() file order (externals).",
        technique="Lean 4 proof (decide over regenerated tables + index arithmetic) + differential "
                  "correspondence over all 48 codes",
        ref="DESIGN.md §6 C15"),
}

ALL = ["C%02d" % i for i in range(1, 21)]


# additions of the third session (appended to the claim text of the property)
ADDENDA = {
    "C01": " Also: an executable model of the loop WITH chunk contents (Volume.convert: slicing + moveaxis to the C-ordered "
           "(C,Z,Y,X) chunk) and the theorem that reading the stored chunks back returns the input value of the same "
           "position for every voxel and channel (every_voxel_reads_back), tied to every recorded write_chunk call on "
           "identity volumes; the slope/intercept rewriting as an executable model over exact rationals "
           "(value_mapping_of_model), tied to what the code leaves on the nibabel proxy.",
    "C03": " Also: get_encoder as a decision model over acceptance tables regenerated from the source "
           "(encoder_selection_follows_info: a codec exactly for the well-formed requests, the one the scale names), tied "
           "exhaustively over the request space; the grid test is exercised with several scales on ONE handle.",
    "C05": " Also: the disk-backed byte array equals the in-memory one after every history of appends, failing ones "
           "included (disk_buffer_equals_memory_buffer); callers' buffers are reused after every store.",
    "C07": " Also: the selection code get_downscaler(method, info, options) as a decision model (Down.getDownscaler) with the "
           "theorems that `auto` builds what the named method builds WITH THE SAME OPTIONS, that whichever spelling selects "
           "averaging the voxel is the averaging model's with the caller's outside value "
           "(selected_average_uses_the_outside_value), and that exactly the four names are accepted; every differential case "
           "goes through the selection model before the voxel model.",
    "C08": " Also: the per-axis delays are computed INSIDE the model (integer decision of round(log2 q)) with the theorem "
           "that the delay is exactly the level from which the axis is within sqrt(2) of the finest one "
           "(delay_is_the_level_of_near_isotropy); every raw / compressed_segmentation scale of a generated info is served "
           "by get_encoder (generated_scales_served_by_encoders).",
    "C12": " Also: chunk paths are confined like file names (FileStore.chunkRefused; theorem escaping_chunk_keys_refused): a "
           "scale key that makes the chunk name absolute or contains '..' is refused by store_chunk and fetch_chunk; found and "
           "repaired as F38 (FileAccessor) and F39 (sharded accessor).",
    "C13": " Also: the whole loop model (Convert.run) is executed next to the real command, including a removed or "
           "truncated source chunk (the conversion must fail, never return normally).",
    "C15": " Also: the WHOLE chunk loop of slices_to_raw_chunks as an index-level model (stackChunks: slice groups, "
           "negative-step flips, moveaxis, permute/invert_permutation of slicings and coordinates) with the theorems that "
           "every written chunk holds at every position the pixel the code designates and that every voxel lies in exactly "
           "one written chunk, for all accepted codes, sizes and chunk sizes; tied to every recorded write_chunk call.",
    "C16": " Also: the half-voxel statement about the executable row model the driver evaluates (rowG) and soundness of "
           "the driver's rational arithmetic; files that DECLARE micron/metre units must be placed consistently under one "
           "reading of the unit.",
    "C17": " Also: an executable model of affine_transform_mesh (polymorphic, run over the integers) with the theorem "
           "that every triangle keeps its orientation from every reference point under every non-singular transform "
           "(affine_keeps_outward_orientation), tied to the real function; the VTK writer as a token-level model whose "
           "output is accepted by a Lean recogniser of the subset grammar Neuroglancer parses, for every mesh and attribute "
           "list (vtk_export_is_accepted), tied byte for byte to the real writer's text; "
           "link_mesh_fragments as a run over the CSV rows with exclusive file creation (Mesh.links): for pairwise "
           "distinct labels over a directory holding none of their files every row's file lists exactly that row's "
           "fragments and nothing else changes (links_list_exactly_the_given_fragments, file name injective in the "
           "label), a label met again stops the run without overwriting (links_never_overwrite), complete runs do not depend on the "
           "row order, and for EVERY CSV and abort point each file afterwards was there before or lists exactly one of "
           "its label's rows (links_files_come_from_rows); tied to the real "
           "tool by a second run over the same directory with repeated, duplicated and zero-padded labels (mesh-links).",
    "C18": " Also: the sharded writer's disk-backed buffers under failures (Buffers model): after ANY history of appends "
           "failing at open or after any number of bytes the buffer holds exactly the successful payloads and reports that "
           "length; a flush whose n-th deferred append fails loses no buffered chunk; kernel-checked counterexamples for the "
           "code before the repairs F35/F36; sessions that CONTINUE after a reported failure and then close must read back "
           "every chunk whose store returned normally (found F35, F36, F37, all repaired).",
    "C19": " Also: the documented sequence's info, the method each program resolves, the codec get_encoder picks for "
           "every scale and chains of real pyramid levels are compared with Pipeline.stepwiseInfo / stepwiseMethod / "
           "computeScales over the model downscalers.",
}
FORMS = {
    "C02": "the chunk in C order, Fortran order, as a transposed view, as a window of a larger array, big-endian, read-only",
    "C04": "payloads as bytes, bytearray, memoryview and the typed buffer of a uint16 array",
    "C05": "payloads as bytes, bytearray, memoryview and the typed buffer of a uint16 array",
    "C06": "the method named or selected as `auto` through the info's type, with the same options; one downscaler "
           "object reused for later pyramids of other data types, against a fresh reference object",
    "C07": "the method named or selected as `auto` through the info's type, with the same options",
    "C09": "chunk coordinates as Python ints and as NumPy scalars of every integer type that holds them",
    "C10": "the chunk size as a tuple, the JSON info's list, NumPy integers or a NumPy array",
    "C14": "dataset directories with spaces and non-ASCII letters addressed by percent-encoded URLs",
    "C17": "fragment names with spaces, colons and non-ASCII letters",
    "C20": "counts as Python ints and as floating-point numbers (float, numpy.float64)",
}
for _p, _t in FORMS.items():
    ADDENDA[_p] = ADDENDA.get(_p, "") + (" The correspondence run hands the real code the same logical input in the forms callers "
                                          "produce (" + _t + ").")
TRANSLATED = {"C01": "loop bounds", "C03": "the grid-test condition", "C05": "next_cmc", "C06": "half_chunk / chunk_fetch_factor",
              "C08": "the per-level factor, size and chunk-exponent arithmetic",
              "C09": "the uint64 masks and shard / minishard numbers", "C13": "the chunk boxes of the conversion loop",
              "C15": "the slice-group windows (in order and reversed)",
              "C20": "ceil_div and the per-axis chunk count"}
LINKAGE_NOTE = (" Linkage audit on every run: every model definition a property theorem is stated over is reachable "
                "from the compiled driver's main (so the correspondence run executes it next to the code) or is listed "
                "in lean/linkage.json as specification-side; a gap is reported as a broken tie.")


def main():
    checks = []
    na = []
    for p in ALL:
        if p in CLAIMS and os.path.exists(os.path.join(HERE, "harness", "ngv", "props", p.lower() + ".py")):
            c = CLAIMS[p]
            checks.append({
                "property_id": p,
                "quick_cmd": f"./check {p} --tier quick",
                "thorough_cmd": f"./check {p} --tier thorough",
                "evidence_file": f"evidence/{p}.json",
                "replay_cmd_template": f"./check {p} --replay {{path}}",
                "engine": "ngverif-lean",
                "level_claimed": {"category": "proof", "text": c["text"] + ADDENDA.get(p, ""), "design_ref": c["ref"]},
                "level_note": c["note"] + LINKAGE_NOTE,
                "technique": c["technique"] + (f" + source-to-Lean translation of {TRANSLATED[p]} re-proved equal to the model on every run"
                                                if p in TRANSLATED else ""),
            })
        else:
            na.append({"property_id": p,
                       "reason": "not claimed in this revision: the Lean model/theorems and correspondence "
                                 "check for it are not built yet (the technique applies; see DESIGN.md §6)"})
    manifest = {
        "version": 1,
        "setup_cmd": "./setup.sh",
        "hooks": {
            "guard": "NGSCRIPTS_VERIF",
            "enable": "no source hooks are needed: checks import /repo/src in-process and observe through "
                      "public functions and monkeypatching; the guard variable is reserved and set to 1 by ./check",
            "baseline_off_cmd": "python3 tools/baseline.py",
            "source_commits": [],
            "add_only": True,
        },
        "engines": [{
            "name": "ngverif-lean",
            "path": "lean/",
            "serves_properties": [c["property_id"] for c in checks],
            "kind_free_text": "Lean 4.33 library NgVerif (import-free executable models, proofs, property "
                              "theorems) + compiled line-protocol driver ngdriver + Python harness running the "
                              "real code in-process (harness/ngv)",
        }],
        "checks": checks,
        "not_applicable": na,
        "notes": "All checks: ./check <id> --tier quick|thorough; VERIF_SEED seeds every random choice. "
                 "Known findings: known_findings.json.",
    }
    with open(os.path.join(HERE, "MANIFEST.json"), "w") as f:
        json.dump(manifest, f, indent=1)
    print(f"MANIFEST.json: {len(checks)} checks, {len(na)} not claimed")


if __name__ == "__main__":
    main()
