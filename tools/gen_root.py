#!/usr/bin/env python3
"""Rewrite lean/NgVerif.lean so that `lake build NgVerif` builds every module of the library."""
import os
HERE = os.path.dirname(os.path.dirname(os.path.abspath(__file__)))
root = os.path.join(HERE, "lean", "NgVerif")
mods = []
for d, _, fs in os.walk(root):
    for f in fs:
        if f.endswith(".lean"):
            rel = os.path.relpath(os.path.join(d, f), os.path.join(HERE, "lean"))[:-5]
            mods.append(rel.replace(os.sep, "."))
mods.sort()
with open(os.path.join(HERE, "lean", "NgVerif.lean"), "w") as f:
    f.write("".join(f"import {m}\n" for m in mods))
print(len(mods), "modules")
