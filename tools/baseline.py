#!/usr/bin/env python3
"""Run /repo's pinned test suite (guard off) and compare with /root/.vp/BASELINE.json stable_pass."""
import json, os, subprocess, sys, tempfile, xml.etree.ElementTree as ET
base = json.load(open("/root/.vp/BASELINE.json"))
env = {k: v for k, v in os.environ.items() if k != "NGSCRIPTS_VERIF"}
with tempfile.TemporaryDirectory() as d:
    x = os.path.join(d, "r.xml")
    subprocess.run(["/venv/bin/python", "-m", "pytest", "-ra", "-q", "-p", "no:cacheprovider",
                    "--timeout=900", "--continue-on-collection-errors", "--junitxml=" + x],
                   cwd="/repo", env=env, stdout=subprocess.DEVNULL, stderr=subprocess.DEVNULL)
    passed = set()
    for tc in ET.parse(x).getroot().iter("testcase"):
        if not any(c.tag in ("failure", "error", "skipped") for c in tc):
            passed.add(tc.get("classname") + "::" + tc.get("name"))
missing = [t for t in base["stable_pass"] if t not in passed]
print(f"baseline stable_pass={len(base['stable_pass'])} passed_now={len(passed)} missing={len(missing)}")
for m in missing[:20]:
    print("  MISSING", m)
sys.exit(1 if missing else 0)
