#!/usr/bin/env python3
"""Regenerate the machine-derived tables of DESIGN.md §11 (between the AUTOGEN markers):
theorems per property (from lean/NgVerif/Props), seeded changes and which check caught them
(from seeded/*/meta.json), fixes and known findings (from known_findings.json)."""
import glob
import json
import os
import re

ROOT = os.path.dirname(os.path.dirname(os.path.abspath(__file__)))


def theorems():
    out = ["| Property | Theorems in `lean/NgVerif/Props/Cxx.lean` (all kernel-checked, audited each run) |", "|---|---|"]
    for p in sorted(glob.glob(os.path.join(ROOT, "lean/NgVerif/Props/C*.lean"))):
        src = open(p).read()
        names = re.findall(r"^theorem\s+([A-Za-z0-9_']+)", src, re.M)
        out.append("| %s | %s |" % (os.path.basename(p)[:-5], ", ".join("`%s`" % n for n in names)))
    return "\n".join(out)


def seeded():
    out = ["| Change | What it breaks (first line of the author's note) | Files touched | Caught by `./check` (quick) |",
           "|---|---|---|---|"]
    for d in sorted(glob.glob(os.path.join(ROOT, "seeded/*"))):
        m = json.load(open(os.path.join(d, "meta.json")))
        note = [l for l in m.get("needs_to_manifest", "").splitlines() if l.strip()]
        first = note[0].lstrip("# ").strip() if note else ""
        first = re.sub(r"^m\d\s*[-—–]+\s*", "", first)
        files = sorted(set(re.findall(r"^\+\+\+ b/(\S+)", open(os.path.join(d, "patch.diff")).read(), re.M)))
        files = ", ".join(os.path.basename(f) for f in files)
        res = m.get("check_results", {}).get("quick", {})
        verdict = res.get("verdict", "not run")
        if "-b" in m["id"]:
            verdict = {"silent": "silent, as required (behaviour-preserving rewrite)", "MISSED": "silent, as required (behaviour-preserving rewrite)",
                       "ALARM": "ALARM (no-failing-input-found)", "caught": "ALARM"}.get(verdict, verdict)
        elif verdict == "caught":
            verdict = "yes, failing input" if res.get("with_failing_input") else "yes, no-failing-input-found"
        out.append("| %s | %s | %s | %s |" % (m["id"], first[:150].replace("|", "/"), files, verdict))
    return "\n".join(out)


def findings():
    d = json.load(open(os.path.join(ROOT, "known_findings.json")))
    out = ["| Key | Property | Status | Commit | What failed |", "|---|---|---|---|---|"]
    for e in d["findings"]:
        line = e.get("line", "")
        line = re.sub(r"^(fixed|KNOWN-FINDING): property=\S+\s*(\S+\s)?", "", line) if e["status"] == "fixed" else line
        out.append("| %s | %s | %s | %s | %s |" % (e["key"], e["property"], e["status"], e.get("commit", "—"),
                                                  (e.get("what") or line)[:260].replace("|", "/")))
    return "\n".join(out)


def main():
    p = os.path.join(ROOT, "DESIGN.md")
    s = open(p).read()
    for tag, fn in (("THEOREMS", theorems), ("SEEDED", seeded), ("FINDINGS", findings)):
        a, b = f"<!-- AUTOGEN:{tag} -->", f"<!-- /AUTOGEN:{tag} -->"
        if a in s and b in s:
            s = s[:s.index(a) + len(a)] + "\n" + fn() + "\n" + s[s.index(b):]
    open(p, "w").write(s)
    print("DESIGN.md tables regenerated")


if __name__ == "__main__":
    main()
