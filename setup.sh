#!/bin/sh
# Offline setup: regenerate the constant tables from /repo and build the Lean library + driver.
set -e
cd "$(dirname "$0")"
/venv/bin/python -c "import sys; sys.path.insert(0,'harness'); from ngv import tables, translate; tables.regenerate(); translate.regenerate()"
cd lean
lake build NgVerif ngdriver
