namespace Coords

/-- one axis of `PrecomputedIO.validate_chunk_coords`, unchanged code (Python `%` is `Int.emod`
    for a positive divisor) -/
def axisOld (lo hi cs size : Int) : Bool := lo % cs == 0 && hi == min (lo + cs) size

/-- the axis test with the missing range check added (candidate fix) -/
def axisNew (lo hi cs size : Int) : Bool :=
  0 ≤ lo && lo < size && lo % cs == 0 && hi == min (lo + cs) size

/-- specification: the pair is one cell of the chunk grid of this axis -/
def onGrid (lo hi cs size : Int) : Prop :=
  ∃ i : Int, 0 ≤ i ∧ lo = i * cs ∧ lo < size ∧ hi = min (lo + cs) size

/-- the unchanged test accepts cells before and beyond the volume -/
theorem old_accepts_negative : axisOld (-64) 0 64 100 = true := by decide
theorem old_accepts_beyond : axisOld 128 100 64 100 = true := by decide
theorem not_onGrid_negative : ¬ onGrid (-64) 0 64 100 := by
  rintro ⟨i, h0, h1, _, _⟩; omega
theorem not_onGrid_beyond : ¬ onGrid 128 100 64 100 := by
  rintro ⟨i, _, _, h2, _⟩; omega

theorem axisNew_iff (lo hi cs size : Int) (hc : 0 < cs) :
    axisNew lo hi cs size = true ↔ onGrid lo hi cs size := by
  simp only [axisNew, Bool.and_eq_true, decide_eq_true_eq, beq_iff_eq]
  constructor
  · rintro ⟨⟨⟨h0, h1⟩, h2⟩, h3⟩
    refine ⟨lo / cs, Int.ediv_nonneg h0 (Int.le_of_lt hc), ?_, h1, h3⟩
    have := Int.emod_add_mul_ediv lo cs
    rw [h2] at this
    rw [Int.mul_comm]; omega
  · rintro ⟨i, h0, h1, h2, h3⟩
    refine ⟨⟨⟨?_, h2⟩, ?_⟩, h3⟩
    · rw [h1]; exact Int.mul_nonneg h0 (Int.le_of_lt hc)
    · rw [h1]; exact Int.mul_emod_left i cs

end Coords
