namespace Layout

/-- what the encoder computes for one block before placing it in the file (32-bit words) -/
structure Blk where
  lut : List Nat
  bits : Nat
  vals : List Nat

structure Acc where
  body : List Nat
  luts : List (List Nat × Nat)
  hdrs : List (Nat × Nat)

def findLut : List (List Nat × Nat) → List Nat → Option Nat
  | [], _ => none
  | (l, o) :: t, k => if l = k then some o else findLut t k

/-- mirrors the loop body of `_encode_channel`: `H` = header table length in words -/
def stepBlk (H : Nat) (a : Acc) (b : Blk) : Acc :=
  match findLut a.luts b.lut with
  | some o =>
    { body := a.body ++ b.vals, luts := a.luts,
      hdrs := a.hdrs ++ [(o + b.bits * 2^24, H + a.body.length)] }
  | none =>
    { body := (a.body ++ b.lut) ++ b.vals, luts := (b.lut, H + a.body.length) :: a.luts,
      hdrs := a.hdrs ++ [(H + a.body.length + b.bits * 2^24, H + (a.body ++ b.lut).length)] }

def run (H : Nat) (blks : List Blk) (a : Acc) : Acc := blks.foldl (stepBlk H) a

/-- `l` can be read from `body` at word offset `o` (relative to the channel start) -/
def ReadsAt (H : Nat) (body : List Nat) (o : Nat) (l : List Nat) : Prop :=
  H ≤ o ∧ ∀ i, i < l.length → body[o - H + i]? = l[i]?

theorem ReadsAt.mono {H body o l} (more : List Nat) (h : ReadsAt H body o l) :
    ReadsAt H (body ++ more) o l := by
  refine ⟨h.1, fun i hi => ?_⟩
  have h2 := h.2 i hi
  have hlt : o - H + i < body.length := by
    apply Nat.lt_of_not_le
    intro hge
    have hn : body[o - H + i]? = none := List.getElem?_eq_none_iff.mpr hge
    rw [h2] at hn
    have : l[i]? ≠ none := by
      rw [List.getElem?_eq_getElem hi]; simp
    exact this hn
  rw [List.getElem?_append_left hlt, h2]

theorem readsAt_end (H : Nat) (body l : List Nat) : ReadsAt H (body ++ l) (H + body.length) l := by
  refine ⟨by omega, fun i hi => ?_⟩
  have : H + body.length - H + i = body.length + i := by omega
  rw [this, List.getElem?_append_right (by omega)]
  simp

/-- block `b` is correctly described by header `h` in `body` -/
def HdrOk (H : Nat) (body : List Nat) (h : Nat × Nat) (b : Blk) : Prop :=
  ∃ o, h.1 = o + b.bits * 2^24 ∧ ReadsAt H body o b.lut ∧ ReadsAt H body h.2 b.vals

structure Good (H : Nat) (a : Acc) (done : List Blk) : Prop where
  luts : ∀ l o, (l, o) ∈ a.luts → ReadsAt H a.body o l
  len : a.hdrs.length = done.length
  hdrs : ∀ t (ht : t < done.length) (ht' : t < a.hdrs.length), HdrOk H a.body a.hdrs[t] done[t]

theorem findLut_mem {luts : List (List Nat × Nat)} {k : List Nat} {o : Nat}
    (h : findLut luts k = some o) : (k, o) ∈ luts := by
  induction luts with
  | nil => simp [findLut] at h
  | cons hd t ih =>
    obtain ⟨l, o'⟩ := hd
    by_cases e : l = k
    · simp [findLut, e] at h; subst h; subst e; simp
    · simp [findLut, e] at h; exact List.mem_cons_of_mem _ (ih h)

theorem good_step (H : Nat) (a : Acc) (done : List Blk) (b : Blk) (g : Good H a done) :
    Good H (stepBlk H a b) (done ++ [b]) := by
  unfold stepBlk
  cases hf : findLut a.luts b.lut with
  | some o =>
    have hmem := findLut_mem hf
    have hro := g.luts _ _ hmem
    constructor
    · intro l o' hm
      exact (g.luts l o' hm).mono _
    · simp [g.len]
    · intro t ht ht'
      simp only [List.length_append, List.length_singleton] at ht
      by_cases e : t < done.length
      · have e' : t < a.hdrs.length := by rw [g.len]; exact e
        rw [List.getElem_append_left e', List.getElem_append_left e]
        obtain ⟨o2, h1, h2, h3⟩ := g.hdrs t e e'
        exact ⟨o2, h1, h2.mono _, h3.mono _⟩
      · have e2 : t = done.length := by omega
        subst e2
        have e3 : done.length = a.hdrs.length := g.len.symm
        simp only [e3, List.getElem_append_right (Nat.le_refl _), Nat.sub_self, List.getElem_cons_zero]
        have : (done ++ [b])[a.hdrs.length]'(by simp [e3]) = b := by
          simp [← e3]
        rw [this]
        exact ⟨o, rfl, hro.mono _, readsAt_end H a.body b.vals⟩
  | none =>
    constructor
    · intro l o' hm
      rcases List.mem_cons.mp hm with hm | hm
      · cases hm
        exact (readsAt_end H a.body b.lut).mono _
      · exact ((g.luts l o' hm).mono b.lut).mono _
    · simp [g.len]
    · intro t ht ht'
      simp only [List.length_append, List.length_singleton] at ht
      by_cases e : t < done.length
      · have e' : t < a.hdrs.length := by rw [g.len]; exact e
        rw [List.getElem_append_left e', List.getElem_append_left e]
        obtain ⟨o2, h1, h2, h3⟩ := g.hdrs t e e'
        exact ⟨o2, h1, (h2.mono _).mono _, (h3.mono _).mono _⟩
      · have e2 : t = done.length := by omega
        subst e2
        have e3 : done.length = a.hdrs.length := g.len.symm
        simp only [e3, List.getElem_append_right (Nat.le_refl _), Nat.sub_self, List.getElem_cons_zero]
        have : (done ++ [b])[a.hdrs.length]'(by simp [e3]) = b := by
          simp [← e3]
        rw [this]
        exact ⟨H + a.body.length, rfl, (readsAt_end H a.body b.lut).mono _,
               readsAt_end H (a.body ++ b.lut) b.vals⟩

theorem good_run (H : Nat) : ∀ (blks : List Blk) (a : Acc) (done : List Blk),
    Good H a done → Good H (run H blks a) (done ++ blks)
  | [], a, done, g => by simpa [run] using g
  | b :: bs, a, done, g => by
    have := good_run H bs (stepBlk H a b) (done ++ [b]) (good_step H a done b g)
    simpa [run, List.append_assoc] using this

end Layout
