namespace Proto

/-- little-endian digits in base `B` -/
def ofDigits (B : Nat) : List Nat → Nat
  | [] => 0
  | d :: ds => d + B * ofDigits B ds

theorem ofDigits_digit (B : Nat) (hB : 0 < B) :
    ∀ (ds : List Nat) (t : Nat), (∀ d ∈ ds, d < B) → t < ds.length →
      ofDigits B ds / B ^ t % B = ds[t]!
  | [], t, _, ht => by simp at ht
  | d :: ds, 0, h, _ => by
      have hd : d < B := h d (by simp)
      simp [ofDigits, Nat.add_mul_mod_self_left, Nat.mod_eq_of_lt hd]
  | d :: ds, t+1, h, ht => by
      have hd : d < B := h d (by simp)
      have ih := ofDigits_digit B hB ds t (fun x hx => h x (by simp [hx])) (by simpa using ht)
      have : (d + B * ofDigits B ds) / B ^ (t+1) = ofDigits B ds / B ^ t := by
        rw [Nat.pow_succ, Nat.mul_comm (B^t) B, ← Nat.div_div_eq_div_mul]
        congr 1
        rw [Nat.add_mul_div_left _ _ hB, Nat.div_eq_of_lt hd, Nat.zero_add]
      simp only [ofDigits, this, ih]
      simp

end Proto
