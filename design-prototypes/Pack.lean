import Digits  -- (ofDigits, ofDigits_digit)
namespace Pack
open Proto

/-- `_pack_encoded_values`: `vp = 32 / bits` table indices per little-endian 32-bit word -/
def packWords (bits : Nat) (ix : List Nat) : List Nat :=
  let vp := 32 / bits
  (List.range ((ix.length + vp - 1) / vp)).map fun j =>
    ofDigits (2 ^ bits) ((ix.drop (j * vp)).take vp)

/-- what the format specification says a reader does for voxel `i` of the block -/
def specRead (bits : Nat) (words : List Nat) (i : Nat) : Nat :=
  words[(i * bits) / 32]! / 2 ^ ((i * bits) % 32) % 2 ^ bits

theorem getElem!_drop_take (l : List Nat) (a n r : Nat) (hr : r < n) (h : a + r < l.length) :
    ((l.drop a).take n)[r]! = l[a + r]! := by
  have h1 : r < ((l.drop a).take n).length := by
    simp only [List.length_take, List.length_drop]; omega
  rw [getElem!_pos ((l.drop a).take n) r h1, getElem!_pos l (a + r) h]
  simp [List.getElem_take, List.getElem_drop]

theorem pack_read_vp (bits vp : Nat) (hvp : vp * bits = 32) (hb : 0 < bits) (ix : List Nat)
    (hix : ∀ d ∈ ix, d < 2 ^ bits) (i : Nat) (hi : i < ix.length)
    (hdiv : (i * bits) / 32 = i / vp) (hmod : (i * bits) % 32 = (i % vp) * bits)
    (h32 : 32 / bits = vp) :
    specRead bits (packWords bits ix) i = ix[i]! := by
  have hvp0 : 0 < vp := by
    rcases Nat.eq_zero_or_pos vp with h | h
    · rw [h] at hvp; simp at hvp
    · exact h
  unfold specRead packWords
  simp only [h32, hdiv, hmod]
  have hq : i / vp < (ix.length + vp - 1) / vp := by
    apply (Nat.div_lt_iff_lt_mul hvp0).mpr
    have h1 : vp * ((ix.length + vp - 1) / vp) + (ix.length + vp - 1) % vp = ix.length + vp - 1 :=
      Nat.div_add_mod _ _
    have h2 := Nat.mod_lt (ix.length + vp - 1) hvp0
    rw [Nat.mul_comm]; omega
  have hq' : i / vp < ((List.range ((ix.length + vp - 1) / vp)).map fun j =>
      ofDigits (2 ^ bits) ((ix.drop (j * vp)).take vp)).length := by simpa using hq
  rw [getElem!_pos _ (i / vp) hq']
  simp only [List.getElem_map, List.getElem_range]
  rw [Nat.mul_comm (i % vp) bits, Nat.pow_mul]
  have hlen : i % vp < ((ix.drop (i / vp * vp)).take vp).length := by
    simp only [List.length_take, List.length_drop]
    have h1 := Nat.div_add_mod i vp
    have h2 := Nat.mod_lt i hvp0
    have h3 : i / vp * vp = vp * (i / vp) := Nat.mul_comm _ _
    omega
  rw [ofDigits_digit (2 ^ bits) (Nat.two_pow_pos bits) _ (i % vp) ?_ hlen]
  · have h1 := Nat.div_add_mod i vp
    have h3 : i / vp * vp = vp * (i / vp) := Nat.mul_comm _ _
    rw [getElem!_drop_take ix (i / vp * vp) vp (i % vp) (Nat.mod_lt i hvp0) (by omega)]
    congr 1; omega
  · intro d hd
    exact hix d (List.mem_of_mem_drop (List.mem_of_mem_take hd))

/-- the six non-zero bit widths of the format -/
theorem pack_read (bits : Nat) (hb : bits = 1 ∨ bits = 2 ∨ bits = 4 ∨ bits = 8 ∨ bits = 16 ∨ bits = 32)
    (ix : List Nat) (hix : ∀ d ∈ ix, d < 2 ^ bits) (i : Nat) (hi : i < ix.length) :
    specRead bits (packWords bits ix) i = ix[i]! := by
  rcases hb with rfl | rfl | rfl | rfl | rfl | rfl
  · exact pack_read_vp 1 32 rfl (by decide) ix hix i hi (by omega) (by omega) rfl
  · exact pack_read_vp 2 16 rfl (by decide) ix hix i hi (by omega) (by omega) rfl
  · exact pack_read_vp 4 8 rfl (by decide) ix hix i hi (by omega) (by omega) rfl
  · exact pack_read_vp 8 4 rfl (by decide) ix hix i hi (by omega) (by omega) rfl
  · exact pack_read_vp 16 2 rfl (by decide) ix hix i hi (by omega) (by omega) rfl
  · exact pack_read_vp 32 1 rfl (by decide) ix hix i hi (by omega) (by omega) rfl

end Pack
