namespace PyramidAxis

/-! One axis of `compute_dyadic_downscaling`.
`os` old size, `f` downscaling factor (1 or 2), `ns = ⌈os/f⌉` new size, `oc = half·f` old chunk
size, `nc` new chunk size, `lo` start of a new chunk (`lo < ns`), `len = min nc (ns-lo)` its extent.
Part A copies the downscaled old chunk starting at old coordinate `f·lo` into `[0, half)`,
part B the one starting at `f·(lo+half)` into `[half, len)`.  `dsLen` is the extent of a downscaled
old chunk starting at old coordinate `a`. -/

def dsLen (f oc os a : Nat) : Nat := (min oc (os - a) + f - 1) / f

/-- compatible case, factor 2: extents of source and destination agree for both parts and the
    second source chunk exists, so NumPy neither raises nor broadcasts -/
theorem compat_f2 (os half nc lo : Nat) (hh : 1 ≤ half) (hnc : nc = half ∨ nc = 2 * half)
    (hlo : lo < (os + 1) / 2) :
    let ns := (os + 1) / 2
    let len := min nc (ns - lo)
    dsLen 2 (2 * half) os (2 * lo) = min half len ∧
    (half < len → 2 * (lo + half) < os ∧ dsLen 2 (2 * half) os (2 * (lo + half)) = len - half) := by
  simp only [dsLen]
  rcases hnc with h | h <;> subst h <;> omega

/-- compatible case, factor 1 -/
theorem compat_f1 (os half nc lo : Nat) (hh : 1 ≤ half) (hnc : nc = half ∨ nc = 2 * half)
    (hlo : lo < os) :
    let len := min nc (os - lo)
    dsLen 1 half os lo = min half len ∧
    (half < len → lo + half < os ∧ dsLen 1 half os (lo + half) = len - half) := by
  simp only [dsLen]
  rcases hnc with h | h <;> subst h <;> omega

/-- the escape found by hand (F24): `half = 1`, `nc = 4`, factor 2, old size ≥ 8:
    part B has destination extent 3 but source extent 1 — NumPy broadcasts instead of raising -/
theorem broadcast_escape :
    let os := 64; let half := 1; let nc := 4; let lo := 0
    let ns := (os + 1) / 2
    let len := min nc (ns - lo)
    half < len ∧ len - half = 3 ∧ dsLen 2 (2 * half) os (2 * (lo + half)) = 1 := by
  decide

/-- with `half ≥ 2` a fetch factor ≥ 4 can never broadcast: the source extent of part B is
    `min half rest` and is 1 only when the destination extent is 1 as well -/
theorem no_broadcast_half_ge2 (os half nc lo : Nat) (hh : 2 ≤ half) (hnc : half ≤ nc)
    (hlo : lo < (os + 1) / 2) :
    let ns := (os + 1) / 2
    let len := min nc (ns - lo)
    half < len → dsLen 2 (2 * half) os (2 * (lo + half)) = 1 → len - half = 1 := by
  simp only [dsLen]
  omega

end PyramidAxis
