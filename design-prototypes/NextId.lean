import MiniShard
namespace NextId

/-- `MiniShard.next_cmc` in Nat arithmetic (valid while `p+s+m ≤ 64` and all ids `< 2^64`):
    `n`-th identifier of the minishard whose fixed bits are `masked` -/
def nextId (m s p masked n : Nat) : Nat :=
  ((n >>> p) <<< (p + s + m)) + masked + (n &&& (2 ^ p - 1))

theorem nextId_eq (m s p masked n : Nat) :
    nextId m s p masked n = n / 2 ^ p * 2 ^ (p + s + m) + masked + n % 2 ^ p := by
  simp [nextId, Nat.shiftRight_eq_div_pow, Nat.shiftLeft_eq, Nat.and_two_pow_sub_one_eq_mod]

/-- the enumeration is strictly increasing — the only fact about `next_cmc` that the
    reorder-buffer proof (`MS.order_independent`) needs -/
theorem nextId_strictMono (m s p masked : Nat) (a b : Nat) (h : a < b) :
    nextId m s p masked a < nextId m s p masked b := by
  rw [nextId_eq, nextId_eq]
  have hA : 0 < 2 ^ p := Nat.two_pow_pos p
  have hAB : 2 ^ p ≤ 2 ^ (p + s + m) := Nat.pow_le_pow_right (by decide) (by omega)
  have ra := Nat.mod_lt a hA
  have rb := Nat.mod_lt b hA
  have da := Nat.div_add_mod a (2 ^ p)
  have db := Nat.div_add_mod b (2 ^ p)
  have hq : a / 2 ^ p ≤ b / 2 ^ p := Nat.div_le_div_right (Nat.le_of_lt h)
  rcases Nat.lt_or_eq_of_le hq with hlt | heq
  · have : (a / 2 ^ p + 1) * 2 ^ (p + s + m) ≤ b / 2 ^ p * 2 ^ (p + s + m) :=
      Nat.mul_le_mul_right _ hlt
    rw [Nat.add_mul, Nat.one_mul] at this
    omega
  · rw [heq] at da ⊢
    have : a % 2 ^ p < b % 2 ^ p := by omega
    omega


/-- C05 for the code's own enumeration: instantiate the abstract theorem -/
theorem order_independent (m s p masked : Nat) (ops1 ops2 : List (Nat × MS.Payload)) (R fuel : Nat)
    (h1 : MS.Ok (nextId m s p masked) MS.empty ops1) (h2 : MS.Ok (nextId m s p masked) MS.empty ops2)
    (hS : MS.mapOf MS.empty ops1 = MS.mapOf MS.empty ops2)
    (hR : ∀ j, (MS.mapOf MS.empty ops1 j).isSome → ∃ r, r < R ∧ nextId m s p masked r = j)
    (hf : R ≤ fuel) :
    ∃ s1 s2, MS.runAll (nextId m s p masked) MS.St.init ops1 = some s1 ∧
      MS.runAll (nextId m s p masked) MS.St.init ops2 = some s2 ∧
      MS.closeLoop (nextId m s p masked) fuel s1 = MS.closeLoop (nextId m s p masked) fuel s2 :=
  MS.order_independent (nextId m s p masked) (nextId_strictMono m s p masked) ops1 ops2 R fuel
    h1 h2 hS hR hf

/-- non-vacuity: a concrete out-of-order history satisfies the hypotheses -/
example : MS.Ok (nextId 1 1 1 4 ) MS.empty [(13, [1,2]), (4, [9]), (5, [])] := by
  refine ⟨rfl, ⟨3, by decide⟩, rfl, ⟨0, by decide⟩, rfl, ⟨1, by decide⟩, trivial⟩

end NextId
