namespace Tiling

/-- chunk ranges along one axis, as every conversion loop computes them:
    `for i in range((size-1)//cs + 1): (cs*i, min(cs*(i+1), size))` -/
def ranges (size cs : Nat) : List (Nat × Nat) :=
  (List.range ((size - 1) / cs + 1)).map fun i => (cs * i, min (cs * (i + 1)) size)

theorem length_ranges (size cs : Nat) : (ranges size cs).length = (size - 1) / cs + 1 := by
  simp [ranges]

/-- every voxel index lies in the range number `x / cs`, and in no other -/
theorem mem_range_iff (size cs : Nat) (hs : 0 < size) (hc : 0 < cs) (x : Nat) (hx : x < size)
    (i : Nat) (hi : i < (size - 1) / cs + 1) :
    (cs * i ≤ x ∧ x < min (cs * (i + 1)) size) ↔ i = x / cs := by
  constructor
  · rintro ⟨h1, h2⟩
    have h3 : x < cs * (i + 1) := Nat.lt_of_lt_of_le h2 (Nat.min_le_left _ _)
    have : x / cs = i := by
      apply Nat.div_eq_of_lt_le
      · rw [Nat.mul_comm]; exact h1
      · rw [Nat.mul_comm]; exact h3
    exact this.symm
  · intro h
    subst h
    have h1 : cs * (x / cs) ≤ x := Nat.mul_div_le x cs
    have h2 : x < cs * (x / cs + 1) := by
      have := Nat.lt_mul_div_succ x hc
      simpa [Nat.mul_comm] using this
    exact ⟨h1, Nat.lt_min.mpr ⟨h2, hx⟩⟩

theorem index_in_grid (size cs : Nat) (hs : 0 < size) (hc : 0 < cs) (x : Nat) (hx : x < size) :
    x / cs < (size - 1) / cs + 1 := by
  have : x ≤ size - 1 := by omega
  have := Nat.div_le_div_right (c := cs) this
  omega

/-- ranges are non-empty and on the chunk grid (what `validate_chunk_coords` must accept) -/
theorem range_onGrid (size cs : Nat) (hs : 0 < size) (hc : 0 < cs) (i : Nat)
    (hi : i < (size - 1) / cs + 1) :
    cs * i < size ∧ cs * i < min (cs * (i + 1)) size := by
  have h1 : i ≤ (size - 1) / cs := by omega
  have h2 : cs * i ≤ cs * ((size - 1) / cs) := Nat.mul_le_mul_left cs h1
  have h3 : cs * ((size - 1) / cs) ≤ size - 1 := Nat.mul_div_le _ _
  have h4 : cs * i < size := by omega
  refine ⟨h4, Nat.lt_min.mpr ⟨?_, h4⟩⟩
  rw [Nat.mul_add, Nat.mul_one]; omega

end Tiling
