namespace Readable

/-- round-half-even of the exact rational a/b (b > 0) -/
def rhe (a b : Nat) : Nat :=
  let q := a / b
  let r := a % b
  if 2 * r < b then q else if b < 2 * r then q + 1 else if q % 2 = 0 then q else q + 1

inductive Out where
  | plain (n : Nat)            -- "n "
  | tenths (t k : Nat)         -- "d.d Xi"   (t = tenths, prefix index k = 1..6)
  | whole (w k : Nat)          -- "www Xi"
  | fallback (w : Nat)         -- "w,www Ei"
  deriving DecidableEq, Repr

/-- unchanged code, for n < 2^53 (float division exact) -/
def goOld (n : Nat) : List Nat → Out
  | [] => .fallback (rhe n (2^60))
  | k :: ks =>
    let f := 2 ^ (10 * k)
    if 10 * f < n then
      let w := rhe n f
      if w ≤ 999 then .whole w k else goOld n ks
    else
      let t := rhe (10 * n) f
      if t ≤ 99 then .tenths t k else goOld n ks

def countOld (n : Nat) : Out := if n ≤ 999 then .plain n else goOld n [1,2,3,4,5,6]

/-- candidate fix: try one decimal first, fall back to no decimals -/
def goNew (n : Nat) : List Nat → Out
  | [] => .fallback (rhe n (2^60))
  | k :: ks =>
    let f := 2 ^ (10 * k)
    let t := rhe (10 * n) f
    if t ≤ 99 then .tenths t k else
      let w := rhe n f
      if w ≤ 999 then .whole w k else goNew n ks

def countNew (n : Nat) : Out := if n ≤ 999 then .plain n else goNew n [1,2,3,4,5,6]

-- the unchanged code's band
theorem old_cex : countOld 10240 = .tenths 0 2 := by decide
theorem old_cex2 : countOld 10189 = .tenths 0 2 := by decide

/-- two significant digits -/
def twoSig : Out → Prop
  | .plain _ => True
  | .tenths t _ => 10 ≤ t ∧ t ≤ 99
  | .whole w _ => 10 ≤ w ∧ w ≤ 999
  | .fallback _ => False

theorem rhe_bounds (a b : Nat) (hb : 0 < b) : 2 * b * rhe a b ≤ 2 * a + b ∧ 2 * a ≤ 2 * b * rhe a b + b := by
  unfold rhe
  have h1 := Nat.div_add_mod a b
  have h2 := Nat.mod_lt a hb
  simp only
  generalize a / b = q at *
  generalize a % b = r at *
  have e1 : 2 * b * q = 2 * (b * q) := by rw [Nat.mul_assoc]
  have e2 : 2 * b * (q+1) = 2 * (b * q) + 2 * b := by rw [Nat.mul_assoc, Nat.mul_add]; omega
  split
  · omega
  · split
    · omega
    · split <;> omega

end Readable

namespace Readable

/-- one prefix level, factor a numeral: everything omega needs -/
theorem level_facts (n f : Nat) (hf : 0 < f) :
    let t := rhe (10*n) f
    let w := rhe n f
    (2*f*t ≤ 2*(10*n) + f ∧ 2*(10*n) ≤ 2*f*t + f) ∧ (2*f*w ≤ 2*n + f ∧ 2*n ≤ 2*f*w + f) :=
  ⟨rhe_bounds (10*n) f hf, rhe_bounds n f hf⟩

theorem go6 (n : Nat) (h : 19 * 2^60 ≤ 20 * n) (hn : n < 999 * 2^60) : twoSig (goNew n [6]) := by
  have := level_facts n (2^60) (by decide)
  simp only [goNew]
  simp only [Nat.reducePow, Nat.reduceMul] at *
  generalize rhe (10*n) _ = t at *
  generalize rhe n _ = w at *
  split
  · simp only [twoSig]; omega
  · split
    · simp only [twoSig]; omega
    · simp only [twoSig]; omega

theorem go5 (n : Nat) (h : 19 * 2^50 ≤ 20 * n) (hn : n < 999 * 2^60) : twoSig (goNew n [5,6]) := by
  have := level_facts n (2^50) (by decide)
  rw [goNew]
  simp only [Nat.reducePow, Nat.reduceMul] at this h ⊢
  generalize rhe (10*n) 1125899906842624 = t at *
  generalize rhe n 1125899906842624 = w at *
  split
  · simp only [twoSig]; omega
  · split
    · simp only [twoSig]; omega
    · apply go6 n _ hn
      simp only [Nat.reducePow]; omega

theorem go4 (n : Nat) (h : 19 * 2^40 ≤ 20 * n) (hn : n < 999 * 2^60) : twoSig (goNew n [4,5,6]) := by
  have := level_facts n (2^40) (by decide)
  rw [goNew]
  simp only [Nat.reducePow, Nat.reduceMul] at this h ⊢
  generalize rhe (10*n) 1099511627776 = t at *
  generalize rhe n 1099511627776 = w at *
  split
  · simp only [twoSig]; omega
  · split
    · simp only [twoSig]; omega
    · apply go5 n _ hn
      simp only [Nat.reducePow]; omega

theorem go3 (n : Nat) (h : 19 * 2^30 ≤ 20 * n) (hn : n < 999 * 2^60) : twoSig (goNew n [3,4,5,6]) := by
  have := level_facts n (2^30) (by decide)
  rw [goNew]
  simp only [Nat.reducePow, Nat.reduceMul] at this h ⊢
  generalize rhe (10*n) 1073741824 = t at *
  generalize rhe n 1073741824 = w at *
  split
  · simp only [twoSig]; omega
  · split
    · simp only [twoSig]; omega
    · apply go4 n _ hn
      simp only [Nat.reducePow]; omega

theorem go2 (n : Nat) (h : 19 * 2^20 ≤ 20 * n) (hn : n < 999 * 2^60) : twoSig (goNew n [2,3,4,5,6]) := by
  have := level_facts n (2^20) (by decide)
  rw [goNew]
  simp only [Nat.reducePow, Nat.reduceMul] at this h ⊢
  generalize rhe (10*n) 1048576 = t at *
  generalize rhe n 1048576 = w at *
  split
  · simp only [twoSig]; omega
  · split
    · simp only [twoSig]; omega
    · apply go3 n _ hn
      simp only [Nat.reducePow]; omega

theorem go1 (n : Nat) (h : 19 * 2^10 ≤ 20 * n) (hn : n < 999 * 2^60) : twoSig (goNew n [1,2,3,4,5,6]) := by
  have := level_facts n (2^10) (by decide)
  rw [goNew]
  simp only [Nat.reducePow, Nat.reduceMul] at this h ⊢
  generalize rhe (10*n) 1024 = t at *
  generalize rhe n 1024 = w at *
  split
  · simp only [twoSig]; omega
  · split
    · simp only [twoSig]; omega
    · apply go2 n _ hn
      simp only [Nat.reducePow]; omega

/-- C20 (candidate repair): every count below 999 Ei is shown with at least two significant
    digits (or is a plain integer below 1000) and never reaches the fallback format -/
theorem new_twoSig (n : Nat) (hn : n < 999 * 2^60) : twoSig (countNew n) := by
  unfold countNew
  split
  · trivial
  · exact go1 n (by simp only [Nat.reducePow]; omega) hn

/-- length of the rendered string: digits + separator/prefix characters -/
def width : Out → Nat
  | .plain n => (toString n).length + 1
  | .tenths _ _ => 6          -- "d.d Xi"
  | .whole w _ => (toString w).length + 3
  | .fallback w => (toString w).length + 4

end Readable
