namespace MS

abbrev Payload := List Nat

/-- association list helpers -/
def get? : List (Nat × Payload) → Nat → Option Payload
  | [], _ => none
  | (k, v) :: t, i => if k = i then some v else get? t i

def del : List (Nat × Payload) → Nat → List (Nat × Payload)
  | [], _ => []
  | (k, v) :: t, i => if k = i then del t i else (k, v) :: del t i

theorem get?_del_self (l : List (Nat × Payload)) (i : Nat) : get? (del l i) i = none := by
  induction l with
  | nil => rfl
  | cons h t ih =>
    obtain ⟨k, v⟩ := h
    by_cases hk : k = i <;> simp [del, get?, hk, ih]

theorem get?_del_ne (l : List (Nat × Payload)) (i j : Nat) (h : i ≠ j) :
    get? (del l i) j = get? l j := by
  induction l with
  | nil => rfl
  | cons hd t ih =>
    obtain ⟨k, v⟩ := hd
    by_cases hk : k = i
    · subst hk
      have : ¬ k = j := h
      simp [del, get?, ih, this]
    · by_cases hj : k = j
      · subst hj; simp [del, get?, hk]
      · simp [del, get?, hk, hj, ih]

theorem del_length_le (l : List (Nat × Payload)) (i : Nat) : (del l i).length ≤ l.length := by
  induction l with
  | nil => simp [del]
  | cons hd t ih =>
    obtain ⟨k, v⟩ := hd
    by_cases hk : k = i <;> simp [del, hk] <;> omega

theorem del_length_lt (l : List (Nat × Payload)) (i : Nat) (v : Payload) (h : get? l i = some v) :
    (del l i).length < l.length := by
  induction l with
  | nil => simp [get?] at h
  | cons hd t ih =>
    obtain ⟨k, w⟩ := hd
    by_cases hk : k = i
    · have := del_length_le t i
      simp [del, hk]; omega
    · simp [get?, hk] at h
      have := ih h
      simp [del, hk]; omega

structure St where
  appended : Nat
  lastId : Nat
  buf : List (Nat × Payload)
  data : List Nat
  rows : List (Nat × Nat)      -- (delta id, size)
  deriving Repr

def St.init : St := ⟨0, 0, [], [], []⟩

def append (s : St) (p : Payload) (id : Nat) : St :=
  { s with data := s.data ++ p, rows := s.rows ++ [(id - s.lastId, p.length)],
           lastId := id, appended := s.appended + 1 }

variable (nxt : Nat → Nat)

/-- `flush_buffer`: while the next expected id is buffered, pop and append it -/
def flush : Nat → St → St
  | 0, s => s
  | f + 1, s =>
    match get? s.buf (nxt s.appended) with
    | some p => flush f (append { s with buf := del s.buf (nxt s.appended) } p (nxt s.appended))
    | none => s

/-- `store_cmc_chunk` (payload already encoded); `none` models the RuntimeError -/
def store (s : St) (id : Nat) (p : Payload) : Option St :=
  if id < nxt s.appended then none
  else if nxt s.appended = id then
    let s' := append s p id
    some (flush nxt s'.buf.length s')
  else some { s with buf := (id, p) :: del s.buf id }

/-- canonical contents after ranks `0..n-1`, for a stored map `S` -/
def canon (S : Nat → Option Payload) : Nat → St
  | 0 => St.init
  | n + 1 => append (canon S n) ((S (nxt n)).getD []) (nxt n)

/-- weak invariant (before a flush): the next id may still be buffered -/
structure W (S : Nat → Option Payload) (s : St) : Prop where
  same : { s with buf := [] } = canon nxt S s.appended
  buffered : ∀ id, get? s.buf id = if nxt s.appended ≤ id then S id else none

def update (S : Nat → Option Payload) (id : Nat) (p : Payload) : Nat → Option Payload :=
  fun j => if j = id then some p else S j

theorem canon_congr (S T : Nat → Option Payload) (n : Nat)
    (h : ∀ r, r < n → S (nxt r) = T (nxt r)) : canon nxt S n = canon nxt T n := by
  induction n with
  | zero => rfl
  | succ n ih =>
    simp only [canon]
    rw [ih (fun r hr => h r (by omega)), h n (by omega)]

theorem canon_appended (S : Nat → Option Payload) (n : Nat) : (canon nxt S n).appended = n := by
  induction n with
  | zero => rfl
  | succ n ih => simp [canon, append, ih]

variable (mono : ∀ a b, a < b → nxt a < nxt b)
include mono

theorem nxt_le (a b : Nat) (h : a ≤ b) : nxt a ≤ nxt b := by
  rcases Nat.lt_or_eq_of_le h with h | h
  · exact Nat.le_of_lt (mono a b h)
  · subst h; exact Nat.le_refl _

theorem nxt_inj (a b : Nat) (h : nxt a = nxt b) : a = b := by
  rcases Nat.lt_trichotomy a b with h1 | h1 | h1
  · have := mono a b h1; omega
  · exact h1
  · have := mono b a h1; omega

/-- flushing re-establishes "next id is not stored" and keeps the canonical prefix -/
theorem flush_W (S : Nat → Option Payload)
    (supp : ∀ id, (S id).isSome → ∃ r, nxt r = id) :
    ∀ (fuel : Nat) (s : St), W nxt S s → (∀ r, r < s.appended → (S (nxt r)).isSome) →
      s.buf.length ≤ fuel →
      W nxt S (flush nxt fuel s) ∧ S (nxt (flush nxt fuel s).appended) = none ∧
      (∀ r, r < (flush nxt fuel s).appended → (S (nxt r)).isSome) := by
  intro fuel
  induction fuel with
  | zero =>
    intro s hw hp hl
    have hb : s.buf = [] := List.eq_nil_of_length_eq_zero (by omega)
    refine ⟨hw, ?_, hp⟩
    have := hw.buffered (nxt s.appended)
    simp [hb, get?] at this
    simpa [flush] using this.symm
  | succ f ih =>
    intro s hw hp hl
    simp only [flush]
    cases hg : get? s.buf (nxt s.appended) with
    | none =>
      refine ⟨hw, ?_, hp⟩
      have := hw.buffered (nxt s.appended)
      rw [hg] at this
      simpa using this.symm
    | some p =>
      have hS : S (nxt s.appended) = some p := by
        have := hw.buffered (nxt s.appended)
        rw [hg] at this
        simpa using this.symm
      apply ih
      · constructor
        · -- same
          show { append { s with buf := del s.buf (nxt s.appended) } p (nxt s.appended) with buf := [] }
              = canon nxt S (s.appended + 1)
          simp only [canon, hS, Option.getD_some]
          rw [← hw.same]
          rfl
        · intro id
          show get? (del s.buf (nxt s.appended)) id = if nxt (s.appended + 1) ≤ id then S id else none
          by_cases hid : nxt s.appended = id
          · subst hid
            rw [get?_del_self]
            have := mono s.appended (s.appended+1) (by omega)
            rw [if_neg (by omega)]
          · rw [get?_del_ne _ _ _ hid, hw.buffered id]
            cases hSi : S id with
            | none => simp
            | some q =>
              obtain ⟨r, hr⟩ := supp id (by simp [hSi])
              subst hr
              by_cases hlt : s.appended < r
              · have h1 := nxt_le nxt mono (s.appended+1) r (by omega)
                have h2 := mono s.appended r hlt
                rw [if_pos (by omega), if_pos h1]
              · have hne : r ≠ s.appended := fun e => hid (by rw [e])
                have h2 := mono r s.appended (by omega)
                have h3 := mono r (s.appended+1) (by omega)
                rw [if_neg (by omega), if_neg (by omega)]
      · intro r hr
        have hr' : r < s.appended + 1 := hr
        by_cases e : r = s.appended
        · rw [e, hS]; rfl
        · exact hp r (by omega)
      · have := del_length_lt s.buf (nxt s.appended) p hg
        show (del s.buf (nxt s.appended)).length ≤ f
        omega

/-- invariant between operations -/
structure Inv (S : Nat → Option Payload) (s : St) : Prop where
  w : W nxt S s
  nextAbsent : S (nxt s.appended) = none
  present : ∀ r, r < s.appended → (S (nxt r)).isSome

theorem store_inv (S : Nat → Option Payload) (s : St) (id : Nat) (p : Payload)
    (supp : ∀ j, (S j).isSome → ∃ r, nxt r = j)
    (hinv : Inv nxt S s) (hnew : S id = none) (hid : ∃ r, nxt r = id) :
    ∃ s', store nxt s id p = some s' ∧ Inv nxt (update S id p) s' := by
  obtain ⟨r, hr⟩ := hid
  have hra : s.appended ≤ r := by
    apply Nat.le_of_not_lt
    intro hlt
    have := hinv.present r hlt
    rw [hr, hnew] at this
    simp at this
  have hle : nxt s.appended ≤ id := hr ▸ nxt_le nxt mono _ _ hra
  have supp' : ∀ j, (update S id p j).isSome → ∃ r, nxt r = j := by
    intro j hj
    by_cases e : j = id
    · exact ⟨r, by rw [hr, e]⟩
    · simp [update, e] at hj
      exact supp j hj
  have below : ∀ q, q < s.appended → S (nxt q) = update S id p (nxt q) := by
    intro q hq
    have : nxt q ≠ id := by
      have := mono q s.appended hq
      omega
    simp [update, this]
  unfold store
  rw [if_neg (by omega)]
  by_cases heq : nxt s.appended = id
  · rw [if_pos heq]
    refine ⟨_, rfl, ?_⟩
    -- state after append, before flush
    have hw1 : W nxt (update S id p) (append s p id) := by
      constructor
      · show { append s p id with buf := [] } = canon nxt (update S id p) (s.appended + 1)
        simp only [canon]
        rw [← canon_congr nxt S (update S id p) s.appended below, ← hinv.w.same, heq]
        simp [update, append]
      · intro j
        show get? s.buf j = if nxt (s.appended + 1) ≤ j then update S id p j else none
        rw [hinv.w.buffered j]
        by_cases e : j = id
        · subst e
          have := mono s.appended (s.appended + 1) (by omega)
          rw [if_pos (by omega), if_neg (by omega), hnew]
        · simp only [update, e, if_false]
          cases hSj : S j with
          | none => simp
          | some q =>
            obtain ⟨r', hr'⟩ := supp j (by simp [hSj])
            subst hr'
            by_cases hlt : s.appended < r'
            · have h1 := nxt_le nxt mono (s.appended+1) r' (by omega)
              have h2 := mono s.appended r' hlt
              rw [if_pos (by omega), if_pos h1]
            · have hne : r' ≠ s.appended := by
                intro e'; apply e; rw [e']; exact heq
              have h2 := mono r' s.appended (by omega)
              have h3 := mono r' (s.appended+1) (by omega)
              rw [if_neg (by omega), if_neg (by omega)]
    have hp1 : ∀ q, q < (append s p id).appended → (update S id p (nxt q)).isSome := by
      intro q hq
      have hq' : q < s.appended + 1 := hq
      by_cases e : q = s.appended
      · rw [e, heq]; simp [update]
      · rw [← below q (by omega)]; exact hinv.present q (by omega)
    have hf := flush_W nxt mono (update S id p) supp' _ (append s p id) hw1 hp1 (Nat.le_refl _)
    exact ⟨hf.1, hf.2.1, hf.2.2⟩
  · rw [if_neg heq]
    refine ⟨_, rfl, ?_⟩
    have hlt : nxt s.appended < id := by omega
    constructor
    · constructor
      · show { s with buf := [] } = canon nxt (update S id p) s.appended
        rw [← canon_congr nxt S (update S id p) s.appended below]
        exact hinv.w.same
      · intro j
        show get? ((id, p) :: del s.buf id) j = if nxt s.appended ≤ j then update S id p j else none
        by_cases e : id = j
        · subst e
          simp [get?, update, hle]
        · have e' : ¬ j = id := fun h => e h.symm
          simp only [get?, e, if_false, update, e']
          rw [get?_del_ne _ _ _ e, hinv.w.buffered j]
    · show update S id p (nxt s.appended) = none
      have : nxt s.appended ≠ id := heq
      simp [update, this, hinv.nextAbsent]
    · intro q hq
      show (update S id p (nxt q)).isSome
      rw [← below q hq]
      exact hinv.present q hq

end MS
