import Digits  -- (ofDigits, ofDigits_digit)
namespace Morton
open Proto

/-- bits emitted at level `i` for the axes `(grid size, coordinate)`, in axis order -/
def levelBits (i : Nat) : List (Nat × Nat) → List Nat
  | [] => []
  | (g, c) :: t => if 2 ^ i < g then (c / 2 ^ i % 2) :: levelBits i t else levelBits i t

/-- all emitted bits, level 0 first: the order in which `compressed_morton_code` ORs them in -/
def allBits (gcs : List (Nat × Nat)) : Nat → List Nat
  | 0 => []
  | n + 1 => allBits gcs n ++ levelBits n gcs

/-- the code as a number (the loop's `code |= bit << j; j += 1` with bit positions 0,1,2,…) -/
def code (gcs : List (Nat × Nat)) (n : Nat) : Nat := ofDigits 2 (allBits gcs n)

/-- the emission pattern depends on the grid only -/
theorem levelBits_length (i : Nat) (gs cs cs' : List Nat) (h : cs.length = cs'.length) :
    (levelBits i (gs.zip cs)).length = (levelBits i (gs.zip cs')).length := by
  induction gs generalizing cs cs' with
  | nil => simp [levelBits]
  | cons g gs ih =>
    cases cs with
    | nil => cases cs' with
      | nil => rfl
      | cons _ _ => simp at h
    | cons c cs => cases cs' with
      | nil => simp at h
      | cons c' cs' =>
        simp only [List.zip_cons_cons, levelBits]
        have := ih cs cs' (by simpa using h)
        split <;> simp [this]

theorem allBits_length (gs cs cs' : List Nat) (h : cs.length = cs'.length) (n : Nat) :
    (allBits (gs.zip cs) n).length = (allBits (gs.zip cs') n).length := by
  induction n with
  | zero => rfl
  | succ n ih => simp [allBits, ih, levelBits_length n gs cs cs' h]

theorem levelBits_lt (i : Nat) (gcs : List (Nat × Nat)) : ∀ d ∈ levelBits i gcs, d < 2 := by
  induction gcs with
  | nil => simp [levelBits]
  | cons hd t ih =>
    obtain ⟨g, c⟩ := hd
    simp only [levelBits]
    split
    · intro d hd
      rcases List.mem_cons.mp hd with h | h
      · subst h; exact Nat.mod_lt _ (by decide)
      · exact ih d h
    · exact ih

theorem allBits_lt (gcs : List (Nat × Nat)) (n : Nat) : ∀ d ∈ allBits gcs n, d < 2 := by
  induction n with
  | zero => simp [allBits]
  | succ n ih =>
    intro d hd
    rcases List.mem_append.mp hd with h | h
    · exact ih d h
    · exact levelBits_lt n gcs d h

/-- equal numbers with digit lists of the same length have equal digit lists -/
theorem ofDigits_inj (B : Nat) (hB : 0 < B) : ∀ (ds es : List Nat), ds.length = es.length →
    (∀ d ∈ ds, d < B) → (∀ d ∈ es, d < B) → ofDigits B ds = ofDigits B es → ds = es
  | [], [], _, _, _, _ => rfl
  | [], _ :: _, h, _, _, _ => by simp at h
  | _ :: _, [], h, _, _, _ => by simp at h
  | d :: ds, e :: es, hl, hd, he, h => by
    have hd0 : d < B := hd d (by simp)
    have he0 : e < B := he e (by simp)
    simp only [ofDigits] at h
    have h1 : d = e := by
      have := congrArg (· % B) h
      simpa [Nat.add_mul_mod_self_left, Nat.mod_eq_of_lt hd0, Nat.mod_eq_of_lt he0] using this
    subst h1
    have h2 : ofDigits B ds = ofDigits B es := by
      have : B * ofDigits B ds = B * ofDigits B es := by omega
      exact Nat.eq_of_mul_eq_mul_left hB this
    rw [ofDigits_inj B hB ds es (by simpa using hl) (fun x hx => hd x (by simp [hx]))
      (fun x hx => he x (by simp [hx])) h2]

/-- per-axis consequence of equal level bits -/
theorem levelBits_eq (i : Nat) : ∀ (gs cs cs' : List Nat), cs.length = gs.length → cs'.length = gs.length →
    levelBits i (gs.zip cs) = levelBits i (gs.zip cs') →
    ∀ d (hd : d < gs.length) (h1 : d < cs.length) (h2 : d < cs'.length), 2 ^ i < gs[d] →
      cs[d] / 2 ^ i % 2 = cs'[d] / 2 ^ i % 2
  | [], _, _, _, _, _ => by intro d hd; simp at hd
  | g :: gs, c :: cs, c' :: cs', hl, hl', h => by
    intro d hd h1 h2 hg
    simp only [List.zip_cons_cons, levelBits] at h
    by_cases hgi : 2 ^ i < g
    · simp only [hgi, if_true] at h
      have hh := List.cons.inj h
      cases d with
      | zero => simpa using hh.1
      | succ d =>
        have := levelBits_eq i gs cs cs' (by simpa using hl) (by simpa using hl') hh.2 d
          (by simpa using hd) (by simpa using h1) (by simpa using h2) (by simpa using hg)
        simpa using this
    · simp only [hgi, if_false] at h
      cases d with
      | zero => simp at hg; exact absurd hg hgi
      | succ d =>
        have := levelBits_eq i gs cs cs' (by simpa using hl) (by simpa using hl') h d
          (by simpa using hd) (by simpa using h1) (by simpa using h2) (by simpa using hg)
        simpa using this
  | _ :: _, [], _, hl, _, _ => by simp at hl
  | _ :: _, _ :: _, [], _, hl', _ => by simp at hl'


theorem allBits_eq (gs cs cs' : List Nat) (hl : cs.length = gs.length) (hl' : cs'.length = gs.length) :
    ∀ n, allBits (gs.zip cs) n = allBits (gs.zip cs') n →
      ∀ i, i < n → levelBits i (gs.zip cs) = levelBits i (gs.zip cs')
  | 0, _, i, hi => by omega
  | n + 1, h, i, hi => by
    simp only [allBits] at h
    have hlen := allBits_length gs cs cs' (by omega) n
    have ⟨h1, h2⟩ := List.append_inj h hlen
    by_cases e : i = n
    · subst e; exact h2
    · exact allBits_eq gs cs cs' hl hl' n h1 i (by omega)

theorem eq_of_bits (c c' : Nat) (h : ∀ i, c / 2 ^ i % 2 = c' / 2 ^ i % 2) : c = c' := by
  apply Nat.eq_of_testBit_eq
  intro i
  simp only [Nat.testBit_eq_decide_div_mod_eq, h i]

/-- C09: distinct positions inside the grid get distinct identifiers -/
theorem code_injective (gs cs cs' : List Nat) (n : Nat)
    (hl : cs.length = gs.length) (hl' : cs'.length = gs.length)
    (hn : ∀ d (hd : d < gs.length), gs[d] ≤ 2 ^ n)
    (hc : ∀ d (hd : d < gs.length), cs[d]'(by omega) < gs[d])
    (hc' : ∀ d (hd : d < gs.length), cs'[d]'(by omega) < gs[d])
    (h : code (gs.zip cs) n = code (gs.zip cs') n) : cs = cs' := by
  have hbits := ofDigits_inj 2 (by decide) _ _ (allBits_length gs cs cs' (by omega) n)
    (allBits_lt _ n) (allBits_lt _ n) h
  have hlev := allBits_eq gs cs cs' hl hl' n hbits
  apply List.ext_getElem (by omega)
  intro d h1 h2
  have hd : d < gs.length := by omega
  apply eq_of_bits
  intro i
  by_cases hg : 2 ^ i < gs[d]
  · have hin : i < n := by
      apply Nat.lt_of_not_le
      intro hge
      have := Nat.pow_le_pow_right (by decide : 0 < 2) hge
      have := hn d hd
      omega
    exact levelBits_eq i gs cs cs' hl hl' (hlev i hin) d hd h1 h2 hg
  · have a1 := hc d hd
    have a2 := hc' d hd
    rw [Nat.div_eq_of_lt (by omega), Nat.div_eq_of_lt (by omega)]

end Morton
