"""Shared helpers for the sharded-format properties (C04, C05, C14, C18)."""
import gzip
import json
import math
import os
import struct
import zlib


def spec_code(grid, coord):
    bits = [(g - 1).bit_length() for g in grid]
    code = 0
    j = 0
    for i in range(max(bits) if bits else 0):
        for d in range(3):
            if i < bits[d]:
                code |= ((coord[d] >> i) & 1) << j
                j += 1
    return code


def gen_dataset(rng, small=True, encodings=None):
    """Random sharded dataset description + stored subset + store order."""
    cs = rng.choice([1, 2, 4, 8])
    gmax = 4 if small else 6
    grid = [rng.choice([1, 1, 2, 3, gmax, rng.randrange(1, gmax + 1)]) for _ in range(3)]
    size = [g * cs - (rng.randrange(cs) if cs > 1 else 0) for g in grid]
    m, s, p = (rng.choice([0, 1, 2, 3]), rng.choice([0, 1, 2, 3, 5]), rng.choice([0, 0, 1, 2, 3]))
    enc = encodings or (rng.choice(["raw", "raw", "gzip"]), rng.choice(["raw", "raw", "gzip"]))
    cells = [(x, y, z) for x in range(grid[0]) for y in range(grid[1]) for z in range(grid[2])]
    frac = rng.choice([1.0, 1.0, 0.5, 0.25, 0.8])
    if frac < 1.0:
        k = max(1, int(len(cells) * frac))
        mode = rng.choice(["random", "head", "tail"])
        if mode == "random":
            cells = rng.sample(cells, k)
        elif mode == "head":
            cells = sorted(cells, key=lambda c: spec_code(grid, c))[:k]
        else:
            cells = sorted(cells, key=lambda c: spec_code(grid, c))[-k:]
    order = list(cells)
    how = rng.choice(["sorted", "reversed", "shuffled", "shuffled", "loop"])
    if how == "sorted":
        order.sort(key=lambda c: spec_code(grid, c))
    elif how == "reversed":
        order.sort(key=lambda c: -spec_code(grid, c))
    elif how == "shuffled":
        rng.shuffle(order)
    payload = {}
    for c in cells:
        n = rng.choice([0, 1, 2, 5, 17, 40])
        payload[c] = bytes(rng.randrange(256) for _ in range(n))
    return {"cs": cs, "grid": grid, "size": size, "m": m, "s": s, "p": p,
            "index_enc": enc[0], "data_enc": enc[1], "order": order, "payload": payload, "how": how}


def make_info(ds, key="k"):
    return {"type": "image", "data_type": "uint8", "num_channels": 1, "scales": [{
        "key": key, "size": list(ds["size"]), "chunk_sizes": [[ds["cs"]] * 3], "encoding": "raw",
        "resolution": [1, 1, 1], "voxel_offset": [0, 0, 0],
        "sharding": {"@type": "neuroglancer_uint64_sharded_v1", "minishard_bits": ds["m"],
                     "shard_bits": ds["s"], "hash": "identity",
                     "minishard_index_encoding": ds["index_enc"], "data_encoding": ds["data_enc"],
                     "preshift_bits": ds["p"]}}]}


def coords_of(ds, cell):
    cs, size = ds["cs"], ds["size"]
    out = []
    for a in range(3):
        lo = cell[a] * cs
        out += [lo, min(lo + cs, size[a])]
    return tuple(out)


def write_dataset(ds, base_dir, order=None, strategy="in memory", key="k"):
    """Store the dataset through the real ShardedFileAccessor and close it."""
    from neuroglancer_scripts.sharded_file_accessor import ShardedFileAccessor
    info = make_info(ds, key)
    os.makedirs(base_dir, exist_ok=True)
    with open(os.path.join(base_dir, "info"), "w") as f:
        json.dump(info, f)
    import contextlib
    import io
    acc = ShardedFileAccessor(base_dir, strategy=strategy)
    acc.info = json.loads(json.dumps(info))
    with contextlib.redirect_stdout(io.StringIO()):
        # the caller's buffer is REUSED after every store (a writer that fills one scratch buffer per chunk): what must
        # be kept is the content at the time of the call, whatever bytes-like type carries it
        for n, cell in enumerate(order if order is not None else ds["order"]):
            pay = ds["payload"][cell]
            if n % 4 == 0 or (n % 4 == 3 and (len(pay) % 2 or not pay)):
                acc.store_chunk(pay, key, coords_of(ds, cell))
            elif n % 4 == 3:
                # the buffer of an array of wider items (what `ndarray.data` of an encoded uint16 chunk is): its len()
                # counts items, its content is the same bytes
                import numpy as np
                arr = np.frombuffer(pay, dtype="<u2").copy()
                acc.store_chunk(arr.data, key, coords_of(ds, cell))
                arr ^= 0xFFFF
            else:
                scratch = bytearray(pay)
                acc.store_chunk(scratch if n % 4 == 1 else memoryview(scratch), key, coords_of(ds, cell))
                for i in range(len(scratch)):      # in place, no resize: the caller fills its buffer with the next chunk
                    scratch[i] ^= 0xFF
        acc.close()
    return acc


def write_two_scales(ds1, ds2, base_dir, strategy="in memory", interleave=True):
    """Two scales ("k", "k2") stored through ONE accessor and closed ONCE (what convert-chunks does with a
    multi-scale sharded destination): per-scale write buffers must not meet."""
    from neuroglancer_scripts.sharded_file_accessor import ShardedFileAccessor
    i1, i2 = make_info(ds1, "k"), make_info(ds2, "k2")
    info = dict(i1, scales=i1["scales"] + i2["scales"])
    os.makedirs(base_dir, exist_ok=True)
    with open(os.path.join(base_dir, "info"), "w") as f:
        json.dump(info, f)
    import contextlib
    import io
    acc = ShardedFileAccessor(base_dir, strategy=strategy)
    acc.info = json.loads(json.dumps(info))
    todo = [("k", ds1, c) for c in ds1["order"]] + [("k2", ds2, c) for c in ds2["order"]]
    if interleave:
        a, b = todo[:len(ds1["order"])], todo[len(ds1["order"]):]
        todo = [x for pair in zip(a, b) for x in pair] + a[len(b):] + b[len(a):]
    with contextlib.redirect_stdout(io.StringIO()):
        for key, ds, cell in todo:
            acc.store_chunk(ds["payload"][cell], key, coords_of(ds, cell))
        acc.close()
    return acc


def shard_files(base_dir, key="k"):
    d = os.path.join(base_dir, key)
    out = {}
    if os.path.isdir(d):
        for n in sorted(os.listdir(d)):
            with open(os.path.join(d, n), "rb") as f:
                out[n] = f.read()
    return out


class SpecReadError(Exception):
    pass


def spec_decode(enc, b, findings):
    """Decode per the specification: 'gzip' means an RFC 1952 gzip stream."""
    if enc == "raw":
        return b
    try:
        return gzip.decompress(b)
    except Exception:
        try:
            out = zlib.decompress(b)
        except Exception as exc:
            raise SpecReadError(f"'gzip' data is neither gzip nor zlib: {exc}")
        findings.add("F10-gzip-is-zlib")
        return out


def spec_fetch(ds, files, cell, findings):
    """Reader written from the sharded-format specification only. Returns the payload bytes."""
    m, s, p = ds["m"], ds["s"], ds["p"]
    cid = spec_code(ds["grid"], cell)
    h = cid >> p
    mini = h & ((1 << m) - 1)
    shard = (h >> m) & ((1 << s) - 1)
    name = format(shard, "x").rjust(math.ceil(s / 4), "0") + ".shard"
    if name not in files:
        raise SpecReadError(f"shard file {name} does not exist")
    f = files[name]
    base = (1 << m) * 16
    if len(f) < base:
        raise SpecReadError("file shorter than its shard index")
    start, end = struct.unpack_from("<QQ", f, 16 * mini)
    if end < start or base + end > len(f):
        raise SpecReadError(f"minishard index range [{start},{end}) outside the file")
    if start == end:
        raise SpecReadError(f"slot {mini} of the shard index is empty")
    idx = spec_decode(ds["index_enc"], f[base + start:base + end], findings)
    if len(idx) % 24:
        raise SpecReadError("minishard index length is not a multiple of 24")
    n = len(idx) // 24
    w = struct.unpack("<%dQ" % (3 * n), idx)
    cur = 0
    prev_end = 0
    ranges = []
    hit = None
    last = None
    for i in range(n):
        cur += w[i]
        st = prev_end + w[n + i]
        en = st + w[2 * n + i]
        if last is not None and cur <= last:
            raise SpecReadError("identifiers of the minishard index are not strictly increasing")
        last = cur
        if base + en > len(f):
            raise SpecReadError("chunk byte range outside the file")
        ranges.append((st, en))
        if cur == cid:
            hit = (st, en)
        prev_end = en
    for (a0, a1), (b0, b1) in zip(ranges, ranges[1:]):
        if b0 < a1:
            raise SpecReadError("chunk byte ranges overlap")
    if hit is None:
        raise SpecReadError("identifier not listed in the minishard index at its slot")
    return spec_decode(ds["data_enc"], f[base + hit[0]:base + hit[1]], findings)
