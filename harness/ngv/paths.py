import os
VERIF = os.path.dirname(os.path.dirname(os.path.dirname(os.path.abspath(__file__))))
LEAN = os.path.join(VERIF, "lean")
HARNESS = os.path.join(VERIF, "harness")
EVIDENCE = os.path.join(VERIF, "evidence")
REPLAYS = os.path.join(VERIF, "replays")
REPO = os.environ.get("NGV_REPO", "/repo")
REPO_SRC = os.path.join(REPO, "src")
DRIVER = os.path.join(LEAN, ".lake", "build", "bin", "ngdriver")
KNOWN_FINDINGS = os.path.join(VERIF, "known_findings.json")
GUARD = "NGSCRIPTS_VERIF"
