"""Call-site level fault / interruption injection for the accessors' I/O primitives.

`Injector` wraps, for the duration of a `with` block, the primitives the accessors use:
    os.makedirs, pathlib.Path.mkdir, pathlib.Path.is_file, pathlib.Path.exists, pathlib.Path.unlink,
    io.open / builtins.open (pathlib.Path.open and gzip.open go through these), and the
    write / read / close of every file object opened below `root`
and numbers the calls that concern paths below `root`. In mode
    record       nothing is disturbed, `trace` lists the calls
    fault        call number `k` raises OSError(errno) (a write first lets `part` of its bytes through)
    kill-before  the process exits (os._exit, no buffers flushed) just before call `k`
    kill-mid     like kill-before, but a write lets `part` of its bytes reach the file first
"""
import builtins
import io
import os
import pathlib


class Killed(BaseException):
    pass


class FileProxy:
    def __init__(self, inj, real, path):
        self.__dict__["_inj"] = inj
        self.__dict__["_real"] = real
        self.__dict__["_path"] = path

    def __getattr__(self, name):
        return getattr(self._real, name)

    def __enter__(self):
        return self

    def __exit__(self, *a):
        self.close()

    def __iter__(self):
        return iter(self._real)

    def write(self, data):
        def partial(frac):
            n = int(len(data) * frac)
            if n:
                self._real.write(bytes(data)[:n])
                try:
                    self._real.flush()
                except Exception:  # noqa
                    pass
        self._inj.step("write", self._path, partial)
        return self._real.write(data)

    def read(self, *a):
        self._inj.step("read", self._path)
        return self._real.read(*a)

    def readinto(self, b):
        self._inj.step("read", self._path)
        return self._real.readinto(b)

    def close(self):
        if self._real.closed:
            return None
        try:
            self._inj.step("close", self._path)
        except OSError:
            # a failing close still releases the descriptor (what reached the file stays)
            try:
                self._real.close()
            except Exception:  # noqa
                pass
            raise
        return self._real.close()


class Injector:
    def __init__(self, root, mode="record", k=None, err=None, part=0.5):
        self.root = os.path.realpath(str(root))
        self.mode, self.k, self.err, self.part = mode, k, err, part
        self.trace = []
        self.fired = False
        self._saved = {}

    # ---- the decision point ------------------------------------------------------------
    def concerns(self, path):
        try:
            p = os.path.realpath(os.fspath(path))
        except TypeError:
            return False
        return p == self.root or p.startswith(self.root + os.sep)

    def step(self, name, path, partial=None):
        idx = len(self.trace)
        self.trace.append((name, os.path.relpath(os.path.realpath(os.fspath(path)), self.root)))
        if self.k is None or idx != self.k or self.fired:
            return
        self.fired = True
        if self.mode == "fault":
            if partial is not None:
                partial(self.part)
            raise OSError(self.err, os.strerror(self.err), str(path))
        if self.mode == "kill-mid" and partial is not None:
            partial(self.part)
        if self.mode in ("kill-before", "kill-mid"):
            os._exit(77)

    # ---- patching --------------------------------------------------------------------------
    def __enter__(self):
        inj = self
        real_open = io.open
        s = self._saved
        s["io.open"], s["builtins.open"] = io.open, builtins.open
        s["makedirs"], s["mkdir"], s["is_file"] = os.makedirs, pathlib.Path.mkdir, pathlib.Path.is_file
        s["exists"], s["unlink"] = pathlib.Path.exists, pathlib.Path.unlink

        def open_(file, *a, **kw):
            if isinstance(file, int) or not inj.concerns(file):
                return real_open(file, *a, **kw)
            inj.step("open", file)
            return FileProxy(inj, real_open(file, *a, **kw), file)

        def makedirs(name, *a, **kw):
            if inj.concerns(name):
                inj.step("makedirs", name)
            return s["makedirs"](name, *a, **kw)

        def mkdir(self_, *a, **kw):
            if inj.concerns(self_):
                inj.step("mkdir", self_)
            return s["mkdir"](self_, *a, **kw)

        def is_file(self_):
            if inj.concerns(self_):
                inj.step("is_file", self_)
            return s["is_file"](self_)

        def exists(self_, *a, **kw):
            if inj.concerns(self_):
                inj.step("exists", self_)
            return s["exists"](self_, *a, **kw)

        def unlink(self_, *a, **kw):
            if inj.concerns(self_):
                inj.step("unlink", self_)
            return s["unlink"](self_, *a, **kw)

        io.open = builtins.open = open_
        os.makedirs = makedirs
        pathlib.Path.mkdir, pathlib.Path.is_file = mkdir, is_file
        pathlib.Path.exists, pathlib.Path.unlink = exists, unlink
        return self

    def __exit__(self, *a):
        s = self._saved
        io.open, builtins.open = s["io.open"], s["builtins.open"]
        os.makedirs = s["makedirs"]
        pathlib.Path.mkdir, pathlib.Path.is_file = s["mkdir"], s["is_file"]
        pathlib.Path.exists, pathlib.Path.unlink = s["exists"], s["unlink"]
        return False
