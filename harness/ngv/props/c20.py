"""C20 — Reported statistics match the dataset that is actually produced."""
import contextlib
import io
import re
from fractions import Fraction

import numpy as np

from .. import core

RULE = ("readable_count: every integer within ±W of j·2^(10k) for the critical multipliers "
        "j∈{1, 9.95, 10, 99.95, 100, 999.5, 1000}, k=0..6, powers of two ±1 up to 2^70, plus random "
        "integers (log-uniform), and floating-point counts (float and numpy.float64: whole, halves, quarters, log-uniform, below and above 1000) judged by the property's predicate on their exact value; stats: random infos (1-3 scales, non-cubic chunk sizes, sharded or "
        "not) through show_scales_info, and random small volumes through volume_to_precomputed with a "
        "recording writer. Distinct = distinct canonical input; trivial = count < 1000 / "
        "single-chunk volume.")
ASSUMPTIONS = [
    "format(x, '.1f'/'.0f') is the round-half-even of the exact binary value (checked by the "
    "correspondence run on every sampled integer)",
    "int/int true division by a power of two is exact after float64 rounding of the numerator",
    "prefix strings have two characters (checked on the regenerated table by the harness)",
]

PREFIX = {"": 1, "ki": 2**10, "Mi": 2**20, "Gi": 2**30, "Ti": 2**40, "Pi": 2**50, "Ei": 2**60}


def oracle_readable(n, s):
    """The property's own predicate on the implementation's string (independent of the model)."""
    m = re.fullmatch(r"([0-9,]+)(?:\.([0-9]))? ([A-Za-z]*)", s)
    if not m:
        return f"unparseable output {s!r}"
    whole, dec, pfx = m.groups()
    if pfx not in PREFIX:
        return f"unknown prefix {pfx!r}"
    factor = PREFIX[pfx]
    shown = Fraction(int(whole.replace(",", "")))
    ulp = Fraction(1)
    if dec is not None:
        shown += Fraction(int(dec), 10)
        ulp = Fraction(1, 10)
    if n < 999 * 2**60 and len(s) > 6:
        return f"more than six characters: {s!r}"
    digits = (whole.replace(",", "") + (dec or "")).lstrip("0")
    if n >= 10 and len(digits) < 2:
        return f"fewer than two significant digits: {s!r}"
    # within rounding distance: half a unit in the last shown place (+ float64 rounding of n)
    err = abs(shown * factor - n)
    tol = ulp * factor / 2 + Fraction(n) / 2**53
    if err > tol:
        return f"shown value {s!r} is not within rounding distance of {n}"
    return None


def readable_inputs(ctx):
    rng = ctx.rng
    w = ctx.budget(40, 2100)
    xs = set(range(0, 1200))
    for k in range(0, 7):
        for j in (Fraction(1), Fraction(995, 100), Fraction(10), Fraction(9995, 100), Fraction(100),
                  Fraction(9995, 10), Fraction(1000), Fraction(999)):
            c = int(j * 2**(10 * k))
            step = 1 if c < 2**53 else max(1, c >> 53)
            for d in range(-w, w + 1):
                xs.add(max(0, c + d * step))
                if step > 1:
                    xs.add(max(0, c + d))
    for e in range(0, 71):
        for d in (-1, 0, 1):
            xs.add(max(0, 2**e + d))
    for _ in range(ctx.budget(3000, 200000)):
        e = rng.uniform(0, 70)
        xs.add(int(2**e) + rng.randrange(0, 3))
    # float64 tie cases above 2^53
    for _ in range(ctx.budget(300, 20000)):
        e = rng.randrange(54, 70)
        base = rng.randrange(2**52, 2**53) << (e - 52)
        xs.add(base + (1 << (e - 53)))
        xs.add(base + (1 << (e - 53)) + rng.choice((-1, 1)))
    return sorted(xs)


class SpyWriter:
    def __init__(self, info):
        self.info = info
        self.calls = []

    def write_chunk(self, chunk, key, coords):
        self.calls.append((key, tuple(int(c) for c in coords), chunk.shape, chunk.nbytes))


def run(ctx):
    from neuroglancer_scripts import utils, volume_reader
    from neuroglancer_scripts.scripts import scale_stats
    rng = ctx.rng
    # ---- (a) readable_count: impl vs model, oracle on impl ------------------------------------
    xs = readable_inputs(ctx)
    impl = []
    for n in xs:
        try:
            impl.append(utils.readable_count(n))
        except Exception as exc:  # noqa
            impl.append(f"!{type(exc).__name__}")
    model = core.driver_batch([f"readable {n}" for n in xs]) if ctx.driver_ok else None
    for i, n in enumerate(xs):
        s = impl[i]
        ctx.case(("readable", n), nontrivial=n >= 1000,
                 sample={"readable_count": n, "impl": s} if i % 997 == 0 else None)
        if s.startswith("!"):
            ctx.oracle_fail("readable_count raised " + s[1:], {"count": n}, key=None)
            continue
        bad = oracle_readable(n, s)
        if bad:
            ctx.oracle_fail("readable_count: " + bad, {"count": n, "output": s})
        if model is not None:
            mstr, mwidth = model[i].rsplit("|", 1)
            if mstr != s:
                ctx.corr_mismatch("readable-string", {"count": n}, s, mstr)
            elif int(mwidth) != len(s):
                ctx.corr_mismatch("readable-width", {"count": n}, len(s), int(mwidth))
            ctx.hist("readable_output_kind", "plain" if s.endswith(" ") else
                     ("tenths" if "." in s else ("fallback" if "," in s else "whole")))
    # floats: the docstring's own example passes a float (readable_count(1e10)), and callers print means and
    # ratios; the property's predicate is applied to the exact value of the float (no model: oracle only)
    fl = [1e10, 512.0, 1023.9, 1e3, 1e15, 2.0**60, 0.0, 0.4, 0.5, 1.5, 9.5, 9.96, 38.888888888888886, 99.5,
          123.45, 999.4, 999.5, 999.6, 1023.5, 1024.5, 10188.8, 700 / 18]
    for _ in range(ctx.budget(400, 20000)):
        fl.append(2.0 ** rng.uniform(-2, 69.9))
        fl.append(rng.uniform(0, 1200))
        fl.append(rng.randrange(0, 4000) / 4)
    for x in fl:
        for form in (float, np.float64):
            try:
                s = utils.readable_count(form(x))
            except Exception as exc:  # noqa
                ctx.oracle_fail(f"readable_count({form.__name__}) raised {type(exc).__name__}", {"count": x})
                continue
            bad = oracle_readable(Fraction(x), s)
            ctx.case(("readable-float", x, form.__name__), nontrivial=x != int(x))
            if bad:
                ctx.oracle_fail(f"readable_count({form.__name__}): " + bad, {"count": x, "output": s})
    ctx.hist("readable_float_inputs", len(fl))
    # ---- (b) show_scales_info numbers vs model ----------------------------------------------------
    reqs, expect = [], []
    for _ in range(ctx.budget(150, 4000)):
        dt = rng.choice(["uint8", "uint16", "uint32", "uint64", "float32"])
        ch = rng.choice([1, 1, 2, 3])
        scales = []
        for si in range(rng.randrange(1, 4)):
            big = rng.random() < 0.15
            size = [rng.choice([1, 2, 3, 63, 64, 65, 100, 1000, 10**6, 10**9]) if big
                    else rng.randrange(1, 300) for _ in range(3)]
            css = [[rng.choice([1, 2, 3, 16, 32, 64, 100]) for _ in range(3)]
                   for _ in range(rng.choice([1, 1, 2]))]
            sc = {"key": f"s{si}", "size": size, "chunk_sizes": css}
            if rng.random() < 0.3:
                sc["sharding"] = {"shard_bits": rng.randrange(0, 12)}
            scales.append(sc)
        info = {"data_type": dt, "num_channels": ch, "scales": scales}
        buf = io.StringIO()
        try:
            with contextlib.redirect_stdout(buf):
                scale_stats.show_scales_info(info)
        except Exception as exc:  # noqa
            ctx.oracle_fail(f"show_scales_info raised {type(exc).__name__}: {exc}", info)
            continue
        lines = buf.getvalue().splitlines()
        rows = []
        for ln in lines:
            m = re.match(r"Scale (\S+), .*: ([0-9,]+) chunks, ([0-9,]+) directories, raw uncompressed size (.*)B$", ln)
            if m:
                rows.append((int(m.group(2).replace(",", "")), int(m.group(3).replace(",", "")), m.group(4)))
        m = re.match(r"Total: ([0-9,]+) chunks, ([0-9,]+) directories, raw uncompressed size (.*)B$", lines[-1])
        total = (int(m.group(1).replace(",", "")), int(m.group(2).replace(",", "")), m.group(3)) if m else None
        itemsize = np.dtype(dt).itemsize
        j = 0
        tot_c = tot_b = 0
        ok_parse = total is not None
        for sc in scales:
            for cs in sc["chunk_sizes"]:
                if j >= len(rows):
                    ok_parse = False
                    break
                # oracle (exact integers, independent): chunks and bytes
                nchunks = 1
                for s_, c_ in zip(sc["size"], cs):
                    nchunks *= -(-s_ // c_)
                nbytes = sc["size"][0] * sc["size"][1] * sc["size"][2] * itemsize * ch
                tot_c += nchunks
                tot_b += nbytes
                if rows[j][0] != nchunks:
                    ctx.oracle_fail("scale-stats reports a wrong number of chunks",
                                    {"info": info, "scale": sc["key"], "chunk_size": cs,
                                     "reported": rows[j][0], "true": nchunks})
                bad = oracle_readable(nbytes, rows[j][2])
                if bad:
                    ctx.oracle_fail("scale-stats raw size: " + bad,
                                    {"info": info, "scale": sc["key"], "true_bytes": nbytes})
                sb = sc.get("sharding", {}).get("shard_bits") if sc.get("sharding") else None
                reqs.append(f"stats-row {core.ilist(sc['size'])} {core.ilist(cs)} {itemsize} {ch} "
                            f"{'none' if sb is None else sb}")
                expect.append((rows[j], nbytes, info, sc["key"], cs))
                j += 1
        if not ok_parse or j != len(rows):
            ctx.corr_mismatch("stats-lines", info, lines, "one line per (scale, chunk size) + total")
            continue
        if total[0] != tot_c:
            ctx.oracle_fail("scale-stats total chunk count is wrong", {"info": info, "reported": total[0], "true": tot_c})
        bad = oracle_readable(tot_b, total[2])
        if bad:
            ctx.oracle_fail("scale-stats total size: " + bad, {"info": info, "true_bytes": tot_b})
        ctx.case(("stats", repr(info)), nontrivial=True,
                 sample={"info": info, "stdout": lines} if rng.random() < 0.02 else None)
    if ctx.driver_ok and reqs:
        reps = core.driver_batch(reqs)
        rd = core.driver_batch([f"readable {e[1]}" for e in expect])
        for rep, r2, (row, nbytes, info, key, cs) in zip(reps, rd, expect):
            c, d, b = (int(x) for x in rep.split()[:3])
            if (c, d) != (row[0], row[1]) or b != nbytes:
                ctx.corr_mismatch("stats-row", {"info": info, "scale": key, "chunk_size": cs},
                                  [row[0], row[1], nbytes], [c, d, b])
            if r2.rsplit("|", 1)[0] != row[2]:
                ctx.corr_mismatch("stats-readable", {"bytes": nbytes}, row[2], r2)
    # ---- (c) the chunks a conversion really writes vs the reported numbers --------------------------
    for _ in range(ctx.budget(60, 1500)):
        size = [rng.randrange(1, 14) for _ in range(3)]
        cs = [rng.choice([1, 2, 3, 4, 5, 8, 16]) for _ in range(3)]
        ch = rng.choice([1, 1, 2, 3])
        dt = rng.choice(["uint8", "uint16", "uint32", "float32", "uint64"])
        info = {"data_type": dt, "num_channels": ch, "type": "image",
                "scales": [{"key": "full", "size": size, "chunk_sizes": [cs], "encoding": "raw",
                            "resolution": [1, 1, 1], "voxel_offset": [0, 0, 0]}]}
        shape = tuple(size) + ((ch,) if ch > 1 or rng.random() < 0.3 else ())
        if len(shape) == 4 and shape[3] != ch:
            shape = tuple(size) + (ch,)
        vol = np.zeros(shape, dtype=dt)
        spy = SpyWriter(info)
        try:
            volume_reader.volume_to_precomputed(spy, vol)
        except Exception as exc:  # noqa
            ctx.oracle_fail(f"volume_to_precomputed raised {type(exc).__name__}: {exc}", info)
            continue
        buf = io.StringIO()
        with contextlib.redirect_stdout(buf):
            scale_stats.show_scales_info(info)
        m = re.search(r": ([0-9,]+) chunks", buf.getvalue())
        reported = int(m.group(1).replace(",", ""))
        written = len(set(c[1] for c in spy.calls))
        wbytes = sum(c[3] for c in spy.calls)
        true_bytes = size[0] * size[1] * size[2] * np.dtype(dt).itemsize * ch
        ctx.case(("written", tuple(size), tuple(cs), ch, dt), nontrivial=written > 1)
        if reported != written or len(spy.calls) != written:
            ctx.oracle_fail("reported chunk count differs from the chunks the conversion writes",
                            {"size": size, "chunk_size": cs, "reported": reported, "written": written,
                             "write_calls": len(spy.calls)})
        if wbytes != true_bytes:
            ctx.oracle_fail("bytes written by the conversion differ from the decoded size",
                            {"size": size, "chunk_size": cs, "written_bytes": wbytes, "true": true_bytes})
        if ctx.driver_ok:
            rep = core.driver_batch([f"stats-row {core.ilist(size)} {core.ilist(cs)} {np.dtype(dt).itemsize} {ch} none"])[0]
            c, d, b, g = (int(x) for x in rep.split())
            if (c, b, g) != (written, wbytes, written):
                ctx.corr_mismatch("written-vs-model", {"size": size, "chunk_size": cs}, [written, wbytes], [c, b, g])


def replay(ctx, data):
    from neuroglancer_scripts import utils
    f = data.get("failure") or {}
    inp = f.get("input", {})
    if "count" in inp:
        n = inp["count"]
        s = utils.readable_count(n)
        bad = oracle_readable(int(n), s)
        print(f"readable_count({n}) = {s!r}: {bad or 'ok'}")
        if bad:
            ctx.oracle_fail("readable_count: " + bad, {"count": n, "output": s})
    else:
        run(ctx)
