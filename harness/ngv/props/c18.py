"""C18 — I/O failures and interrupted writes never yield silently wrong data."""
import errno
import gzip
import json
import os
import resource
import shutil
import signal
import tempfile
import zlib

import numpy as np

from .. import core
from ..faultinj import Injector

RULE = ("per dataset (plain files in the 4 layouts, raw/compressed_segmentation/jpeg; sharded with both "
        "buffering strategies; HTTP plain and sharded), several chunks stored first; then for EVERY I/O call "
        "site recorded for each operation (store_chunk new/overwrite, store_file, fetch_chunk, fetch_file, "
        "file_exists; sharded: a session of stores + close, fetch_chunk) x every error in {ENOSPC, EACCES, "
        "EIO, ENOENT}: the operation is re-run on a fresh copy with that call failing (writes let half of "
        "their bytes through first); for every call site: a forked child is killed (os._exit, buffers lost) "
        "just before the call and in the middle of each write; afterwards a fresh accessor reads every "
        "chunk. Real OS failures without patching: RLIMIT_FSIZE (EFBIG) in a forked child, ENOSPC through a "
        "link to /dev/full. Every strict prefix of stored chunk files (all lengths up to 400 bytes, 80 "
        "sampled lengths above) for raw / compressed_segmentation / jpeg x plain / gzip is read back. HTTP: "
        "each request of an operation failing with connection reset, timeout, truncated body, 403/404/429/500/"
        "502/503. Enumeration of call sites is complete per dataset (exhaustive over the recorded trace).")
ASSUMPTIONS = [
    "an interruption is a process death at an I/O call boundary or in the middle of one write call; the final "
    "index write of a shard (at most 16*2^minishard_bits bytes, one write call) is not torn",
    "a non-empty strict prefix of a gzip stream is refused by the gzip module (validated on every prefix tried)",
    "the on-disk behaviour of the kernel (write-back, ordering after a power failure) is outside the model",
]
ERRS = [errno.ENOSPC, errno.EACCES, errno.EIO, errno.ENOENT]
COORDS = [(0, 4, 0, 4, 0, 4), (4, 8, 0, 4, 0, 4), (0, 4, 4, 6, 0, 4), (4, 8, 4, 6, 0, 4)]


def make_info(dt="uint16", C=2, enc="raw", sharding=None):
    sc = {"key": "k", "size": [8, 6, 4], "chunk_sizes": [[4, 4, 4]], "encoding": enc, "resolution": [1, 1, 1],
          "voxel_offset": [0, 0, 0]}
    if enc == "compressed_segmentation":
        sc["compressed_segmentation_block_size"] = [2, 2, 2]
    if sharding:
        sc["sharding"] = sharding
    return {"type": "image", "data_type": dt, "num_channels": C, "scales": [sc]}


def chunk_array(rng, info, c, salt):
    C = info["num_channels"]
    shape = (C, c[5] - c[4], c[3] - c[2], c[1] - c[0])
    nrng = np.random.default_rng(rng.getrandbits(32) ^ salt)
    if info["scales"][0]["encoding"] == "jpeg":
        base = np.linspace(20, 200, int(np.prod(shape))).reshape(shape)
        return (base + nrng.integers(0, 10)).astype("uint8")
    if info["data_type"] == "float32":
        return nrng.standard_normal(shape).astype("float32")
    return nrng.integers(0, min(np.iinfo(info["data_type"]).max, 50000), size=shape).astype(info["data_type"])


def classify_read(pio, key, c):
    """('ok', array) | ('DataAccessError'|'InvalidFormatError'|<other class>, None)"""
    from neuroglancer_scripts.accessor import DataAccessError
    from neuroglancer_scripts.chunk_encoding import InvalidFormatError
    try:
        return "ok", pio.read_chunk(key, c)
    except DataAccessError:
        return "DataAccessError", None
    except InvalidFormatError:
        return "InvalidFormatError", None
    except Exception as exc:  # noqa
        return type(exc).__name__, None


def fresh_reader(base, opts=None, info=None):
    from neuroglancer_scripts import accessor, precomputed_io
    acc = accessor.get_accessor_for_url(base, opts or {})
    if info is not None:
        return precomputed_io.PrecomputedIO(info, acc)
    return precomputed_io.get_IO_for_existing_dataset(acc)


def run_in_child(fn):
    """fork; returns the child's exit status (77 = killed by the injector, 0 = returned, 1 = DataAccessError,
    2 = other OSError, 3 = anything else)"""
    from neuroglancer_scripts.accessor import DataAccessError
    pid = os.fork()
    if pid == 0:
        code = 3
        try:
            try:
                fn()
                code = 0
            except DataAccessError:
                code = 1
            except OSError:
                code = 2
            except BaseException:  # noqa
                code = 3
        finally:
            os._exit(code)
    _, st = os.waitpid(pid, 0)
    return os.WEXITSTATUS(st) if os.WIFEXITED(st) else 100 + os.WTERMSIG(st)


# =====================================================================================================
def plain_files(ctx, reqs, meta):
    from neuroglancer_scripts import precomputed_io
    from neuroglancer_scripts.accessor import DataAccessError
    from neuroglancer_scripts.file_accessor import FileAccessor
    rng = ctx.rng
    for _ in range(ctx.budget(6, 30)):
        cfg = {"flat": rng.random() < 0.5, "gzip": rng.random() < 0.5}
        dt = rng.choice(["uint8", "uint16", "uint32", "float32"])
        info = make_info(dt, rng.choice([1, 2]))
        tmp = tempfile.mkdtemp(prefix="ngv_c18_")
        try:
            base0 = os.path.join(tmp, "base")
            acc = FileAccessor(base0, **cfg)
            pio = precomputed_io.get_IO_for_new_dataset(info, acc)
            stored = {}
            for i, c in enumerate(COORDS[:3]):
                stored[c] = chunk_array(rng, info, c, i)
                pio.write_chunk(stored[c], "k", c)
            info_bytes = FileAccessor(base0, **cfg).fetch_file("info")
            new_c = COORDS[3]
            new_arr = chunk_array(rng, info, new_c, 99)
            over_c = COORDS[0]
            over_arr = chunk_array(rng, info, over_c, 77)
            isz = np.dtype(dt).itemsize

            def ops(a, p):
                return {
                    "store_chunk(new)": (lambda: p.write_chunk(new_arr, "k", new_c), new_c, new_arr, None),
                    "store_chunk(overwrite)": (lambda: p.write_chunk(over_arr, "k", over_c), over_c, over_arr, stored[over_c]),
                    "store_file": (lambda: a.store_file("extra.json", b'{"a": 1}' * 40, mime_type="application/json"), None, None, None),
                    "store_file(overwrite)": (lambda: a.store_file("info", json.dumps(dict(info, extra=1)).encode(), mime_type="application/json", overwrite=True), None, None, None),
                    "fetch_chunk": (lambda: p.read_chunk("k", COORDS[1]), None, None, None),
                    "fetch_file": (lambda: a.fetch_file("info"), None, None, None),
                    "file_exists": (lambda: a.file_exists("info"), None, None, None),
                    "file_exists(missing)": (lambda: a.file_exists("nothing"), None, None, None),
                }
            # refusals without any injected fault: an existing name, no permission to overwrite
            for what, fn, tc0 in [
                    ("store_file(existing, overwrite=False)",
                     lambda a: a.store_file("info", b"{}", mime_type="application/json"), None),
                    ("store_chunk(existing, overwrite=False)",
                     lambda a: a.store_chunk(b"\0" * 7, "k", COORDS[0], mime_type="application/octet-stream",
                                             overwrite=False), COORDS[0])]:
                work = os.path.join(tmp, "w")
                shutil.copytree(base0, work)
                a = FileAccessor(work, **cfg)
                desc = {"accessor": "file", "layout": cfg, "operation": what}
                try:
                    fn(a)
                    ctx.oracle_fail("storing over an existing name without permission to overwrite returned normally", desc)
                except DataAccessError:
                    pass
                except Exception as exc:  # noqa
                    ctx.oracle_fail(f"a refused store surfaced as {type(exc).__name__}", desc)
                ctx.case(("refused", what, json.dumps(cfg)))
                check_after(ctx, work, cfg, info, stored, tc0, None, stored.get(tc0) if tc0 else None, desc,
                            untouched=True, info_bytes=info_bytes)
                shutil.rmtree(work)
            names = list(ops(None, None).keys())
            for opname in names:
                # reference run: the trace of primitives and the complete result
                work = os.path.join(tmp, "w")
                shutil.copytree(base0, work)
                a = FileAccessor(work, **cfg)
                p = precomputed_io.PrecomputedIO(info, a)
                fn, tc, tarr, told = ops(a, p)[opname]
                with Injector(work) as rec:
                    fn()
                trace = rec.trace
                full_gz_len = None
                if tc is not None and cfg["gzip"]:
                    full_gz_len = os.path.getsize(chunk_file(work, cfg, tc))
                shutil.rmtree(work)
                ctx.hist("trace_len:" + opname, len(trace))
                for k in range(len(trace)):
                    prim = trace[k][0]
                    for err in ERRS:
                        work = os.path.join(tmp, "w")
                        shutil.copytree(base0, work)
                        a = FileAccessor(work, **cfg)
                        p = precomputed_io.PrecomputedIO(info, a)
                        fn, tc, tarr, told = ops(a, p)[opname]
                        desc = {"accessor": "file", "layout": cfg, "data_type": dt, "operation": opname,
                                "call": k, "primitive": prim, "path": trace[k][1], "errno": errno.errorcode[err]}
                        with Injector(work, "fault", k, err) as inj:
                            try:
                                fn()
                                out = "ok"
                            except DataAccessError:
                                out = "DataAccessError"
                            except Exception as exc:  # noqa
                                out = type(exc).__name__
                        ctx.case(("file-fault", opname, k, err, json.dumps(cfg)))
                        ctx.hist("fault_primitive", prim)
                        if not inj.fired:
                            ctx.bump("fault_not_reached")
                        elif out == "ok":
                            ctx.oracle_fail("an operation returned normally although one of its I/O calls failed", desc)
                        elif out != "DataAccessError":
                            ctx.oracle_fail(f"an I/O failure surfaced as {out} instead of a data-access error", desc)
                        before_open = inj.fired and "open" not in [t[0] for t in inj.trace[:-1]] and prim != "write"
                        keep_info = info_bytes if (opname != "store_file(overwrite)" or
                                                   (before_open and prim in ("makedirs", "open"))) else None
                        check_after(ctx, work, cfg, info, stored, tc, tarr, told, desc,
                                    untouched=before_open and prim in ("makedirs", "open"), info_bytes=keep_info)
                        if tc is not None and inj.fired and dt != "float32":
                            model_store(ctx, reqs, meta, info, work, cfg, tc, tarr, told, isz, full_gz_len,
                                        "fault", prim, out, desc)
                        shutil.rmtree(work)
                    # interruption just before call k, and in the middle of a write
                    for mode in (["kill-before", "kill-mid"] if prim == "write" else ["kill-before"]):
                        work = os.path.join(tmp, "w")
                        shutil.copytree(base0, work)
                        a = FileAccessor(work, **cfg)
                        p = precomputed_io.PrecomputedIO(info, a)
                        fn, tc, tarr, told = ops(a, p)[opname]
                        desc = {"accessor": "file", "layout": cfg, "data_type": dt, "operation": opname,
                                "interrupted": mode, "call": k, "primitive": prim, "path": trace[k][1]}

                        def child(fn=fn, work=work, k=k, mode=mode):
                            with Injector(work, mode, k):
                                fn()
                        st = run_in_child(child)
                        ctx.case(("file-kill", opname, k, mode, json.dumps(cfg)))
                        ctx.hist("kill_primitive", prim + ":" + mode)
                        if st != 77:
                            ctx.notes.append(f"kill point not reached ({opname} call {k}): exit {st}")
                        check_after(ctx, work, cfg, info, stored, tc, tarr, told, desc,
                                    untouched=(st == 77 and mode == "kill-before" and prim in ("makedirs", "open")),
                                    info_bytes=info_bytes if opname != "store_file(overwrite)" else None)
                        if tc is not None and st == 77 and dt != "float32":
                            model_store(ctx, reqs, meta, info, work, cfg, tc, tarr, told, isz, full_gz_len,
                                        "crash", prim, "died", desc)
                        shutil.rmtree(work)
        finally:
            shutil.rmtree(tmp, ignore_errors=True)


def chunk_file(base, cfg, c):
    name = ("k/%d-%d_%d-%d_%d-%d" if cfg["flat"] else "k/%d-%d/%d-%d/%d-%d") % c
    return os.path.join(base, name + (".gz" if cfg["gzip"] else ""))


def check_after(ctx, work, cfg, info, stored, tc, tarr, told, desc, untouched=False, info_bytes=None):
    """fresh accessor: every other chunk unchanged; the target is old, new, or an error.
    `untouched`: the failure / interruption happened before the target was opened, so whatever was
    stored under that name earlier must still be there, unchanged"""
    pio = fresh_reader(work, cfg, info)
    if info_bytes is not None:
        try:
            now = pio.accessor.fetch_file("info")
        except Exception as exc:  # noqa
            now = type(exc).__name__
        if now != info_bytes:
            ctx.oracle_fail("the info file stored earlier is gone or changed after a failed/interrupted operation "
                            "that never opened it for writing", dict(desc, now=str(now)[:60]))
    for c, arr in stored.items():
        cls, got = classify_read(pio, "k", c)
        if c == tc:
            continue
        if cls != "ok" or not np.array_equal(got, arr):
            ctx.oracle_fail("a chunk stored earlier is no longer readable or changed after a failed/interrupted "
                            "operation on another name", dict(desc, chunk=list(c), got=cls))
    if tc is None:
        return
    cls, got = classify_read(pio, "k", tc)
    ctx.hist("target_after", cls)
    if untouched and told is not None and not (cls == "ok" and np.array_equal(got, told)):
        ctx.oracle_fail("a chunk stored earlier is gone or changed although the failed/interrupted store never "
                        "opened its file", dict(desc, chunk=list(tc), now=cls))
    if cls == "ok":
        if not (np.array_equal(got, tarr) or (told is not None and np.array_equal(got, told))):
            ctx.oracle_fail("after a failed/interrupted store a reader decodes voxel values that are neither "
                            "the old nor the new chunk", dict(desc, chunk=list(tc)))
    elif cls not in ("DataAccessError", "InvalidFormatError"):
        ctx.oracle_fail(f"reading a chunk left by a failed/interrupted store raises {cls}, not a data-access or "
                        "format error", dict(desc, chunk=list(tc)))


def disk_class(path, gz):
    if not os.path.exists(path):
        return "absent", 0
    raw = open(path, "rb").read()
    if not gz:
        return "plain:" + core.hexs(raw), len(raw)
    if not raw:
        return "gzempty", 0
    try:
        return "gz:" + core.hexs(gzip.decompress(raw)), len(raw)
    except (OSError, EOFError, zlib.error):
        return "gztorn", len(raw)


def model_store(ctx, reqs, meta, info, work, cfg, tc, tarr, told, isz, full_gz_len, kind, prim, out, desc):
    """compare outcome / state of the target / read-back with Fault.storeRun"""
    path = chunk_file(work, cfg, tc)
    dcls, j = disk_class(path, cfg["gzip"])
    k = {"makedirs": 0, "open": 1, "write": 2, "close": 3}.get(prim)
    if k is None:
        return
    if kind == "crash" and prim == "write" and j == 0:
        k = 2
    elif kind == "crash" and prim in ("write", "close"):
        k = 3
    old = "absent" if told is None else ("gz:" if cfg["gzip"] else "plain:") + core.hexs(
        told.astype(told.dtype.newbyteorder("<")).tobytes())
    vals = ",".join(str(int(v)) for v in tarr.astype(tarr.dtype.newbyteorder("<")).view(
        {1: "u1", 2: "<u2", 4: "<u4", 8: "<u8"}[isz]).ravel())
    pio = fresh_reader(work, cfg, info)
    cls, got = classify_read(pio, "k", tc)
    rd = cls if cls != "ok" else "ok:" + ",".join(str(int(v)) for v in got.view(
        {1: "u1", 2: "<u2", 4: "<u4", 8: "<u8"}[isz]).ravel())
    reqs.append(f"fault-store {1 if cfg['gzip'] else 0} {full_gz_len or 0} {old} {isz} {vals} {kind}:{k}:{j}")
    meta.append((desc, f"{out} {dcls} {rd}"))


# =====================================================================================================
def prefixes(ctx):
    """every strict prefix of a stored chunk file must be refused by the reader"""
    from neuroglancer_scripts import precomputed_io
    from neuroglancer_scripts.file_accessor import FileAccessor
    rng = ctx.rng
    for _ in range(ctx.budget(14, 80)):
        enc = rng.choice(["raw", "compressed_segmentation", "jpeg"])
        gz = rng.random() < 0.5
        dt = {"raw": rng.choice(["uint8", "uint16", "uint64", "float32"]),
              "compressed_segmentation": rng.choice(["uint32", "uint64"]), "jpeg": "uint8"}[enc]
        C = rng.choice([1, 3]) if enc == "jpeg" else rng.choice([1, 2])
        info = make_info(dt, C, enc)
        tmp = tempfile.mkdtemp(prefix="ngv_c18p_")
        try:
            cfg = {"flat": True, "gzip": gz}
            acc = FileAccessor(tmp, **cfg)
            pio = precomputed_io.get_IO_for_new_dataset(info, acc)
            c = COORDS[0]
            arr = chunk_array(rng, info, c, 5)
            if enc == "compressed_segmentation":
                arr = (arr % rng.choice([2, 5, 300])).astype(dt)
            pio.write_chunk(arr, "k", c)
            path = chunk_file(tmp, cfg, c)
            if not os.path.exists(path):        # image/jpeg is never gzipped
                path = chunk_file(tmp, dict(cfg, gzip=False), c)
            whole = open(path, "rb").read()
            n = len(whole)
            lens = list(range(n)) if n <= 400 else sorted(set(
                list(range(0, 40)) + list(range(n - 40, n)) + [rng.randrange(n) for _ in range(80)]))
            desc = {"encoding": enc, "gzip": gz, "data_type": dt, "channels": C, "file_length": n}
            ctx.hist("prefix_files", f"{enc}{'+gzip' if gz else ''}")
            for j in lens:
                with open(path, "wb") as f:
                    f.write(whole[:j])
                cls, got = classify_read(fresh_reader(tmp, cfg), "k", c)
                ctx.case(("prefix", enc, gz, j, whole[:8]))
                ctx.bump("prefixes_read")
                if cls == "ok":
                    same = got.shape == arr.shape and np.array_equal(got, arr) if enc != "jpeg" else False
                    ctx.oracle_fail("a truncated chunk file (strict prefix of a complete one) is decoded "
                                    + ("as if complete" if same else "to wrong voxel values") + " without an error",
                                    dict(desc, prefix_length=j))
                    break
                if cls not in ("DataAccessError", "InvalidFormatError"):
                    ctx.oracle_fail(f"a truncated chunk file makes the reader raise {cls}", dict(desc, prefix_length=j))
                    break
        finally:
            shutil.rmtree(tmp, ignore_errors=True)


# =====================================================================================================
def os_faults(ctx):
    """real kernel failures, no patching"""
    from neuroglancer_scripts import precomputed_io
    from neuroglancer_scripts.accessor import DataAccessError
    from neuroglancer_scripts.file_accessor import FileAccessor
    rng = ctx.rng
    for _ in range(ctx.budget(6, 24)):
        cfg = {"flat": rng.random() < 0.5, "gzip": rng.random() < 0.5}
        tmp = tempfile.mkdtemp(prefix="ngv_c18o_")
        try:
            acc = FileAccessor(tmp, **cfg)
            big = bytes(np.random.default_rng(rng.getrandbits(32)).integers(0, 256, 200000, dtype=np.uint8))
            c = (0, 64, 0, 64, 0, 64)
            limit = rng.choice([1, 4096, 20000, 65536, 100000])
            desc = {"layout": cfg, "payload_bytes": len(big), "RLIMIT_FSIZE": limit}

            def child():
                signal.signal(signal.SIGXFSZ, signal.SIG_IGN)
                resource.setrlimit(resource.RLIMIT_FSIZE, (limit, limit))
                acc.store_chunk(big, "k", c)
            st = run_in_child(child)
            ctx.case(("fsize", json.dumps(cfg), limit))
            ctx.hist("fsize_child_status", st)
            if st == 0:
                try:
                    back = FileAccessor(tmp, **cfg).fetch_chunk("k", c)
                except Exception as exc:  # noqa
                    back = type(exc).__name__
                if back != big:
                    ctx.oracle_fail("store_chunk returned normally although the file-size limit cut the file short "
                                    "(the stored chunk does not read back)", desc)
            elif st != 1:
                ctx.oracle_fail(f"a write refused by the kernel (EFBIG) surfaced with child status {st}, not as a "
                                "data-access error", desc)
            # ENOSPC at flush time: the chunk path is a link to /dev/full
            if os.path.exists("/dev/full"):
                c2 = (64, 128, 0, 64, 0, 64)
                p = chunk_file(tmp, cfg, c2).replace("/k/", "/k2/")
                os.makedirs(os.path.dirname(p), exist_ok=True)
                os.symlink("/dev/full", p)
                try:
                    acc.store_chunk(big[:5000], "k2", c2)
                    ctx.oracle_fail("store_chunk returned normally although the device is full (ENOSPC at flush)",
                                    dict(desc, via="/dev/full"))
                except DataAccessError:
                    pass
                except Exception as exc:  # noqa
                    ctx.oracle_fail(f"ENOSPC surfaced as {type(exc).__name__}", dict(desc, via="/dev/full"))
                ctx.case(("devfull", json.dumps(cfg)))
        finally:
            shutil.rmtree(tmp, ignore_errors=True)


# =====================================================================================================
def sharded(ctx, reqs, meta):
    from neuroglancer_scripts import precomputed_io
    from neuroglancer_scripts.accessor import DataAccessError
    from neuroglancer_scripts.sharded_file_accessor import ShardedFileAccessor
    rng = ctx.rng
    for _ in range(ctx.budget(4, 16)):
        spec = {"@type": "neuroglancer_uint64_sharded_v1", "minishard_bits": rng.randrange(0, 3),
                "shard_bits": rng.randrange(0, 2), "hash": "identity",
                "minishard_index_encoding": rng.choice(["raw", "gzip"]),
                "data_encoding": rng.choice(["raw", "gzip"]), "preshift_bits": rng.randrange(0, 3)}
        strategy = rng.choice(["on disk", "in memory"])
        if _ == 0:
            # always present: disk-backed write buffers and two minishards in one shard, so that the length book-keeping
            # of one minishard's buffer decides where the next one's data is expected
            spec.update({"minishard_bits": 1, "shard_bits": 0, "preshift_bits": 0, "data_encoding": "raw",
                         "minishard_index_encoding": "raw"})
            strategy = "on disk"
        if _ == 1:
            # always present: one chunk per minishard, so that a failed store leaves a minishard without any entry
            spec.update({"minishard_bits": 2, "shard_bits": 0, "preshift_bits": 0})
            strategy = "on disk"
        info = make_info("uint16", 1, "raw", spec)
        tmp = tempfile.mkdtemp(prefix="ngv_c18s_")
        old_tmpdir = tempfile.tempdir
        try:
            base = os.path.join(tmp, "ds")
            os.makedirs(base)
            os.makedirs(os.path.join(tmp, "t"))
            tempfile.tempdir = os.path.join(tmp, "t")     # the on-disk buffers count as I/O of the accessor
            with open(os.path.join(base, "info"), "w") as f:
                json.dump(info, f)
            arrays = {c: chunk_array(rng, info, c, i) for i, c in enumerate(COORDS)}
            order = list(COORDS)
            rng.shuffle(order)

            def session(root):
                import atexit
                acc = ShardedFileAccessor(os.path.join(root, "ds"), strategy=strategy) if strategy != "on disk" \
                    else ShardedFileAccessor(os.path.join(root, "ds"))
                atexit.unregister(acc.close)     # (a failed session must not be retried at interpreter exit)
                pio = precomputed_io.PrecomputedIO(info, acc)
                for c in order:
                    pio.write_chunk(arrays[c], "k", c)
                acc.close()
            with Injector(tmp) as rec:
                session(tmp)
            trace = rec.trace
            shutil.rmtree(os.path.join(base, "k"), ignore_errors=True)
            ctx.hist("trace_len:sharded-session", len(trace))
            sites = list(range(len(trace)))
            if len(sites) > 60 and ctx.tier == "quick":
                sites = sorted(set(sites[:10] + sites[-25:] + rng.sample(sites, 25)))
            for k in sites:
                prim = trace[k][0]
                err = ERRS[k % len(ERRS)]
                desc = {"accessor": "sharded-file", "sharding": spec, "strategy": strategy, "call": k,
                        "primitive": prim, "path": trace[k][1], "errno": errno.errorcode[err]}
                with Injector(tmp, "fault", k, err) as inj:
                    try:
                        session(tmp)
                        out = "ok"
                    except (OSError, DataAccessError):
                        out = "IOError"
                    except Exception as exc:  # noqa
                        out = type(exc).__name__
                ctx.case(("shard-fault", k, err, json.dumps(spec), strategy))
                ctx.hist("fault_primitive", "shard:" + prim)
                if inj.fired and out == "ok":
                    ctx.oracle_fail("a sharded write session completed normally although one of its I/O calls failed", desc)
                elif inj.fired and out != "IOError":
                    ctx.oracle_fail(f"an I/O failure in the sharded accessor surfaced as {out}", desc)
                check_shards(ctx, base, info, arrays, desc, must_be_complete=(out == "ok"))
                shutil.rmtree(os.path.join(base, "k"), ignore_errors=True)
                # interruption
                for mode in (["kill-before", "kill-mid"] if prim == "write" else ["kill-before"]):
                    d2 = dict(desc, interrupted=mode)
                    d2.pop("errno")

                    def child(k=k, mode=mode):
                        with Injector(tmp, mode, k):
                            session(tmp)
                    st = run_in_child(child)
                    ctx.case(("shard-kill", k, mode, json.dumps(spec), strategy))
                    ctx.hist("kill_primitive", "shard:" + prim + ":" + mode)
                    check_shards(ctx, base, info, arrays, d2, must_be_complete=(st == 0))
                    shutil.rmtree(os.path.join(base, "k"), ignore_errors=True)
                    for n in os.listdir(os.path.join(tmp, "t")):
                        shutil.rmtree(os.path.join(tmp, "t", n), ignore_errors=True)
            # ---- a caller that goes on after a reported failure: the failed chunk is skipped, the others are stored, the
            # accessor is closed. If close() returns normally, every chunk whose store returned normally must read back
            # ("everything stored earlier remains readable and unchanged"; a failure must not be silently absorbed) ----
            def resilient(root):
                import atexit
                try:
                    acc = ShardedFileAccessor(os.path.join(root, "ds"), strategy=strategy) if strategy != "on disk" \
                        else ShardedFileAccessor(os.path.join(root, "ds"))
                except (OSError, DataAccessError):
                    return [], False, []
                atexit.unregister(acc.close)
                pio = precomputed_io.PrecomputedIO(info, acc)
                ok, surfaced = [], []
                for c in order:
                    try:
                        pio.write_chunk(arrays[c], "k", c)
                        ok.append(c)
                    except (OSError, DataAccessError):
                        pass
                    except Exception as exc:  # noqa
                        surfaced.append(type(exc).__name__)
                try:
                    acc.close()
                    closed = True
                except (OSError, DataAccessError):
                    closed = False
                except Exception as exc:  # noqa
                    closed = False
                    surfaced.append("close:" + type(exc).__name__)
                if not closed and not surfaced:
                    # the caller removes the cause and closes AGAIN: a normal return now claims that everything accepted
                    # so far is on disk (a failed close must not be forgotten); a second failure of any kind is loud enough
                    try:
                        acc.close()
                        closed = True
                        retried.append(True)
                    except Exception:  # noqa
                        pass
                return ok, closed, surfaced
            for k in sites:
                prim = trace[k][0]
                err = ERRS[(k + 1) % len(ERRS)]
                desc = {"accessor": "sharded-file", "sharding": spec, "strategy": strategy, "call": k, "primitive": prim,
                        "path": trace[k][1], "errno": errno.errorcode[err], "caller": "continues after the failure, then closes"}
                retried = []
                with Injector(tmp, "fault", k, err) as inj:
                    ok, closed, surfaced = resilient(tmp)
                if retried:
                    ctx.bump("second_close_returned_normally")
                    desc["caller"] = "continues after the failure; the first close() fails, the second returns normally"
                ctx.case(("shard-fault-continue", k, err, json.dumps(spec), strategy))
                if inj.fired:
                    ctx.hist("continued_session", ("closed" if closed else "close failed") + f" {len(ok)}/{len(order)} stored")
                    for name in surfaced:
                        ctx.oracle_fail(f"an I/O failure in the sharded accessor surfaced as {name}", desc)
                    if closed:
                        pio2 = fresh_reader(base)
                        import atexit
                        atexit.unregister(pio2.accessor.close)
                        for c in ok:
                            cls, got = classify_read(pio2, "k", c)
                            if cls != "ok" or not np.array_equal(got, arrays[c]):
                                ctx.oracle_fail("after a reported I/O failure the caller stored the remaining chunks and close() "
                                                "returned normally, but a chunk whose store returned normally is "
                                                + ("unreadable (" + cls + ")" if cls != "ok" else "decoded to WRONG voxel values"),
                                                dict(desc, chunk=list(c), stored_ok=len(ok)),
                                                key=None)
                                break
                    else:
                        check_shards(ctx, base, info, arrays, desc, must_be_complete=False)
                shutil.rmtree(os.path.join(base, "k"), ignore_errors=True)
                for n in os.listdir(os.path.join(tmp, "t")):
                    shutil.rmtree(os.path.join(tmp, "t", n), ignore_errors=True)
            # ---- reads: every call site of fetch_chunk failing; every prefix of a shard file ----
            session(tmp)
            for c in COORDS:
                def rd(c=c):
                    import atexit
                    a = ShardedFileAccessor(base)
                    atexit.unregister(a.close)
                    return precomputed_io.PrecomputedIO(info, a).read_chunk("k", c)
                with Injector(tmp) as rec:
                    rd()
                for k in range(len(rec.trace)):
                    err = ERRS[(k + c[0]) % len(ERRS)]
                    desc = {"accessor": "sharded-file", "sharding": spec, "operation": "fetch_chunk", "chunk": list(c),
                            "call": k, "primitive": rec.trace[k][0], "path": rec.trace[k][1], "errno": errno.errorcode[err]}
                    with Injector(tmp, "fault", k, err) as inj:
                        try:
                            rd()
                            out = "ok"
                        except (OSError, DataAccessError):
                            out = "IOError"
                        except Exception as exc:  # noqa
                            out = type(exc).__name__
                    ctx.case(("shard-read-fault", k, err, json.dumps(spec), c))
                    ctx.hist("fault_primitive", "shard-read:" + rec.trace[k][0])
                    if inj.fired and out == "ok":
                        ctx.oracle_fail("a sharded fetch returned normally although one of its I/O calls failed", desc)
                    elif inj.fired and out != "IOError":
                        ctx.oracle_fail(f"an I/O failure in a sharded fetch surfaced as {out}", desc)
            for name in sorted(os.listdir(os.path.join(base, "k"))):
                path = os.path.join(base, "k", name)
                whole = open(path, "rb").read()
                n = len(whole)
                lens = list(range(n)) if n <= 300 else sorted(set(
                    list(range(0, 70)) + list(range(n - 60, n)) + [rng.randrange(n) for _ in range(60)]))
                for j in lens:
                    with open(path, "wb") as f:
                        f.write(whole[:j])
                    pio = fresh_reader(base)
                    import atexit
                    atexit.unregister(pio.accessor.close)
                    for c in COORDS:
                        cls, got = classify_read(pio, "k", c)
                        ctx.bump("shard_prefixes_read")
                        desc = {"sharding": spec, "shard_file": name, "file_length": n, "prefix_length": j, "chunk": list(c)}
                        if cls == "ok" and not np.array_equal(got, arrays[c]):
                            ctx.oracle_fail("a truncated shard file is decoded to wrong voxel values", desc)
                        elif cls not in ("ok", "DataAccessError", "InvalidFormatError", "ShardedIOError", "OSError"):
                            ctx.oracle_fail(f"a truncated shard file makes the reader raise {cls}", desc)
                with open(path, "wb") as f:
                    f.write(whole)
            shutil.rmtree(os.path.join(base, "k"), ignore_errors=True)
            # model: a shard file whose index placeholder is still zero lists nothing
            m, p = spec["minishard_bits"], spec["preshift_bits"]
            body = bytes(rng.randrange(256) for _ in range(rng.randrange(0, 120)))
            j = rng.randrange(0, len(body) + 1)
            shard_dir = os.path.join(base, "k")
            os.makedirs(shard_dir, exist_ok=True)
            with open(os.path.join(shard_dir, "0.shard"), "wb") as f:
                f.write(b"\0" * (2 ** m * 16) + body[:j])
            pio = fresh_reader(base)
            res = []
            for c in COORDS:
                cls, got = classify_read(pio, "k", c)
                res.append(cls)
                if cls == "ok":
                    ctx.oracle_fail("a shard file with a zeroed index yields chunk data",
                                    {"sharding": spec, "body": body[:j].hex(), "chunk": list(c)})
            reqs.append(f"fault-shard {m} {p} {core.hexs(body)} {j} 0,1,2,3")
            meta.append(({"sharding": spec, "body_len": j}, "none none none none"))
            shutil.rmtree(shard_dir, ignore_errors=True)
        finally:
            tempfile.tempdir = old_tmpdir
            shutil.rmtree(tmp, ignore_errors=True)


def check_shards(ctx, base, info, arrays, desc, must_be_complete):
    """fresh sharded reader: each chunk correct, or an error; wrong voxels never"""
    try:
        import atexit
        pio = fresh_reader(base)
        atexit.unregister(pio.accessor.close)
    except Exception as exc:  # noqa
        ctx.oracle_fail(f"dataset cannot be opened after a failed/interrupted session: {type(exc).__name__}", desc)
        return
    for c, arr in arrays.items():
        cls, got = classify_read(pio, "k", c)
        ctx.hist("shard_chunk_after", cls if cls != "ok" else "correct")
        if cls == "ok":
            if not np.array_equal(got, arr):
                ctx.oracle_fail("after a failed/interrupted sharded session a reader decodes wrong voxel values",
                                dict(desc, chunk=list(c)))
        elif must_be_complete:
            ctx.oracle_fail(f"the session completed normally but a chunk is unreadable ({cls})", dict(desc, chunk=list(c)))


# =====================================================================================================
def http(ctx):
    import requests

    from neuroglancer_scripts import accessor
    from neuroglancer_scripts.accessor import DataAccessError
    from neuroglancer_scripts.file_accessor import FileAccessor
    from .. import shardlib
    from ..httpsrv import Server
    rng = ctx.rng
    tmp = tempfile.mkdtemp(prefix="ngv_c18h_")
    srv = None
    try:
        base = os.path.join(tmp, "plain")
        acc = FileAccessor(base, flat=False, gzip=True)
        acc.store_file("info", json.dumps(make_info()).encode(), mime_type="application/json")
        payload = {c: bytes(rng.randrange(256) for _ in range(40)) for c in COORDS}
        for c, b in payload.items():
            acc.store_chunk(b, "k", c)
        ds = shardlib.gen_dataset(rng, small=True)
        while not ds["order"]:
            ds = shardlib.gen_dataset(rng, small=True)
        shardlib.write_dataset(ds, os.path.join(tmp, "sh"), key="k")
        with open(os.path.join(tmp, "sh", "info"), "w") as f:
            json.dump(shardlib.make_info(ds, "k"), f)
        srv = Server(tmp)
        real_request = requests.Session.request

        class Fail:
            def __init__(self, k, kind):
                self.k, self.kind, self.n, self.fired = k, kind, 0, False

            def __call__(self, sess, method, url, **kw):
                i = self.n
                self.n += 1
                if i != self.k:
                    return real_request(sess, method, url, **kw)
                self.fired = True
                if self.kind == "reset":
                    raise requests.exceptions.ConnectionError("connection reset by peer")
                if self.kind == "timeout":
                    raise requests.exceptions.Timeout("timed out")
                if self.kind == "truncated":
                    raise requests.exceptions.ChunkedEncodingError("IncompleteRead")
                r = requests.Response()
                r.status_code = int(self.kind)
                r._content = b"<html>error page</html>"
                r.url = url
                return r
        kinds = ["reset", "timeout", "truncated", "403", "404", "429", "500", "502", "503"]
        cell = ds["order"][0]
        ops = {
            "plain fetch_chunk": (lambda a: a.fetch_chunk("k", COORDS[0]), "/plain", payload[COORDS[0]]),
            "plain fetch_file": (lambda a: a.fetch_file("info"), "/plain", None),
            "plain file_exists": (lambda a: a.file_exists("info"), "/plain", True),
            "sharded fetch_chunk": (lambda a: a.fetch_chunk("k", shardlib.coords_of(ds, cell)), "/sh", ds["payload"][cell]),
        }
        for opname, (fn, path, want) in ops.items():
            counter = Fail(-1, "none")
            requests.Session.request = lambda s, m, u, _c=counter, **kw: _c(s, m, u, **kw)
            try:
                a = accessor.get_accessor_for_url(srv.url + path)
                before = counter.n
                fn(a)
                nreq = counter.n - before
            finally:
                requests.Session.request = real_request
            ctx.hist("http_requests:" + opname, nreq)
            for k in range(nreq):
                for kind in kinds:
                    a = accessor.get_accessor_for_url(srv.url + path)
                    f = Fail(k, kind)
                    requests.Session.request = lambda s, m, u, _c=f, **kw: _c(s, m, u, **kw)
                    desc = {"accessor": "http", "operation": opname, "request": k, "failure": kind}
                    try:
                        try:
                            r = fn(a)
                            out = "ok"
                        except DataAccessError:
                            out = "DataAccessError"
                        except OSError:
                            out = "IOError"
                        except Exception as exc:  # noqa
                            out = type(exc).__name__
                    finally:
                        requests.Session.request = real_request
                    ctx.case(("http", opname, k, kind))
                    ctx.hist("http_failure", kind)
                    if not f.fired:
                        continue
                    if out == "ok":
                        if opname == "plain file_exists" and kind == "404":
                            if r is not False:
                                ctx.oracle_fail("file_exists: 404 not reported as absent", desc)
                        elif want is None or r != want:
                            ctx.oracle_fail("an HTTP operation returned data although one of its requests failed", desc)
                        else:
                            ctx.oracle_fail("an HTTP operation returned normally although one of its requests failed", desc)
                    elif opname.startswith("plain") and out != "DataAccessError":
                        ctx.oracle_fail(f"a failing HTTP request surfaced as {out}, not a data-access error", desc)
                    elif out not in ("DataAccessError", "IOError"):
                        ctx.oracle_fail(f"a failing HTTP request surfaced as {out}, not an I/O error", desc)
                    # later reads are unaffected
                    try:
                        again = fn(a)
                        if want is not None and again != want:
                            ctx.oracle_fail("after a failed request the same accessor returns different data", desc)
                    except Exception as exc:  # noqa
                        ctx.oracle_fail(f"after a failed request the same accessor stays broken ({type(exc).__name__})", desc)
    finally:
        if srv:
            srv.close()
        shutil.rmtree(tmp, ignore_errors=True)


def buffers(ctx, reqs, meta):
    """the sharded writer's buffers under failures, next to the Lean `Buffers` model:
    (a) OnDiskByteArray.__add__ histories with failing open / partial writes; (b) MiniShard.store_cmc_chunk whose
    flush fails at its n-th deferred append, then a second flush and close"""
    import builtins
    from neuroglancer_scripts.sharded_base import ShardSpec
    from neuroglancer_scripts.sharded_file_accessor import InMemByteArray, MiniShard, OnDiskByteArray
    from .c05 import real_state
    rng = ctx.rng
    real_open = builtins.open
    # ---- (a) ----
    for _ in range(ctx.budget(25, 400)):
        tmp = tempfile.mkdtemp(prefix="ngv_c18b_")
        old_tmpdir = tempfile.tempdir
        tempfile.tempdir = tmp
        try:
            odb = OnDiskByteArray()
            hist, mem = [], b""
            plan = {"ev": "ok"}

            class W:
                def __init__(self, f, k):
                    self.f, self.k = f, k

                def write(self, b):
                    self.f.write(bytes(b)[:self.k])
                    self.f.flush()
                    raise OSError(errno.ENOSPC, "No space left on device")

                def __enter__(self):
                    return self

                def __exit__(self, *a):
                    self.f.close()

            def fake_open(path, mode="r", *a, **k):
                if str(path) == str(odb._file) and "a" in mode:
                    if plan["ev"] == "open":
                        raise OSError(errno.EACCES, "Permission denied")
                    if plan["ev"].startswith("w"):
                        return W(real_open(path, mode, *a, **k), int(plan["ev"][1:]))
                return real_open(path, mode, *a, **k)
            outcomes = []
            builtins.open = fake_open
            try:
                for _i in range(rng.randrange(1, 8)):
                    pay = bytes(rng.randrange(256) for _ in range(rng.choice([0, 1, 2, 5, 9])))
                    ev = rng.choice(["ok", "ok", "ok", "open", "w%d" % rng.randrange(0, len(pay) + 1)])
                    plan["ev"] = ev
                    try:
                        odb += pay
                        outcomes.append("ok")
                        mem += pay
                    except OSError:
                        outcomes.append("OSError")
                    except Exception as exc:  # noqa
                        outcomes.append(type(exc).__name__)
                    hist.append(core.hexs(pay) + ":" + ev)
            finally:
                builtins.open = real_open
            content = b"".join(bytes(b) for b in odb) if os.path.exists(odb._file) else b""
            desc = {"buffer": "OnDiskByteArray", "history": hist, "outcomes": outcomes}
            ctx.case(("odb", tuple(hist)))
            for h, o in zip(hist, outcomes):
                if o != ("ok" if h.endswith(":ok") else "OSError"):
                    ctx.oracle_fail(f"an append to the disk-backed buffer ended as {o}", desc)
            if content != mem or len(odb) != len(mem):
                ctx.oracle_fail("after failed appends the disk-backed write buffer no longer holds exactly the payloads of "
                                "the appends that returned normally (or reports another length)",
                                dict(desc, file=content.hex(), reported_len=len(odb), expected=mem.hex()))
            reqs.append("odb-run " + ";".join(hist))
            meta.append((desc, f"{core.hexs(content)} {len(odb)}"))
        finally:
            tempfile.tempdir = old_tmpdir
            shutil.rmtree(tmp, ignore_errors=True)
    # ---- (b) ----
    for _ in range(ctx.budget(40, 600)):
        m, s_, p = rng.randrange(3), rng.randrange(3), rng.randrange(3)
        fixed = rng.getrandbits(m + s_) if m + s_ else 0

        def rank_to_id(n, m=m, s_=s_, p=p, fixed=fixed):
            return ((n >> p) << (p + s_ + m)) + (fixed << p) + (n & ((1 << p) - 1))
        k = rng.randrange(2, 7)
        later = rng.sample(range(1, 9), k - 1)      # stored first, all waiting for rank 0
        okn = rng.randrange(0, k + 1)
        ms = MiniShard(ShardSpec(m, s_, "identity", "raw", "raw", p), strategy="in memory")

        class Failing(InMemByteArray):
            calls = 0
            fail_at = None

            def __iadd__(self, o):
                self.calls += 1
                if self.calls == self.fail_at:
                    raise OSError(errno.ENOSPC, "No space left on device")
                return super().__iadd__(o)
        ops = [(rank_to_id(r), bytes([r, 7, r][:1 + r % 3])) for r in later] + [(rank_to_id(0), b"\x00\x01")]
        desc = {"minishard": [m, s_, p], "ranks": later + [0], "flush_append_failing": okn + 1}
        try:
            for cid, pay in ops[:-1]:
                ms.store_cmc_chunk(pay, np.uint64(cid))
            fb = Failing(bytes(ms.databytearray))
            fb.fail_at = okn + 2          # call 1 is the append of the last store itself
            ms.databytearray = fb
            try:
                ms.store_cmc_chunk(ops[-1][1], np.uint64(ops[-1][0]))
                first = "ok " + real_state(ms)
            except OSError:
                first = "raised " + real_state(ms)
            fb.fail_at = None             # the fault is over (or never fired: fewer deferred appends than okn)
            ms.flush_buffer()
            ms.close()
            data = b"".join(bytes(b) for b in ms.databytearray)
            impl = first + "|closed " + real_state(ms) + " " + core.hexs(data)
        except Exception as exc:  # noqa
            impl = "!" + type(exc).__name__
            ctx.oracle_fail(f"a failing deferred append made the minishard writer raise {type(exc).__name__}: {exc}", desc)
        ctx.case(("ms-fail", m, s_, p, tuple(later), okn))
        # oracle: every stored chunk is listed in the closed minishard with its bytes
        if not impl.startswith("!"):
            from .c05 import walk_rows
            hdr = np.asarray(ms.header, dtype=np.uint64).reshape(-1, 3)
            rows = [(int(r[0]), int(r[2])) for r in hdr]
            for cid, pay in ops:
                if walk_rows(rows, data, cid) != pay:
                    ctx.oracle_fail("a chunk whose store returned normally is missing from the closed minishard after a "
                                    "deferred append failed once", dict(desc, id=cid))
                    break
        reqs.append(f"ms-run-fail {m} {s_} {p} {okn} " + ",".join(f"{cid}:{core.hexs(pay)}" for cid, pay in ops))
        meta.append((desc, impl))


def run(ctx):
    reqs, meta = [], []
    buffers(ctx, reqs, meta)
    plain_files(ctx, reqs, meta)
    prefixes(ctx)
    os_faults(ctx)
    sharded(ctx, reqs, meta)
    http(ctx)
    if ctx.driver_ok and reqs:
        for rep, (desc, impl) in zip(core.driver_batch(reqs), meta):
            if rep != impl:
                ctx.corr_mismatch("fault-model", desc, impl[:200], rep[:200])


def replay(ctx, data):
    run(ctx)
