"""C01 — Volume conversion preserves every voxel of the input image."""
import json
import os
import shutil
import struct
import tempfile
from fractions import Fraction

import numpy as np

from .. import core
from .c03 import valid_boxes
from .c11 import rint_half_even, nearest_f32_bits

RULE = ("NIfTI-1 files written for the run: 3-D / 4-D / RGB, extents 1..11 (smaller than, equal to, multiple of "
        "and one more than the chunk size), on-disk types u8/i8/u16/i16/u32/i32/u64/i64/f32/f64, header "
        "slope/intercept identity / dyadic / non-dyadic (patched into the header); dataset infos with "
        "non-cubic chunk sizes (cubic for sharded), raw and compressed_segmentation, every Neuroglancer "
        "data type; options {deep, flat} x {gzip, plain} and sharded (raw/gzip), full load and --mmap, "
        "--ignore-scaling, --input-max, --input-min/max; every chunk is read back through a FRESH accessor "
        "and each voxel compared with the exact value mapping; the sequence of write_chunk calls is compared "
        "with the Lean volumeLoop. Trivial = single-chunk volume with identity mapping.")
ASSUMPTIONS = [
    "nibabel applies raw*slope+inter in floating point; with non-dyadic slope or post-scaling a voxel may "
    "differ from the exact result only if the exact value is within 2^-18 (relative) of a rounding tie or "
    "clip bound: such voxels are counted (stats) and not failed",
    "the chunk store is a map (C03/C12/C05); the value conversion is C11",
]

RGB = np.dtype([("R", "u1"), ("G", "u1"), ("B", "u1")])


def write_nifti(path, raw, slope=None, inter=None):
    import nibabel
    img = nibabel.Nifti1Image(raw, np.diag([1.0, 1.0, 1.0, 1.0]), dtype=raw.dtype)
    nibabel.save(img, path)
    if slope is not None:
        with open(path, "r+b") as f:
            f.seek(112)
            f.write(struct.pack("<ff", slope, inter))


def expected_voxel(raw, slope, inter, pre, out_dt):
    """exact value mapping of one raw voxel -> (expected, lo, hi) acceptable results for the output type."""
    v = Fraction(int(raw)) if not isinstance(raw, (float, np.floating)) else Fraction(float(raw))
    v = v * Fraction(slope) + Fraction(inter)
    if pre is not None:
        imin, imax, omin, omax = pre
        ps = Fraction(omax - omin) / Fraction(imax - imin)
        v = (v - imin) * ps + omin
    d = np.dtype(out_dt)
    tol = abs(v) / 2**18 + Fraction(1, 2**18)
    if d.kind == "f":
        return nearest_f32_bits(v), nearest_f32_bits(v - tol), nearest_f32_bits(v + tol)
    ii = np.iinfo(d)
    cl = lambda x: min(max(rint_half_even(x), ii.min), ii.max)
    return cl(v), cl(v - tol), cl(v + tol)


class RecordingWriter:
    """stands for PrecomputedIO: records every write_chunk call"""

    def __init__(self, info):
        self.info = info
        self.calls = []

    def write_chunk(self, chunk, key, coords):
        self.calls.append((tuple(int(c) for c in coords), np.array(chunk)))


def identity_volumes(ctx, volume_reader):
    """the conversion loop on volumes whose value NAMES the voxel: every recorded chunk (box and content, position by
    position) is compared with the Lean `Volume.convert`"""
    rng = ctx.rng
    reqs, meta = [], []
    for _ in range(ctx.budget(12, 400)):
        cs = [rng.choice([1, 2, 3, 4, 5, 8]) for _ in range(3)]
        size = [rng.choice([1, c, 2 * c, c + 1, max(1, c - 1), rng.randrange(1, 12)]) for c in cs]
        C = rng.choice([0, 1, 2, 3])       # 0: a 3-D array (the loop adds the channel axis)
        nC = max(1, C)
        vol = np.arange(size[0] * size[1] * size[2] * nC, dtype=np.uint32).reshape(tuple(size) + ((C,) if C else ()))
        if rng.random() < 0.3:
            vol = np.asfortranarray(vol)    # memory layout must not matter
        w = RecordingWriter({"data_type": "uint32", "num_channels": nC,
                             "scales": [{"key": "full", "size": size, "chunk_sizes": [cs]}]})
        desc = {"identity_volume": True, "size": size, "chunk_size": cs, "channels": C}
        try:
            volume_reader.volume_to_precomputed(w, vol, chunk_transformer=rng.choice([None, lambda c, preserve_input=True: c]))
        except Exception as exc:  # noqa
            ctx.oracle_fail(f"volume_to_precomputed raised {type(exc).__name__}: {exc}", desc)
            continue
        ctx.case(("identity", tuple(size), tuple(cs), C), nontrivial=len(w.calls) > 1)
        # oracle, independent of the model: the (C, Z, Y, X) chunk at box b holds vol[x, y, z, c]
        v4 = vol.reshape(tuple(size) + (nC,))
        for b, arr in w.calls:
            want = np.moveaxis(v4[b[0]:b[1], b[2]:b[3], b[4]:b[5], :], (0, 1, 2, 3), (3, 2, 1, 0))
            if arr.shape != want.shape or not np.array_equal(arr, want):
                ctx.oracle_fail("a written chunk does not hold the input voxels of its box in (C, Z, Y, X) order",
                                dict(desc, chunk=list(b)))
                break
        reqs.append(f"vol-convert {core.ilist(size)} {core.ilist(cs)} {nC}")
        meta.append((desc, {"%d-%d.%d-%d.%d-%d" % b: core.ilist(int(v) for v in arr.ravel()) for b, arr in w.calls},
                     len(w.calls)))
    if ctx.driver_ok and reqs:
        for rep, (desc, calls, n) in zip(core.driver_batch(reqs), meta):
            model = dict(part.split(":", 1) for part in rep.split(";"))
            ctx.bump("identity_chunks_compared", n)
            if model != calls or n != len(model):
                diff = sorted(set(model) ^ set(calls)) or [b for b in model if model[b] != calls.get(b)]
                ctx.corr_mismatch("vol-convert", dict(desc, first_difference=diff[:2]),
                                  str({b: calls.get(b) for b in diff[:1]})[:300], str({b: model.get(b) for b in diff[:1]})[:300])


def rewritten_scaling(ctx, volume_reader):
    """--input-min / --input-max: the slope and intercept the code leaves on the nibabel proxy, compared with the Lean
    `rewriteScaling` over exact rationals whenever the float64 computation is exact"""
    import nibabel
    rng = ctx.rng
    reqs, meta = [], []
    for _ in range(ctx.budget(20, 400)):
        out_dt = rng.choice(["uint8", "uint16", "float32"])
        omin, omax = (0, 1) if out_dt == "float32" else (0, int(np.iinfo(out_dt).max))
        # spans that make (omax - omin) / (imax - imin) a short dyadic number
        span = rng.choice([1, 3, 5, 15, 17, 51, 85, 255, 257, 65535] if out_dt != "float32" else [1, 2, 4, 8]) * 2 ** rng.randrange(0, 4)
        imin = rng.choice([0, 0, -16, 10, 100])
        imax = imin + span
        slope, inter = rng.choice([(1.0, 0.0), (0.5, -20.0), (2.0, 1.0), (0.25, 3.0), (4.0, -7.0)])
        raw = np.arange(24, dtype="int16").reshape(2, 3, 4)
        img = nibabel.Nifti1Image(raw, np.eye(4))
        img.header.set_slope_inter(slope, inter)
        img = nibabel.Nifti1Image.from_bytes(img.to_bytes())
        w = RecordingWriter({"data_type": out_dt, "num_channels": 1,
                             "scales": [{"key": "full", "size": [2, 3, 4], "chunk_sizes": [[2, 3, 4]], "resolution": [1e6] * 3}]})
        w.accessor = type("A", (), {"close": staticmethod(lambda: None)})()
        desc = {"rewritten_scaling": True, "header_slope_inter": [slope, inter], "input_min": imin, "input_max": imax,
                "output_dtype": out_dt}
        try:
            with np.errstate(all="ignore"):
                volume_reader.nibabel_image_to_precomputed(img, w, False, imin if (imin or rng.random() < 0.5) else None, imax, True)
        except Exception as exc:  # noqa
            ctx.oracle_fail(f"nibabel_image_to_precomputed raised {type(exc).__name__}: {exc}", desc)
            continue
        got_s, got_i = Fraction(float(img.dataobj.slope)), Fraction(float(img.dataobj.inter))
        ps = Fraction(omax - omin, imax - imin)
        want_s, want_i = Fraction(slope) * ps, Fraction(inter) * ps + (omin - imin * ps)
        ctx.case(("rewrite", slope, inter, imin, imax, out_dt))
        exact = all(Fraction(float(v)) == v for v in (ps, want_s, want_i, Fraction(inter) * ps, imin * ps))
        if not exact:
            ctx.bump("rewritten_scaling_inexact_skipped")
            continue
        if (got_s, got_i) != (want_s, want_i):
            ctx.oracle_fail("the slope/intercept left on the image do not compose the header scaling with the "
                            "[input_min, input_max] -> target range mapping", dict(desc, got=[str(got_s), str(got_i)],
                                                                                    want=[str(want_s), str(want_i)]))
        q = lambda v: "%d/%d" % (Fraction(v).numerator, Fraction(v).denominator)  # noqa
        reqs.append(f"value-map {q(slope)} {q(inter)} {q(imin)} {q(imax)} {q(omin)} {q(omax)}")
        meta.append((desc, (got_s, got_i)))
    if ctx.driver_ok and reqs:
        for rep, (desc, (gs, gi)) in zip(core.driver_batch(reqs), meta):
            try:
                ms, mi = (Fraction(int(t.split("/")[0]), int(t.split("/")[1])) for t in rep.split(" "))
            except Exception:  # noqa
                ms = mi = None
            ctx.bump("rewritten_scaling_compared")
            if (ms, mi) != (gs, gi):
                ctx.corr_mismatch("value-map", desc, f"{gs} {gi}", rep)


def run(ctx):
    from neuroglancer_scripts import volume_reader, precomputed_io
    from neuroglancer_scripts.accessor import get_accessor_for_url
    rng = ctx.rng
    reqs, meta = [], []
    identity_volumes(ctx, volume_reader)
    rewritten_scaling(ctx, volume_reader)
    for _ in range(ctx.budget(45, 1200)):
        tmp = tempfile.mkdtemp(prefix="ngv_c01_")
        try:
            kind = rng.choice(["3d", "3d", "4d", "rgb"])
            sharded = rng.random() < 0.25
            cs = [rng.choice([1, 2, 3, 4, 5, 8]) for _ in range(3)]
            if sharded:
                cs = [cs[0]] * 3
            size = [rng.choice([1, c, 2 * c, c + 1, max(1, c - 1), rng.randrange(1, 12)]) for c in cs]
            in_dt = rng.choice(["uint8", "int8", "uint16", "int16", "uint32", "int32", "uint64", "int64",
                                "float32", "float64"])
            C = 1
            if kind == "4d":
                C = rng.choice([2, 3])
            nr = np.random.default_rng(rng.getrandbits(32))
            if kind == "rgb":
                C = 3
                in_dt = "uint8"
                planes = nr.integers(0, 256, size=tuple(size) + (3,)).astype("uint8")
                raw = np.zeros(tuple(size), dtype=RGB)
                raw["R"], raw["G"], raw["B"] = planes[..., 0], planes[..., 1], planes[..., 2]
                vol = planes
            else:
                shape = tuple(size) + ((C,) if kind == "4d" else ())
                d = np.dtype(in_dt)
                if d.kind == "f":
                    raw = (nr.integers(-2000, 70000, size=shape) / rng.choice([1, 2, 4])).astype(d)
                else:
                    ii = np.iinfo(d)
                    lo, hi = max(ii.min, -40000), min(ii.max, 70000)
                    raw = nr.integers(lo, hi, size=shape, endpoint=True).astype(d)
                    if rng.random() < 0.35:   # few labels: look-up tables repeat across blocks and channels
                        raw = nr.integers(0, 3, size=shape).astype(d)
                    elif rng.random() < 0.3:
                        raw.reshape(-1)[:2] = [ii.min, ii.max][:raw.size]
                vol = raw.reshape(tuple(size) + (C,))
            slope, inter = 1.0, 0.0
            scaled = kind != "rgb" and rng.random() < 0.45
            if scaled:
                slope, inter = rng.choice([(0.5, -20.0), (2.0, 1.0), (0.25, 0.0), (1.0, 100.0), (0.1, 0.3), (3.0, -7.0)])
                slope, inter = float(np.float32(slope)), float(np.float32(inter))
            path = os.path.join(tmp, "vol.nii")
            write_nifti(path, raw, slope if scaled else None, inter if scaled else None)
            # options
            ignore = scaled and rng.random() < 0.3
            pre = None
            input_min = input_max = None
            out_dt = rng.choice(["uint8", "uint16", "uint32", "uint64", "float32"])
            enc = "raw"
            if out_dt in ("uint32", "uint64") and rng.random() < 0.4 and C >= 1:
                enc = "compressed_segmentation"
            if kind != "rgb" and rng.random() < 0.35:
                input_max = float(rng.choice([255, 510, 1020, 1000, 65535, 70000, 0, 0]))
                input_min = float(rng.choice([0, -255, 100])) if rng.random() < 0.5 else None
                if input_max == 0:
                    input_min = float(rng.choice([-255, -1020, -128]))     # all-negative window: [input_min, 0]
                if np.dtype(out_dt).kind == "f":
                    omin, omax = 0, 1
                else:
                    omin, omax = 0, int(np.iinfo(out_dt).max)
                pre = (Fraction(input_min or 0), Fraction(input_max), omin, omax)
            eff_slope, eff_inter = (1.0, 0.0) if ignore else (slope, inter)
            scale = {"key": "full", "size": size, "chunk_sizes": [cs], "encoding": enc, "resolution": [1e6] * 3,
                     "voxel_offset": [0, 0, 0]}
            if enc == "compressed_segmentation":
                scale["compressed_segmentation_block_size"] = [rng.choice([1, 2, 4, 8]) for _ in range(3)]
            opts = {"flat": rng.random() < 0.5, "gzip": rng.random() < 0.5}
            if sharded:
                e_ = rng.choice(["raw", "gzip"])
                scale["sharding"] = {"@type": "neuroglancer_uint64_sharded_v1", "minishard_bits": rng.randrange(3),
                                     "shard_bits": rng.randrange(3), "hash": "identity",
                                     "minishard_index_encoding": e_, "data_encoding": e_,
                                     "preshift_bits": rng.randrange(3)}
            info = {"type": "image" if enc == "raw" else "segmentation", "data_type": out_dt, "num_channels": C,
                    "scales": [scale]}
            dest = os.path.join(tmp, "out")
            os.makedirs(dest)
            with open(os.path.join(dest, "info"), "w") as f:
                json.dump(info, f)
            mmap = rng.random() < 0.4
            desc = {"kind": kind, "size": size, "chunk_size": cs, "input_dtype": in_dt, "channels": C,
                    "header_slope_inter": [slope, inter] if scaled else None, "ignore_scaling": ignore,
                    "input_min": input_min, "input_max": input_max, "output_dtype": out_dt, "encoding": enc,
                    "options": opts, "sharded": sharded, "mmap": mmap}
            # spy on the chunk writes
            calls = []
            orig = precomputed_io.PrecomputedIO.write_chunk

            def spy(self, chunk, key, coords, _orig=orig):
                calls.append(tuple(int(c) for c in coords))
                return _orig(self, chunk, key, coords)
            precomputed_io.PrecomputedIO.write_chunk = spy
            via_cli = rng.random() < 0.35
            desc["entry_point"] = "volume-to-precomputed command line" if via_cli else "volume_file_to_precomputed()"
            ctx.hist("entry_point", "cli" if via_cli else "api")
            try:
                with np.errstate(all="ignore"):
                    if via_cli:
                        # the command-line glue (argparse types, defaults, dest names, option forwarding) in the loop
                        from neuroglancer_scripts.scripts import volume_to_precomputed as _cli
                        groups = []
                        if ignore:
                            groups.append(["--ignore-scaling"])
                        if input_max is not None:
                            groups.append(["--input-max=" + repr(input_max)] if rng.random() < 0.5
                                          else ["--input-max", repr(input_max)])
                        if input_min is not None:
                            groups.append(["--input-min", repr(input_min)])
                        if mmap:
                            groups.append(["--mmap"])
                        elif rng.random() < 0.3:
                            groups.append(["--load-full-volume"])
                        if opts["flat"]:
                            groups.append(["--flat"])
                        if not opts["gzip"]:
                            groups.append(["--no-gzip"])
                        rng.shuffle(groups)
                        argv = ["volume-to-precomputed", path, dest]
                        argv_tail = [t for g in groups for t in g]
                        try:
                            rc = _cli.main(argv[:3] + argv_tail)
                        except SystemExit as exc:
                            rc = exc.code
                    else:
                        rc = volume_reader.volume_file_to_precomputed(
                            path, dest, ignore_scaling=ignore, input_min=input_min, input_max=input_max,
                            load_full_volume=not mmap, options=opts)
            except Exception as exc:  # noqa
                ctx.oracle_fail(f"volume conversion raised {type(exc).__name__}: {exc}", desc)
                continue
            finally:
                precomputed_io.PrecomputedIO.write_chunk = orig
            ctx.case(json.dumps(desc, sort_keys=True) + str(raw.tobytes()[:32]),
                     nontrivial=len(calls) > 1 or scaled or pre is not None,
                     sample=desc if rng.random() < 0.05 else None)
            for k in ("kind", "encoding", "sharded", "mmap"):
                ctx.hist(k, desc[k])
            if rc:
                ctx.oracle_fail(f"volume conversion returned status {rc}", desc)
                continue
            # read back through a fresh accessor
            try:
                io = precomputed_io.get_IO_for_existing_dataset(get_accessor_for_url(dest, opts))
            except Exception as exc:  # noqa
                ctx.oracle_fail(f"re-opening the converted dataset raised {type(exc).__name__}", desc)
                continue
            boxes = valid_boxes(scale)
            if sorted(calls) != sorted(boxes):
                ctx.oracle_fail("the set of chunks written differs from the chunk grid of the info",
                                dict(desc, written=len(calls), grid=len(boxes)))
            bad = None
            f6 = False
            near = 0
            for b in boxes:
                try:
                    ch = io.read_chunk("full", b)
                except Exception as exc:  # noqa
                    bad = f"chunk {b} cannot be read back ({type(exc).__name__}: {exc})"
                    break
                for x in range(b[0], b[1]):
                    for y in range(b[2], b[3]):
                        for z in range(b[4], b[5]):
                            for c in range(C):
                                got = ch[c, z - b[4], y - b[2], x - b[0]]
                                want, lo, hi = expected_voxel(vol[x, y, z, c], eff_slope, eff_inter, pre, out_dt)
                                g = struct.unpack("<I", np.float32(got).tobytes())[0] if np.dtype(out_dt).kind == "f" else int(got)
                                if g != want:
                                    if np.dtype(out_dt).kind == "f":
                                        fg = float(got)
                                        flo = struct.unpack("<f", struct.pack("<I", lo))[0]
                                        fhi = struct.unpack("<f", struct.pack("<I", hi))[0]
                                        ok = min(flo, fhi) <= fg <= max(flo, fhi)
                                    else:
                                        ok = min(lo, hi) <= g <= max(lo, hi)
                                    if ok and (pre is not None or Fraction(slope).denominator & (Fraction(slope).denominator - 1)
                                               or Fraction(inter).denominator & (Fraction(inter).denominator - 1) or
                                               np.dtype(in_dt).kind == "f" or int(np.iinfo(in_dt).max) > 2**24):
                                        near += 1
                                        continue
                                    via_float = np.dtype(in_dt).kind == "f" or pre is not None or (scaled and not ignore)
                                    f6 = via_float and out_dt == "uint64" and want >= 2**64 - 1
                                    bad = (f"voxel (x={x}, y={y}, z={z}, c={c}) reads back {got!r} but the documented "
                                           f"mapping of input value {vol[x, y, z, c]!r} gives {want}")
                                    break
                            if bad:
                                break
                        if bad:
                            break
                    if bad:
                        break
                if bad:
                    break
            ctx.bump("voxels_within_float_tolerance", near)
            if bad:
                ctx.oracle_fail("converted dataset does not hold the input voxels: " + bad, desc,
                                key="F6-float-ge-2^64-to-uint64" if f6 else None)
            reqs.append(f"vol-chunks {core.ilist(size)} {core.ilist(cs)}")
            meta.append((desc, ";".join(core.ilist(c) for c in calls)))
        finally:
            shutil.rmtree(tmp, ignore_errors=True)
    if ctx.driver_ok and reqs:
        for rep, (desc, want) in zip(core.driver_batch(reqs), meta):
            # the SET of written chunks is what the theorem is about; the loop order is free
            if sorted(rep.split(";")) != sorted(want.split(";")):
                ctx.corr_mismatch("written-chunks", desc, want[:200], rep[:200])


def replay(ctx, data):
    run(ctx)
