"""C15 — Slice stacks are assembled with the requested anatomical orientation."""
import json
import os
import shutil
import tempfile

import numpy as np

from .. import core
from .c03 import valid_boxes

RULE = ("all 48 orientation codes x stacks of uint8/uint16 grey and RGB PNG/TIFF slices (1-2 directories as "
        "extra channels), extents 1..9 per axis with slice counts smaller than / equal to / a multiple of / one "
        "more than / not divisible by the chunk depth, non-cubic chunk sizes, flat/deep x gzip layouts; the "
        "real convert_slices_in_directory is run, every chunk read back through a fresh accessor and every "
        "voxel compared with the pixel the orientation code designates; for identity-valued uint16 stacks every "
        "recorded write_chunk call (box and the input pixel stored at each position) is compared with the Lean "
        "chunk loop (stackChunks); the voxel map is also compared with the Lean model. Trivial = code RAS with a single slice group.")
ASSUMPTIONS = [
    "scikit-image decodes the PNG/TIFF files written by the harness losslessly",
    "slice files are ordered by sorted(iterdir()) (zero-padded names)",
]

PERM = {"R": 0, "L": 0, "A": 1, "P": 1, "S": 2, "I": 2}
INV = {"R": 1, "A": 1, "S": 1, "L": -1, "P": -1, "I": -1}


def all_codes():
    out = []
    import itertools
    for letters in itertools.product("RLAPSI", repeat=3):
        if sorted(PERM[c] for c in letters) == [0, 1, 2]:
            out.append("".join(letters))
    return out


def run(ctx):
    import skimage.io
    from neuroglancer_scripts import precomputed_io
    from neuroglancer_scripts.accessor import get_accessor_for_url
    from neuroglancer_scripts.scripts import slices_to_precomputed
    rng = ctx.rng
    codes = all_codes()
    listed = list(getattr(slices_to_precomputed, "POSSIBLE_AXIS_ORIENTATIONS", []))
    reps = ctx.budget(1, 6)
    todo = [(c, k) for c in codes for k in range(reps)]
    rng.shuffle(todo)
    reqs, meta = [], []
    creqs, cmeta = [], []
    for code, _k in todo:
        tmp = tempfile.mkdtemp(prefix="ngv_c15_")
        try:
            # input geometry: (columns, rows, slices)
            cs_in = [rng.choice([1, 2, 3, 4]) for _ in range(3)]
            n_in = [rng.choice([1, c, 2 * c, c + 1, 2 * c + 1, rng.randrange(1, 10)]) for c in cs_in]
            dt = rng.choice(["uint8", "uint16"])
            rgb = dt == "uint8" and rng.random() < 0.25
            ndirs = 1 if rgb else rng.choice([1, 1, 2])
            C = 3 if rgb else ndirs
            perm = [PERM[c] for c in code]
            inv = [INV[c] for c in code]
            size = [0, 0, 0]
            chunk = [0, 0, 0]
            for a in range(3):
                size[perm[a]] = n_in[a]
                chunk[perm[a]] = cs_in[a]
            nr = np.random.default_rng(rng.getrandbits(32))
            direct = rng.random() < 0.3
            if direct and n_in[2] < 11 and rng.random() < 0.7:
                n_in[2] = rng.choice([11, 12, 13])         # names s9 / s10 ... : the two orders differ
                size[perm[2]] = n_in[2]
            # names with '-', ' ', '+' right after a common stem: sorted(iterdir()) - the documented order - compares whole
            # file names ("s01-b.png" < "s01.png"), which is NOT the order of the stems
            tricky = None
            if not direct and rng.random() < 0.3:
                cands = [f"s{i // 4:02d}" + ["", "-b", " recut", "+x"][i % 4] for i in range(4 * n_in[2])][:n_in[2]]
                ext_probe = "png"
                tricky = None     # filled per directory below (depends on the extension)
                tricky_cands = cands
            else:
                tricky_cands = None
            stacks = []
            dirs = []
            for d in range(ndirs):
                shape = (n_in[2], n_in[1], n_in[0]) + ((3,) if rgb else ())
                top = 255 if dt == "uint8" else 65535
                st = nr.integers(0, top + 1, size=shape).astype(dt)
                if dt == "uint16" and not rgb:
                    # identity stack: the value names the pixel (slice, row, column) and the channel, so that the
                    # recorded write_chunk calls can be compared position by position with the Lean chunk loop
                    st = (np.arange(n_in[2] * n_in[1] * n_in[0]).reshape(shape) + 1000 * d).astype(dt)
                stacks.append(st)
                # directory names whose GIVEN order is not the lexicographic one: channels follow the command line
                ddir = os.path.join(tmp, ["red", "green", "blue"][d] if ndirs > 1 else "slices")
                os.makedirs(ddir)
                ext = "png" if rgb else rng.choice(["png", "tif"])
                if tricky_cands:
                    tricky = [os.path.splitext(n)[0] for n in sorted(c + "." + ext for c in tricky_cands)]
                for s in range(n_in[2]):
                    kw = {"photometric": "minisblack"} if ext == "tif" else {}
                    # direct API use: the caller passes its own list, here in NUMERIC order of names that are not
                    # zero-padded (s9 before s10), which is not the lexicographic order
                    nm = f"s{s}.{ext}" if direct else (tricky[s] + "." + ext if tricky else f"s{s:04d}.{ext}")
                    skimage.io.imsave(os.path.join(ddir, nm), st[s], check_contrast=False, **kw)
                dirs.append(ddir)
            dest = os.path.join(tmp, "ds")
            os.makedirs(dest)
            out_dt = rng.choice([dt, dt, "uint32" if dt == "uint16" else "uint16"])
            info = {"type": "image", "data_type": out_dt, "num_channels": C,
                    "scales": [{"key": "full", "size": size, "chunk_sizes": [chunk], "encoding": "raw",
                                "resolution": [1, 1, 1], "voxel_offset": [0, 0, 0]}]}
            with open(os.path.join(dest, "info"), "w") as f:
                json.dump(info, f)
            opts = {"flat": rng.random() < 0.5, "gzip": rng.random() < 0.5}
            desc = {"orientation": code, "direct_api_numeric_names": direct, "tricky_names": bool(tricky_cands), "input_size_col_row_slice": n_in, "input_chunk": cs_in, "dtype": dt,
                    "rgb": rgb, "directories": ndirs, "output_dtype": out_dt, "options": opts}
            import pathlib
            recorded = []
            orig_write = precomputed_io.PrecomputedIO.write_chunk

            def spy(self, chunk, key, coords, _rec=recorded, _orig=orig_write):
                _rec.append((tuple(int(v) for v in coords), np.array(chunk)))
                return _orig(self, chunk, key, coords)
            precomputed_io.PrecomputedIO.write_chunk = spy
            try:
                if direct:
                    ext_of = {d: os.path.splitext(os.listdir(d)[0])[1] for d in dirs}
                    lists = [tuple(os.path.join(d, f"s{s}{ext_of[d]}") for s in range(n_in[2])) for d in dirs]
                    slices_to_precomputed.slices_to_raw_chunks(lists, dest, code, options=opts)
                elif rng.random() < 0.4:
                    # through the command line (argparse glue: nargs="+" directories, --input-orientation, storage flags)
                    argv = ["slices-to-precomputed"] + dirs + [dest, "--input-orientation", code]
                    argv += ["--flat"] if opts["flat"] else []
                    argv += ["--no-gzip"] if not opts["gzip"] else []
                    ctx.bump("cli_runs")
                    try:
                        rc_ = slices_to_precomputed.main(argv)
                    except SystemExit as exc:
                        rc_ = exc.code
                    if rc_ not in (0, None):
                        raise RuntimeError(f"slices-to-precomputed exit status {rc_}")
                else:
                    slices_to_precomputed.convert_slices_in_directory([pathlib.Path(d) for d in dirs], dest,
                                                                      input_orientation=code, options=opts)
            except Exception as exc:  # noqa
                ctx.oracle_fail(f"slice conversion raised {type(exc).__name__}: {exc}", desc)
                continue
            finally:
                precomputed_io.PrecomputedIO.write_chunk = orig_write
            if dt == "uint16" and not rgb:
                calls = {}
                for co, arr in recorded:
                    px = []
                    ok_channels = all(np.array_equal(arr[ch].astype(np.int64) - 1000 * ch, arr[0].astype(np.int64))
                                      for ch in range(arr.shape[0]))
                    for v in arr[0].astype(np.int64).ravel():
                        v = int(v)
                        px.append("%d.%d.%d" % (v % n_in[0], (v // n_in[0]) % n_in[1], v // (n_in[0] * n_in[1])))
                    calls["%d-%d.%d-%d.%d-%d" % co] = ",".join(px) + ("" if ok_channels else "!channels")
                creqs.append(f"slices-chunks {code} {core.ilist(size)} {core.ilist(chunk)}")
                cmeta.append((desc, calls, len(recorded)))
            ctx.case(json.dumps(desc, sort_keys=True), nontrivial=code != "RAS" or n_in[2] > cs_in[2],
                     sample=desc if rng.random() < 0.05 else None)
            ctx.hist("reversed_slice_axis", code[2] in "LPI")
            try:
                io = precomputed_io.get_IO_for_existing_dataset(get_accessor_for_url(dest, opts))
                vol = np.zeros((C, size[2], size[1], size[0]), dtype=out_dt)
                for b in valid_boxes(info["scales"][0]):
                    vol[:, b[4]:b[5], b[2]:b[3], b[0]:b[1]] = io.read_chunk("full", b)
            except Exception as exc:  # noqa
                ctx.oracle_fail(f"the converted stack cannot be read back ({type(exc).__name__}: {exc})", desc)
                continue
            # expected: input axis a (0 col, 1 row, 2 slice) -> output axis perm[a], reversed iff inv[a] == -1
            bad = None
            for s in range(n_in[2]):
                for r in range(n_in[1]):
                    for c in range(n_in[0]):
                        idx = (c, r, s)
                        out = [0, 0, 0]
                        for a in range(3):
                            out[perm[a]] = idx[a] if inv[a] == 1 else n_in[a] - 1 - idx[a]
                        for ch in range(C):
                            want = stacks[0][s, r, c, ch] if rgb else stacks[ch][s, r, c]
                            if vol[ch, out[2], out[1], out[0]] != want:
                                bad = {"pixel_col_row_slice": idx, "channel": ch, "voxel_xyz": out,
                                       "got": int(vol[ch, out[2], out[1], out[0]]), "want": int(want)}
                                break
                        if bad:
                            break
                    if bad:
                        break
                if bad:
                    break
            if bad:
                ctx.oracle_fail("the voxel at (x, y, z) is not the pixel the orientation code designates",
                                dict(desc, **bad))
            reqs.append(f"slices-map {code} {core.ilist(n_in)}")
            meta.append((desc, n_in, perm, inv))
        finally:
            shutil.rmtree(tmp, ignore_errors=True)
    if listed and sorted(listed) != sorted(codes):
        ctx.oracle_fail("the list of accepted orientation codes is not the 48 signed axis permutations",
                        {"listed": len(listed)})
    if ctx.driver_ok and reqs:
        for rep, (desc, n_in, perm, inv) in zip(core.driver_batch(reqs), meta):
            want = []
            for s in range(n_in[2]):
                for r in range(n_in[1]):
                    for c in range(n_in[0]):
                        idx = (c, r, s)
                        out = [0, 0, 0]
                        for a in range(3):
                            out[perm[a]] = idx[a] if inv[a] == 1 else n_in[a] - 1 - idx[a]
                        want.append(".".join(map(str, out)))
            if rep != ",".join(want):
                ctx.corr_mismatch("slices-map", desc, ",".join(want)[:200], rep[:200])


    if ctx.driver_ok and creqs:
        for rep, (desc, calls, ncalls) in zip(core.driver_batch(creqs), cmeta):
            model = {}
            for part in rep.split(";"):
                box, _, px = part.partition(":")
                model[box] = px
            ctx.bump("write_chunk_calls_compared", ncalls)
            if model != calls or ncalls != len(model):
                diff = sorted(set(model) ^ set(calls)) or [b for b in model if model[b] != calls.get(b)]
                ctx.corr_mismatch("slices-chunks", dict(desc, first_difference=diff[:2]),
                                  str({b: calls.get(b) for b in diff[:1]})[:300], str({b: model.get(b) for b in diff[:1]})[:300])


def replay(ctx, data):
    run(ctx)
