"""C11 — Data-type conversion rounds to nearest and saturates, never wraps."""
import itertools
import os
import struct
from fractions import Fraction

import numpy as np

from .. import core

RULE = ("all 10 input types x 5 Neuroglancer output types; values: type limits and limits±1, 0, ±0.5, ±1.5, "
        "±2.5, 254.5, 255.5, 65535.5, near-ties k+0.5±2^-j and ±1 ulp (double-rounding probes),  2^24±1, 2^31, 2^32±1, 2^53±1, 2^63, 2^64 (±1 ulp), ±1e30, float "
        "subnormals and random values; each evaluated with preserve_input True and False on contiguous, "
        "strided, read-only, big-endian, memory-mapped (r+ and r) and ndarray-subclass arrays; result compared with the exact nearest-value oracle and the Lean "
        "model; input bytes hashed before/after. Trivial = identical input/output type.")
ASSUMPTIONS = [
    "what NaN and infinities THEMSELVES become is outside the property (finite values) - but they must not change the "
    "result for the finite values next to them; a finite float64 beyond the float32 range "
    "becoming inf is IEEE behaviour and is expected by the oracle",
    "NumPy's int->float32 / float64->float32 casts are correctly rounded (checked against nearestF32)",
]

IN_TYPES = ["uint8", "uint16", "uint32", "uint64", "int8", "int16", "int32", "int64", "float32", "float64"]
OUT_TYPES = ["uint8", "uint16", "uint32", "uint64", "float32"]


def exact(x):
    """(n, k) with x = n / 2^k exactly."""
    if isinstance(x, (int, np.integer)):
        return int(x), 0
    fr = Fraction(float(x))
    k = fr.denominator.bit_length() - 1
    return fr.numerator, k


def rint_half_even(fr):
    f = fr.numerator // fr.denominator
    r = fr - f
    if r < Fraction(1, 2):
        return f
    if r > Fraction(1, 2):
        return f + 1
    return f if f % 2 == 0 else f + 1


def nearest_f32_bits(fr):
    """independent oracle: bit pattern of the float32 nearest to the rational `fr`."""
    sign = 0x80000000 if fr < 0 else 0
    a = abs(fr)
    if a == 0:
        return sign
    e = a.numerator.bit_length() - a.denominator.bit_length()
    if Fraction(2) ** e > a:
        e -= 1
    qe = -149 if e < -126 else e - 23
    q = rint_half_even(a / Fraction(2) ** qe)
    bits = q if e < -126 else (e + 126) * 2**23 + q
    if bits >= 255 * 2**23:
        return sign + 255 * 2**23
    return sign + bits


def values_for(dt, rng):
    d = np.dtype(dt)
    if d.kind in "ui":
        ii = np.iinfo(d)
        cand = {ii.min, ii.min + 1, ii.max, ii.max - 1, 0, 1, 2, 127, 128, 255, 256, 65535, 65536, 2**24 - 1, 2**24 + 1,
                2**31 - 1, 2**31, 2**32 - 1, 2**32, 2**32 + 1, 2**53 - 1, 2**53 + 1, 2**63 - 1, 2**63, 2**64 - 1,
                -1, -2, -128, -129, -32768, -2**31, -2**53 - 1}
        cand |= {rng.randrange(ii.min, ii.max + 1) for _ in range(12)}
        return [v for v in sorted(cand) if ii.min <= v <= ii.max]
    base = [0.0, -0.0, 0.5, -0.5, 1.5, -1.5, 2.5, 3.5, 0.49999997, 254.5, 255.5, 255.49998, 256.0, 65534.5, 65535.5,
            65536.0, 2.0**24 - 1, 2.0**24 + 1, 2.0**31, 2.0**32 - 1, 2.0**32, 2.0**32 + 1, 4294967040.0, 4294967295.5,
            2.0**53, 2.0**53 + 2, 2.0**63, 2.0**64, 2.0**64 - 2048, 2.0**64 + 4096, 1e30, -1e30, 1e-40, -1e-45,
            3.4028235e38, 1e-310, 16777217.0, 0.1, -0.1, 1e10, -300.7]
    base += [rng.uniform(-70000, 70000) for _ in range(10)] + [rng.uniform(0, 2**33) for _ in range(5)] \
        + [rng.choice([-1, 1]) * rng.random() * 2.0**rng.randrange(-160, 128) for _ in range(6)]
    # double-rounding probes: float64 values that are NOT ties but lie within float32 (or coarser) rounding
    # distance of a tie k + 0.5 -- a work type narrower than the input rounds them onto the tie first
    for k in [0, 1, 2, 3, 100, 101, 254, 255, 32766, 32767, 65534, 65535, 2**24 - 2, 2**24 - 1, 2**31 - 1,
              2**32 - 2, 2**32 - 1, rng.randrange(0, 256), rng.randrange(256, 65536), rng.randrange(65536, 2**32)]:
        t = k + 0.5
        base += [float(np.nextafter(t, np.inf)), float(np.nextafter(t, -np.inf)),
                 t + 2.0**-rng.randrange(8, 50), t - 2.0**-rng.randrange(8, 50), -(t + 2.0**-rng.randrange(8, 50))]
    arr = np.array(base, dtype=np.float64).astype(d)
    return [v for v in arr if np.isfinite(v)]


def run(ctx):
    from neuroglancer_scripts.data_types import get_chunk_dtype_transformer
    rng = ctx.rng
    reqs, meta = [], []
    plan_reqs, plan_meta = [], []
    import atexit
    import shutil
    import tempfile
    mm_dir = tempfile.mkdtemp(prefix="ngv_c11_")
    atexit.register(shutil.rmtree, mm_dir, True)
    for inT, outT in itertools.product(IN_TYPES, OUT_TYPES):
        din, dout = np.dtype(inT), np.dtype(outT)
        vals = values_for(inT, rng)
        a = np.array(vals, dtype=din)
        try:
            t = get_chunk_dtype_transformer(inT, outT, warn=False)
        except Exception as exc:  # noqa
            ctx.oracle_fail(f"get_chunk_dtype_transformer raised {type(exc).__name__}", {"in": inT, "out": outT})
            continue
        results = {}
        for preserve in (True, False):
            for layout in ("contiguous", "strided", "readonly", "bigendian", "memmap", "memmap-readonly", "subclass"):
                if layout == "bigendian":
                    # same values in the non-native byte order (what a big-endian file gives)
                    x = a.astype(din.newbyteorder(">"))
                elif layout in ("memmap", "memmap-readonly"):
                    # what nibabel hands out for an uncompressed file: an ndarray SUBCLASS backed by the file
                    mm_path = os.path.join(mm_dir, f"{inT}_{outT}_{int(preserve)}_{layout}.dat")
                    a.tofile(mm_path)
                    x = np.memmap(mm_path, dtype=din, mode="r+" if layout == "memmap" else "r", shape=a.shape)
                elif layout == "subclass":
                    x = a.copy().view(np.recarray) if False else a.copy().view(type("Sub", (np.ndarray,), {}))
                elif layout == "contiguous":
                    x = a.copy()
                elif layout == "strided":
                    big = np.zeros(2 * len(a), dtype=din)
                    big[::2] = a
                    x = big[::2]
                else:
                    x = a.copy()
                    x.setflags(write=False)
                before = x.tobytes()
                with np.errstate(all="ignore"):
                    try:
                        y = t(x, preserve_input=preserve)
                    except Exception as exc:  # noqa
                        ctx.oracle_fail(f"conversion raised {type(exc).__name__}: {exc}",
                                        {"in": inT, "out": outT, "preserve_input": preserve, "array": layout})
                        continue
                if preserve and x.tobytes() != before:
                    ctx.oracle_fail("the input array was modified although preserve_input=True",
                                    {"in": inT, "out": outT, "array": layout})
                if preserve and layout.startswith("memmap"):
                    del x
                    with open(mm_path, "rb") as fh:
                        if fh.read() != before:
                            ctx.oracle_fail("the FILE behind a memory-mapped input was modified although "
                                            "preserve_input=True", {"in": inT, "out": outT, "array": layout})
                    x = a
                if y.dtype != dout or y.shape != x.shape:
                    ctx.oracle_fail("conversion result has the wrong dtype or shape",
                                    {"in": inT, "out": outT, "got": str(y.dtype)})
                    continue
                results[(preserve, layout)] = y
        if not results:
            continue
        ref_key = sorted(results)[0]
        for kk, y in results.items():
            if y.tobytes() != results[ref_key].tobytes():
                ctx.oracle_fail("buffer modes disagree (preserve_input / layout change the values)",
                                {"in": inT, "out": outT, "mode_a": list(ref_key), "mode_b": list(kk),
                                 "values": [str(v) for v in vals][:40]})
        y = results[ref_key]
        # neighbours that are not finite must not change what happens to the finite values of the same chunk (a NaN
        # background is common in statistical maps): same array with NaN / inf entries interleaved
        if din.kind == "f":
            for preserve in (True, False):
                mixed = np.empty(2 * len(a) + 1, dtype=din)
                mixed[0::2] = np.nan
                mixed[1::2] = a
                mixed[2] = np.inf
                with np.errstate(all="ignore"):
                    try:
                        ym = t(mixed, preserve_input=preserve)
                    except Exception as exc:  # noqa
                        ctx.oracle_fail(f"conversion of a chunk containing NaN raised {type(exc).__name__}: {exc}",
                                        {"in": inT, "out": outT, "preserve_input": preserve})
                        continue
                ctx.bump("nan_neighbour_arrays")
                if ym[1::2].tobytes() != y.tobytes():
                    i = next(i for i in range(len(a)) if ym[1::2][i:i + 1].tobytes() != y[i:i + 1].tobytes())
                    ctx.oracle_fail("a finite value converts differently when the chunk also contains NaN (range test "
                                    "defeated by NaN: out-of-range values wrap instead of saturating)",
                                    {"in": inT, "out": outT, "preserve_input": preserve, "value": str(a[i]),
                                     "alone": str(y[i]), "next_to_nan": str(ym[1::2][i])})
        # the conversion is element-wise: what a value becomes does not depend on the other values of the chunk. Small
        # sub-arrays (one boundary value among in-range ones) defeat shortcuts taken after a min/max pre-check
        small = [i for i in range(len(a)) if din.kind != "f" or np.isfinite(a[i])]
        inrange = [i for i in small if dout.kind == "f" or
                   (np.iinfo(dout).min <= (int(a[i]) if din.kind != "f" else float(a[i])) <= np.iinfo(dout).max // 2)]
        for i in small:
            idxs = [i] + (rng.sample(inrange, min(2, len(inrange))) if inrange else [])
            sub = a[idxs].copy()
            with np.errstate(all="ignore"):
                try:
                    ys = t(sub, preserve_input=rng.random() < 0.5)
                except Exception as exc:  # noqa
                    ctx.oracle_fail(f"conversion of a small chunk raised {type(exc).__name__}: {exc}",
                                    {"in": inT, "out": outT, "values": [str(v) for v in sub]})
                    continue
            ctx.bump("sub_arrays")
            if ys.tobytes() != y[idxs].tobytes():
                j = next(j for j in range(len(idxs)) if ys[j:j + 1].tobytes() != y[idxs[j]:idxs[j] + 1].tobytes())
                ctx.oracle_fail("a value converts differently depending on the other values of the chunk (a shortcut "
                                "taken when the chunk looks in range)",
                                {"in": inT, "out": outT, "chunk": [str(v) for v in sub], "value": str(sub[j]),
                                 "in_this_chunk": str(ys[j]), "in_the_full_array": str(y[idxs[j]])})
                break
        items = []
        for v, got in zip(vals, y):
            n, k = exact(v)
            fr = Fraction(n, 2**k)
            ctx.case(("conv", inT, outT, n, k), nontrivial=inT != outT,
                     sample={"in": inT, "out": outT, "value": str(v), "result": str(got)} if rng.random() < 0.002 else None)
            if dout.kind == "f":
                want = nearest_f32_bits(fr)
                gotbits = struct.unpack("<I", np.float32(got).tobytes())[0]
                if (gotbits & 0x7FFFFFFF) == 0 and (want & 0x7FFFFFFF) == 0:
                    gotbits = want = 0   # sign of zero is not part of the property
                if gotbits != want:
                    ctx.oracle_fail("result is not the float32 nearest to the input value",
                                    {"in": inT, "out": outT, "value": str(v), "exact": [n, k],
                                     "got_bits": gotbits, "nearest_bits": want})
                items.append((n, k, str(gotbits)))
            else:
                ii = np.iinfo(dout)
                want = min(max(rint_half_even(fr), ii.min), ii.max)
                if int(got) != want:
                    key = None
                    if outT == "uint64" and din.kind == "f" and rint_half_even(fr) >= 2**64:
                        key = "F6-float-ge-2^64-to-uint64"
                    ctx.oracle_fail("float value >= 2^64 converted to uint64 wraps instead of saturating"
                                    if key else "conversion result is not the nearest representable value "
                                    "(round half to even, saturating)",
                                    {"in": inT, "out": outT, "value": str(v), "exact": [n, k], "got": int(got),
                                     "nearest": want}, key=key)
                items.append((n, k, str(int(got))))
        reqs.append(f"conv {inT} {outT} " + ",".join(f"{n}:{k}" for n, k, _ in items))
        meta.append((inT, outT, items))
        # the finite NumPy tables the model relies on
        if din.kind in "ui" and dout.kind in "ui":
            plan_reqs.append(f"conv-plan {inT} {outT}")
            plan_meta.append((inT, outT, "input " + str(bool(np.can_cast(din, dout, casting="safe"))).lower()))
        elif din.kind == "f" and dout.kind in "ui":
            plan_reqs.append(f"conv-plan {inT} {outT}")
            plan_meta.append((inT, outT, str(np.promote_types(din, dout))))
    if ctx.driver_ok:
        for rep, (inT, outT, items) in zip(core.driver_batch(reqs), meta):
            for tok, (n, k, got) in zip(rep.split(), items):
                model = tok.split("/")[0]
                if np.dtype(outT).kind == "f":
                    if (int(model) & 0x7FFFFFFF) == 0 and (int(got) & 0x7FFFFFFF) == 0:
                        continue
                if model == "wrap":
                    continue   # platform-defined in the model; judged by the oracle above (known finding F6)
                if model != got:
                    ctx.corr_mismatch("convert-value", {"in": inT, "out": outT, "exact": [n, k]}, got, model)
        for rep, (inT, outT, want) in zip(core.driver_batch(plan_reqs), plan_meta):
            got = rep if want.startswith("input") else rep.split()[0]
            if got != want:
                ctx.corr_mismatch("numpy-table", {"in": inT, "out": outT}, want, rep)


def replay(ctx, data):
    run(ctx)
