"""C02 — compressed_segmentation output conforms to the Neuroglancer format."""
import numpy as np

from .. import core, csegen

RULE = ("random chunks: uint32/uint64, 1-3 channels, extents smaller than / equal to / multiple of / one more "
        "than the block, blocks from {1,2,3,4,8}^3 incl. non-cubic, label distributions const / 2 / 3-4 / "
        "5-16 / 17-256 / 257+ labels / arange / shared background / blocky / labels >= 2^32 and 2^53, handed "
        "over in C order, Fortran order, as a transposed view, as a window of a larger array, big-endian or "
        "read-only; the "
        "bytes of the REAL encoder are decoded by Lean's specification decoder (oracle) and compared with "
        "Lean's encoder model byte for byte; the real decoder is compared with Lean's implDecode. "
        "Trivial = constant chunk.")
ASSUMPTIONS = [
    "np.unique returns sorted distinct values, argmax the first maximum, np.pad pads at the end",
    "struct / tobytes are little-endian as requested by the '<' dtypes",
]


def run(ctx):
    from neuroglancer_scripts.chunk_encoding import CompressedSegmentationEncoder
    rng = ctx.rng
    reqs, meta = [], []
    encoders = {}
    for _ in range(ctx.budget(250, 6000)):
        dt, bs, a, mode = csegen.gen_chunk(rng, big=ctx.tier == "thorough" or rng.random() < 0.05)
        C = a.shape[0]
        isz = np.dtype(dt).itemsize
        desc = {"dtype": dt, "shape": list(a.shape), "block_size": bs, "mode": mode}
        # encoder objects are reused for all chunks with the same parameters (what PrecomputedIO does for a scale), and
        # the array handed in must come back unchanged
        ekey = (dt, C, tuple(bs))
        if ekey not in encoders:
            encoders[ekey] = CompressedSegmentationEncoder(dt, C, list(bs))
        enc = encoders[ekey]
        # the same logical array in the memory layouts callers produce (a volume held as XYZC and presented
        # transposed, Fortran order, a window of a larger array, big-endian file data, read-only memory maps)
        layout = rng.choice(["c", "c", "fortran", "transposed", "window", "big-endian", "read-only"])
        if layout == "fortran":
            a_in = np.asfortranarray(a)
        elif layout == "transposed":
            a_in = np.ascontiguousarray(a.T).T
        elif layout == "window":
            big_ = np.zeros(tuple(d + 2 for d in a.shape), dtype=a.dtype)
            big_[1:-1, 1:-1, 1:-1, 1:-1] = a
            a_in = big_[1:-1, 1:-1, 1:-1, 1:-1]
        elif layout == "big-endian":
            a_in = a.astype(a.dtype.newbyteorder(">"))
        elif layout == "read-only":
            a_in = a.copy()
            a_in.setflags(write=False)
        else:
            a_in = a
        desc["layout"] = layout
        ctx.hist("memory_layout", layout)
        a_before = a_in.copy()
        try:
            buf = bytes(enc.encode(a_in))
            if not np.array_equal(a_in, a_before):
                ctx.oracle_fail("the encoder modified the chunk it was given", desc)
        except Exception as exc:  # noqa
            ctx.oracle_fail(f"encoder raised {type(exc).__name__}: {exc}", dict(desc, data=a.ravel().tolist()))
            continue
        ctx.case((dt, tuple(bs), a.shape, a.tobytes()), nontrivial=mode != "const",
                 sample=dict(desc, encoded_len=len(buf)) if rng.random() < 0.01 else None)
        ctx.hist("label_mode", mode)
        for b in set(csegen.bit_widths(dt, bs, a)):
            ctx.hist("bit_width_used", b)
        flat = ",".join(str(int(v)) for v in a.ravel())
        shape = core.ilist(a.shape)
        blk = core.ilist(bs)
        # well-formedness that needs no model
        if len(buf) % 4:
            ctx.oracle_fail("encoded chunk length is not a multiple of 4", dict(desc, data=a.ravel().tolist()))
        # the package's own decoder
        try:
            dec = enc.decode(buf, (a.shape[3], a.shape[2], a.shape[1]))
            own = "ok " + ",".join(str(int(v)) for v in dec.ravel())
            if dec.shape != a.shape or dec.dtype != a.dtype or not np.array_equal(dec, a):
                ctx.oracle_fail("the package's own decoder does not recover the label array",
                                dict(desc, data=a.ravel().tolist()))
        except Exception as exc:  # noqa
            own = "err " + type(exc).__name__
            ctx.oracle_fail(f"the package's own decoder raised {type(exc).__name__} on encoder output",
                            dict(desc, data=a.ravel().tolist()))
        reqs.append(f"cseg-spec {isz} {shape} {blk} {core.hexs(buf)}")
        meta.append(("spec", desc, a, "ok " + flat))
        reqs.append(f"cseg-encode {isz} {shape} {blk} {flat}")
        meta.append(("encode", desc, a, "ok " + core.hexs(buf)))
        reqs.append(f"cseg-impl {isz} {shape} {blk} {core.hexs(buf)}")
        meta.append(("impl", desc, a, own))
    if not ctx.driver_ok:
        ctx.tie_breaks.append("driver unavailable: the specification decoder (oracle) could not run")
        return
    for rep, (kind, desc, a, want) in zip(core.driver_batch(reqs), meta):
        if kind == "spec":
            if rep != want:
                ctx.oracle_fail("a decoder written from the format specification does not recover the label "
                                "array from the encoder's output" + (" (rejects the file)" if rep == "none" else ""),
                                dict(desc, data=a.ravel().tolist()))
        elif rep != want:
            ctx.corr_mismatch("cseg-" + kind, dict(desc, data=a.ravel().tolist()), want[:200], rep[:200])


def replay(ctx, data):
    run(ctx)
