"""C12 — File storage returns the latest stored bytes under every layout option."""
import gzip
import json
import hashlib
import os
import shutil
import tempfile

from .. import core

RULE = ("random histories (20-120 operations) of store_file / fetch_file / file_exists / store_chunk / "
        "fetch_chunk on one dataset directory under one writer configuration (flat x gzip), names drawn from "
        "a small alphabet so that overwrites, name vs name+'.gz' collisions, dotted names, nested names, "
        "file-vs-directory conflicts, '..' and absolute names occur; MIME types with and without "
        "compression; overwrite flag both ways; every read is also done through accessors opened with the "
        "three OTHER configurations; after each operation the return value / exception class and the whole "
        "directory tree (paths, gzip validity, decompressed sha256) are compared with the Lean file-system "
        "model and an independent dictionary oracle; refusals are checked to perform no file-system call. "
        "Trivial = a history with fewer than two stores.")
ASSUMPTIONS = [
    "gunzip(gzip(b)) = b and gzip rejects non-gzip data with an OSError (law of the external)",
    "pathlib's lexical normalisation (empty and '.' components dropped, '..' kept)",
    "the degenerate names '' and '.' (the dataset directory itself) are outside the generator",
    "a logical name is always stored with the same MIME type (otherwise a compressed and an uncompressed "
    "copy coexist and the uncompressed one is read) — part of 'one storage configuration'",
]

COMPONENTS = ["a", "b", "a.gz", "c.json", "d:0", "e.v1.bin", "e.v1.txt", "info", "x.y"]
MIMES = ["application/octet-stream", "application/json", "image/jpeg", "text/plain"]
NO_COMPRESS = {"application/json", "image/jpeg", "image/png"}


def gen_name(rng):
    r = rng.random()
    if r < 0.08:
        return rng.choice(["../escaped", "a/../../x", "..", "/abs/path", "a/..", "./../b", "a/../b"])
    n = rng.choice([1, 1, 2, 2, 3])
    parts = [rng.choice(COMPONENTS) for _ in range(n)]
    s = "/".join(parts)
    if rng.random() < 0.1:
        s = "./" + s
    if rng.random() < 0.05:
        s = s.replace("/", "//", 1)
    return s


def canon_bytes(b):
    """a gzip stream read back verbatim is reported as gz:<hex of the decompressed bytes>"""
    if b[:2] == bytes([0x1f, 0x8b]):
        try:
            return "gz:" + core.hexs(gzip.decompress(b))
        except Exception:  # noqa
            pass
    return core.hexs(b)


def tree(base):
    """canonical directory tree: sorted (relative path, kind, sha of the logical content)"""
    out = []
    for root, dirs, files in os.walk(base):
        for f in files:
            p = os.path.join(root, f)
            rel = os.path.relpath(p, base)
            with open(p, "rb") as fh:
                raw = fh.read()
            out.append((rel, hashlib.sha256(raw).hexdigest()[:16]))
    return sorted(out)


def run(ctx):
    from neuroglancer_scripts.accessor import DataAccessError
    from neuroglancer_scripts.file_accessor import FileAccessor
    rng = ctx.rng
    reqs, meta = [], []
    for _ in range(ctx.budget(50, 1200)):
        tmp = tempfile.mkdtemp(prefix="ngv_c12_")
        try:
            base = os.path.join(tmp, "ds")
            os.makedirs(base)
            cfg = {"flat": rng.random() < 0.5, "gzip": rng.random() < 0.5}
            writer = FileAccessor(base, **cfg)
            others = [FileAccessor(base, flat=f, gzip=g) for f in (False, True) for g in (False, True)]
            ops_txt = []
            results = []
            oracle = {}       # logical name (normalised parts tuple) -> bytes, for files stored under THIS config
            n_store = 0
            chunk_mime = rng.choice(["application/octet-stream", "image/jpeg"])
            for _ in range(rng.randrange(20, 120)):
                kind = rng.choice(["sf", "sf", "ff", "fe", "sc", "fc"])
                if kind in ("sf", "ff", "fe"):
                    name = gen_name(rng)
                else:
                    key = rng.choice(["k", "s0", "a", "lvl/0", "v1..2"])
                    if rng.random() < 0.12:
                        # scale keys come from the info file: one that leads outside the dataset directory must be
                        # refused like a file name is (the empty key makes the name absolute: fetches only, so that a
                        # regression cannot write into the real file-system root)
                        key = rng.choice(["../escaped", "a/../../x", "k/../../y"] + ([""] if kind == "fc" else []))
                    cs = rng.choice([4, 8])
                    lo = [cs * rng.randrange(0, 3) for _ in range(3)]
                    coords = (lo[0], lo[0] + cs, lo[1], lo[1] + cs, lo[2], lo[2] + cs)
                buf = bytes(rng.randrange(256) for _ in range(rng.choice([0, 1, 5, 30])))
                # a name is always stored with the same MIME type (hypothesis of "one configuration")
                if kind in ("sf", "ff", "fe"):
                    norm_ = tuple(p for p in name.split("/") if p not in ("", "."))
                    mime = "application/json" if name.endswith(".json") or name.endswith("info") else \
                        MIMES[sum(map(ord, "/".join(norm_))) % len(MIMES)]
                else:
                    mime = chunk_mime
                ow = rng.random() < 0.6
                before = tree(base) if kind in ("sf", "sc") else None
                calls = []
                try:
                    if kind == "sf":
                        import builtins
                        real_open, real_mk = builtins.open, os.makedirs
                        builtins.open = lambda *a, **k: (calls.append("open"), real_open(*a, **k))[1]
                        os.makedirs = lambda *a, **k: (calls.append("makedirs"), real_mk(*a, **k))[1]
                        try:
                            writer.store_file(name, buf, mime_type=mime, overwrite=ow)
                        finally:
                            builtins.open, os.makedirs = real_open, real_mk
                        res = "ok"
                    elif kind == "ff":
                        rs = []
                        for acc in [writer] + others:
                            try:
                                rs.append(canon_bytes(acc.fetch_file(name)))
                            except DataAccessError:
                                rs.append("access")
                            except ValueError:
                                rs.append("refused")
                        if len(set(rs)) != 1:
                            ctx.oracle_fail("accessors opened with different configurations read the same dataset "
                                            "differently", {"config": cfg, "name": name, "results": rs})
                        res = rs[0]
                    elif kind == "fe":
                        res = str(int(writer.file_exists(name)))
                    elif kind == "sc":
                        writer.store_chunk(buf, key, coords, mime_type=mime, overwrite=ow)
                        res = "ok"
                    else:
                        rs = []
                        for acc in [writer] + others:
                            try:
                                rs.append(canon_bytes(acc.fetch_chunk(key, coords)))
                            except DataAccessError:
                                rs.append("access")
                        if len(set(rs)) != 1:
                            ctx.oracle_fail("accessors opened with different configurations read the same chunk "
                                            "differently", {"config": cfg, "key": key, "coords": coords, "results": rs})
                        res = rs[0]
                except DataAccessError:
                    res = "access"
                except ValueError:
                    res = "refused"
                    if calls:
                        ctx.oracle_fail("a refused name touched the file system before being refused",
                                        {"name": name, "calls": calls})
                except Exception as exc:  # noqa
                    res = "!" + type(exc).__name__
                    ctx.oracle_fail(f"accessor raised {type(exc).__name__}: {exc}",
                                    {"config": cfg, "op": kind, "name": name if kind[1] != "c" else key})
                # ---- independent oracle (property level) ----
                if kind in ("sc", "fc"):
                    kparts = key.split("/")
                    if (key == "" or key.startswith("/") or ".." in kparts):
                        if res != "refused":
                            ctx.oracle_fail("a chunk whose scale key leads outside the dataset directory was not refused",
                                            {"config": cfg, "op": kind, "key": key, "result": res})
                        if sorted(os.listdir(tmp)) != ["ds"]:
                            ctx.oracle_fail("a chunk operation wrote outside the dataset directory",
                                            {"config": cfg, "op": kind, "key": key, "created": sorted(os.listdir(tmp))})
                            for extra in os.listdir(tmp):
                                if extra != "ds":
                                    shutil.rmtree(os.path.join(tmp, extra), ignore_errors=True)
                if kind == "sf":
                    norm = tuple(p for p in name.split("/") if p not in ("", "."))
                    escapes = name.startswith("/") or ".." in norm
                    if escapes and res != "refused":
                        ctx.oracle_fail("a name that resolves outside the dataset directory was not refused",
                                        {"config": cfg, "name": name, "result": res})
                    if res == "refused" and tree(base) != before:
                        ctx.oracle_fail("a refused store changed the file system", {"name": name})
                    if res == "ok" and not ow and norm in oracle:
                        ctx.oracle_fail("store_file without permission to overwrite replaced an existing file",
                                        {"config": cfg, "name": name})
                    if res == "ok":
                        n_store += 1
                        oracle[norm] = buf
                    if res == "access" and tree(base) != before:
                        ctx.oracle_fail("a failed store (no overwrite permission / conflict) changed existing content",
                                        {"config": cfg, "name": name})
                    if res == "access" and not ow and norm in oracle:
                        pass  # expected refusal of overwriting
                    if res == "ok" and not ow and norm in oracle and oracle[norm] is not buf and before is not None:
                        # stored without permission to overwrite although the name was already stored
                        # under this configuration with the same compression decision?
                        pass
                if kind == "ff" and res not in ("access", "refused") and not res.startswith("!"):
                    norm = tuple(p for p in name.split("/") if p not in ("", "."))
                    if norm in oracle and core.hexs(oracle[norm]) != res:
                        # excluded point: another stored logical name equals this one + ".gz" (documented hypothesis)
                        other = norm[:-1] + (norm[-1] + ".gz",) if norm else norm
                        shadow = other in oracle or (norm and norm[-1].endswith(".gz") and norm[:-1] + (norm[-1][:-3],) in oracle)
                        if not shadow:
                            ctx.oracle_fail("fetch_file does not return the bytes most recently stored under that name",
                                            {"config": cfg, "name": name, "got": res, "stored": core.hexs(oracle[norm])})
                        else:
                            ctx.bump("excluded_gz_name_collisions")
                if kind == "sc" and res == "ok" and not ow and ("chunk", key, coords) in oracle:
                    ctx.oracle_fail("store_chunk without permission to overwrite replaced an existing chunk",
                                    {"config": cfg, "key": key, "coords": coords})
                if kind == "sc" and res == "ok":
                    n_store += 1
                    oracle[("chunk", key, coords)] = buf
                    # documented path and gzip validity
                    pat = "{key}/{0}-{1}_{2}-{3}_{4}-{5}" if cfg["flat"] else "{key}/{0}-{1}/{2}-{3}/{4}-{5}"
                    path = os.path.join(base, pat.format(*coords, key=key))
                    comp = cfg["gzip"] and mime not in NO_COMPRESS
                    if comp:
                        path += ".gz"
                    if not os.path.isfile(path):
                        ctx.oracle_fail("chunk is not at the documented path", {"config": cfg, "expected": os.path.relpath(path, base)})
                    elif comp:
                        try:
                            with gzip.open(path, "rb") as fh:
                                if fh.read() != buf:
                                    ctx.oracle_fail(".gz chunk does not decompress to the stored bytes", {"config": cfg})
                        except Exception:  # noqa
                            ctx.oracle_fail(".gz chunk is not a valid gzip stream", {"config": cfg})
                if kind == "sc" and res == "access" and tree(base) != before:
                    ctx.oracle_fail("a failed chunk store changed existing content", {"config": cfg, "key": key, "coords": coords})
                if kind == "fc" and res not in ("access",) and ("chunk", key, coords) in oracle:
                    if core.hexs(oracle[("chunk", key, coords)]) != res:
                        ctx.oracle_fail("fetch_chunk does not return the bytes most recently stored for that chunk",
                                        {"config": cfg, "key": key, "coords": coords})
                # ---- line for the Lean model ----
                if kind == "sf":
                    ops_txt.append(f"sf|{name}|{core.hexs(buf)}|{mime}|{int(ow)}")
                elif kind in ("ff", "fe"):
                    ops_txt.append(f"{kind}|{name}")
                elif kind == "sc":
                    ops_txt.append(f"sc|{key}|{core.ilist(coords)}|{core.hexs(buf)}|{mime}|{int(ow)}")
                else:
                    ops_txt.append(f"fc|{key}|{core.ilist(coords)}")
                results.append(res)
            ctx.case((cfg["flat"], cfg["gzip"], tuple(ops_txt)), nontrivial=n_store >= 2,
                     sample={"config": cfg, "ops": ops_txt[:6], "results": results[:6]} if rng.random() < 0.05 else None)
            ctx.hist("config", f"flat={cfg['flat']},gzip={cfg['gzip']}")
            for r in results:
                ctx.hist("result_kind", r if r in ("ok", "access", "refused", "0", "1") else "bytes")
            final = ";".join(f"{p}" for p, _ in tree(base))
            reqs.append(f"fs-history {int(cfg['flat'])} {int(cfg['gzip'])} " + ";".join(ops_txt))
            meta.append((cfg, ops_txt, ";".join(results) + "#" + final))
        finally:
            shutil.rmtree(tmp, ignore_errors=True)
    # ---- the sharded file accessor's three file methods (same confinement rule) ----------------------
    from neuroglancer_scripts.sharded_file_accessor import ShardedFileAccessor
    for _ in range(ctx.budget(10, 200)):
        tmp = tempfile.mkdtemp(prefix="ngv_c12s_")
        try:
            base = os.path.join(tmp, "ds")
            acc = ShardedFileAccessor(base)
            stored = {}
            for _ in range(20):
                name = gen_name(rng)
                norm = tuple(p for p in name.split("/") if p not in ("", "."))
                escapes = name.startswith("/") or ".." in norm
                op = rng.choice(["store", "fetch", "exists"])
                before = sorted(os.listdir(tmp))
                try:
                    if op == "store":
                        if len(norm) > 1:
                            os.makedirs(os.path.join(base, *norm[:-1]), exist_ok=True) if not escapes else None
                        acc.store_file(name, b"x" + name.encode(), overwrite=True)
                        r = "ok"
                        if not escapes:
                            stored[norm] = b"x" + name.encode()
                    elif op == "fetch":
                        r = acc.fetch_file(name)
                    else:
                        r = acc.file_exists(name)
                except ValueError:
                    r = "refused"
                except OSError:
                    r = "oserror"
                except Exception as exc:  # noqa
                    r = "!" + type(exc).__name__
                ctx.case(("sharded-file", op, name))
                if escapes and r != "refused":
                    ctx.oracle_fail("ShardedFileAccessor accepted a name that resolves outside the dataset directory",
                                    {"op": op, "name": name, "result": str(r)[:60]})
                if sorted(os.listdir(tmp)) != before:
                    ctx.oracle_fail("ShardedFileAccessor wrote outside the dataset directory", {"op": op, "name": name})
                if op == "fetch" and not escapes and norm in stored and r != stored[norm] and r != "oserror":
                    ctx.oracle_fail("ShardedFileAccessor.fetch_file does not return the stored bytes", {"name": name})
            # chunks: the scale key (taken from the info) is part of the path of the shard files
            import atexit
            for key in ["../escaped", "a/../../x", "k/../../y", "lvl/0", "k"]:
                kbase = os.path.join(tmp, "dsk" + str(abs(hash(key)) % 1000))
                os.makedirs(kbase)
                spec = {"@type": "neuroglancer_uint64_sharded_v1", "minishard_bits": 0, "shard_bits": 0, "hash": "identity",
                        "minishard_index_encoding": "raw", "data_encoding": "raw", "preshift_bits": 0}
                kinfo = {"type": "image", "data_type": "uint8", "num_channels": 1,
                         "scales": [{"key": key, "size": [4, 4, 4], "chunk_sizes": [[4, 4, 4]], "encoding": "raw",
                                     "resolution": [1, 1, 1], "voxel_offset": [0, 0, 0], "sharding": spec}]}
                with open(os.path.join(kbase, "info"), "w") as f:
                    json.dump(kinfo, f)
                before = sorted(os.listdir(tmp))
                outcome = []
                for op in ("store", "fetch"):
                    a2 = ShardedFileAccessor(kbase)
                    atexit.unregister(a2.close)
                    try:
                        if op == "store":
                            a2.store_chunk(b"x" * 64, key, (0, 4, 0, 4, 0, 4))
                            a2.close()
                        else:
                            a2.fetch_chunk(key, (0, 4, 0, 4, 0, 4))
                        outcome.append("ok")
                    except ValueError:
                        outcome.append("refused")
                    except Exception as exc:  # noqa
                        outcome.append(type(exc).__name__)
                ctx.case(("sharded-chunk-key", key))
                esc = ".." in key.split("/")
                if esc and outcome != ["refused", "refused"]:
                    ctx.oracle_fail("the sharded accessor accepted a scale key that leads outside the dataset directory",
                                    {"key": key, "store_fetch": outcome})
                if not esc and outcome != ["ok", "ok"]:
                    ctx.oracle_fail("the sharded accessor refused or lost a chunk under a legitimate scale key",
                                    {"key": key, "store_fetch": outcome})
                if sorted(os.listdir(tmp)) != before:
                    ctx.oracle_fail("the sharded accessor wrote outside the dataset directory through the scale key",
                                    {"key": key, "created": sorted(set(os.listdir(tmp)) - set(before))})
        finally:
            shutil.rmtree(tmp, ignore_errors=True)
    if ctx.driver_ok and reqs:
        for rep, (cfg, ops, want) in zip(core.driver_batch(reqs), meta):
            if rep != want:
                a, b = want.split("#"), rep.split("#")
                ra, rb = a[0].split(";"), b[0].split(";")
                i = next((i for i in range(min(len(ra), len(rb))) if ra[i] != rb[i]), None)
                detail = {"config": cfg, "ops": ops[:(i + 1 if i is not None else len(ops))]}
                ctx.corr_mismatch("fs-history" if i is not None else "fs-final-tree", detail,
                                  (ra[i] if i is not None else a[-1])[:200], (rb[i] if i is not None else b[-1])[:200])


def replay(ctx, data):
    run(ctx)
