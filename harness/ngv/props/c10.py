"""C10 — Decoders never misbehave on malformed chunk data."""
import io
import struct
import time

import numpy as np

from .. import core, csegen

RULE = ("compressed_segmentation: for small valid chunks (both dtypes, 1-3 channels, non-cubic blocks) every "
        "truncation (all prefixes for short files, sampled otherwise), random 1-3 byte flips, targeted edits "
        "of every header field (channel offsets 0/inside/past the end, bit widths 0..255, table offset "
        "2^24-1, value offsets past the end), random bytes, plus VALID variants written by an independent "
        "encoder (channels stored in reverse order, no table sharing, tables after the values); raw: "
        "lengths around the expected size; JPEG: valid, truncated at sampled positions, corrupted bytes, frame-header fields (height/width/components/length) set to extreme values, "
        "wrong pixel count, wrong mode, non-JPEG data; the chunk size is passed in every form callers use (tuple, the list of the JSON info, NumPy integers, NumPy array). Outcome classes (and arrays) are compared with the "
        "Lean models. Trivial = empty input.")
ASSUMPTIONS = [
    "PIL's behaviour is observed per input and passed to the wrapper model (engine not modelled)",
    "no decoder call may take longer than 5 s (hang watchdog)",
]


def alt_encode(a, bs):
    """Independent VALID encoder written from the format text: channels stored in REVERSE physical
    order, one table per block (no sharing), each table placed AFTER its values, bit width = the
    smallest permitted one."""
    C, Z, Y, X = a.shape
    isz = a.dtype.itemsize
    gx, gy, gz = -(-X // bs[0]), -(-Y // bs[1]), -(-Z // bs[2])
    chans = []
    for c in range(C):
        hdr = bytearray(8 * gx * gy * gz)
        body = bytearray()
        for z in range(gz):
            for y in range(gy):
                for x in range(gx):
                    blk = np.zeros((bs[2], bs[1], bs[0]), dtype=a.dtype)
                    part = a[c, z * bs[2]:(z + 1) * bs[2], y * bs[1]:(y + 1) * bs[1], x * bs[0]:(x + 1) * bs[0]]
                    blk[...] = part.flat[0]
                    blk[:part.shape[0], :part.shape[1], :part.shape[2]] = part
                    lut = sorted(set(int(v) for v in blk.ravel()), reverse=True)  # any order is valid
                    bits = next(b for b in (0, 1, 2, 4, 8, 16, 32) if 2**b >= len(lut))
                    idx = [lut.index(int(v)) for v in blk.ravel()]
                    vals_off = (len(hdr) + len(body)) // 4
                    if bits:
                        vp = 32 // bits
                        for j in range(0, len(idx), vp):
                            w = 0
                            for k, v in enumerate(idx[j:j + vp]):
                                w |= v << (k * bits)
                            body += struct.pack("<I", w)
                    lut_off = (len(hdr) + len(body)) // 4
                    for v in lut:
                        body += int(v).to_bytes(isz, "little")
                    struct.pack_into("<II", hdr, 8 * (x + gx * (y + gy * z)), lut_off | (bits << 24), vals_off)
        chans.append(bytes(hdr) + bytes(body))
    out = bytearray(4 * C)
    pos = 4 * C
    for c in reversed(range(C)):
        struct.pack_into("<I", out, 4 * c, pos // 4)
        pos += len(chans[c])
    for c in reversed(range(C)):
        out += chans[c]
    return bytes(out)


def alt_encode_shared(a, bs):
    """Another VALID encoding from the format text: ONE look-up table per channel (all labels of the channel, sorted)
    that every block points into, each block with the smallest bit width that reaches its highest table index - so
    blocks share a table offset while using DIFFERENT bit widths (a block reads a prefix of the table)."""
    C, Z, Y, X = a.shape
    isz = a.dtype.itemsize
    gx, gy, gz = -(-X // bs[0]), -(-Y // bs[1]), -(-Z // bs[2])
    out = bytearray(4 * C)
    for c in range(C):
        struct.pack_into("<I", out, 4 * c, len(out) // 4)
        table = sorted(set(int(v) for v in a[c].ravel()))
        hdr = bytearray(8 * gx * gy * gz)
        body = bytearray()
        lut_off = len(hdr) // 4
        for v in table:
            body += int(v).to_bytes(isz, "little")
        for z in range(gz):
            for y in range(gy):
                for x in range(gx):
                    part = a[c, z * bs[2]:(z + 1) * bs[2], y * bs[1]:(y + 1) * bs[1], x * bs[0]:(x + 1) * bs[0]]
                    blk = np.zeros((bs[2], bs[1], bs[0]), dtype=a.dtype)
                    blk[...] = part.flat[0]
                    blk[:part.shape[0], :part.shape[1], :part.shape[2]] = part
                    idx = [table.index(int(v)) for v in blk.ravel()]
                    bits = next(b for b in (0, 1, 2, 4, 8, 16, 32) if 2**b > max(idx))
                    vals_off = (len(hdr) + len(body)) // 4
                    if bits:
                        vp = 32 // bits
                        for j in range(0, len(idx), vp):
                            w = 0
                            for k, v in enumerate(idx[j:j + vp]):
                                w |= v << (k * bits)
                            body += struct.pack("<I", w)
                    struct.pack_into("<II", hdr, 8 * (x + gx * (y + gy * z)), lut_off | (bits << 24), vals_off)
        out += bytes(hdr) + bytes(body)
    return bytes(out)


def mutations(rng, buf, nch, ng, full):
    out = []
    n = len(buf)
    if full or n <= 160:
        out += [buf[:k] for k in range(n)]
    else:
        out += [buf[:k] for k in sorted(set([0, 1, 3, 4 * nch - 1, 4 * nch, 4 * nch + 8 * ng - 1,
                                                4 * nch + 8 * ng, n - 5, n - 4, n - 1]
                                               + [rng.randrange(n) for _ in range(12)])) if 0 <= k < n]
    for _ in range(12):
        b = bytearray(buf)
        for _ in range(rng.choice([1, 1, 2, 3])):
            b[rng.randrange(n)] = rng.randrange(256)
        out.append(bytes(b))
    # targeted header edits
    for c in range(nch):
        for v in (0, 1, nch, (n // 4) - 1, n // 4, n // 4 + 1, 2**32 - 1, rng.randrange(0, n // 4 + 2)):
            b = bytearray(buf)
            struct.pack_into("<I", b, 4 * c, v)
            out.append(bytes(b))
    first = struct.unpack_from("<I", buf, 0)[0] * 4
    for _ in range(10):
        b = bytearray(buf)
        blk = rng.randrange(ng)
        pos = first + 8 * blk
        if pos + 8 > n:
            continue
        w0, w1 = struct.unpack_from("<II", b, pos)
        kind = rng.choice(["bits", "lut", "vals", "both"])
        if kind == "bits":
            w0 = (w0 & 0xFFFFFF) | (rng.choice([0, 1, 2, 3, 4, 5, 7, 8, 16, 24, 32, 33, 64, 255]) << 24)
        elif kind == "lut":
            w0 = (w0 & 0xFF000000) | rng.choice([0, 2**24 - 1, n // 4, n // 4 - 1, n // 4 + 1, rng.randrange(2**24)])
        elif kind == "vals":
            w1 = rng.choice([0, n // 4, n // 4 - 1, n // 4 + 1, 2**32 - 1, rng.randrange(2**32)])
        else:
            w0, w1 = rng.getrandbits(32), rng.getrandbits(32)
        struct.pack_into("<II", b, pos, w0, w1)
        out.append(bytes(b))
    out.append(bytes(rng.randrange(256) for _ in range(rng.randrange(0, n + 8))))
    out.append(buf + b"\0\0\0\0")
    return out


def classify(fn, shape, dtype):
    """Run a decoder; return ('ok', flat values) / ('format',) / ('other', name) / ('bad-array', what)."""
    from neuroglancer_scripts.chunk_encoding import InvalidFormatError
    t0 = time.time()
    try:
        arr = fn()
    except InvalidFormatError:
        res = ("format",)
    except Exception as exc:  # noqa
        res = ("other", type(exc).__name__)
    else:
        if not isinstance(arr, np.ndarray) or arr.shape != tuple(shape) or arr.dtype != np.dtype(dtype):
            res = ("bad-array", f"shape={getattr(arr, 'shape', None)} dtype={getattr(arr, 'dtype', None)}")
        else:
            res = ("ok", arr)
    if time.time() - t0 > 5:
        res = ("other", "hang>5s")
    return res


def size_form(rng, size):
    """The chunk size in one of the forms callers really use: a tuple, the list that comes out of the JSON
    info, NumPy integers, a NumPy array."""
    k = rng.randrange(5)
    if k == 0:
        return list(size)
    if k == 1:
        return tuple(np.int64(v) for v in size)
    if k == 2:
        return np.array(size)
    if k == 3:
        return [np.uint32(v) for v in size]
    return tuple(size)


def run(ctx):
    import PIL.Image
    from neuroglancer_scripts.chunk_encoding import (CompressedSegmentationEncoder, JpegChunkEncoder,
                                                     RawChunkEncoder)
    rng = ctx.rng
    reqs, meta = [], []

    def judge(kind, res, desc, valid, truth=None):
        if res[0] == "other":
            ctx.oracle_fail(f"{kind} decoder raised {res[1]} instead of InvalidFormatError", desc)
        elif res[0] == "bad-array":
            ctx.oracle_fail(f"{kind} decoder returned an array of the wrong shape or type ({res[1]})", desc)
        elif valid and res[0] != "ok":
            ctx.oracle_fail(f"{kind} decoder rejected valid data", desc)
        elif valid and truth is not None and not np.array_equal(res[1], truth):
            ctx.oracle_fail(f"{kind} decoder decoded valid data to wrong values", desc)
        ctx.hist(kind + "_outcome", res[0])

    # ---- compressed_segmentation ------------------------------------------------------------------
    for _ in range(ctx.budget(45, 1500)):
        while True:
            dt, bs, a, mode = csegen.gen_chunk(rng)
            if a.size <= 150:
                break
        C = a.shape[0]
        isz = np.dtype(dt).itemsize
        enc = CompressedSegmentationEncoder(dt, C, list(bs))
        buf = bytes(enc.encode(a))
        size = (a.shape[3], a.shape[2], a.shape[1])
        ng = int(np.prod([-(-a.shape[3 - i] // bs[i]) for i in range(3)]))
        shape_s, blk_s = core.ilist(a.shape), core.ilist(bs)
        cases = [(buf, True), (alt_encode(a, bs), True), (alt_encode_shared(a, bs), True)]
        cases += [(m, False) for m in mutations(rng, buf, C, ng, full=ctx.tier == "thorough")]
        for data, valid in cases:
            res = classify(lambda: enc.decode(data, size_form(rng, size)), a.shape, a.dtype)
            desc = {"decoder": "compressed_segmentation", "dtype": dt, "shape": list(a.shape),
                    "block_size": bs, "data_hex": data.hex(), "valid": valid}
            ctx.case(("cseg", dt, tuple(bs), a.shape, data), nontrivial=len(data) > 0,
                     sample={k: desc[k] for k in ("dtype", "shape", "block_size", "valid")} | {"len": len(data), "outcome": res[0]}
                     if rng.random() < 0.001 else None)
            judge("cseg", res, desc, valid, a if valid else None)
            reqs.append(f"cseg-impl {isz} {shape_s} {blk_s} {core.hexs(data)}")
            meta.append(("cseg", desc, res))
    # ---- raw -------------------------------------------------------------------------------------------
    for _ in range(ctx.budget(150, 3000)):
        dt = rng.choice(["uint8", "uint16", "uint32", "uint64", "float32"])
        C = rng.choice([1, 2, 3])
        size = tuple(rng.randrange(1, 5) for _ in range(3))
        count = C * size[0] * size[1] * size[2]
        isz = np.dtype(dt).itemsize
        n = rng.choice([count * isz, count * isz, count * isz - 1, count * isz + 1, count * isz + isz,
                        max(0, count * isz - isz), 0, rng.randrange(0, 2 * count * isz + 2)])
        data = bytes(rng.randrange(256) for _ in range(n))
        enc = RawChunkEncoder(dt, C)
        shape = (C, size[2], size[1], size[0])
        res = classify(lambda: enc.decode(data, size_form(rng, size)), shape, dt)
        valid = n == count * isz
        desc = {"decoder": "raw", "dtype": dt, "shape": list(shape), "data_hex": data.hex(), "valid": valid}
        ctx.case(("raw", dt, shape, data), nontrivial=n > 0)
        judge("raw", res, desc, valid)
        reqs.append(f"raw-decode {isz} {count} {core.hexs(data)}")
        uview = {"float32": "<u4"}.get(dt, np.dtype(dt).newbyteorder("<"))
        meta.append(("raw", desc, ("ok", res[1].view(uview)) if res[0] == "ok" else res))
    # ---- JPEG ------------------------------------------------------------------------------------------
    for _ in range(ctx.budget(12, 200)):
        C = rng.choice([1, 3])
        size = (rng.randrange(1, 9), rng.randrange(1, 9), rng.randrange(1, 5))
        shape = (C, size[2], size[1], size[0])
        a = np.random.default_rng(rng.getrandbits(32)).integers(0, 256, size=shape).astype("uint8")
        enc = JpegChunkEncoder("uint8", C, jpeg_plane=rng.choice(["xy", "xz"]), jpeg_quality=rng.choice([50, 90, 100]))
        good = enc.encode(a)
        variants = [(good, True)]
        # the format allows ANY width x height with the right number of pixels
        npix = size[0] * size[1] * size[2]
        for w in sorted({1, npix, size[0] * size[1], size[2]} | {d for d in range(2, 9) if npix % d == 0}):
            if npix % w:
                continue
            h = npix // w
            arr = a.reshape(C, h, w)
            arr = arr[0] if C == 1 else np.moveaxis(arr, 0, -1)
            bio = io.BytesIO()
            PIL.Image.fromarray(np.ascontiguousarray(arr)).save(bio, format="jpeg", quality=90)
            variants.append((bio.getvalue(), True))
        variants += [(good[:k], False) for k in sorted(set(rng.randrange(len(good)) for _ in range(10)) | {0, 1, 2, 10, len(good) - 1, len(good) - 2})
                     if 0 <= k < len(good)]
        for _ in range(6):
            b = bytearray(good)
            for _ in range(rng.choice([1, 2, 5])):
                b[rng.randrange(len(b))] = rng.randrange(256)
            variants.append((bytes(b), False))
        # header-field mutations: the frame header (SOF) announces height, width and component count; extreme
        # values reach PIL failure modes that are not OSError (e.g. DecompressionBombError above 2*MAX_IMAGE_PIXELS)
        sof = next((i for i in range(len(good) - 9) if good[i] == 0xFF and good[i + 1] in (0xC0, 0xC1, 0xC2)), None)
        if sof is not None:
            # announced sizes between 8 and 179 megapixels are decoded in full by PIL before the wrapper can compare
            # the pixel count (seconds, > 1 GB): slow but finite and ending in InvalidFormatError, so they are kept
            # out of the time-limited stream (the property's "never hangs" is not a 5 s deadline)
            while True:
                rand_dims = (rng.randrange(65536), rng.randrange(65536))
                if rand_dims[0] * rand_dims[1] <= 8_000_000 or rand_dims[0] * rand_dims[1] > 180_000_000:
                    break
            for hh, ww in [(0xFFFF, 0xFFFF), (0x8000, 0x8000), (0x4000, 0x4000), (0, None), (None, 0), (0xFFFF, None),
                           (None, 0xFFFF), rand_dims]:
                b = bytearray(good)
                if hh is not None:
                    b[sof + 5:sof + 7] = hh.to_bytes(2, "big")
                if ww is not None:
                    b[sof + 7:sof + 9] = ww.to_bytes(2, "big")
                variants.append((bytes(b), False))
            for nc in (0, 2, 4, 255):
                b = bytearray(good)
                b[sof + 9] = nc
                variants.append((bytes(b), False))
            b = bytearray(good)
            b[sof + 2:sof + 4] = rng.choice([0, 2, 0xFFFF]).to_bytes(2, "big")   # segment length
            variants.append((bytes(b), False))
        other = JpegChunkEncoder("uint8", 4 - C).encode(  # wrong mode
            np.zeros((4 - C, size[2], size[1], size[0]), dtype="uint8"))
        variants.append((other, False))
        bigger = JpegChunkEncoder("uint8", C).encode(np.zeros((C, size[2] + 1, size[1], size[0]), dtype="uint8"))
        variants.append((bigger, False))
        png = io.BytesIO()
        PIL.Image.fromarray(np.zeros((size[1] * size[2], size[0]), dtype="uint8")).save(png, format="png")
        variants.append((png.getvalue(), None))  # PIL opens it: mode L with the right pixel count => accepted or not
        variants.append((b"not a jpeg", False))
        count = C * size[0] * size[1] * size[2]
        for data, valid in variants:
            res = classify(lambda: enc.decode(data, size_form(rng, size)), shape, "uint8")
            desc = {"decoder": "jpeg", "shape": list(shape), "data_hex": data.hex()[:4000], "valid": valid}
            ctx.case(("jpeg", shape, data))
            judge("jpeg", res, desc, bool(valid))
            # observe PIL for the wrapper model
            obs = [0, 0, 0, 0, 0]
            try:
                img = PIL.Image.open(io.BytesIO(data))
                obs[0] = 1
                obs[1] = int(img.mode == "L")
                obs[2] = int(img.mode == "RGB")
                try:
                    arr = np.asarray(img)
                    obs[3] = 1
                    obs[4] = int(arr.size)
                except Exception:  # noqa
                    pass
            except Exception:  # noqa
                pass
            reqs.append("jpeg-wrapper " + " ".join(map(str, obs)) + f" {C} {count}")
            meta.append(("jpeg", desc, res))
    # ---- correspondence ----------------------------------------------------------------------------------
    if ctx.driver_ok:
        for rep, (kind, desc, res) in zip(core.driver_batch(reqs), meta):
            if kind == "jpeg":
                model = "ok" if rep.startswith("ok") else "format"
                impl = res[0] if res[0] in ("ok", "format") else f"{res[0]}:{res[1]}"
            else:
                model = rep if rep.startswith("ok") else rep.split()[1]
                impl = ("ok " + core.ilist(int(v) for v in res[1].ravel())) if res[0] == "ok" else \
                    (res[0] if res[0] == "format" else f"{res[0]}:{res[1]}")
            if impl != model:
                ctx.corr_mismatch(kind + "-decode-outcome", desc, impl[:200], model[:200])


def replay(ctx, data):
    run(ctx)
