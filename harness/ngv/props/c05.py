"""C05 — Sharded storage returns what was stored, whatever the order of writes."""
import itertools
import json
import os
import shutil
import tempfile
import zlib

import numpy as np

from .. import core, shardlib

RULE = ("(a) reorder buffer: random and (thorough) all permutations of all subsets of <=5 ranks of one "
        "minishard for bit triples in {0..3}^3, 15% duplicate stores, both buffering strategies, state "
        "compared with the Lean state machine after every operation and after close; (b) whole datasets: "
        "random grids <=4^3 (6^3 thorough), subsets 25-100% (random/head/tail), orders "
        "sorted/reversed/shuffled, raw and gzip encodings, payloads as bytes / bytearray / memoryview / typed uint16 "
        "buffers, written twice with different order and "
        "strategy, files compared byte for byte with each other and with the Lean Shard.assemble, every "
        "stored and never-stored chunk fetched through a fresh accessor. Trivial = a single stored chunk.")
ASSUMPTIONS = [
    "identifiers < 2^64 and minishard+shard+preshift bits <= 64 (next_cmc does not wrap)",
    "zlib.compress is deterministic (gzip encodings are compared after decoding)",
    "the file system returns what was written (write buffers on disk)",
]


def real_state(ms):
    hdr = np.asarray(ms.header, dtype=np.uint64).reshape(-1, 3)
    rows = ",".join(f"{int(r[0])}.{int(r[2])}" for r in hdr) or "-"
    keys = core.ilist(sorted(int(k) for k in ms._chunk_buffer.keys()))
    return f"{int(ms._appended)} {int(ms._last_chunk_id)} {keys} {len(ms.databytearray)} {rows}"


def walk_rows(rows, data, cid):
    cur = 0
    off = 0
    for did, sz in rows:
        cur += did
        if cur == cid:
            return data[off:off + sz]
        off += sz
    return None


def minishard_history(ctx, m, s, p, ranks_order, dup=0.15, strategy="in memory", payload_of=None):
    """Drive the real MiniShard and return (per-op state strings, final data, final rows, ops)."""
    from neuroglancer_scripts.sharded_base import ShardSpec
    from neuroglancer_scripts.sharded_file_accessor import MiniShard
    rng = ctx.rng
    spec = ShardSpec(m, s, "identity", "raw", "raw", p)
    fixed = rng.getrandbits(m + s) if m + s else 0

    def rank_to_id(n):
        return ((n >> p) << (p + s + m)) + (fixed << p) + (n & ((1 << p) - 1))
    ms = MiniShard(spec, strategy=strategy)
    states = []
    ops = []
    stored = {}
    for r in ranks_order:
        cid = rank_to_id(r)
        pay = payload_of(r) if payload_of else bytes(rng.randrange(256) for _ in range(rng.choice([0, 1, 3, 9])))
        ops.append((cid, pay))
        try:
            ms.store_cmc_chunk(pay, np.uint64(cid))
            states.append(real_state(ms))
            stored[cid] = pay
        except RuntimeError:
            states.append("RuntimeError")
        except Exception as exc:  # noqa
            states.append("!" + type(exc).__name__)
    try:
        ms.close()
        data = b"".join(bytes(b) for b in ms.databytearray)
        closed = "closed " + real_state(ms) + " " + core.hexs(data)
    except Exception as exc:  # noqa
        closed = "closed !" + type(exc).__name__
        data = None
    hdr = np.asarray(ms.header, dtype=np.uint64).reshape(-1, 3)
    rows = [(int(r[0]), int(r[2])) for r in hdr]
    return states, closed, data, rows, ops, stored


def run(ctx):
    from neuroglancer_scripts.accessor import get_accessor_for_url
    rng = ctx.rng
    # ---- (a) reorder buffer, state level -------------------------------------------------------
    reqs, impl = [], []
    histories = []
    n_hist = ctx.budget(150, 2500)
    for _ in range(n_hist):
        m, s, p = rng.randrange(4), rng.randrange(4), rng.randrange(4)
        k = rng.randrange(1, 9)
        ranks = rng.sample(range(0, 14), k)
        order = list(ranks)
        rng.shuffle(order)
        if rng.random() < 0.3:
            order += [rng.choice(order)]  # duplicate store
        histories.append((m, s, p, order, rng.choice(["in memory", "on disk"])))
    if ctx.tier == "thorough" or ctx.search_mode:
        for (m, s, p) in [(0, 0, 0), (1, 0, 1), (2, 1, 0), (1, 2, 2)]:
            for k in range(1, 5):
                for sub in itertools.combinations(range(6), k):
                    for perm in itertools.permutations(sub):
                        histories.append((m, s, p, list(perm), "in memory"))
    finals = {}
    for (m, s, p, order, strat) in histories:
        pay = {r: bytes([r, len(order)]) * (r % 3) for r in set(order)}
        states, closed, data, rows, ops, stored = minishard_history(
            ctx, m, s, p, order, strategy=strat, payload_of=lambda r: pay[r])
        ctx.case(("ms", m, s, p, tuple(order)), nontrivial=len(order) > 1,
                 sample={"bits": [m, s, p], "rank_order": order, "strategy": strat, "closed": closed[:120]}
                 if rng.random() < 0.01 else None)
        ctx.hist("ms_history_len", len(order))
        # oracle: after close every stored id reads back its last payload; index ids strictly increase
        has_dup = len(set(order)) != len(order)
        if closed.startswith("closed !"):
            ctx.oracle_fail("MiniShard.close raised " + closed[8:], {"bits": [m, s, p], "rank_order": order})
        elif any(st.startswith("!") for st in states):
            ctx.oracle_fail("store_cmc_chunk raised " + [st for st in states if st.startswith("!")][0][1:],
                            {"bits": [m, s, p], "rank_order": order})
        elif not has_dup:
            if "RuntimeError" in states:
                ctx.oracle_fail("storing distinct chunks of a minishard raised RuntimeError",
                                {"bits": [m, s, p], "rank_order": order})
            for cid, pl in stored.items():
                got = walk_rows(rows, data, cid)
                if got != pl:
                    ctx.oracle_fail("stored chunk not listed / wrong bytes in the closed minishard",
                                    {"bits": [m, s, p], "rank_order": order, "id": cid,
                                     "stored": pl.hex(), "found": None if got is None else got.hex()})
            if any(r[0] == 0 for r in rows[1:]):
                ctx.oracle_fail("identifiers in the minishard index are not strictly increasing",
                                {"bits": [m, s, p], "rank_order": order, "rows": rows})
            # order independence on the real code: same set, other order / strategy
            key = (m, s, p, tuple(sorted(order)), tuple(sorted(c for c, _ in ops)))
            fin = (data, tuple(rows))
            if key in finals and finals[key][0] != fin:
                ctx.oracle_fail("the closed minishard depends on the order of the stores",
                                {"bits": [m, s, p], "order_a": finals[key][1], "order_b": order})
            finals.setdefault(key, (fin, order))
        reqs.append(f"ms-run {m} {s} {p} " + ",".join(f"{c}:{core.hexs(b)}" for c, b in ops))
        impl.append("|".join(states) + "|" + closed)
    if ctx.driver_ok:
        for rep, im, h in zip(core.driver_batch(reqs), impl, histories):
            if rep != im:
                ctx.corr_mismatch("minishard-state", {"bits": h[:3], "rank_order": h[3], "strategy": h[4]},
                                  im[:400], rep[:400])
    # ---- (b) whole datasets ----------------------------------------------------------------------
    reqs, expect = [], []
    for _ in range(ctx.budget(40, 600)):
        ds = shardlib.gen_dataset(rng, small=ctx.tier == "quick")
        tmp = tempfile.mkdtemp(prefix="ngv_c05_")
        try:
            d1, d2 = os.path.join(tmp, "a"), os.path.join(tmp, "b")
            order2 = list(ds["order"])
            rng.shuffle(order2)
            try:
                shardlib.write_dataset(ds, d1, ds["order"], "in memory")
                shardlib.write_dataset(ds, d2, order2, "on disk")
            except Exception as exc:  # noqa
                ctx.oracle_fail(f"storing/closing a sharded dataset raised {type(exc).__name__}: {exc}",
                                describe(ds))
                continue
            f1, f2 = shardlib.shard_files(d1), shardlib.shard_files(d2)
            ctx.case(("ds", json.dumps(describe(ds), sort_keys=True)), nontrivial=len(ds["order"]) > 1,
                     sample=describe(ds) if rng.random() < 0.05 else None)
            ctx.hist("dataset_order", ds["how"])
            ctx.hist("dataset_enc", ds["index_enc"] + "/" + ds["data_enc"])
            if f1 != f2:
                ctx.oracle_fail("shard files differ between write orders / buffering strategies",
                                dict(describe(ds), order_b=[list(c) for c in order2],
                                     files_a=sorted(f1), files_b=sorted(f2)))
            acc = get_accessor_for_url(d1)
            stored = set(ds["order"])
            for cell in itertools.product(*[range(g) for g in ds["grid"]]):
                coords = shardlib.coords_of(ds, cell)
                try:
                    got = acc.fetch_chunk("k", coords)
                    err = None
                except Exception as exc:  # noqa
                    got, err = None, type(exc).__name__
                if cell in stored:
                    if got != ds["payload"][cell]:
                        ctx.oracle_fail("fetching a stored chunk does not return the stored bytes",
                                        dict(describe(ds), cell=list(cell), error=err,
                                             got=None if got is None else got.hex()))
                elif got:
                    ctx.oracle_fail("a chunk that was never stored is reported with data",
                                    dict(describe(ds), cell=list(cell), got=got.hex()))
            # model: per shard file
            if ds["index_enc"] == "raw":
                by_shard = {}
                for cell in ds["order"]:
                    cid = shardlib.spec_code(ds["grid"], cell)
                    h = cid >> ds["p"]
                    shard = (h >> ds["m"]) & ((1 << ds["s"]) - 1)
                    pl = ds["payload"][cell]
                    enc = zlib.compress(pl) if ds["data_enc"] == "gzip" else pl
                    by_shard.setdefault(shard, []).append(f"{cid}:{core.hexs(enc)}")
                for shard, ops in by_shard.items():
                    name = format(shard, "x").rjust(-(-ds["s"] // 4), "0") + ".shard"
                    reqs.append(f"shard-build {ds['m']} {ds['s']} {ds['p']} " + ",".join(ops))
                    expect.append((describe(ds), name, f1.get(name)))
        finally:
            shutil.rmtree(tmp, ignore_errors=True)
    if ctx.driver_ok and reqs:
        for rep, (dsd, name, real) in zip(core.driver_batch(reqs), expect):
            want = "ok " + core.hexs(real) if real is not None else "missing"
            if rep != want:
                ctx.corr_mismatch("shard-file-bytes", dict(dsd, file=name), want[:300], rep[:300])


def describe(ds):
    return {"size": ds["size"], "chunk": ds["cs"], "grid": ds["grid"],
            "bits_m_s_p": [ds["m"], ds["s"], ds["p"]], "index_enc": ds["index_enc"],
            "data_enc": ds["data_enc"], "order": [list(c) for c in ds["order"]],
            "payload_len": [len(ds["payload"][c]) for c in ds["order"]]}


def replay(ctx, data):
    run(ctx)
