"""C08 — Generated scale metadata is consistent and usable by every later step."""
import copy
import json
import os
import shutil
import tempfile
from fractions import Fraction

import numpy as np

from .. import core
from .c03 import DictAccessor

RULE = ("sizes from {1,2,3,63,64,65,100,1000,10^6,10^9-1} and random; resolutions integer and fractional with "
        "ratios from a table incl. values just below/above 2^(k±0.5); target chunk sizes 1..256 (powers of "
        "two); max_scales None/1/2/5; types and encodings through the real generate_scales_info main() (file "
        "written, JSON re-parsed) and fill_scales_for_dyadic_pyramid; every structural clause of the property "
        "is evaluated on the real info (oracle, exact rationals) and sizes / chunk sizes / scale count are "
        "compared with the Lean model. Trivial = isotropic single-scale output.")
ASSUMPTIONS = [
    "the per-axis delay round(log2(res/min res)) is the exact nearest integer (no rational resolution ratio "
    "is a half-integer power of two); compared with the code's float result on every input",
    "JSON validity is checked by re-parsing the written file",
]


def exact_delays(res):
    fr = [Fraction(r) for r in res]
    best = min(fr)
    out = []
    for r in fr:
        q = (r / best) ** 2
        k = 0
        while q >= Fraction(2) ** (2 * k + 1):
            k += 1
        out.append(k)
    return out


def clog2(n):
    return (n - 1).bit_length() if n > 1 else 0


def check_info(ctx, info, full, target, max_scales, desc):
    """All structural clauses of C08 on a generated info. Returns the per-scale integer data."""
    e = target.bit_length() - 1
    scales = info["scales"]
    res0 = [Fraction(r) for r in full["resolution"]]
    size0 = full["size"]
    delays = exact_delays(full["resolution"])
    keys = [s["key"] for s in scales]
    if len(set(keys)) != len(keys):
        ctx.oracle_fail("scale keys are not pairwise distinct", dict(desc, keys=keys))
    rows = []
    prev_ratio = None
    for L, s in enumerate(scales):
        fac = []
        for a in range(3):
            r = Fraction(s["resolution"][a]) / res0[a]
            k = 0
            while Fraction(2) ** k < r:
                k += 1
            if Fraction(2) ** k != r:
                ctx.oracle_fail("resolution of a scale is not the full resolution times a power of two",
                                dict(desc, scale=s["key"], axis=a))
                return None
            fac.append(2 ** k)
            if s["size"][a] != -(-size0[a] // fac[a]):
                ctx.oracle_fail("scale size is not the full size divided by the same factor, rounded up",
                                dict(desc, scale=s["key"], axis=a, size=s["size"], factor=fac[a]))
        cs = s["chunk_sizes"][0]
        if len(s["chunk_sizes"]) != 1 or any(c < 1 or c & (c - 1) for c in cs):
            ctx.oracle_fail("chunk sizes are not powers of two", dict(desc, scale=s["key"], chunk_sizes=s["chunk_sizes"]))
        else:
            ex = sum(c.bit_length() - 1 for c in cs)
            if abs(ex - 3 * e) > 1:
                ctx.oracle_fail("a chunk does not hold about the target number of voxels",
                                dict(desc, scale=s["key"], chunk_size=cs, target=target))
        # isotropy: the ratio max/min resolution never grows, and once every axis is being downscaled
        # it is below sqrt(2)
        rr = [Fraction(x) for x in s["resolution"]]
        ratio = max(rr) / min(rr)
        prev_ratio = ratio
        ib = res0.index(min(res0))
        worst = max(max(x / rr[ib], rr[ib] / x) for x in rr)
        if all(f > 1 for f in fac) and worst ** 2 > 2:
            ctx.oracle_fail("all axes are being downscaled but an axis is more than sqrt(2) away from the finest axis: "
                            "a coarser axis did not start downscaling at the right level",
                            dict(desc, scale=s["key"], resolution=s["resolution"]))
        rows.append((list(s["size"]), list(cs), fac))
    for (s0, _, f0), (s1, _, f1) in zip(rows, rows[1:]):
        for a in range(3):
            if f1[a] not in (f0[a], 2 * f0[a]):
                ctx.oracle_fail("consecutive scales differ by a factor other than 1 or 2", dict(desc, axis=a))
    if not max_scales:
        last = rows[-1][0]
        if any(v > 2 * target for v in last):
            ctx.oracle_fail("the last scale does not fit in two target-size chunks per axis",
                            dict(desc, last_size=last, target=target))
    return rows, delays, e


def run(ctx):
    from neuroglancer_scripts import dyadic_pyramid, precomputed_io
    from neuroglancer_scripts.scripts import generate_scales_info
    rng = ctx.rng
    reqs, meta = [], []
    crit = [2 ** (k + 0.5) for k in range(0, 4)]
    table = [1, 1, 1, 1.2, 1.4, 1.5, 1.8, 2, 2.8, 3, 5, 6, 7.5, 10, 40] + [c * 0.999 for c in crit] + [c * 1.001 for c in crit]
    for _ in range(ctx.budget(400, 20000)):
        size = [rng.choice([1, 2, 3, 63, 64, 65, 100, 1000, 10**6, 10**9 - 1, rng.randrange(1, 5000)]) for _ in range(3)]
        base = rng.choice([1.0, 0.8, 10.0, 40.0, 1000.0, 21166.666666666668, 0.05])
        res = [base * rng.choice(table) for _ in range(3)]
        target = 2 ** rng.choice([0, 1, 2, 3, 4, 5, 6, 6, 6, 7, 8])
        max_scales = rng.choice([None, None, None, 1, 2, 5])
        full = {"encoding": "raw", "size": size, "resolution": res, "voxel_offset": [0, 0, 0]}
        info = {"type": "image", "data_type": "uint8", "num_channels": 1, "scales": [copy.deepcopy(full)]}
        desc = {"size": size, "resolution": res, "target_chunk_size": target, "max_scales": max_scales}
        try:
            dyadic_pyramid.fill_scales_for_dyadic_pyramid(info, target_chunk_size=target, max_scales=max_scales)
        except Exception as exc:  # noqa
            ctx.oracle_fail(f"the scale generator raised {type(exc).__name__}: {exc}", desc)
            continue
        ctx.case(json.dumps(desc), nontrivial=len(info["scales"]) > 1 or len(set(res)) > 1,
                 sample=dict(desc, keys=[s["key"] for s in info["scales"]]) if rng.random() < 0.005 else None)
        r = check_info(ctx, info, full, target, max_scales, desc)
        if r is None:
            continue
        rows, delays, e = r
        ctx.hist("distinct_delays", len(set(delays)))
        ctx.hist("num_scales", len(rows))
        # accepted by the encoders and by the pyramid computation
        try:
            precomputed_io.PrecomputedIO(info, DictAccessor())
        except Exception as exc:  # noqa
            ctx.oracle_fail(f"the generated info is rejected by the encoders ({type(exc).__name__})", desc)
        for i, ((s0, c0, f0), (s1, c1, f1)) in enumerate(zip(rows, rows[1:])):
            for a in range(3):
                f = f1[a] // f0[a]
                single = s0[a] <= c0[a] and s1[a] <= c1[a] and s1[a] <= (c0[a] // f if c0[a] // f else 0)
                ok = c0[a] % f == 0 and c0[a] // f > 0 and c1[a] in (c0[a] // f, 2 * (c0[a] // f))
                if not ok and not single:
                    # would the pyramid computation really refuse it? ask the real code on empty data
                    key = "F21-incompatible-chunk-sizes" if len(set(delays)) == 3 else (
                        "F28-target-chunk-size-1" if target == 1 else None)
                    ctx.oracle_fail({"F21-incompatible-chunk-sizes": "consecutive scales have chunk sizes the pyramid "
                                     "computation cannot process (three distinct axis delays)",
                                     "F28-target-chunk-size-1": "target chunk size 1: a halved axis has chunk size 1 "
                                     "(compute-scales raises ZeroDivisionError)"}.get(key,
                                    "consecutive scales have incompatible chunk sizes"),
                                    dict(desc, transition=i, axis=a, old_chunk=c0, new_chunk=c1, factor=f), key=key)
                    break
        # the model computes the delays itself from the float quotients the code forms (exact value of res / min res)
        best = min(float(v) for v in full["resolution"])
        ratios = [Fraction(float(v) / best) for v in full["resolution"]]
        reqs.append(f"scales-res {core.ilist(size)} " + ",".join(f"{q.numerator}/{q.denominator}" for q in ratios)
                    + f" {e} {'none' if not max_scales else max_scales}")
        meta.append((desc, core.ilist(delays) + " " + ";".join(
            core.ilist(s) + "/" + core.ilist(c) + "/" + core.ilist(f) for s, c, f in rows)))
    # ---- through the command-line module, with set_info_params -------------------------------------------
    for _ in range(ctx.budget(25, 400)):
        tmp = tempfile.mkdtemp(prefix="ngv_c08_")
        try:
            dt = rng.choice(["uint8", "uint16", "uint32", "uint64", "float32"])
            enc_in = rng.choice(["raw", "raw", "compressed_segmentation", "jpeg"])
            full = {"encoding": enc_in, "size": [rng.randrange(1, 300) for _ in range(3)],
                    "resolution": [rng.choice([1000.0, 2000.0, 500.0, 1200.0]) for _ in range(3)],
                    "voxel_offset": [0, 0, 0]}
            if enc_in == "compressed_segmentation" and rng.random() < 0.5:
                full["compressed_segmentation_block_size"] = [8, 8, 8]
            if rng.random() < 0.35:
                # a full-resolution info that names no encoding: the documented default applies, whatever EARLIER calls in
                # this process were asked for
                del full["encoding"]
                enc_in = None
            info0 = {"type": rng.choice(["image", "segmentation"]), "data_type": dt,
                     "num_channels": rng.choice([1, 1, 3]), "scales": [full]}
            src = os.path.join(tmp, "info_fullres.json")
            with open(src, "w") as f:
                json.dump(info0, f)
            target_cli = 2 ** rng.randrange(3, 7)
            argv = ["generate-scales-info", src, tmp, "--target-chunk-size", str(target_cli)]
            if rng.random() < 0.35:
                # option omitted: the documented default (64) applies, whatever chunk sizes the input info carries
                argv = argv[:3] + ["--max-scales", "0"] if rng.random() < 0.3 else argv[:3]
                target_cli = 64
                if rng.random() < 0.7:
                    full["chunk_sizes"] = [rng.choice([[128, 128, 32], [32, 32, 32], [256, 256, 256], [64, 64, 16]])]
                    with open(src, "w") as f:
                        json.dump(info0, f)
            enc_arg = rng.choice([None, None, "raw", "compressed_segmentation", "jpeg"])
            if enc_arg:
                argv += ["--encoding", enc_arg]
            if rng.random() < 0.3:
                argv += ["--type", rng.choice(["image", "segmentation"])]
            desc = {"info_fullres": info0, "argv": argv[3:]}
            try:
                rc = generate_scales_info.main(argv)
            except SystemExit as exc:
                rc = exc.code
            except Exception as exc:  # noqa
                final_enc = enc_arg or enc_in or "raw"
                # requests the encodings cannot serve at all are refused (with a warning) — legitimate
                legit = (final_enc == "jpeg" and (dt != "uint8" or info0["num_channels"] not in (1, 3))) or \
                    (final_enc == "compressed_segmentation" and dt == "float32")
                if not legit:
                    ctx.oracle_fail(f"generate-scales-info raised {type(exc).__name__}: {exc}", desc)
                continue
            ctx.case(("cli", json.dumps(desc, sort_keys=True)))
            if rc not in (0, None):
                continue
            try:
                with open(os.path.join(tmp, "info")) as f:
                    out = json.load(f)
            except Exception as exc:  # noqa
                ctx.oracle_fail(f"the written info is not valid JSON ({type(exc).__name__})", desc)
                continue
            try:
                precomputed_io.PrecomputedIO(out, DictAccessor())
            except Exception as exc:  # noqa
                ctx.oracle_fail(f"the written info is rejected by the encoders ({type(exc).__name__}: {exc})",
                                dict(desc, info=out))
                continue
            # ---- the command run AGAIN on the same destination with another target chunk size: refused (the info is
            # kept as it is), or the info is the one a fresh destination would get for the new arguments ----
            if rng.random() < 0.3:
                other = [t for t in ("8", "16", "32", "64") if int(t) != target_cli]
                if "--target-chunk-size" in argv:
                    argv2 = list(argv)
                    argv2[argv2.index("--target-chunk-size") + 1] = rng.choice(other)
                else:
                    argv2 = list(argv) + ["--target-chunk-size", rng.choice(other)]
                before_bytes = open(os.path.join(tmp, "info"), "rb").read()
                try:
                    rc2 = generate_scales_info.main(argv2)
                except SystemExit as exc:
                    rc2 = exc.code
                except Exception:  # noqa
                    rc2 = "raised"
                ctx.hist("second_generate_scales_info", "accepted" if rc2 in (0, None) else "refused")
                after_bytes = open(os.path.join(tmp, "info"), "rb").read()
                if rc2 in (0, None):
                    fresh = tempfile.mkdtemp(prefix="ngv_c08f_")
                    try:
                        argv3 = list(argv2)
                        argv3[2] = fresh
                        generate_scales_info.main(argv3)
                        ref = json.load(open(os.path.join(fresh, "info")))
                    finally:
                        shutil.rmtree(fresh, ignore_errors=True)
                    if json.loads(after_bytes) != ref:
                        ctx.oracle_fail("generate-scales-info run again on a destination that already had an info reports "
                                        "success, but the info is not the one its arguments describe (scales of the old "
                                        "info survive)", dict(desc, second_argv=argv2[3:]))
                elif after_bytes != before_bytes:
                    ctx.oracle_fail("a refused second generate-scales-info changed the existing info", dict(desc, second_argv=argv2[3:]))
            # the structural clauses (sizes, chunk sizes about the target, last scale within two chunks) for the info
            # the COMMAND wrote, with the target it was given or the documented default
            check_info(ctx, out, full, target_cli, None, dict(desc, target_chunk_size=target_cli))
            final_enc = out["scales"][0]["encoding"]
            if final_enc != (enc_arg or enc_in or "raw"):
                ctx.oracle_fail("the generated info does not carry the requested encoding (--encoding, else the input "
                                "info's, else raw)", dict(desc, got=final_enc, expected=enc_arg or enc_in or "raw"))
            if final_enc == "compressed_segmentation" and out["data_type"] not in ("uint32", "uint64"):
                ctx.oracle_fail("compressed_segmentation info with a data type the encoding cannot hold", desc)
            if any(s["encoding"] != final_enc for s in out["scales"]):
                ctx.oracle_fail("scales of one info declare different encodings", dict(desc, info=out))
        finally:
            shutil.rmtree(tmp, ignore_errors=True)
    if ctx.driver_ok and reqs:
        for rep, (desc, want) in zip(core.driver_batch(reqs), meta):
            if rep != want:
                ctx.corr_mismatch("scales", desc, want[:300], rep[:300])


def replay(ctx, data):
    run(ctx)
