"""C17 — Mesh files follow the formats Neuroglancer reads and survive a round trip."""
import csv
import io
import json
import locale
import os
import re
import shutil
import struct
import tempfile

import numpy as np

from .. import core

RULE = ("meshes with 0 / 1 / many triangles, vertex arrays float32 / float64, C-ordered, Fortran-ordered and "
        "transposed views, index types uint32/int64/uint8, indices at n-1; every truncation and targeted "
        "corruption of valid files (index = n, 2^32-1, odd lengths) plus random bytes; integer affine "
        "transforms with det > 0, < 0 (mirrors) and shears; GIfTI files converted by mesh_file_to_precomputed "
        "with and without --coord-transform (mm -> nm), read back through the accessor; VTK export parsed by "
        "a recogniser of Neuroglancer's VTK subset grammar; fragment-link files for labels up to 2^64-1 and fragment names with spaces, colons and non-ASCII letters. "
        "Trivial = empty mesh.")
ASSUMPTIONS = [
    "'%.9g' formatting of float32 values round-trips exactly (checked by the VTK parse-back)",
    "GIfTI reading by nibabel is not modelled",
]


def parse_vtk(text):
    """recogniser for the subset of legacy VTK ASCII that Neuroglancer's parse.ts accepts"""
    lines = text.split("\n")
    if lines and lines[-1] == "":
        lines.pop()
    it = iter(lines)

    def nxt():
        return next(it)
    if not re.fullmatch(r"# vtk DataFile Version \d+\.\d+", nxt()):
        raise ValueError("bad header")
    title = nxt()
    if len(title) > 255:
        raise ValueError("title too long")
    if nxt() != "ASCII" or nxt() != "DATASET POLYDATA":
        raise ValueError("bad format lines")
    m = re.fullmatch(r"POINTS (\d+) (\S+)", nxt())
    if not m:
        raise ValueError("bad POINTS")
    n = int(m.group(1))
    pts = [[float(x) for x in nxt().split()] for _ in range(n)]
    if any(len(p) != 3 for p in pts):
        raise ValueError("bad point")
    m = re.fullmatch(r"POLYGONS (\d+) (\d+)", nxt())
    if not m or int(m.group(2)) != 4 * int(m.group(1)):
        raise ValueError("bad POLYGONS")
    tris = []
    for _ in range(int(m.group(1))):
        t = [int(x) for x in nxt().split()]
        if len(t) != 4 or t[0] != 3:
            raise ValueError("bad polygon")
        tris.append(t[1:])
    attrs = {}
    rest = list(it)
    if rest:
        m = re.fullmatch(r"POINT_DATA (\d+)", rest[0])
        if not m or int(m.group(1)) != n:
            raise ValueError("bad POINT_DATA")
        i = 1
        while i < len(rest):
            m = re.fullmatch(r"SCALARS (\S+) (\S+)(?: (\d+))?", rest[i])
            if not m:
                raise ValueError("bad SCALARS line: " + rest[i][:40])
            k = int(m.group(3) or 1)
            if not 1 <= k <= 4:
                raise ValueError("components out of range")
            if rest[i + 1] != "LOOKUP_TABLE default":
                raise ValueError("bad LOOKUP_TABLE")
            vals = [[float(x) for x in rest[i + 2 + j].split()] for j in range(n)]
            if any(len(v) != k for v in vals):
                raise ValueError("bad attribute row")
            attrs[m.group(1)] = vals
            i += 2 + n
    return pts, tris, attrs


def f32bits(a):
    return [int(x) for x in np.ascontiguousarray(a, dtype="<f4").view("<u4").ravel()]


def run(ctx):
    import nibabel
    from neuroglancer_scripts import mesh as mesh_mod
    from neuroglancer_scripts.accessor import get_accessor_for_url
    from neuroglancer_scripts.scripts import link_mesh_fragments, mesh_to_precomputed
    rng = ctx.rng
    reqs, meta = [], []
    # ---- (a) precomputed format: save / read / malformed --------------------------------------------------
    for _ in range(ctx.budget(60, 1500)):
        n = rng.choice([0, 1, 3, 4, 7, 20])
        m = 0 if n == 0 else rng.choice([0, 1, 2, 9])
        nr = np.random.default_rng(rng.getrandbits(32))
        verts = (nr.standard_normal((n, 3)) * 10.0 ** rng.randrange(-3, 6)).astype("float32")
        tris = nr.integers(0, max(n, 1), size=(m, 3))
        if m and n:
            tris[0, 0] = n - 1
        layout = rng.choice(["c", "c", "fortran", "transposed", "float64", "int-list", "big-endian", "int16", "float16"])
        if layout in ("int16", "float16"):
            # vertex types that cast safely to float32 but have another item size: integer-valued coordinates
            verts = np.rint(np.clip(verts, -2000, 2000)).astype("float32") + np.float32(0)   # (no negative zero)
        v_in = verts
        if layout == "big-endian":
            v_in = verts.astype(">f4")
        elif layout in ("int16", "float16"):
            v_in = verts.astype(layout)
        if layout == "fortran":
            v_in = np.asfortranarray(verts)
        elif layout == "transposed":
            v_in = np.ascontiguousarray(verts.T).T
        elif layout == "float64":
            v_in = verts.astype("float64")
        t_in = tris.astype(rng.choice(["uint32", "uint8", "uint16"]))
        desc = {"vertices": n, "triangles": m, "vertex_layout": layout, "index_dtype": str(t_in.dtype)}
        buf = io.BytesIO()
        try:
            mesh_mod.save_mesh_as_precomputed(buf, v_in, t_in)
        except Exception as exc:  # noqa
            ctx.oracle_fail(f"save_mesh_as_precomputed raised {type(exc).__name__}: {exc}", desc)
            continue
        data = buf.getvalue()
        ctx.case(("save", n, m, layout, data), nontrivial=n > 0,
                 sample=dict(desc, bytes=len(data)) if rng.random() < 0.02 else None)
        want = struct.pack("<I", n) + verts.astype("<f4").tobytes() + tris.astype("<u4").tobytes()
        if data != want:
            ctx.oracle_fail("precomputed mesh file is not [vertex count][float32 xyz ...][uint32 triangles ...]",
                            dict(desc, got_len=len(data), want_len=len(want)))
            data = want      # the reader is judged on a well-formed file from here on
        try:
            v2, t2 = mesh_mod.read_precomputed_mesh(io.BytesIO(data))
            if not (np.array_equal(v2.view("<u4"), verts.view("<u4")) and np.array_equal(t2, tris)):
                ctx.oracle_fail("reading a saved mesh does not return the same vertices and triangles", desc)
        except Exception as exc:  # noqa
            ctx.oracle_fail(f"read_precomputed_mesh rejected a valid mesh ({type(exc).__name__})", desc)
        reqs.append(f"mesh-save {core.ilist(f32bits(verts))} {core.ilist(int(x) for x in tris.ravel())}")
        meta.append(("save", desc, core.hexs(data)))
        # malformed variants
        variants = [data[:k] for k in sorted({0, 1, 2, 3, 4, 5, len(data) - 1, len(data) - 5, 4 + 12 * n - 1,
                                              4 + 12 * n, 4 + 12 * n + 1} | {rng.randrange(len(data) + 1) for _ in range(4)})
                    if 0 <= k < len(data)]
        if m:
            b = bytearray(data)
            struct.pack_into("<I", b, 4 + 12 * n, n)
            variants.append(bytes(b))
            struct.pack_into("<I", b, 4 + 12 * n, 2**32 - 1)
            variants.append(bytes(b))
        b = bytearray(data)
        struct.pack_into("<I", b, 0, n + 1)
        variants.append(bytes(b))
        variants.append(bytes(rng.randrange(256) for _ in range(rng.randrange(0, 40))))
        variants.append(data + b"\0")
        for d in variants:
            try:
                v2, t2 = mesh_mod.read_precomputed_mesh(io.BytesIO(d))
                nn = struct.unpack("<I", d[:4])[0]
                if t2.size and int(t2.max()) >= nn:
                    ctx.oracle_fail("the mesh reader accepted a triangle referencing a non-existent vertex",
                                    {"data_hex": d.hex()[:200]})
                res = "ok " + core.ilist(f32bits(v2)) + " " + core.ilist(int(x) for x in t2.ravel())
            except mesh_mod.InvalidMeshDataError:
                res = "err meshdata"
            except Exception as exc:  # noqa
                res = "!" + type(exc).__name__
                ctx.oracle_fail(f"the mesh reader raised {type(exc).__name__} instead of InvalidMeshDataError",
                                {"data_hex": d.hex()[:200]})
            ctx.case(("read", d))
            if len(d) <= 4000:
                reqs.append(f"mesh-read {core.hexs(d)}")
                meta.append(("read", {"data_hex": d.hex()[:200]}, res))
    # ---- (b) affine transform ---------------------------------------------------------------------------------
    for _ in range(ctx.budget(60, 1500)):
        n = rng.randrange(3, 12)
        verts = np.array([[rng.randrange(-9, 10) for _ in range(3)] for _ in range(n)], dtype=float)
        tris = np.array([rng.sample(range(n), 3) for _ in range(rng.randrange(1, 8))])
        while True:
            R = np.array([[rng.randrange(-3, 4) for _ in range(3)] for _ in range(3)], dtype=float)
            det = round(float(np.linalg.det(R)))
            if det != 0:
                break
        t = np.array([rng.randrange(-20, 21) for _ in range(3)], dtype=float)
        # voxel-to-world matrices of micrometre data have tiny determinants: scale by an exact power of two
        k = rng.choice([0, 0, 3, 7, 10, 12, 17])
        sc = 2.0 ** -k
        Rs = R * sc
        M = np.eye(4)
        M[:3, :3], M[:3, 3] = Rs, t
        T = M if rng.random() < 0.5 else M[:3, :]
        desc = {"R": R.tolist(), "scale": f"2^-{k}", "det": det * sc ** 3}
        try:
            # the SAME vertex and triangle arrays go through the function twice (inner and outer surface sharing one
            # topology, or the same mesh placed with two transforms): both results are judged after the second call
            verts_in, tris_in = verts.copy(), tris.copy()
            v2a, t2a = mesh_mod.affine_transform_mesh(verts_in, tris_in, T)
            v2, t2 = mesh_mod.affine_transform_mesh(verts_in, tris_in, T)
        except Exception as exc:  # noqa
            ctx.oracle_fail(f"affine_transform_mesh raised {type(exc).__name__}", desc)
            continue
        if not np.array_equal(tris_in, tris) or not np.array_equal(verts_in, verts):
            ctx.oracle_fail("affine_transform_mesh modified the mesh it was given (the caller's triangles no longer have "
                            "their winding)", desc)
            continue
        if not np.array_equal(np.asarray(t2a), np.asarray(t2)) or not np.array_equal(np.asarray(v2a), np.asarray(v2)):
            ctx.oracle_fail("two identical calls of affine_transform_mesh on the same arrays give different meshes", desc)
            continue
        ctx.case(("affine", R.tobytes(), k, verts.tobytes(), tris.tobytes()))
        ctx.hist("affine_det_sign", "neg" if det < 0 else "pos")
        ctx.hist("affine_det_magnitude", "1e%d" % int(np.floor(np.log10(abs(det * sc ** 3)))))
        # correspondence with the Lean model over the integers: everything multiplied by 2^k is integral
        scaled = np.asarray(v2) * 2.0 ** k
        if np.all(scaled == np.rint(scaled)) and np.asarray(t2).shape == tris.shape:
            reqs.append("mesh-affine %s %s %s %s" % (
                core.ilist(int(x) for x in R.ravel()), core.ilist(int(x * 2 ** k) for x in t),
                core.ilist(int(x) for x in verts.ravel()), core.ilist(int(x) for x in tris.ravel())))
            meta.append(("affine", desc, "ok %s %s" % (core.ilist(int(x) for x in scaled.ravel()),
                                                       core.ilist(int(x) for x in np.asarray(t2).ravel()))))
        if not np.array_equal(np.asarray(v2), verts @ Rs.T + t):
            ctx.oracle_fail("affine_transform_mesh does not move the vertices by the transform", desc)
            continue
        # orientation, exactly: in transformed coordinates the signed volume of (a2, b2, c2, p2) is
        # scale^3 * det(R) * the signed volume of the same vertex order in the original coordinates
        p = verts.mean(axis=0) + np.array([0.3, 0.1, 0.7])
        for (a, b, c), (a2, b2, c2) in zip(tris, np.asarray(t2)):
            vol = np.linalg.det(np.array([verts[b] - verts[a], verts[c] - verts[a], p - verts[a]]))
            vol_new_order = np.linalg.det(np.array([verts[b2] - verts[a2], verts[c2] - verts[a2], p - verts[a2]]))
            if {a, b, c} != {a2, b2, c2}:
                ctx.oracle_fail("affine_transform_mesh changed the vertices of a triangle", desc)
                break
            if abs(vol) > 1e-9 and (vol > 0) != ((vol_new_order > 0) == (det > 0)):
                ctx.oracle_fail("a triangle's orientation relative to a transformed reference point changed "
                                "(winding must be reversed exactly when the transform mirrors space)",
                                dict(desc, triangle=[int(a), int(b), int(c)]))
                break
    # ---- (c) GIfTI conversion, (d) VTK, (e) links -----------------------------------------------------------------
    for _ in range(ctx.budget(12, 300)):
        tmp = tempfile.mkdtemp(prefix="ngv_c17_")
        try:
            n = rng.randrange(3, 10)
            pts = np.array([[rng.randrange(-50, 51) / 4 for _ in range(3)] for _ in range(n)], dtype="float32")
            tri = np.array([rng.sample(range(n), 3) for _ in range(rng.randrange(1, 6))], dtype="int32")
            g = nibabel.gifti.GiftiImage(darrays=[
                nibabel.gifti.GiftiDataArray(pts, intent="NIFTI_INTENT_POINTSET", datatype="NIFTI_TYPE_FLOAT32"),
                nibabel.gifti.GiftiDataArray(tri, intent="NIFTI_INTENT_TRIANGLE", datatype="NIFTI_TYPE_INT32")])
            gpath = os.path.join(tmp, "surf.gii")
            nibabel.save(g, gpath)
            dest = os.path.join(tmp, "ds")
            os.makedirs(dest)
            with open(os.path.join(dest, "info"), "w") as f:
                json.dump({"type": "segmentation", "data_type": "uint32", "num_channels": 1, "scales": []}, f)
            use_t = rng.random() < 0.6
            R = np.diag([rng.choice([-1, 1]), rng.choice([-1, 1, 2]), 1]).astype(float)
            if rng.random() < 0.4:
                R = R[[1, 0, 2]]
            tvec = np.array([rng.choice([0, 70.75, -12.5]) for _ in range(3)])
            M = np.eye(4)
            M[:3, :3], M[:3, 3] = R, tvec
            opts = {"gzip": rng.random() < 0.5, "flat": False}
            try:
                if rng.random() < 0.4:
                    # through the command line (argparse glue: --coord-transform with 12 or 16 numbers, --mesh-name, --no-gzip)
                    vals = (M[:3, :] if rng.random() < 0.5 else M).ravel()
                    argv = ["mesh-to-precomputed", gpath, dest, "--mesh-name", "m1"]
                    if use_t:
                        argv += ["--coord-transform=" + ",".join(repr(float(v)) for v in vals)]
                    if not opts["gzip"]:
                        argv += ["--no-gzip"]
                    ctx.bump("mesh_cli_runs")
                    try:
                        rc = mesh_to_precomputed.main(argv)
                    except SystemExit as exc:
                        rc = exc.code
                else:
                    rc = mesh_to_precomputed.mesh_file_to_precomputed(
                        gpath, dest, mesh_name="m1", coord_transform=M[:3, :] if use_t else None, options=opts)
                raw = get_accessor_for_url(dest).fetch_file("mesh/m1")
                v2, t2 = mesh_mod.read_precomputed_mesh(io.BytesIO(raw))
            except Exception as exc:  # noqa
                ctx.oracle_fail(f"mesh conversion raised {type(exc).__name__}: {exc}", {"transform": use_t})
                continue
            ctx.case(("gifti", pts.tobytes(), tri.tobytes(), use_t, M.tobytes()))
            exp = pts.astype(np.float64)
            flip = False
            if use_t:
                exp = exp @ R.T + tvec
                flip = np.linalg.det(R) < 0
            exp = (1e6 * exp).astype("float32")
            want_t = tri[:, ::-1] if flip else tri
            if rc or not np.allclose(v2, exp, rtol=1e-6, atol=1e-3) or not np.array_equal(t2, want_t.astype("uint32")):
                ctx.oracle_fail("converted mesh is not the input mesh transformed and scaled from mm to nm",
                                {"transform": M.tolist() if use_t else None, "got_vertices": v2[:2].tolist(),
                                 "want_vertices": exp[:2].tolist()})
            # VTK export of the same mesh
            sio = io.StringIO()
            attrs = [{"name": "curv", "values": np.arange(n, dtype="float32") / 3},
                     {"name": "rgb", "values": np.arange(3 * n, dtype="float32").reshape(n, 3)}][:rng.randrange(0, 3)]
            vtitle = rng.choice(["t", "", "two words", "x" * 300, "dots. and: colons"])
            try:
                mesh_mod.save_mesh_as_neuroglancer_vtk(sio, pts, tri, vertex_attributes=attrs, title=vtitle)
                # Lean writer model (numbers formatted like np.savetxt does: '%.9g' of the float32 value, '%d') and the
                # Lean recogniser on the REAL text
                import neuroglancer_scripts as _ns
                real_txt = sio.getvalue()
                f32 = lambda a: [["%.9g" % float(v) for v in row] for row in np.asarray(a, dtype="float32").reshape(len(a), -1)]  # noqa
                rows = lambda rr: ";".join(",".join(r) for r in rr) if len(rr) else "-"  # noqa
                areq = "/".join("%s:%d:%s" % (a["name"], np.asarray(a["values"]).reshape(n, -1).shape[1],
                                               rows(f32(np.asarray(a["values"]).reshape(n, -1)))) for a in attrs) or "-"
                if n > 0 or not attrs:
                    reqs.append("vtk-write %s %s %s %s %s" % (
                        core.hexs(vtitle.encode()), core.hexs(_ns.__version__.encode()), rows(f32(pts)),
                        rows([[str(int(v)) for v in t] for t in tri]), areq))
                    meta.append(("vtk-write", {"title": vtitle[:20], "vertices": n, "triangles": len(tri), "attrs": len(attrs)},
                                 core.hexs(real_txt.encode()) + " 1"))
                reqs.append("vtk-accepts " + core.hexs(real_txt.encode()))
                meta.append(("vtk-accepts", {"title": vtitle[:20], "vertices": n, "triangles": len(tri), "attrs": len(attrs),
                                             "text": real_txt[:300]}, "1"))
                p2, tr2, at2 = parse_vtk(real_txt)
                ok = np.array_equal(np.array(p2, dtype="float32").reshape(-1, 3), pts) and tr2 == tri.tolist() \
                    and all(np.array_equal(np.array(at2[a["name"]], dtype="float32").reshape(n, -1),
                                           np.asarray(a["values"], dtype="float32").reshape(n, -1)) for a in attrs)
                if not ok:
                    ctx.oracle_fail("VTK export does not parse back to the same mesh / attributes", {"attrs": len(attrs)})
            except Exception as exc:  # noqa
                ctx.oracle_fail(f"VTK export is not parseable by the subset grammar ({type(exc).__name__}: {exc})",
                                {"attrs": len(attrs)})
            # fragment links (the CSV is a text file in the platform's preferred encoding, which is what the tool
            # opens it with; names outside ASCII are used whenever that encoding can write them)
            csv_encoding = locale.getpreferredencoding(False)
            fragment_names = ["m1", "frag-a", "b:0", "x y"]
            for cand in ("fr\u00e4gment", "\u00df-1", "\u7247\u0031", "caf\u00e9 2"):
                try:
                    cand.encode(csv_encoding)
                    fragment_names.append(cand)
                except (UnicodeError, LookupError):
                    pass
            rows = []
            labels = rng.sample([0, 1, 10, 255, 2**31, 2**53 + 1, 1234567890123456789, 2**64 - 1, 77], rng.randrange(1, 5))
            for lab in labels:
                rows.append([str(lab)] + [rng.choice(fragment_names) for _ in range(rng.randrange(0, 4))])
            cpath = os.path.join(tmp, "links.csv")
            with open(cpath, "w", newline="", encoding=csv_encoding) as f:
                csv.writer(f).writerows(rows)
            nocolon = rng.random() < 0.5
            try:
                if rng.random() < 0.4:
                    try:
                        link_mesh_fragments.main(["link-mesh-fragments", cpath, dest] + (["--no-colon-suffix"] if nocolon else [])
                                                 + ([] if opts["gzip"] else ["--no-gzip"]))
                    except SystemExit as exc:
                        if exc.code not in (0, None):
                            raise RuntimeError(f"exit status {exc.code}")
                else:
                    link_mesh_fragments.make_mesh_fragment_links(cpath, dest, no_colon_suffix=nocolon, options=opts)
            except Exception as exc:  # noqa
                ctx.oracle_fail(f"link-mesh-fragments raised {type(exc).__name__}: {exc}", {"rows": rows})
                continue
            acc = get_accessor_for_url(dest)
            present = set(os.listdir(os.path.join(dest, "mesh")))
            expected = {"m1", "m1.gz"}
            for row in rows:
                name = row[0] + ("" if nocolon else ":0")
                expected.add(name)
                try:
                    got = json.loads(acc.fetch_file("mesh/" + name))
                except Exception as exc:  # noqa
                    ctx.oracle_fail("fragment-link file missing or not JSON for a label of the CSV",
                                    {"label": row[0], "file": name, "error": type(exc).__name__})
                    continue
                if got != {"fragments": row[1:]}:
                    ctx.oracle_fail("fragment-link file does not list exactly the row's fragments in order",
                                    {"label": row[0], "got": got, "want": row[1:]})
                reqs.append(f"mesh-link mesh {row[0]} {int(nocolon)}")
                meta.append(("link", {"label": row[0]}, "mesh/" + name))
            extra = {p for p in present if p not in expected}
            if extra:
                ctx.oracle_fail("unexpected files in the mesh directory (a label was written under another name)",
                                {"unexpected": sorted(extra), "rows": rows})
            ctx.case(("links", json.dumps(rows), nocolon))
            # ---- (e2) a second run over the same directory: labels given again, given twice, or spelled differently
            # ("007"); the tool creates each file exclusively, so the model (Mesh.links) says where the run stops and
            # what the directory holds afterwards
            from neuroglancer_scripts.accessor import DataAccessError
            rows2 = []
            pool = [int(r[0]) for r in rows] + [3, 5, 2**40]
            for _ in range(rng.randrange(1, 5)):
                lab = rng.choice(pool)
                text = str(lab) if rng.random() < 0.8 else "00" + str(lab)
                rows2.append([text] + [rng.choice(fragment_names) for _ in range(rng.randrange(0, 3))])
            with open(cpath, "w", newline="", encoding=csv_encoding) as f:
                csv.writer(f).writerows(rows2)
            failed = False
            try:
                link_mesh_fragments.make_mesh_fragment_links(cpath, dest, no_colon_suffix=nocolon, options=opts)
            except DataAccessError:
                failed = True
            except Exception as exc:  # noqa
                ctx.oracle_fail(f"link-mesh-fragments (second run) raised {type(exc).__name__}: {exc}",
                                {"rows": rows, "rows2": rows2})
                continue
            tok = {n: f"f{i}" for i, n in enumerate(fragment_names)}
            ents, bad = [], False
            for fname in sorted(os.listdir(os.path.join(dest, "mesh"))):
                if fname in ("m1", "m1.gz"):
                    continue
                try:
                    frs = json.loads(acc.fetch_file("mesh/" + fname))["fragments"]
                    ents.append("mesh/" + fname + "=" + ".".join(tok[x] for x in frs))
                except Exception as exc:  # noqa
                    bad = True
                    ctx.oracle_fail("fragment-link file unreadable after a second run",
                                    {"file": fname, "error": type(exc).__name__, "rows": rows, "rows2": rows2})
                    continue
                label = int(fname.split(":")[0])
                if frs not in [r[1:] for r in rows + rows2 if int(r[0]) == label]:
                    ctx.oracle_fail("fragment-link file lists fragments that no row gave for its label",
                                    {"file": fname, "got": frs, "rows": rows, "rows2": rows2})
            if not bad:
                reqs.append("mesh-links mesh %d %s" % (int(nocolon), ";".join(
                    r[0] + ":" + ".".join(tok[x] for x in r[1:]) for r in rows + rows2)))
                meta.append(("links-run", {"rows": rows, "rows2": rows2, "nocolon": nocolon},
                             ("abort " if failed else "ok ") + "|".join(sorted(ents))))
            ctx.case(("links-rerun", failed, len(rows2)))
            ctx.bump("link_second_runs_aborted" if failed else "link_second_runs_completed")
        finally:
            shutil.rmtree(tmp, ignore_errors=True)
    if ctx.driver_ok and reqs:
        for rep, (kind, desc, want) in zip(core.driver_batch(reqs), meta):
            if kind == "vtk-accepts":
                ctx.bump("vtk_files_recognised")
                if rep != "1":
                    ctx.oracle_fail("the VTK export is not accepted by the Lean recogniser of the subset grammar "
                                    "Neuroglancer parses", desc)
            elif rep != want:
                ctx.corr_mismatch("mesh-" + kind, desc, want[:200], rep[:200])


def replay(ctx, data):
    run(ctx)
