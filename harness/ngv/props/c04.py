"""C04 — Sharded output is readable by any reader that follows the sharded format."""
import itertools
import json
import os
import shutil
import tempfile

from .. import core, shardlib

RULE = ("random sharded datasets (grids <=4^3 quick / 6^3 thorough incl. non-powers of two and single-chunk "
        "axes, cubic chunk sizes, bit triples m,s in 0..3(5), p in 0..3, raw/gzip index and data encodings, "
        "subsets 25-100%, random store order, payload lengths 0..40, handed over as bytes / bytearray / memoryview / the typed buffer "
        "of a uint16 array and scribbled over afterwards) written through the real "
        "ShardedFileAccessor; every stored chunk is then fetched from the files on disk by a reader "
        "implemented from the specification only (Python, strict) and, for raw encodings, by the Lean "
        "Shard.specFetch on the same bytes; thorough adds every grid <=3^3 x every triple <=(2,2,2). "
        "Trivial = a single stored chunk.")
ASSUMPTIONS = [
    "the specification reader's notion of 'gzip' is RFC 1952 (known finding F10 is raised when the data "
    "turns out to be a zlib stream, after which the reader continues with zlib decoding)",
    "file sizes < 2^64",
]


def used_minishards_by_shard(ds):
    out = {}
    for cell in ds["order"]:
        cid = shardlib.spec_code(ds["grid"], cell)
        h = cid >> ds["p"]
        mini = h & ((1 << ds["m"]) - 1)
        shard = (h >> ds["m"]) & ((1 << ds["s"]) - 1)
        out.setdefault(shard, set()).add(mini)
    return out


def f8_applies(ds, cell):
    """True iff the chunk's minishard is not at its own slot because a lower one is unused."""
    cid = shardlib.spec_code(ds["grid"], cell)
    h = cid >> ds["p"]
    mini = h & ((1 << ds["m"]) - 1)
    shard = (h >> ds["m"]) & ((1 << ds["s"]) - 1)
    used = used_minishards_by_shard(ds)[shard]
    return sorted(used).index(mini) != mini


def datasets(ctx):
    rng = ctx.rng
    for _ in range(ctx.budget(60, 800)):
        yield shardlib.gen_dataset(rng, small=ctx.tier == "quick")
    # the recorded instance of known finding F8 (kept in the corpus, always first in spirit)
    cells = [(x, y, 0) for x in range(3) for y in range(3)]
    yield {"cs": 1, "grid": [3, 3, 1], "size": [3, 3, 1], "m": 2, "s": 2, "p": 0, "index_enc": "raw",
           "data_enc": "raw", "order": cells, "payload": {c: bytes([c[0], c[1]]) for c in cells},
           "how": "corpus-F8"}
    yield {"cs": 1, "grid": [2, 2, 2], "size": [2, 2, 2], "m": 1, "s": 1, "p": 0, "index_enc": "gzip",
           "data_enc": "gzip", "order": [(x, y, z) for x in range(2) for y in range(2) for z in range(2)],
           "payload": {(x, y, z): bytes([x, y, z] * 3) for x in range(2) for y in range(2) for z in range(2)},
           "how": "corpus-F10"}
    # many minishards per shard, all in use (two-digit minishard numbers)
    for (m, s_, p, grid) in [(4, 0, 0, (4, 4, 4)), (5, 1, 0, (4, 4, 4)), (4, 1, 1, (4, 4, 2)), (6, 0, 0, (4, 4, 4))]:
        cells = list(itertools.product(*[range(g) for g in grid]))
        order = list(cells)
        rng.shuffle(order)
        yield {"cs": 1, "grid": list(grid), "size": list(grid), "m": m, "s": s_, "p": p, "index_enc": "raw",
               "data_enc": "raw", "order": order,
               "payload": {c: bytes(rng.randrange(256) for _ in range(rng.randrange(0, 5))) for c in cells},
               "how": "many-minishards"}
    if ctx.tier == "thorough" or ctx.search_mode:
        for grid in itertools.product(range(1, 4), repeat=3):
            for (m, s, p) in itertools.product(range(3), repeat=3):
                cells = list(itertools.product(*[range(g) for g in grid]))
                order = list(cells)
                rng.shuffle(order)
                yield {"cs": 2, "grid": list(grid), "size": [2 * g - rng.randrange(2) for g in grid], "m": m,
                       "s": s, "p": p, "index_enc": "raw", "data_enc": "raw", "order": order,
                       "payload": {c: bytes(rng.randrange(256) for _ in range(rng.randrange(0, 6))) for c in cells},
                       "how": "exhaustive-small"}


def describe(ds):
    return {"size": ds["size"], "chunk": ds["cs"], "grid": ds["grid"],
            "bits_m_s_p": [ds["m"], ds["s"], ds["p"]], "index_enc": ds["index_enc"],
            "data_enc": ds["data_enc"], "order": [list(c) for c in ds["order"]],
            "payload_len": [len(ds["payload"][c]) for c in ds["order"]]}


def run(ctx):
    rng = ctx.rng
    reqs, expect = [], []
    for ds in datasets(ctx):
        tmp = tempfile.mkdtemp(prefix="ngv_c04_")
        try:
            try:
                shardlib.write_dataset(ds, tmp, ds["order"], rng.choice(["in memory", "on disk"]))
            except Exception as exc:  # noqa
                ctx.oracle_fail(f"storing/closing a sharded dataset raised {type(exc).__name__}: {exc}",
                                describe(ds))
                continue
            files = shardlib.shard_files(tmp)
        finally:
            shutil.rmtree(tmp, ignore_errors=True)
        ctx.case(("ds", json.dumps(describe(ds), sort_keys=True)), nontrivial=len(ds["order"]) > 1,
                 sample=describe(ds) if rng.random() < 0.03 else None)
        ctx.hist("bits", f"{ds['m']},{ds['s']},{ds['p']}")
        ctx.hist("enc", ds["index_enc"] + "/" + ds["data_enc"])
        n_f8 = 0
        for cell in ds["order"]:
            findings = set()
            try:
                got = shardlib.spec_fetch(ds, files, cell, findings)
                err = None
            except shardlib.SpecReadError as exc:
                got, err = None, str(exc)
            for k in findings:
                ctx.oracle_fail("'gzip' encoding is written as a zlib stream, not gzip",
                                dict(describe(ds), cell=list(cell)), key=k)
            if got == ds["payload"][cell]:
                continue
            if err and f8_applies(ds, cell) and ("slot" in err or "not listed" in err):
                n_f8 += 1
                ctx.oracle_fail("minishard index is not at its minishard's slot of the shard index "
                                "(a lower-numbered minishard of the shard is unused)",
                                dict(describe(ds), cell=list(cell), reader_error=err), key="F8-minishard-slot")
                continue
            ctx.oracle_fail("a reader following the specification cannot retrieve a stored chunk",
                            dict(describe(ds), cell=list(cell), reader_error=err,
                                 got=None if got is None else got.hex(),
                                 stored=ds["payload"][cell].hex()))
        ctx.bump("chunks_checked", len(ds["order"]))
        ctx.bump("chunks_hit_by_F8", n_f8)
        # the Lean specification reader on the same bytes (raw encodings)
        if ds["index_enc"] == "raw" and ds["data_enc"] == "raw":
            by_file = {}
            for cell in ds["order"]:
                cid = shardlib.spec_code(ds["grid"], cell)
                shard = ((cid >> ds["p"]) >> ds["m"]) & ((1 << ds["s"]) - 1)
                name = format(shard, "x").rjust(-(-ds["s"] // 4), "0") + ".shard"
                by_file.setdefault(name, []).append((cid, cell))
            for name, lst in by_file.items():
                if name not in files or len(files[name]) > 20000:
                    continue
                ids = [c for c, _ in lst]
                reqs.append(f"spec-fetch {ds['m']} {ds['p']} {core.hexs(files[name])} {core.ilist(ids)}")
                py = []
                for cid, cell in lst:
                    try:
                        py.append(core.hexs(shardlib.spec_fetch(ds, files, cell, set())))
                    except shardlib.SpecReadError:
                        py.append("none")
                expect.append((describe(ds), name, " ".join(py)))
                reqs.append(f"impl-fetch {ds['m']} {ds['p']} {core.hexs(files[name])} {core.ilist(ids)}")
                expect.append((describe(ds), name, " ".join(core.hexs(ds["payload"][cell]) for _, cell in lst)))
    # ---- two scales written through ONE accessor before a single close (multi-scale destinations) ----
    for _ in range(ctx.budget(1, 60)):
        ds1 = shardlib.gen_dataset(rng, small=True)
        ds2 = shardlib.gen_dataset(rng, small=True)
        if rng.random() < 0.6:      # same sharding parameters: the same shard / minishard numbers occur in both scales
            ds2.update({"m": ds1["m"], "s": ds1["s"], "p": ds1["p"]})
        strategy = rng.choice(["in memory", "on disk", "on disk"])
        inter = rng.random() < 0.6
        tmp = tempfile.mkdtemp(prefix="ngv_c04_")
        d2 = {"two_scales": True, "strategy": strategy, "interleaved": inter, "k": describe(ds1), "k2": describe(ds2)}
        try:
            try:
                shardlib.write_two_scales(ds1, ds2, tmp, strategy, inter)
            except Exception as exc:  # noqa
                ctx.oracle_fail(f"storing two scales through one accessor raised {type(exc).__name__}: {exc}", d2)
                continue
            per_key = {"k": shardlib.shard_files(tmp, "k"), "k2": shardlib.shard_files(tmp, "k2")}
        finally:
            shutil.rmtree(tmp, ignore_errors=True)
        ctx.case(("two-scales", json.dumps(d2, sort_keys=True)))
        ctx.hist("two_scale_sessions", strategy + ("/interleaved" if inter else "/sequential"))
        for key, ds in (("k", ds1), ("k2", ds2)):
            for cell in ds["order"]:
                findings = set()
                try:
                    got = shardlib.spec_fetch(ds, per_key[key], cell, findings)
                    err = None
                except shardlib.SpecReadError as exc:
                    got, err = None, str(exc)
                for kf in findings:
                    ctx.oracle_fail("'gzip' encoding is written as a zlib stream, not gzip", dict(d2, cell=list(cell)), key=kf)
                if got == ds["payload"][cell]:
                    continue
                if err and f8_applies(ds, cell) and ("slot" in err or "not listed" in err):
                    ctx.oracle_fail("minishard index is not at its minishard's slot of the shard index "
                                    "(a lower-numbered minishard of the shard is unused)",
                                    dict(d2, scale=key, cell=list(cell), reader_error=err), key="F8-minishard-slot")
                    continue
                ctx.oracle_fail("a reader following the specification cannot retrieve a chunk stored while another "
                                "scale was open for writing in the same accessor",
                                dict(d2, scale=key, cell=list(cell), reader_error=err,
                                     got=None if got is None else got.hex(), stored=ds["payload"][cell].hex()))
    if ctx.driver_ok and reqs:
        for rep, req, (dsd, name, want) in zip(core.driver_batch(reqs), reqs, expect):
            if rep != want:
                ctx.corr_mismatch("lean-" + req.split()[0], dict(dsd, file=name), want[:300], rep[:300])


def replay(ctx, data):
    run(ctx)
