"""C09 — Chunk identifiers and shard routing follow the specification for every grid."""
import itertools
import math

import numpy as np

from .. import core

RULE = ("exhaustive: every position (plus the positions one step outside on each side and off-lattice "
        "coordinates) of every grid up to G×G×G (G=4 quick, 8 thorough); sampled: anisotropic grids up to "
        "2^21 per axis with corner/edge/random positions; get_cmc with coordinates as Python ints and as NumPy "
        "int16/uint16/int32/uint32/int64 scalars (the narrowest type that holds them included); routing: all (minishard,shard,preshift) bit "
        "triples in {0..5}^3 plus sums 60..70 and bits ≥ 64, identifiers 0, 1, 2^63, 2^64-1, random. "
        "Trivial = 1×1×1 grid / all-zero bit triple.")
ASSUMPTIONS = [
    "math.ceil(size/chunk_size) and math.ceil(math.log2(grid)) equal their exact integer values "
    "(checked on every sampled grid; sizes beyond 2^53 are outside the model)",
    "NumPy uint64 shifts by >= 64 give 0 (checked by the routing correspondence on bits >= 64)",
]


def spec_code(grid, coord):
    """Compressed Morton code from the sharded-format text (unbounded integers)."""
    bits = [(g - 1).bit_length() for g in grid]
    code = 0
    j = 0
    for i in range(max(bits) if bits else 0):
        for d in range(3):
            if i < bits[d]:
                code |= ((coord[d] >> i) & 1) << j
                j += 1
    return code, sum(bits)


def run(ctx):
    from neuroglancer_scripts import sharded_base
    from neuroglancer_scripts.sharded_base import ShardedIOError, ShardSpec, ShardVolumeSpec
    rng = ctx.rng
    reqs = []
    meta = []
    G = (4 if ctx.tier == "quick" else 8) if not ctx.search_mode else 6     # a grid extent, not an iteration count
    grids = list(itertools.product(range(1, G + 1), repeat=3))
    extra = []
    for _ in range(ctx.budget(150, 3000)):
        extra.append(tuple(rng.choice([1, 2, 3, 5, 7, 8, 9, 16, 17, 100, 1023, 1024, 1025, 2**21 - 1, 2**21])
                           for _ in range(3)))
    for grid in grids + extra:
        cs = rng.choice([1, 2, 64])
        # sizes giving exactly this grid, including a non-multiple of the chunk size
        sizes = [g * cs - (rng.randrange(cs) if cs > 1 else 0) for g in grid]
        try:
            vs = ShardVolumeSpec([cs, cs, cs], sizes)
        except Exception as exc:  # noqa
            ctx.oracle_fail(f"ShardVolumeSpec raised {type(exc).__name__}", {"sizes": sizes, "chunk": cs})
            continue
        if list(vs.grid_sizes) != list(grid):
            ctx.oracle_fail("grid size differs from ceil(size/chunk)", {"sizes": sizes, "chunk": cs,
                                                                         "grid": list(vs.grid_sizes)})
            continue
        if max(grid) <= G and grid in grids:
            positions = list(itertools.product(*[range(-1, g + 2) for g in grid]))
        else:
            positions = set()
            for _ in range(12):
                positions.add(tuple(rng.choice([0, g - 1, g // 2, rng.randrange(g), g, -1]) for g in grid))
            positions = sorted(positions)
        seen = {}
        for pos in positions:
            inside = all(0 <= c < g for c, g in zip(pos, grid))
            try:
                got = int(vs.compressed_morton_code([int(c) for c in pos]))
                res = ("ok", got)
            except ShardedIOError:
                res = ("err",)
            except Exception as exc:  # noqa
                res = ("exc", type(exc).__name__)
            ctx.case(("code", grid, pos), nontrivial=grid != (1, 1, 1),
                     sample={"grid": grid, "pos": pos, "impl": res} if rng.random() < 0.0005 else None)
            # ---- oracle on the implementation ----
            if inside:
                want, total = spec_code(grid, pos)
                if res != ("ok", want):
                    ctx.oracle_fail("identifier differs from the specification's compressed Morton code",
                                    {"grid": grid, "pos": pos, "impl": res, "spec": want})
                elif want >= 2 ** total:
                    ctx.oracle_fail("identifier not below 2^(total bits)", {"grid": grid, "pos": pos})
                elif res[0] == "ok":
                    if res[1] in seen and seen[res[1]] != pos:
                        ctx.oracle_fail("two positions share an identifier",
                                        {"grid": grid, "pos": pos, "other": seen[res[1]], "id": res[1]})
                    seen[res[1]] = pos
            else:
                if res[0] != "err":
                    ctx.oracle_fail("position outside the grid was not rejected with ShardedIOError",
                                    {"grid": grid, "pos": pos, "impl": res})
            reqs.append(f"morton-code {core.ilist(grid)} {core.ilist(pos)}")
            meta.append(("code", grid, pos, res))
        # get_cmc through chunk coordinates, incl. off-lattice
        for _ in range(3):
            pos = [rng.choice([rng.randrange(g), g - 1]) for g in grid]
            mins = [p * cs for p in pos]
            if cs > 1 and rng.random() < 0.4:
                k = rng.randrange(3)
                mins[k] += rng.randrange(1, cs)
                off = True
            else:
                off = False
            coords = (mins[0], mins[0] + cs, mins[1], mins[1] + cs, mins[2], mins[2] + cs)
            # chunk coordinates come out of NumPy arithmetic in real callers: any integer type that can hold them
            # (the narrowest included: its width may be smaller than the identifier's) must give the same identifier
            forms = [int] + [t for t in (np.int16, np.uint16, np.int32, np.uint32, np.int64)
                             if max(coords) <= np.iinfo(t).max]
            form = rng.choice(forms[:3]) if rng.random() < 0.7 else rng.choice(forms)
            ctx.hist("getcmc_coordinate_type", form.__name__)
            call_coords = tuple(form(c) for c in coords)
            try:
                res = ("ok", int(vs.get_cmc(call_coords)))
            except ShardedIOError:
                res = ("err",)
            except Exception as exc:  # noqa
                res = ("exc", type(exc).__name__)
            ctx.case(("cmc", grid, tuple(mins)))
            if off and res[0] != "err":
                ctx.oracle_fail("off-lattice chunk position not rejected", {"sizes": sizes, "chunk": cs,
                                                                            "coords": coords, "impl": res})
            if not off and res != ("ok", spec_code(grid, pos)[0]):
                ctx.oracle_fail("get_cmc differs from the specification", {"sizes": sizes, "chunk": cs,
                                                                           "coords": coords, "impl": res,
                                                                           "coordinate_type": form.__name__})
            reqs.append(f"getcmc {core.ilist(sizes)} {core.ilist([cs] * 3)} {core.ilist(mins)}")
            meta.append(("cmc", sizes, mins, res))
    # ---- routing ------------------------------------------------------------------------------
    class RW(sharded_base.CMCReadWrite):
        pass

    class Named(sharded_base.ShardCMC):
        def file_exists(self, filepath):
            return False

    triples = list(itertools.product(range(0, 6), repeat=3))
    for _ in range(ctx.budget(100, 2000)):
        triples.append((rng.randrange(0, 70), rng.randrange(0, 70), rng.randrange(0, 70)))
    triples += [(64, 0, 0), (0, 64, 0), (0, 0, 64), (63, 1, 0), (32, 32, 0), (30, 30, 4), (1, 63, 0), (65, 2, 3)]
    for (m, s, p) in triples:
        try:
            spec = ShardSpec(m, s, "identity", "raw", "raw", p)
            rw = RW(spec)
        except Exception as exc:  # noqa
            ctx.oracle_fail(f"ShardSpec({m},{s},{p}) raised {type(exc).__name__}", {"m": m, "s": s, "p": p})
            continue
        ids = [0, 1, 2**63, 2**64 - 1] + [rng.getrandbits(64) for _ in range(ctx.budget(4, 20))] \
            + [rng.getrandbits(rng.randrange(1, 40)) for _ in range(4)]
        for cid in ids:
            with np.errstate(all="ignore"):
                try:
                    sk = int(rw.get_shard_key(np.uint64(cid)))
                    mk = int(rw.get_minishard_key(np.uint64(cid)))
                    name = Named(np.uint64(sk), spec).shard_key_str
                    res = (sk, mk, name)
                except Exception as exc:  # noqa
                    res = ("exc", type(exc).__name__)
            h = cid >> p
            want_m = h % (2 ** m)
            want_s = (h >> m) % (2 ** s)
            want_name = format(want_s, "x").rjust(math.ceil(s / 4), "0")
            ctx.case(("route", m, s, p, cid), nontrivial=(m, s, p) != (0, 0, 0))
            if res != (want_s, want_m, want_name):
                ctx.oracle_fail("shard / minishard number or file name differs from the specification",
                                {"minishard_bits": m, "shard_bits": s, "preshift_bits": p, "id": cid,
                                 "impl": res, "spec": (want_s, want_m, want_name)})
            reqs.append(f"route {m} {s} {p} {cid}")
            meta.append(("route", (m, s, p), cid, res))
    # ---- correspondence with the Lean model ----------------------------------------------------
    if ctx.driver_ok:
        reps = core.driver_batch(reqs)
        for rep, (kind, a, b, res) in zip(reps, meta):
            toks = rep.split()
            if kind in ("code", "cmc"):
                model = ("ok", int(toks[1])) if toks[0] == "ok" else ("err",)
                if model != res:
                    ctx.corr_mismatch("morton-" + kind, {"a": a, "b": b}, res, rep)
                elif kind == "code" and toks[0] == "ok" and toks[1] != toks[2]:
                    ctx.corr_mismatch("model-code-vs-model-spec", {"grid": a, "pos": b}, toks[1], toks[2])
            else:
                model = (int(toks[0]), int(toks[1]), toks[4])
                if model != res:
                    ctx.corr_mismatch("routing", {"bits": a, "id": b}, res, rep)


def replay(ctx, data):
    run(ctx)
